"""C01 — every operator acts exactly as the dense matrix it represents."""
from __future__ import annotations

from engine.common import Unit

PID = "C01"


# ------------------------------------------------------------------------------------------
# bounded tier (run-time contracts on the real code)

def rtc_matmul(case_names, tier):
    import torch
    from contracts import zoo  # (first: it puts VERIF_REPO in front of sys.path)
    import linear_operator
    from contracts.rtc_common import Recorder

    rec = Recorder(PID)

    def dn(r):  # the property allows the product to come back as a tensor or as a new operator
        return r.to_dense() if isinstance(r, linear_operator.operators.LinearOperator) else r

    for label, c, op, dense in zoo.instances(tier, names=case_names):
        if op is None:
            rec.check(f"construct/{c.name}", label, False, f"constructor raised {dense!r}")
            continue
        dt = dense.dtype
        g = zoo.gen(1234)
        m, n = dense.shape[-2:]
        batch = tuple(dense.shape[:-2])
        # shape attributes
        ok = (tuple(op.shape) == tuple(dense.shape) and op.size() == dense.shape and op.dim() == dense.dim()
              and tuple(op.batch_shape) == batch and tuple(op.matrix_shape) == (m, n) and op.numel() == dense.numel()
              and op.size(-1) == n and op.size(-2) == m)
        rec.check(f"shape_attrs/{c.name}", label, ok, f"shape {tuple(op.shape)} vs {tuple(dense.shape)}")
        # densify / transpose
        done, d = rec.guard(f"to_dense/{c.name}", label, lambda: op.to_dense())
        if done:
            rec.check(f"to_dense/{c.name}", label, d.shape == dense.shape and zoo.close(d, dense), "to_dense != D")
            rec.check(f"to_dense_dtype/{c.name}", label, d.dtype == dense.dtype, f"dtype {d.dtype} vs {dense.dtype}")
        done, d = rec.guard(f"mT_to_dense/{c.name}", label, lambda: op.mT.to_dense())
        if done:
            rec.check(f"mT_to_dense/{c.name}", label, zoo.close(d, dense.mT), "mT.to_dense != D^T")
        # right-hand sides: vector, matrix, batched, broadcast batched
        rhss = {"vec": (n,), "mat": (n, 3), "mat1": (n, 1)}
        if batch:
            rhss["batched"] = (*batch, n, 2)
            rhss["bcast1"] = (*[1] * len(batch), n, 2)
        rhss["extra_batch"] = (3, *batch, n, 2)
        for rn_, sh in rhss.items():
            X = zoo.rn(g, *sh, dtype=dt)
            exp = dense @ X
            for how, fn in (("matmul", lambda: op.matmul(X)), ("@", lambda: op @ X)):
                done, r = rec.guard(f"{how}/{c.name}", f"{label}|rhs={rn_}", fn)
                if done:
                    r = dn(r)
                    rec.check(f"{how}/{c.name}", f"{label}|rhs={rn_}", torch.is_tensor(r) and r.shape == exp.shape and zoo.close(r, exp, scale=max(1, n)),
                              f"shape {tuple(r.shape)} vs {tuple(exp.shape)}" if r.shape != exp.shape else "value differs from D@X")
            # transpose multiply
            lsh = {"vec": (m,), "mat": (m, 3), "mat1": (m, 1), "batched": (*batch, m, 2), "bcast1": (*[1] * len(batch), m, 2), "extra_batch": (3, *batch, m, 2)}[rn_]
            Y = zoo.rn(g, *lsh, dtype=dt)
            exp = dense.mT @ Y
            done, r = rec.guard(f"mT_matmul/{c.name}", f"{label}|rhs={rn_}", lambda: op.mT @ Y)
            if done:
                r = dn(r)
                rec.check(f"mT_matmul/{c.name}", f"{label}|rhs={rn_}", r.shape == exp.shape and zoo.close(r, exp, scale=max(1, m)), "mT @ Y != D^T Y")
            # the internal contract every class must satisfy: _matmul(X) = D X, _t_matmul(Y) = D^T Y (>= 2-D operands)
            if rn_ != "vec":
                for how, fn, e2 in (("_matmul", lambda: op._matmul(X), dense @ X), ("_t_matmul", lambda: op._t_matmul(Y), exp)):
                    done, r = rec.guard(f"{how}/{c.name}", f"{label}|rhs={rn_}", fn)
                    if done:
                        r = dn(r)
                        rec.check(f"{how}/{c.name}", f"{label}|rhs={rn_}", r.shape == e2.shape and zoo.close(r, e2, scale=max(1, m, n)),
                                  f"shape {tuple(r.shape)} vs {tuple(e2.shape)}" if r.shape != e2.shape else "value")
            # left multiplication X @ op
            lsh2 = {"vec": (m,), "mat": (3, m), "mat1": (1, m), "batched": (*batch, 2, m), "bcast1": (*[1] * len(batch), 2, m), "extra_batch": (3, *batch, 2, m)}[rn_]
            Z = zoo.rn(g, *lsh2, dtype=dt)
            exp = Z @ dense
            done, r = rec.guard(f"rmatmul/{c.name}", f"{label}|lhs={rn_}", lambda: Z @ op)
            if done:
                r = dn(r)
                rec.check(f"rmatmul/{c.name}", f"{label}|lhs={rn_}", torch.is_tensor(r) and r.shape == exp.shape and zoo.close(r, exp, scale=max(1, m)), "X @ op != X D")
    return rec.obligations()


def units(tier):
    from contracts.zoo_names import CASE_NAMES
    us = []
    chunk = 4
    for i in range(0, len(CASE_NAMES), chunk):
        names = CASE_NAMES[i:i + chunk]
        us.append(Unit(f"C01/rtc/matmul[{','.join(names)}]", "contracts.C01", "rtc_matmul", (names, tier), engine="rtc", timeout_s=900))
    return us


META = {
    "level_if_complete": "other",
    "functions_under_contract": [],
    "trusted_base": ["real torch as the oracle for dense matmul", "zoo oracle D(op) (contracts/zoo.py)"],
    "assumptions": ["bounded tier only so far"],
    "explanation": "bounded run-time contracts on the real code over the operator zoo",
}
