"""C03 - indexing and diagonal extraction match torch indexing of the dense matrix (bounded tier only so far)."""
from __future__ import annotations

from contracts.rtc_C03 import RTC_META, rtc_units

PID = "C03"


def units(tier):
    return rtc_units(tier)


META = {
    "level_if_complete": "other",
    "functions_under_contract": [],
    "trusted_base": ["real torch indexing of the dense oracle", "zoo oracle D(op) (contracts/zoo.py, contracts/rtc_C03.extra_cases)"],
    "assumptions": ["bounded tier only so far"] + RTC_META["assumptions"],
    "explanation": RTC_META["explanation"],
    "families": RTC_META["families"],
}
