"""C06 - thin wrapper: bounded (run-time contract) tier only so far; see rtc_C06.py."""
from __future__ import annotations

PID = "C06"


def units(tier):
    from contracts.rtc_C06 import rtc_units
    return rtc_units(tier)


def _meta():
    from contracts import rtc_C06
    m = rtc_C06.RTC_META
    return {
        "level_if_complete": "other",
        "functions_under_contract": [],
        "trusted_base": ["real torch (float64 dense linear algebra) as the oracle", "zoo oracle D(op) (contracts/zoo.py) and the local cases of contracts/rtc_C04.py"],
        "assumptions": ["bounded tier only so far"] + list(m["assumptions"]),
        "explanation": m["explanation"] + "  FAMILIES: " + m["families"],
    }


META = _meta()
