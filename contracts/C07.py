"""C07 — thin wrapper: bounded (run-time contract) tier only; see contracts/rtc_C07.py"""
from __future__ import annotations

from contracts.rtc_C07 import RTC_META, rtc_units

PID = "C07"


def units(tier):
    return rtc_units(tier)


META = {
    "level_if_complete": "other",
    "functions_under_contract": [],
    "trusted_base": ["real torch (autograd, linalg) as the oracle", "local dense builders in contracts/rtc_C07.py", "zoo oracle D(op) (contracts/zoo.py)"],
    "assumptions": RTC_META["assumptions"],
    "explanation": RTC_META["explanation"] + " | families: " + RTC_META["families"],
}
