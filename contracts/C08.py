"""C08 — thin wrapper: only the bounded (run-time contract) tier exists so far (contracts/rtc_C08.py)."""
from __future__ import annotations

from contracts.rtc_C08 import RTC_META, rtc_units

PID = "C08"


def units(tier):
    return rtc_units(tier)


META = {
    "level_if_complete": "other",
    "functions_under_contract": ['linear_operator.utils.linear_cg.linear_cg', 'linear_operator.utils.linear_cg._jit_linear_cg_updates', 'linear_operator.utils.linear_cg._jit_linear_cg_updates_no_precond', 'LinearOperator._solve'],
    "trusted_base": ["real torch float64 dense linear algebra (solve, eigh, cholesky, logdet) as the oracle"],
    "assumptions": ["bounded tier only"] + list(RTC_META.get("assumptions", [])),
    "explanation": RTC_META["explanation"],
    "families": RTC_META.get("families", ""),
}
