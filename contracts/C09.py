"""C09 — thin wrapper: only the bounded (run-time contract) tier exists so far (contracts/rtc_C09.py)."""
from __future__ import annotations

from contracts.rtc_C09 import RTC_META, rtc_units

PID = "C09"


def units(tier):
    return rtc_units(tier)


META = {
    "level_if_complete": "other",
    "functions_under_contract": ['linear_operator.utils.lanczos.lanczos_tridiag', 'linear_operator.utils.lanczos.lanczos_tridiag_to_diag', 'linear_operator.utils.lanczos._postprocess_lanczos_root_inv_decomp', 'RootDecomposition.forward', 'Diagonalization.forward', "LinearOperator.root_decomposition/root_inv_decomposition/diagonalization (method='lanczos')"],
    "trusted_base": ["real torch float64 dense linear algebra (solve, eigh, cholesky, logdet) as the oracle"],
    "assumptions": ["bounded tier only"] + list(RTC_META.get("assumptions", [])),
    "explanation": RTC_META["explanation"],
    "families": RTC_META.get("families", ""),
}
