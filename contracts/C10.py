"""C10 — thin wrapper: only the bounded (run-time contract) tier exists so far (contracts/rtc_C10.py)."""
from __future__ import annotations

from contracts.rtc_C10 import RTC_META, rtc_units

PID = "C10"


def units(tier):
    return rtc_units(tier)


META = {
    "level_if_complete": "other",
    "functions_under_contract": ['PivotedCholesky.forward', 'LinearOperator.pivoted_cholesky', 'linear_operator.utils.permutation.apply_permutation', 'linear_operator.utils.permutation.inverse_permutation', 'AddedDiagLinearOperator._preconditioner/_init_cache/_init_cache_for_constant_diag/_init_cache_for_non_constant_diag'],
    "trusted_base": ["real torch float64 dense linear algebra (solve, eigh, cholesky, logdet) as the oracle"],
    "assumptions": ["bounded tier only"] + list(RTC_META.get("assumptions", [])),
    "explanation": RTC_META["explanation"],
    "families": RTC_META.get("families", ""),
}
