"""C11 — thin wrapper: only the bounded (run-time contract) tier exists so far (contracts/rtc_C11.py)."""
from __future__ import annotations

from contracts.rtc_C11 import RTC_META, rtc_units

PID = "C11"


def units(tier):
    return rtc_units(tier)


META = {
    "level_if_complete": "other",
    "functions_under_contract": ['linear_operator.utils.minres.minres', 'linear_operator.utils.minres._jit_minres_updates', 'linear_operator.utils.contour_integral_quad.contour_integral_quad', 'SqrtInvMatmul.forward', 'LinearOperator.sqrt_inv_matmul (+Diag/Identity overrides)', 'LinearOperator.zero_mean_mvn_samples (ciq_samples branch)'],
    "trusted_base": ["real torch float64 dense linear algebra (solve, eigh, cholesky, logdet) as the oracle"],
    "assumptions": ["bounded tier only"] + list(RTC_META.get("assumptions", [])),
    "explanation": RTC_META["explanation"],
    "families": RTC_META.get("families", ""),
}
