"""C15 — torch.* dispatch on operators matches the methods, in either argument order (thin wrapper: the bounded tier
lives in contracts/rtc_C15.py; the proved tier hooks in here later)."""
from __future__ import annotations

PID = "C15"


def units(tier):
    from contracts.rtc_C15 import rtc_units

    return rtc_units(tier)


def _meta():
    from contracts.rtc_C15 import RTC_META

    return {
        "level_if_complete": "other",
        "functions_under_contract": [],
        "trusted_base": ["real torch on dense operands as the oracle", "zoo oracle D(op) (contracts/zoo.py) and the extra cases of contracts/rtc_C02.py"],
        "assumptions": ["bounded tier only"] + list(RTC_META.get("assumptions", [])),
        "explanation": RTC_META.get("explanation", ""),
        "families": RTC_META.get("families", ""),
    }


META = _meta()
