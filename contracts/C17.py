"""C17 — settings contexts are properly scoped and never leak.

Contract (Hoare triples with ghost state ``at_enter``), checked on the REAL classes of
``linear_operator/settings.py`` and ``linear_operator/beta_features.py`` (plain Python, executed
unchanged by CPython) with every class-level setting value replaced by a symbolic value of an
uninterpreted sort ``V`` (``None`` is a distinguished constant of that sort; None-ness of every
slot is part of the enumerated signature because ``x is None`` cannot be intercepted):

  {class state = S0}          ctx = cls(*inst)         {class state = S0; nothing else written}
  {class state = S1 (any)}    ctx.__enter__()          {slot := inst value (dtype ctx: None = leave);
                                                        ghost at_enter := S1; frame: only cls}
  {class state = S2 (any)}    ctx.__exit__(*exc)       {class state = at_enter(ctx) — including None;
                                                        returns falsy; frame: only cls}
  and the same again for a second enter/exit of the same object (re-used context objects).

History theorem (DESIGN §4 C17): by induction over well-nested event sequences these triples
give "after every exit the value equals the value before the matching enter", for any number of
objects, constructed at any time.  ``S1`` is havocked after ``__init__`` precisely so that a
snapshot taken at construction time is refuted.
"""
from __future__ import annotations

import inspect
import itertools
import sys

import z3

from engine import sym
from engine.common import DISCHARGED, REFUTED, UNKNOWN, REPO, Unit, ob

PID = "C17"
V = z3.DeclareSort("V")
NONE = z3.Const("None", V)
TRUTHY = z3.Function("truthy", V, z3.BoolSort())


class Val:
    """A symbolic setting value (never None)."""

    __slots__ = ("t", "name")

    def __init__(self, name):
        self.name = name
        self.t = z3.Const(name, V)

    def __repr__(self):
        return f"<{self.name}>"

    # settings code may test truthiness of a value (it does not today): an uninterpreted predicate of the value, decided
    # consistently along a path (both outcomes explored: a symbolic value may be falsy, e.g. 0.0 or False)
    def __bool__(self):
        return sym.ctx().decide(TRUTHY(self.t))

    # settings code may compare values (it does not today): two symbolic values may or may not be equal — both explored
    def __eq__(self, o):
        if o is self:
            return True
        return sym.ctx().decide(self.t == term(o))

    def __ne__(self, o):
        return not self.__eq__(o)

    def __hash__(self):
        return 0x5EED


def term(x):
    if x is None:
        return NONE
    if isinstance(x, Val):
        return x.t
    # concrete python object that the code itself produced (e.g. a default): opaque constant
    return z3.Const(f"py:{type(x).__name__}:{x!r}"[:60], V)


def _load():
    if REPO not in sys.path:
        sys.path.insert(0, REPO)
    import linear_operator.beta_features as bf
    import linear_operator.settings as st

    assert st.__file__.startswith(REPO), st.__file__
    return st, bf


def setting_classes():
    st, bf = _load()
    bases = (st._feature_flag, st._value_context, st._dtype_value_context)
    simple, composite = [], []
    for mod in (st, bf):
        for name, c in sorted(vars(mod).items()):
            if not inspect.isclass(c) or c.__module__ != mod.__name__:
                continue
            if issubclass(c, bases):
                simple.append(c)
            elif hasattr(c, "__enter__") and hasattr(c, "__exit__"):
                composite.append(c)
    return st, simple, composite


def state_attrs(c):
    """All data attributes visible on the class (own + inherited), i.e. its class-level state."""
    names = []
    for k in dir(c):
        if k.startswith("__"):
            continue
        raw = inspect.getattr_static(c, k)
        if isinstance(raw, (classmethod, staticmethod, property)) or callable(raw) or inspect.isclass(raw):
            continue
        names.append(k)
    return sorted(names)


def kind_of(st, c):
    if issubclass(c, st._dtype_value_context):
        return "dtype"
    if issubclass(c, st._value_context):
        return "value"
    return "flag"


SLOTS = {
    "flag": ["_state"],
    "value": ["_global_value"],
    "dtype": ["_global_float_value", "_global_double_value", "_global_half_value"],
}
# assignable clauses beyond the class's own slots (derived caches, not settings)
EXTRA_ASSIGNABLE = {"deterministic_probes": {"probe_vectors"}}


class World:
    """Installs symbolic class state on every setting class and restores the real one afterwards."""

    def __init__(self, classes):
        self.classes = classes
        self.saved = {}

    def __enter__(self):
        for c in self.classes:
            for a in state_attrs(c):
                if a in vars(c):
                    self.saved[(c, a)] = vars(c)[a]
        return self

    def __exit__(self, *a):
        for c in self.classes:
            for k in list(vars(c)):
                if k.startswith("__"):
                    continue
                raw = inspect.getattr_static(c, k)
                if isinstance(raw, (classmethod, staticmethod)) or callable(raw) or inspect.isclass(raw):
                    continue
                if (c, k) in self.saved:
                    setattr(c, k, self.saved[(c, k)])
                else:
                    delattr(c, k)
        return False

    def snapshot(self):
        return {(c, a): getattr(c, a) for c in self.classes for a in state_attrs(c)}


def _install(c, slots, tag, noneness):
    vals = {}
    for s, is_none in zip(slots, noneness):
        v = None if is_none else Val(f"{tag}.{c.__name__}.{s}")
        setattr(c, s, v)
        vals[s] = v
    return vals


def _frame(cx, name, before, after, exempt):
    """every (class, attr) outside ``exempt`` is unchanged"""
    goals = []
    for key, old in before.items():
        if key in exempt:
            continue
        goals.append(term(after.get(key, None)) == term(old))
    for key in after:
        if key not in before and key not in exempt:
            goals.append(z3.BoolVal(False))  # a brand-new class attribute appeared
    return cx.prove(name, z3.And(*goals) if goals else z3.BoolVal(True), kind="frame")


def _distinct_assumptions(cx, vals):
    ts = [v.t for v in vals if isinstance(v, Val)]
    for t in ts:
        cx.assume(t != NONE)


def check_simple(cname: str):
    """All obligations for one simple setting class, all None-ness signatures."""
    st, simple, composite = setting_classes()
    c = {x.__name__: x for x in simple}[cname]
    kind = kind_of(st, c)
    slots = SLOTS[kind]
    n = len(slots)
    allc = simple
    out = []
    # signature: None-ness of S1 (state at enter), S2 (state at exit), instance values
    sigs = list(itertools.product(*[[False, True]] * n))  # per-slot None-ness
    inst_sigs = sigs if kind == "dtype" else [(False,), (True,)]
    exc_variants = [(None, None, None), ("exc",)]
    for s1, s2, isig in itertools.product(sigs, sigs, inst_sigs):
        if kind != "dtype" and s2 != s1 and s2 != (False,) * n:
            continue  # S2's None-ness only matters for the dtype context's skip-None logic; keep 2 variants
        for exc in exc_variants:
            sig = f"S1none={''.join('N' if b else 'v' for b in s1)}/S2none={''.join('N' if b else 'v' for b in s2)}/inst={''.join('N' if b else 'v' for b in isig)}/{'exc' if exc[0] else 'normal'}"
            base = f"C17/{cname}/{sig}"

            def scenario():
                cx = sym.ctx()
                with World(allc) as w:
                    # S0: every attribute of every setting class symbolic
                    allvals = []
                    for k in allc:
                        for a in state_attrs(k):
                            v = Val(f"S0.{k.__name__}.{a}")
                            setattr(k, a, v)
                            allvals.append(v)
                    inst = [None if b else Val(f"inst.{i}") for i, b in enumerate(isig)]
                    _distinct_assumptions(cx, allvals + inst)
                    own = {(c, a) for a in slots} | {(c, a) for a in EXTRA_ASSIGNABLE.get(cname, ())}
                    # also subclasses / base classes sharing the attribute through inheritance are the
                    # same Python attribute only if not shadowed; we installed every class's own copy.
                    before = w.snapshot()
                    ctxobj = c(*inst)
                    _frame(cx, f"{base}/init/frame", before, w.snapshot(), exempt=set())
                    for rnd in (1, 2):  # second round = re-used context object
                        S1 = _install(c, slots, f"S1r{rnd}", s1)
                        _distinct_assumptions(cx, list(S1.values()))
                        before = w.snapshot()
                        ctxobj.__enter__()
                        after = w.snapshot()
                        goals = []
                        for sl, iv in zip(slots, inst if kind == "dtype" else inst * n):
                            want = iv if (iv is not None or kind != "dtype") else S1[sl]
                            goals.append(term(after[(c, sl)]) == term(want))
                        cx.prove(f"{base}/round{rnd}/enter/effect", z3.And(*goals), kind="post")
                        _frame(cx, f"{base}/round{rnd}/enter/frame", before, after, exempt=own)
                        S2 = _install(c, slots, f"S2r{rnd}", s2)
                        _distinct_assumptions(cx, list(S2.values()))
                        before = w.snapshot()
                        if exc[0] is None:
                            ret = ctxobj.__exit__(None, None, None)
                        else:
                            e = RuntimeError("boom")
                            ret = ctxobj.__exit__(RuntimeError, e, None)
                        after = w.snapshot()
                        cx.prove(
                            f"{base}/round{rnd}/exit/restore",
                            z3.And(*[term(after[(c, sl)]) == term(S1[sl]) for sl in slots]),
                            kind="post",
                            info={"class": cname, "kind": kind, "S1none": s1, "S2none": s2, "instnone": isig},
                        )
                        cx.prove(f"{base}/round{rnd}/exit/propagates", z3.BoolVal(not ret), kind="post")
                        _frame(cx, f"{base}/round{rnd}/exit/frame", before, after, exempt=own)

            out.extend(_run(scenario, base, replay={"module": "contracts.C17", "func": "replay_simple", "args": [cname, list(s1), list(s2), list(isig)]}))
            if sum(1 for o in out if o["status"] == REFUTED) >= 12:
                return out  # enough failed obligations to report; the remaining signatures add nothing
    return out


def check_composite(cname: str):
    st, simple, composite = setting_classes()
    c = {x.__name__: x for x in composite}[cname]
    allc = simple
    out = []
    params = list(inspect.signature(c.__init__).parameters)[1:]
    for isig in itertools.product(*[[False, True]] * len(params)):
        if cname == "linalg_dtypes" and isig[0]:
            continue  # default=None is outside the documented domain (a dtype)
        sig = "inst=" + "".join("N" if b else "v" for b in isig)
        base = f"C17/{cname}/{sig}"

        def scenario():
            cx = sym.ctx()
            with World(allc) as w:
                allvals = []
                for k in allc:
                    for a in state_attrs(k):
                        v = Val(f"S0.{k.__name__}.{a}")
                        setattr(k, a, v)
                        allvals.append(v)
                inst = [None if b else Val(f"inst.{p}") for p, b in zip(params, isig)]
                _distinct_assumptions(cx, allvals + inst)
                before = w.snapshot()
                ctxobj = c(*inst)
                _frame(cx, f"{base}/init/frame", before, w.snapshot(), exempt=set())
                # the parts: instance attributes that are simple contexts
                parts = [(k, v) for k, v in vars(ctxobj).items() if isinstance(v, tuple(simple))]
                cx.prove(f"{base}/init/parts", z3.BoolVal(len(parts) == len(params) or cname == "linalg_dtypes"))
                pcs = [type(p) for _, p in parts]
                own = {(pc, a) for pc in pcs for a in SLOTS[kind_of(st, pc)]}
                S1 = {}
                for pc in pcs:
                    for a, v in _install(pc, SLOTS[kind_of(st, pc)], "S1", (False,)).items():
                        S1[(pc, a)] = v
                _distinct_assumptions(cx, list(S1.values()))
                before = w.snapshot()
                ctxobj.__enter__()
                after = w.snapshot()
                # effect: every part's class slot now holds that part's instance value, which is the
                # constructor argument of the same name (linalg_dtypes: default when None)
                goals = []
                for (pname, part), pc in zip(parts, pcs):
                    if cname == "linalg_dtypes":
                        idx = params.index(pname)
                        want = inst[idx] if inst[idx] is not None else inst[0]
                    else:
                        want = inst[params.index(pname)]
                        if want is None:
                            want = None
                    sl = SLOTS[kind_of(st, pc)][0]
                    goals.append(term(after[(pc, sl)]) == term(want))
                cx.prove(f"{base}/enter/effect", z3.And(*goals))
                _frame(cx, f"{base}/enter/frame", before, after, exempt=own)
                for pc in pcs:
                    _distinct_assumptions(cx, list(_install(pc, SLOTS[kind_of(st, pc)], "S2", (False,)).values()))
                before = w.snapshot()
                ret = ctxobj.__exit__(None, None, None)
                after = w.snapshot()
                cx.prove(f"{base}/exit/restore", z3.And(*[term(after[k]) == term(v) for k, v in S1.items()]),
                         info={"class": cname, "instnone": isig})
                cx.prove(f"{base}/exit/propagates", z3.BoolVal(not ret))
                _frame(cx, f"{base}/exit/frame", before, after, exempt=own)

        out.extend(_run(scenario, base, replay={"module": "contracts.C17", "func": "replay_composite", "args": [cname, list(isig)]}))
    return out


def _run(scenario, base, replay):
    out = []
    try:
        paths = sym.explore(scenario, max_paths=64)
    except sym.Unsupported as e:
        return [ob(f"{base}/<explore>", UNKNOWN, reason=str(e))]
    if not paths:
        return [ob(f"{base}/<no feasible path>", UNKNOWN, reason="vacuous: precondition unsatisfiable")]
    for p in paths:
        if p.outcome != "return":
            out.append(ob(f"{base}/<path {p.outcome}>", REFUTED if p.outcome == "raise" else UNKNOWN,
                          reason=repr(p.value), replay=replay,
                          detail=f"context protocol raised {p.value!r}"))
            continue
        for o in p.obligations:
            d = ob(o["name"], o["status"], by="z3", kind=o["kind"], info=o.get("info"), solver_s=p.solver_s / max(1, len(p.obligations)))
            if o["status"] == REFUTED:
                d["model"] = o.get("model")
                d["smt2"] = o.get("smt2")
                d["replay"] = replay
            elif o["status"] != DISCHARGED:
                d["reason"] = o.get("reason")
            out.append(d)
    return out


# ------------------------------------------------------------------------------------------
# native replay (real classes, concrete values, public protocol only)


def _concrete_values(kind, st):
    import torch

    if kind == "flag":
        return [True, False]
    return [0.125, 0.25, 0.5, 0.75]


def replay_simple(cname, s1none, s2none, instnone):
    """Concrete history on the real class: construct the context early, change the setting through
    another context of the same class, enter/exit the early one inside it, compare with the value
    in force immediately before entry.  Also: a slot whose value before entry was None."""
    st, simple, composite = setting_classes()
    c = {x.__name__: x for x in simple}[cname]
    kind = kind_of(st, c)
    slots = SLOTS[kind]
    saved = {s: getattr(c, s) for s in slots}
    fails = []
    try:
        if kind == "dtype":
            mk = lambda v: c(float_value=v, double_value=v, half_value=v)  # noqa
            outer_v, inner_v = 0.125, 0.5
        elif kind == "value":
            mk = lambda v: c(v)  # noqa
            outer_v, inner_v = 11, 22
        else:
            mk = lambda v: c(v)  # noqa
            outer_v, inner_v = (not c.on()), c.on()
        # history 1: early-constructed context entered inside another one
        early = mk(inner_v)
        with mk(outer_v):
            before = {s: getattr(c, s) for s in slots}
            with early:
                pass
            after = {s: getattr(c, s) for s in slots}
            if after != before:
                fails.append(f"history construct(early); with outer: with early: pass -> after exit {after} != before entry {before}")
        # history 1b: the same, but the enclosing block already set the value the early context asks for (redundant entry)
        early = mk(inner_v)
        with mk(outer_v):
            with mk(inner_v):
                before = {s: getattr(c, s) for s in slots}
                with early:
                    pass
                after = {s: getattr(c, s) for s in slots}
                if after != before:
                    fails.append(f"history construct(early={inner_v!r}); with ctx({outer_v!r}): with ctx({inner_v!r}): with early: pass -> after exit {after} != before entry {before}")
        # history 3: the context takes effect on entry, per slot (dtype contexts: only the slots that are given)
        if kind == "dtype":
            for kw, sl in (("float_value", "_global_float_value"), ("double_value", "_global_double_value"), ("half_value", "_global_half_value")):
                for val in (0.625, 0.0):  # a falsy value is a value like any other
                    before = {s_: getattr(c, s_) for s_ in slots}
                    with c(**{kw: val}):
                        now = {s_: getattr(c, s_) for s_ in slots}
                        want = dict(before)
                        want[sl] = val
                        if now != want:
                            fails.append(f"history with {cname}({kw}={val}): inside the block {now}, expected {want}")
        else:
            for val in ((inner_v, 0) if kind == "value" else (inner_v, not inner_v)):
                with mk(val):
                    if getattr(c, slots[0]) != val:
                        fails.append(f"history with {cname}({val!r}): inside the block the value is {getattr(c, slots[0])!r}")
        # history 2: slot unset (None) before entry
        for s in slots:
            setattr(c, s, None)
        with mk(inner_v):
            pass
        after = {s: getattr(c, s) for s in slots}
        if any(v is not None for v in after.values()):
            fails.append(f"history [slots unset]; with ctx: pass -> after exit {after}, expected all None")
    finally:
        for s, v in saved.items():
            setattr(c, s, v)
    return {"reproduced": bool(fails), "detail": "; ".join(fails) or "no deviation on the concrete histories tried"}


def replay_composite(cname, instnone):
    st, simple, composite = setting_classes()
    c = {x.__name__: x for x in composite}[cname]
    fails = []
    if cname == "fast_computations":
        obs = lambda: (st.fast_computations.covar_root_decomposition.on(), st.fast_computations.log_prob.on(), st.fast_computations.solves.on())  # noqa
        early = c(False, False, False)
        with c(True, True, True):
            before = obs()
            with early:
                pass
            if obs() != before:
                fails.append(f"after exit {obs()} != before entry {before}")
    else:
        import torch

        obs = lambda: (st._linalg_dtype_symeig.value(), st._linalg_dtype_cholesky.value())  # noqa
        early = c(torch.float)
        with c(torch.half):
            before = obs()
            with early:
                pass
            if obs() != before:
                fails.append(f"after exit {obs()} != before entry {before}")
    return {"reproduced": bool(fails), "detail": "; ".join(fails) or "no deviation on the concrete histories tried"}


# ------------------------------------------------------------------------------------------
# bounded tier: exhaustive native enumeration of event histories vs. a stack oracle


def rtc_histories(max_len: int):
    """All well-nested histories of construct/enter/exit(/exception exit) events of length <= max_len
    over two setting classes x two context objects each, on the real classes; oracle: after each exit
    the observable value equals the value observed immediately before the matching enter."""
    st, simple, composite = setting_classes()
    A, B = st.max_cholesky_size, st.cholesky_jitter
    objs_spec = [(A, (3,)), (A, (5,)), (B, (0.5, None, 0.25)), (B, (None, 0.75, None))]
    obsf = {A: lambda: (A.value(),), B: lambda: (B.value(__import__("torch").float), B.value(__import__("torch").double), B.value(__import__("torch").half))}
    evals = 0
    fails = []
    distinct = set()

    saved = {(c, s): getattr(c, s) for c in (A, B) for s in SLOTS[kind_of(st, c)]}

    def rec(hist, constructed, stack, objs, entered_before):
        nonlocal evals
        if len(hist) >= max_len:
            return
        # events: construct i (once), enter i (if constructed and not on stack), exit top
        for i, (c, args) in enumerate(objs_spec):
            if i not in constructed:
                yield hist + [("new", i)]
            elif i not in stack:
                yield hist + [("enter", i)]
        if stack:
            yield hist + [("exit", stack[-1])]
            yield hist + [("xexit", stack[-1])]

    def run(hist):
        nonlocal evals
        for (c, s), v in saved.items():
            setattr(c, s, v)
        objs = {}
        stack = []
        pre = {}
        for ev, i in hist:
            c, args = objs_spec[i]
            if ev == "new":
                objs[i] = c(*args)
            elif ev == "enter":
                pre[i] = obsf[c]()
                objs[i].__enter__()
                stack.append(i)
            else:
                assert stack and stack[-1] == i
                stack.pop()
                r = objs[i].__exit__(*((RuntimeError, RuntimeError("x"), None) if ev == "xexit" else (None, None, None)))
                evals += 1
                if r:
                    return f"{hist}: __exit__ returned truthy"
                if obsf[c]() != pre[i]:
                    return f"{hist}: after exit of obj{i} value {obsf[c]()} != value before entry {pre[i]}"
                other = B if c is A else A
        return None

    # enumerate histories breadth first
    frontier = [[]]
    try:
        while frontier:
            nxt = []
            for h in frontier:
                constructed = {i for ev, i in h if ev == "new"}
                stack = []
                for ev, i in h:
                    if ev == "enter":
                        stack.append(i)
                    elif ev in ("exit", "xexit"):
                        stack.pop()
                for h2 in rec(h, constructed, stack, None, None):
                    if h2[-1][0] in ("exit", "xexit"):
                        distinct.add(tuple(h2))
                        msg = run(h2)
                        if msg and len(fails) < 5:
                            fails.append(msg)
                    nxt.append(h2)
            frontier = [h for h in nxt if len(h) < max_len]
    finally:
        for (c, s), v in saved.items():
            setattr(c, s, v)
    status = "bounded-fail" if fails else "bounded-pass"
    return [ob(f"C17/rtc/histories<= {max_len}", status, engine="rtc", evaluations=evals, distinct_nontrivial=len(distinct),
               detail="; ".join(fails)[:2000], sample={"history": [list(x) for x in (sorted(distinct)[len(distinct) // 2] if distinct else [])]},
               native={"reproduced": bool(fails), "detail": "; ".join(fails)[:2000]})]


def units(tier: str):
    st, simple, composite = setting_classes()
    us = [Unit(f"C17/{c.__name__}", "contracts.C17", "check_simple", (c.__name__,), engine="shadow", timeout_s=300) for c in simple]
    us += [Unit(f"C17/{c.__name__}", "contracts.C17", "check_composite", (c.__name__,), engine="shadow", timeout_s=300) for c in composite]
    us.append(Unit("C17/rtc/histories", "contracts.C17", "rtc_histories", (5 if tier == "quick" else 7,), engine="rtc", timeout_s=900))
    return us


META = {
    "functions_under_contract": [
        "settings._feature_flag.{__init__,__enter__,__exit__,_set_state,on,off,is_default}",
        "settings._value_context.{__init__,__enter__,__exit__,_set_value,value}",
        "settings._dtype_value_context.{__init__,__enter__,__exit__,_set_value,value}",
        "settings.deterministic_probes._set_state", "settings.fast_computations.{__init__,__enter__,__exit__}",
        "settings.linalg_dtypes.{__init__,__enter__,__exit__}", "every concrete setting class (enumerated by inspect on every run)",
    ],
    "trusted_base": ["z3 4.x/5.x (QF_UF equalities)", "CPython executes the real methods (attribute lookup, MRO, classmethods)",
                     "None-ness of each slot is enumerated (signature), values are symbolic"],
    "assumptions": [
        "history theorem is derived on paper (DESIGN C17) from the per-method triples by induction over well-nested histories; the bounded tier enumerates histories natively as a cross-check",
        "setting values are treated as opaque (the context protocol never inspects them beyond `is None`)",
    ],
    "explanation": "Hoare triples init/enter/exit with ghost at_enter on the real classes, symbolic class state, all None-ness signatures, normal and exceptional exit, first and second use of the same object, frame over all setting classes; bounded tier: exhaustive native enumeration of event histories against a stack oracle.",
}
