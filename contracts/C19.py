"""C19 - incompatible shapes and out-of-range indices raise, never mis-compute (bounded tier only so far)."""
from __future__ import annotations

from contracts.rtc_C19 import RTC_META, rtc_units

PID = "C19"


def units(tier):
    return rtc_units(tier)


META = {
    "level_if_complete": "other",
    "functions_under_contract": [],
    "trusted_base": ["real torch's verdict (raises / accepts) on the dense oracle", "zoo oracle D(op) (contracts/zoo.py, contracts/rtc_C03.extra_cases)"],
    "assumptions": ["bounded tier only so far"] + RTC_META["assumptions"],
    "explanation": RTC_META["explanation"],
    "families": RTC_META["families"],
}
