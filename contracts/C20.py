"""C20 — thin wrapper: only the bounded (run-time contract) tier exists so far (contracts/rtc_C20.py)."""
from __future__ import annotations

from contracts.rtc_C20 import RTC_META, rtc_units

PID = "C20"


def units(tier):
    return rtc_units(tier)


META = {
    "level_if_complete": "other",
    "functions_under_contract": [],
    "trusted_base": ["real torch as the oracle for dense linear algebra", "dense oracles written in contracts/rtc_C20.py and contracts/zoo.py"],
    "assumptions": ["bounded tier only so far"] + list(RTC_META.get("assumptions", [])),
    "explanation": RTC_META.get("explanation", ""),
    "families": RTC_META.get("families", ""),
}
