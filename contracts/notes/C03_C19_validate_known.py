"""Validation of contracts/notes/C03_known.json and C19_known.json.
usage: VERIF_SEED=<s> .venv/bin/python contracts/notes/C03_C19_validate_known.py [C03] [C19]
Runs the rtc unit functions directly (engine.common.run_units, quick tier), then asserts with the engine's own
load_findings / match_finding that every failing obligation (name + every label in `failures`) is matched by a known entry
of its property, and reports for every entry how many passing obligations its patterns cover (masking potential)."""
import fnmatch
import importlib
import os
import sys

sys.path.insert(0, os.path.dirname(os.path.dirname(os.path.dirname(os.path.abspath(__file__)))))
from engine import common  # noqa: E402

ok = True
for pid in (sys.argv[1:] or ["C03", "C19"]):
    units = importlib.import_module(f"contracts.rtc_{pid}").rtc_units("quick")
    res = common.run_units(units, jobs=16, progress=False)
    obs = [o for r in res.values() for o in r.get("obligations", [])]
    crashed = [n for n, r in res.items() if r["kind"] != "ok"]
    findings = common.load_findings()
    failing = [o for o in obs if o["status"] == common.BOUNDED_FAIL]
    unmatched = [o["name"] for o in failing if not common.match_finding(findings, pid, o["name"], o.get("failures"))]
    print(f"{pid} seed={common.SEED}: obligations={len(obs)} failing={len(failing)} unmatched={len(unmatched)} crashed_units={len(crashed)}")
    for n in unmatched[:20]:
        print("   UNMATCHED", n)
    ok &= not unmatched and not crashed
    for e in findings["known"]:
        if e["property"] != pid:
            continue
        cov = sum(1 for o in obs if o["status"] != common.BOUNDED_FAIL and any(fnmatch.fnmatchcase(o["name"], p) for p in e["obligations"]))
        hit = sum(1 for o in failing if common.match_finding({"known": [e]}, pid, o["name"], o.get("failures")))
        print(f"   {e['id']}: patterns={len(e['obligations'])} failing_matched={hit} passing_covered={cov}")
print("VALIDATION", "PASSED" if ok else "FAILED")
sys.exit(0 if ok else 1)
