"""synthesize tight known-finding entries for C12 from full label dumps (several seeds) -> contracts/notes/C12_known.json"""
import json, re, sys, collections, itertools

dumps = sys.argv[1:]
F = collections.defaultdict(set)
S = collections.defaultdict(set)
for d in dumps:
    for o in json.load(open(d)):
        S[o['name']].update(o['all_failures']); S[o['name']].update(o['all_passes'])
        if o['status'] != 'bounded-pass':
            F[o['name']].update(o['all_failures'])
P = {n: S[n] - F[n] for n in F}


def parse(l):
    m = re.search(r'history=\[(.*?)\]', l)
    hist = frozenset(e for e in m.group(1).split(' ; ') if e) if m else frozenset()
    q = re.search(r'\|query=([^|]+)', l)
    dt = l.split('|')[1]
    return hist, (q.group(1) if q else None), dt


def H(e):
    return r'history=\[(?:[^\]]* ; )?%s(?: ;|\])' % re.escape(e)


def lit_of(label):
    return re.search(r'history=\[(.*?)\]', label).group(1)


def sat(term, h, lit):
    kind, v = term
    if kind == 'and':
        return all(e in h for e in v)
    return lit == v  # exact literal history


def cover(target, avoid, allow_exact):
    """greedy: terms satisfied by no label of ``avoid``, covering as many labels of ``target`` as possible.
    target / avoid: lists of (histset, literal).  returns (terms, n_uncovered_target)"""
    cands = set()
    for h, lit in target:
        for e in h:
            cands.add(('and', (e,)))
        for p in itertools.combinations(sorted(h), 2):
            cands.add(('and', p))
        if allow_exact:
            cands.add(('lit', lit))
    valid = [c for c in cands if not any(sat(c, h, lit) for h, lit in avoid)]
    uncovered = set(range(len(target))); chosen = []
    rank = lambda c: (0 if c[0] == 'and' and len(c[1]) == 1 else 1 if c[0] == 'and' else 2)
    while uncovered and valid:
        best = max(valid, key=lambda c: (sum(1 for i in uncovered if sat(c, *target[i])) - 0.3 * rank(c), -rank(c), str(c)))
        got = {i for i in uncovered if sat(best, *target[i])}
        if not got:
            break
        chosen.append(best); uncovered -= got; valid.remove(best)
    return sorted(chosen, key=str), len(uncovered)


def synth_hist(pf, pr):
    """pf / pr: {label: histset} failing / passing.  returns (kind, (pos_terms, protector_terms), matched_passing):
    a label matches iff it satisfies some positive term (if any are given) and no protector term"""
    if not pf:
        return None
    fl = [(h, lit_of(l)) for l, h in pf.items()]; pl = [(h, lit_of(l)) for l, h in pr.items()]
    pos = ()
    cand_pass = pl
    if all(h for h, _ in fl):
        cands = set()
        for h, lit in fl:
            for e in h:
                cands.add(('and', (e,)))
            for p in itertools.combinations(sorted(h), 2):
                cands.add(('and', p))
        cands = sorted(cands, key=str)
        pc = {c: sum(1 for h, lit in pl if sat(c, h, lit)) for c in cands}
        uncovered = set(range(len(fl))); chosen = []
        while uncovered:
            best = max((c for c in cands if c not in chosen), key=lambda c: (sum(1 for i in uncovered if sat(c, *fl[i])) / (1.0 + 3 * pc[c]), -len(c[1]), -pc[c], str(c)))
            chosen.append(best)
            uncovered = {i for i in uncovered if not sat(best, *fl[i])}
        for c in list(chosen):
            rest = [x for x in chosen if x != c]
            if rest and all(any(sat(x, h, lit) for x in rest) for h, lit in fl):
                chosen = rest
        pos = tuple(sorted(chosen, key=str))
        cand_pass = [(h, lit) for h, lit in pl if any(sat(c, h, lit) for c in pos)]
    # protectors: terms satisfied by no failing label; exact literal histories only when there is no positive condition
    prot, left = cover(cand_pass, fl, allow_exact=not pos)
    if len(prot) > 40:  # do not enumerate: keep the 40 protectors that exclude most
        prot = prot[:40]
        left = sum(1 for h, lit in cand_pass if not any(sat(c, h, lit) for c in prot))
    kind = 'combo' if (pos or prot) else 'all'
    return (kind, (pos, tuple(prot)), left)


def term_rx(t):
    kind, v = t
    if kind == 'and':
        return ''.join('(?=.*%s)' % H(e) for e in v)
    return r'(?=.*history=\[%s\])' % re.escape(v)


def hist_rx(c):
    kind, (pos, prot), _ = c
    out = ''
    if pos:
        out += '(?:%s)' % '|'.join(term_rx(t) for t in pos)
    if prot:
        out += '(?!(?:%s))' % '|'.join(term_rx(t) for t in prot)
    return out


def synth(name):
    f, p = F[name], P[name]
    pf = {l: parse(l) for l in f}; pp = {l: parse(l) for l in p}
    qf = sorted({v[1] for v in pf.values() if v[1]})
    qall = {v[1] for v in list(pf.values()) + list(pp.values()) if v[1]}
    qcond = tuple(qf) if (qf and set(qf) != qall) else None
    per_dt = {}
    for dt in ('float32', 'float64'):
        pfd = {l: v[0] for l, v in pf.items() if v[2] == dt}
        prd = {l: v[0] for l, v in pp.items() if v[2] == dt and (qcond is None or v[1] in qcond)}
        per_dt[dt] = synth_hist(pfd, prd)
    return {'query': qcond, 'f32': per_dt['float32'], 'f64': per_dt['float64'], 'n_fail': len(f), 'n_pass': len(p)}


def regex_of(c):
    q = r'(?=.*\|query=(?:%s)(?:\||$))' % '|'.join(re.escape(x) for x in c['query']) if c['query'] else ''
    a, b = c['f32'], c['f64']
    if a is not None and b is not None and a[:2] == b[:2]:
        body = hist_rx(a)
    else:
        br = []
        for dt, x in (('float32', a), ('float64', b)):
            if x is not None:
                br.append(r'(?=.*\|%s\|)%s' % (dt, hist_rx(x)))
        body = '(?:%s)' % '|'.join(br)
    rx = '^' + q + body
    if rx == '^':
        rx = r'\|history=\['
    return rx


def tstr(term):
    return ' and '.join(term[1]) if term[0] == 'and' else 'exactly [' + term[1] + ']'


def describe(c):
    def d(x):
        if x is None:
            return 'never'
        k, (pos, prot), _ = x
        t = ('when the history contains ' + ' or '.join(tstr(term) for term in pos)) if pos else 'for every history (also the empty one)'
        if prot:
            t += ' unless it contains ' + ' or '.join(tstr(term) for term in prot)
        return t
    a, b = c['f32'], c['f64']
    s = d(a) if (a is not None and b is not None and a[:2] == b[:2]) else f"float32: {d(a)}; float64: {d(b)}"
    if c['query']:
        s += '; failing queries: ' + ', '.join(c['query'])
    return s


def root_cause(fam, cases, c):
    elems = set()
    for x in (c['f32'], c['f64']):
        if x and x[1][0]:
            elems |= {e for t in x[1][0] if t[0] == 'and' for e in t[1]}
    has_diag = any(e.startswith('diagonalization') for e in elems)
    only_diag = bool(elems) and all(e.startswith('diagonalization') for e in elems)
    sk = cases == ['sumkron']
    if fam.startswith('history/') or fam == 'cache_valid':
        if sk:
            return 'RC4'
        if fam == 'history/root_inv_decomposition' and cases == ['kron2']:
            return 'RC5'
        if fam == 'history/root_inv_decomposition' and cases == ['kron_diag']:
            return 'RC3+RC5'
        return 'RC3'
    if fam.startswith('derive/') or fam.startswith('derived_query/mT'):
        return 'RC3'
    rc = 'RC2'
    if only_diag:
        return 'RC3'
    if has_diag:
        rc += '+RC3'
    if sk:
        rc += '+RC4'
    return rc


WHAT = {
    'RC2': "add_low_rank / cat_rows transplant a root onto the new operator that is only valid if the root and the inverse root they read (cache or recomputation) come from the same factorization (R^T = L^-1)",
    'RC3': "after a diagonalization(...) call, method-less root_decomposition() / root_inv_decomposition() (_choose_root_method) take the 'diagonalization' branch, which is wrong for diagonal-family operators (ConstantDiag eigenvector operator times a row tensor) and re-runs an inaccurate global Lanczos diagonalization for block / KPAD operators above max_cholesky_size",
    'RC4': "SumKroneckerLinearOperator combines root_decomposition() and root_inv_decomposition() of its second operand's factors straight from their caches although they need not be mutually inverse",
    'RC5': "KroneckerProductLinearOperator.root_inv_decomposition ignores its method argument and returns / caches whatever the method-less call yields for the current cache",
}

# RC3 seen through a later diagonalization() query (thorough tier: random from-scratch histories of length 4-6).  Written by hand from the
# mechanism (reproduced natively, see C12_findings.md "Thorough tier"): after diagonalization(method=...) a method-less root_decomposition() /
# root_inv_decomposition() under max_cholesky_size(1) takes the 'diagonalization' branch, which calls self.diagonalization() WITHOUT arguments
# under the settings in force - a global Lanczos diagonalization, O(1) wrong / inf for the RC3 family (repeated eigenvalues) - and caches it
# under the key of the argument-less call; a later diagonalization()@dflt is served that entry.
RC3_DIAG_CACHE = {
    'id': 'C12-RC3-history-diagonalization-1', 'property': 'C12',
    'obligations': ['C12/rtc/history/diagonalization/%s' % c for c in
                    ('identity', 'diag', 'constdiag', 'kron_diag', 'kpad_const', 'blockdiag', 'blockinterleaved', 'blockinterleaved3')],
    'input_regex': r"history=\[(?:[^\]]* ; )?diagonalization\(method=\w+\)@\w+ ; (?:[^\]]* ; )?root_(?:inv_)?decomposition\((?:method=None)?\)@small(?:_off)?"
                   r"(?: ;[^\]]*)?\]\|query=diagonalization\(\)@\w+\|scratch$",
    'what': WHAT['RC3'] + " -- history/diagonalization: the argument-less self.diagonalization() issued by that branch under max_cholesky_size(1) (global Lanczos, "
            "O(1) error or inf for block / constant-diagonal operators) is cached under the key of diagonalization() and served to a later diagonalization()@dflt "
            "(e.g. blockinterleaved|float64|b=(2, 3)|n=2|history=[diagonalization(method=symeig)@dflt ; root_decomposition()@small ; ...]|query=diagonalization()@dflt: error 0.82)",
}

if __name__ == '__main__':
    clusters = collections.defaultdict(list)
    for name in sorted(F):
        if '/history/diagonalization/' in name:
            continue  # thorough tier only, 1 label per group and seed: covered by the hand-written mechanism entry RC3_DIAG_CACHE below
        c = synth(name)
        fam = '/'.join(name.split('/')[2:-1])
        key = (fam, c['query'], c['f32'][:2] if c['f32'] else None, c['f64'][:2] if c['f64'] else None)
        clusters[key].append((name, c))
    entries = []
    counter = collections.Counter()
    tot_mp = 0
    for key, items in sorted(clusters.items(), key=lambda kv: kv[0][0]):
        fam = key[0]
        cases = [n.split('/')[-1] for n, _ in items]
        c = items[0][1]
        rc = root_cause(fam, cases, c)
        counter[(rc, fam)] += 1
        eid = f"C12-{rc}-{fam.replace('/', '-')}-{counter[(rc, fam)]}"
        mp = sum((x['f32'][2] if x['f32'] else 0) + (x['f64'][2] if x['f64'] else 0) for _, x in items)
        tot_mp += mp
        what = '; '.join(WHAT[r] for r in rc.split('+')) + f" -- {fam} of {', '.join(cases)} fails {describe(c)}"
        if len(what) > 900:
            what = what[:880] + ' ... (full condition: input_regex)'
        entries.append({'id': eid, 'property': 'C12', 'obligations': [n for n, _ in items], 'input_regex': regex_of(c), 'what': what})
        print(f"{eid:70s} cases={len(cases):2d} fail={sum(x['n_fail'] for _, x in items):5d} passing-matched={mp:4d}/{sum(x['n_pass'] for _, x in items):5d}")
    entries.append(RC3_DIAG_CACHE)
    json.dump(entries, open('/verif/contracts/notes/C12_known.json', 'w'), indent=1)
    print('failing obligations', len(F), 'entries', len(entries), 'total passing labels matched', tot_mp)
