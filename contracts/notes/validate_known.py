#!/usr/bin/env python3
"""Validate contracts/notes/<ID>_known.json against the bounded tier of <ID> on the current tree.

usage:  VERIF_SEED=<s> /verif/.venv/bin/python /verif/contracts/notes/validate_known.py C12 [C16 C18 C20] [--tier quick]
                                                                                        [--dump out.json] [--from dump.json]

Runs the rtc units of the property directly (one process per unit, like ./check; the CLI would only print the first 40
violations) with a Recorder that additionally keeps EVERY label (passing and failing, not only the first 50 failures),
then asserts, with the rule of engine.common.match_finding (fnmatch.fnmatchcase on the full obligation name, and
re.search(input_regex, label) for ALL failing labels of the obligation):

  (1) every failing obligation is matched by some entry -- both with the capped `failures` list the framework sees and
      with the complete list of failing labels;
  (2) no entry is stale (every entry matches at least one failing obligation)            [reported, not fatal with --lenient];
and reports tightness: for every entry the number of PASSING labels (inside the failing obligations it covers) that its
regex also matches, and the passing obligations whose NAME its patterns match.
exit code 0 = all failing obligations covered."""
from __future__ import annotations

import fnmatch
import importlib
import json
import os
import re
import sys
import time

VERIF = os.path.dirname(os.path.dirname(os.path.dirname(os.path.abspath(__file__))))
sys.path.insert(0, VERIF)


def collect(pid, tier):
    from contracts import rtc_common
    from engine import common

    _check, _obl = rtc_common.Recorder.check, rtc_common.Recorder.obligations

    def check(self, group, label, ok, detail="", nontrivial=True):
        g = self._g(group)
        g.setdefault("allfail", [])
        g.setdefault("allpass", [])
        (g["allpass"] if ok else g["allfail"]).append(label)
        return _check(self, group, label, ok, detail, nontrivial)

    def obligations(self):
        out = _obl(self)
        for o, (group, g) in zip(out, self.groups.items()):
            o["all_failures"] = g.get("allfail", [])
            o["all_passes"] = g.get("allpass", [])
        return out

    rtc_common.Recorder.check, rtc_common.Recorder.obligations = check, obligations  # inherited by the forked unit processes
    try:
        mod = importlib.import_module(f"contracts.rtc_{pid}")
        units = mod.rtc_units(tier)
        res = common.run_units(units, progress=False)
    finally:
        rtc_common.Recorder.check, rtc_common.Recorder.obligations = _check, _obl
    obs, bad_units = [], []
    for un, r in res.items():
        if r["kind"] != "ok":
            bad_units.append((un, r["kind"], r.get("error")))
            continue
        obs += r["obligations"]
    return obs, bad_units


def match(entries, pid, obname, failures):
    """engine.common.match_finding"""
    for f in entries:
        if f["property"] == pid and any(fnmatch.fnmatchcase(obname, pat) for pat in f["obligations"]):
            rx = f.get("input_regex")
            if rx and failures:
                if not all(re.search(rx, str(x)) for x in failures):
                    continue
            return f
    return None


def validate(pid, tier, dump=None, src=None, lenient=False):
    entries = json.load(open(os.path.join(VERIF, "contracts", "notes", f"{pid}_known.json")))
    for e in entries:
        assert set(e) >= {"id", "property", "obligations", "what"}, e
        assert e["property"] == pid, e["id"]
        if e.get("input_regex"):
            re.compile(e["input_regex"])
    t0 = time.time()
    if src:
        obs, bad_units = json.load(open(src)), []
    else:
        obs, bad_units = collect(pid, tier)
    if dump:
        json.dump(obs, open(dump, "w"), default=str)
    failing = [o for o in obs if o["status"] not in ("bounded-pass", "discharged")]
    uncovered, used = [], {e["id"]: 0 for e in entries}
    loose = {e["id"]: 0 for e in entries}
    for o in failing:
        f1 = match(entries, pid, o["name"], o.get("failures"))
        f2 = match(entries, pid, o["name"], o.get("all_failures", o.get("failures")))
        if f1 is None or f2 is None:
            rx_fail = []
            for e in entries:
                if any(fnmatch.fnmatchcase(o["name"], pat) for pat in e["obligations"]):
                    rx_fail = [x for x in o.get("all_failures", o.get("failures")) if not re.search(e.get("input_regex") or "", str(x))][:3]
            uncovered.append((o["name"], rx_fail))
            continue
        used[f2["id"]] += 1
        rx = f2.get("input_regex")
        loose[f2["id"]] += sum(1 for x in o.get("all_passes", []) if (not rx) or re.search(rx, str(x)))
    passing_names = [o["name"] for o in obs if o["status"] in ("bounded-pass", "discharged")]
    print(f"{pid} [{tier}] seed={os.environ.get('VERIF_SEED', '0')} obligations={len(obs)} failing={len(failing)} entries={len(entries)} "
          f"uncovered={len(uncovered)} unit_failures={len(bad_units)} wall={time.time() - t0:.0f}s")
    for e in entries:
        swallowed = [n for n in passing_names if any(fnmatch.fnmatchcase(n, pat) for pat in e["obligations"])]
        print(f"   {e['id']}: covers {used[e['id']]} failing obligations; regex also matches {loose[e['id']]} passing labels inside them; "
              f"name patterns also match {len(swallowed)} passing obligations{' e.g. ' + swallowed[0] if swallowed else ''}")
    for n, ex in uncovered[:20]:
        print(f"   UNCOVERED {n}   e.g. labels not matched by the regex of the entry that matches the name: {ex}")
    for u in bad_units:
        print("   UNIT FAILURE", u)
    stale = [i for i, k in used.items() if k == 0]
    if stale:
        print("   STALE entries (match no failing obligation):", stale)
    ok = not uncovered and not bad_units and (lenient or not stale)
    return ok


def main():
    args = [a for a in sys.argv[1:] if not a.startswith("--")]
    opts = sys.argv[1:]

    def opt(name, default=None):
        return opts[opts.index(name) + 1] if name in opts else default

    tier = opt("--tier", "quick")
    ok = True
    for pid in [a for a in args if a not in (tier, opt("--dump"), opt("--from"))]:
        ok = validate(pid, tier, opt("--dump"), opt("--from"), "--lenient" in opts) and ok
    print("VALIDATION", "PASSED" if ok else "FAILED")
    return 0 if ok else 1


if __name__ == "__main__":
    sys.exit(main())
