"""C02 — bounded tier: composition and structure-preserving rewrites never change the matrix.

Run-time contracts on the real code: every expression step `r = a (.) b` (or unary/batch rewrite) built
from zoo operators / tensors / scalars is compared with the same step evaluated on the independent dense
oracles with torch broadcasting semantics: shape, dtype, to_dense() value, and a matmul probe of the
result (the result *is* an operator: its action must be the action of the dense value).

Torch-free at import time (the driver imports this module); all torch imports happen in `_init()`.
"""
from __future__ import annotations

import itertools
import zlib

from engine.common import Unit

PID = "C02"

torch = zoo = O = LinearOperator = Recorder = None
SEED = 0


def _init():
    global torch, zoo, O, LinearOperator, Recorder, SEED
    if torch is None:
        import warnings

        import torch as _torch
        from contracts import zoo as _zoo
        from contracts.rtc_common import Recorder as _Recorder
        from engine.common import SEED as _SEED
        from linear_operator import operators as _O

        warnings.simplefilter("ignore")
        torch, zoo, O, LinearOperator, Recorder, SEED = _torch, _zoo, _O, _O.LinearOperator, _Recorder, _SEED
        torch.set_num_threads(1)
        _extra_cases()


# ------------------------------------------------------------------------------------------
# helpers


def _seed(*key):
    return zlib.crc32(repr((key, SEED)).encode()) % (2**31)


def _dts(dt):
    return str(dt)[6:]


def dn(r):
    return r.to_dense() if isinstance(r, LinearOperator) else r


def _probe(cols, dt):
    i = torch.arange(cols * 2, dtype=torch.float64).reshape(cols, 2)
    return torch.cos(1.0 + 0.7 * i).to(dt)


# explicit "not supported" errors the property allows in place of a result
UNSUPPORTED = (NotImplementedError,)


def check_value(rec, group, label, fn, expected, scale=1.0, allowed=UNSUPPORTED, probe=True, want_tensor=None, dtype=None):
    """evaluate fn() on the real code; contract: shape, dtype and dense value equal ``expected``"""
    done, r = rec.guard(group, label, fn, allowed=allowed)
    if not done:
        return None
    if not (isinstance(r, LinearOperator) or torch.is_tensor(r)):
        rec.check(group, label, False, f"result is a {type(r).__name__}, not an operator/tensor")
        return None
    if want_tensor is not None and torch.is_tensor(r) != want_tensor:
        rec.check(group, label, False, f"result kind {type(r).__name__}; expected {'Tensor' if want_tensor else 'LinearOperator'}")
        return None
    if tuple(r.shape) != tuple(expected.shape):
        rec.check(group, label, False, f"shape {tuple(r.shape)} != dense shape {tuple(expected.shape)} ({type(r).__name__})")
        return None
    try:
        d = dn(r)
    except Exception as e:  # noqa
        rec.check(group, label, False, f"to_dense() of the {type(r).__name__} result raised {type(e).__name__}: {e}"[:500])
        return None
    if tuple(d.shape) != tuple(expected.shape):
        rec.check(group, label, False, f"to_dense shape {tuple(d.shape)} != {tuple(expected.shape)} ({type(r).__name__})")
        return None
    want_dt = dtype or expected.dtype
    if d.dtype != want_dt or (isinstance(r, LinearOperator) and r.dtype != want_dt):
        rec.check(group, label, False, f"dtype {d.dtype}/{getattr(r, 'dtype', None)} != {want_dt} ({type(r).__name__})")
        return None
    if not zoo.close(d, expected.to(d.dtype), scale=scale):
        err = float((d.double() - expected.double()).abs().max())
        rec.check(group, label, False, f"value differs from the dense evaluation: max abs err {err:.3e} (ref {float(expected.abs().max()):.3e}) result type {type(r).__name__}")
        return None
    rec.check(group, label, True)
    if probe and isinstance(r, LinearOperator) and expected.dim() >= 2 and expected.shape[-1] > 0:
        X = _probe(expected.shape[-1], d.dtype)
        try:
            y = r @ X
            ok = tuple(y.shape) == tuple((expected @ X).shape) and zoo.close(dn(y), expected.to(d.dtype) @ X, scale=scale * max(1, expected.shape[-1]))
            rec.check(group, label + "|probe=matmul", ok, f"(result @ X) differs from dense (result type {type(r).__name__})")
        except UNSUPPORTED:
            pass
        except Exception as e:  # noqa
            rec.check(group, label + "|probe=matmul", False, f"(result @ X) raised {type(e).__name__}: {e}"[:400] + f" (result type {type(r).__name__})")
    return r


_SHAPES = {}


def shape_table(case, nmax=9):
    """{n: matrix shape} of a zoo case, found by building it (batch-free where possible)"""
    t = _SHAPES.get(case.name)
    if t is None:
        t = {}
        for n in range(1, nmax + 1):
            if case.name == "tperm" and n > 3:
                continue
            try:
                b = (2,) if case.name == "cat_batch" else ()
                _, d = case.build(zoo.gen(1), torch.float32 if case.name in ("perm", "tperm") else torch.float64, b, n)
                t[n] = tuple(d.shape[-2:])
            except Exception:
                pass
        _SHAPES[case.name] = t
    return t


def n_for(case, shape):
    for n, s in shape_table(case).items():
        if s == tuple(shape):
            return n
    return None


def batch_ok(case, batch):
    if case.name == "cat_batch" and not batch:
        return False
    if case.name == "tperm" and batch:
        return False
    return True


def dtype_ok(case, dt):
    return dt == torch.float32 if case.name in ("perm", "tperm") else True


def build(case, dt, batch, n, *key):
    """fresh instance (op, dense); seed depends on everything that identifies the cell"""
    return case.build(zoo.gen(_seed(case.name, _dts(dt), tuple(batch), n, *key)), dt, tuple(batch), n)


def is_root(op):
    return isinstance(op, O.RootLinearOperator)


def root_after_mul(op, c):
    """would ``op * c`` be a root-form operator (so that ``x + op*c`` takes the add_low_rank path)?"""
    try:
        return is_root(op.mul(c))
    except Exception:  # noqa
        return False


EXTRA = {}


def _extra_cases():
    """cases not in the shared zoo: exactly-PSD (semi-definite) root forms, negative/indefinite structured operators,
    operators with different child classes (dispatch sometimes looks at the class of a direct child)"""
    Z = zoo

    def root_wide(g, dt, batch, n):
        r = Z.rn(g, *batch, n, n + 1, dtype=dt)
        return O.RootLinearOperator(r), r @ r.mT

    def root_square(g, dt, batch, n):
        r = Z.rn(g, *batch, n, n, dtype=dt) + 2 * torch.eye(n, dtype=dt)
        return O.RootLinearOperator(r), r @ r.mT

    def diag_neg(g, dt, batch, n):
        d = Z.rn(g, *batch, n, dtype=dt)
        return O.DiagLinearOperator(d), torch.diag_embed(d)

    def constdiag_neg(g, dt, batch, n):
        v = -(Z.rn(g, *batch, 1, dtype=dt).abs() + 0.5)
        return O.ConstantDiagLinearOperator(v, diag_shape=n), torch.diag_embed(v.expand(*batch, n))

    def kron_rootdiag(g, dt, batch, n):
        a_, b_ = Z._factor_sizes(n)
        d1 = Z.rn(g, *batch, a_, dtype=dt).abs() + 0.5
        B = Z.spd(g, batch, b_, dt)
        return O.KroneckerProductLinearOperator(O.DiagLinearOperator(d1), O.DenseLinearOperator(B)), Z.kron(torch.diag_embed(d1), B)

    def addeddiag_const(g, dt, batch, n):
        a = Z.spd(g, batch, n, dt)
        v = Z.rn(g, *batch, 1, dtype=dt).abs() + 0.5
        return O.AddedDiagLinearOperator(O.DenseLinearOperator(a), O.ConstantDiagLinearOperator(v, diag_shape=n)), a + torch.diag_embed(v.expand(*batch, n))

    def addeddiag_toeplitz(g, dt, batch, n):
        c = Z.rn(g, *batch, n, dtype=dt) * 0.3
        c[..., 0] = c[..., 0].abs() + n
        d = Z.rn(g, *batch, n, dtype=dt).abs() + 0.5
        return O.AddedDiagLinearOperator(O.ToeplitzLinearOperator(c), O.DiagLinearOperator(d)), Z.toeplitz_dense(c) + torch.diag_embed(d)

    def lrr_addeddiag_const(g, dt, batch, n):
        r = Z.rn(g, *batch, n, max(1, n // 2), dtype=dt)
        v = Z.rn(g, *batch, 1, dtype=dt).abs() + 0.5
        return (O.LowRankRootAddedDiagLinearOperator(O.LowRankRootLinearOperator(r), O.ConstantDiagLinearOperator(v, diag_shape=n)),
                r @ r.mT + torch.diag_embed(v.expand(*batch, n)))

    def constmul_neg(g, dt, batch, n):
        a = Z.spd(g, batch, n, dt)
        c = -(Z.rn(g, *batch, dtype=dt).abs() + 0.5) if batch else torch.tensor(-1.7, dtype=dt)
        return O.ConstantMulLinearOperator(O.DenseLinearOperator(a), c), a * c[..., None, None]

    def sum3(g, dt, batch, n):
        a = Z.spd(g, batch, n, dt)
        d = Z.rn(g, *batch, n, dtype=dt).abs() + 0.5
        r = Z.rn(g, *batch, n, 2, dtype=dt)
        return O.SumLinearOperator(O.DenseLinearOperator(a), O.DiagLinearOperator(d), O.RootLinearOperator(r)), a + torch.diag_embed(d) + r @ r.mT

    for c in [
        Z.Case("x_root_wide", "RootLinearOperator", root_wide, psd=True),
        Z.Case("x_root_square", "RootLinearOperator", root_square, psd=True),
        Z.Case("x_diag_neg", "DiagLinearOperator", diag_neg),
        Z.Case("x_constdiag_neg", "ConstantDiagLinearOperator", constdiag_neg),
        Z.Case("x_kron_diag_dense", "KroneckerProductLinearOperator", kron_rootdiag, psd=True),
        Z.Case("x_addeddiag_const", "AddedDiagLinearOperator", addeddiag_const, psd=True),
        Z.Case("x_addeddiag_toeplitz", "AddedDiagLinearOperator", addeddiag_toeplitz, psd=True),
        Z.Case("x_lrr_addeddiag_const", "LowRankRootAddedDiagLinearOperator", lrr_addeddiag_const, psd=True),
        Z.Case("x_constmul_neg", "ConstantMulLinearOperator", constmul_neg),
        Z.Case("x_sum3", "SumLinearOperator", sum3, psd=True),
    ]:
        EXTRA[c.name] = c


# torch-free list of the extra case names (kept in sync by _selfcheck_names)
EXTRA_NAMES = ["x_root_wide", "x_root_square", "x_diag_neg", "x_constdiag_neg", "x_kron_diag_dense", "x_addeddiag_const",
               "x_addeddiag_toeplitz", "x_lrr_addeddiag_const", "x_constmul_neg", "x_sum3"]


def case_of(name):
    return EXTRA[name] if name in EXTRA else zoo.BY_NAME[name]


def all_case_names():
    from contracts.zoo_names import CASE_NAMES

    return list(CASE_NAMES) + list(EXTRA_NAMES)


# ------------------------------------------------------------------------------------------
# unit 1: the class-pair table for +, -, add/sub(alpha), @ (both operand orders arise because every
# ordered pair is enumerated)

PREF_SHAPES = [(4, 4), (6, 6), (3, 4), (4, 6), (6, 4), (2, 3), (9, 9), (2, 2), (3, 3), (5, 5), (1, 1), (1, 2), (2, 4)]


def _pair_plan(tier):
    """[(shape index, dtype name, batchA, batchB)]"""
    f64, f32 = "float64", "float32"
    first = [(f64, (), ()), (f64, (2,), (2,)), (f64, (2,), ()), (f64, (), (2,)), (f64, (1,), (2,)), (f64, (2, 1), (3,)),
             (f32, (), ()), (f32, (2,), (1,))]
    second = [(f64, (), ()), (f64, (3,), (1,)), (f32, (1, 2), (2,))]
    if tier != "quick":
        first += [(f64, (3, 1, 2), (2, 1)), (f64, (1, 1), ()), (f32, (2,), (2,)), (f32, (), (3, 2)), (f64, (2, 3), (2, 3))]
        second += [(f64, (2,), (2,)), (f64, (), (2, 2)), (f32, (), ())]
    return first, second


def _compatible(shA, shB, kind):
    return shA == shB if kind == "addsub" else shA[1] == shB[0]


def rtc_pairs(left_names, tier):
    _init()
    rec = Recorder(PID)
    first, second = _pair_plan(tier)
    names = all_case_names()
    for an in left_names:
        A = case_of(an)
        tabA = shape_table(A)
        for bn in names:
            B = case_of(bn)
            tabB = shape_table(B)
            common = [s for s in PREF_SHAPES if s in tabA.values() and s in tabB.values()]
            extra = sorted((set(tabA.values()) & set(tabB.values())) - set(common))
            common += extra
            plans = []
            for i, s in enumerate(common[: (2 if tier == "quick" else 4)]):
                for (dtn, bA, bB) in (first if i == 0 else second):
                    plans.append((s, s, dtn, bA, bB, True))
            # matmul-only shape combinations (rectangular inner dimension)
            mm = [(sa, sb) for sa in tabA.values() for sb in tabB.values() if sa[1] == sb[0] and sa != sb and max(sa + sb) <= 7]
            mm.sort(key=lambda p: (-(p[0][0] != p[0][1]) - (p[1][0] != p[1][1]), -sum(p[0] + p[1])))
            for i, (sa, sb) in enumerate(mm[: (1 if tier == "quick" else 3)]):
                for (dtn, bA, bB) in (second if tier == "quick" else first):
                    plans.append((sa, sb, dtn, bA, bB, False))
            for (sa, sb, dtn, bA, bB, addsub) in plans:
                dt = getattr(torch, dtn)
                if not (dtype_ok(A, dt) and dtype_ok(B, dt) and batch_ok(A, bA) and batch_ok(B, bB)):
                    continue
                _pair_cell(rec, A, B, dt, bA, bB, n_for(A, sa), n_for(B, sb), addsub)
    return rec.obligations()


def _pair_cell(rec, A, B, dt, bA, bB, nA, nB, addsub):
    try:
        a, da = build(A, dt, bA, nA, "L", B.name, bB)
        b, db = build(B, dt, bB, nB, "R", A.name, bA)
    except Exception as e:  # noqa
        rec.check(f"construct/{A.name}", f"{A.name}|{B.name}|{_dts(dt)}|{bA}|{bB}|{nA}|{nB}", False, f"constructor raised {e!r}")
        return
    if da.dtype != db.dtype:  # perm/tperm are float32-only
        return
    try:
        torch.broadcast_shapes(da.shape[:-2], db.shape[:-2])
    except RuntimeError:
        return  # batch shapes that torch would not broadcast are outside the quantifier (C19)
    lab = f"{A.name}[{_dts(da.dtype)}|b={tuple(da.shape[:-2])}|{da.shape[-2]}x{da.shape[-1]}] . {B.name}[b={tuple(db.shape[:-2])}|{db.shape[-2]}x{db.shape[-1]}]"
    pd = A.psd and B.psd
    if addsub:
        # adding a root-form operator goes through add_low_rank (root decompositions): PSD operands only
        if not (is_root(b) and not A.psd):
            check_value(rec, f"add/{A.name}+{B.name}", lab, lambda: a + b, da + db)
        if not (root_after_mul(b, -1) and not A.psd):
            check_value(rec, f"sub/{A.name}-{B.name}", lab, lambda: a - b, da - db)
        if not bA and not bB or (bA, bB) == ((2,), (1,)):
            if not (is_root(b) and not A.psd):
                check_value(rec, f"add_method/{A.name}+{B.name}", lab + "|add()", lambda: a.add(b), da + db)
            if not (root_after_mul(b, 2.5) and not A.psd):
                check_value(rec, f"add_method/{A.name}+{B.name}", lab + "|add(alpha=2.5)", lambda: a.add(b, alpha=2.5), da + 2.5 * db)
            check_value(rec, f"sub_method/{A.name}-{B.name}", lab + "|sub(alpha=0.5)", lambda: a.sub(b, alpha=0.5), da - 0.5 * db)
            if not (root_after_mul(b, 1.5) and not A.psd):
                check_value(rec, f"sub_method/{A.name}-{B.name}", lab + "|sub(alpha=-1.5)", lambda: a.sub(b, alpha=-1.5), da + 1.5 * db)
        if pd and da.shape[-1] == da.shape[-2]:
            # operator-by-operator elementwise product (root decompositions): PSD operands
            check_value(rec, f"mul_op/{A.name}*{B.name}", lab, lambda: a * b, da * db, scale=100.0)
    if da.shape[-1] == db.shape[-2]:
        check_value(rec, f"matmul/{A.name}@{B.name}", lab, lambda: a @ b, da @ db, scale=max(1, da.shape[-1]))


def rtc_units(tier):
    names = all_case_names()
    us = []
    chunk = 4 if tier == "quick" else 2
    for i in range(0, len(names), chunk):
        part = names[i:i + chunk]
        us.append(Unit(f"C02/rtc/pairs[{','.join(part)}]", "contracts.rtc_C02", "rtc_pairs", (part, tier), engine="rtc", timeout_s=1500))
    return us


RTC_META = {
    "explanation": "bounded run-time contracts: every expression step on the real code is compared with the same step on the dense oracles",
    "assumptions": [],
    "families": "",
}
