"""C02 — bounded tier: composition and structure-preserving rewrites never change the matrix.

Run-time contracts on the real code: every expression step `r = a (.) b` (or unary/batch rewrite) built
from zoo operators / tensors / scalars is compared with the same step evaluated on the independent dense
oracles with torch broadcasting semantics: shape, dtype, to_dense() value, and a matmul probe of the
result (the result *is* an operator: its action must be the action of the dense value).

Torch-free at import time (the driver imports this module); all torch imports happen in `_init()`.
"""
from __future__ import annotations

import itertools
import zlib

from engine.common import Unit

PID = "C02"

torch = zoo = O = LinearOperator = Recorder = None
SEED = 0


def _init():
    global torch, zoo, O, LinearOperator, Recorder, SEED
    if torch is None:
        import warnings

        import torch as _torch
        from contracts import zoo as _zoo
        from contracts.rtc_common import Recorder as _Recorder
        from engine.common import SEED as _SEED
        from linear_operator import operators as _O

        warnings.simplefilter("ignore")
        torch, zoo, O, LinearOperator, Recorder, SEED = _torch, _zoo, _O, _O.LinearOperator, _Recorder, _SEED
        torch.set_num_threads(1)
        _extra_cases()


# ------------------------------------------------------------------------------------------
# helpers


def _seed(*key):
    return zlib.crc32(repr((key, SEED)).encode()) % (2**31)


def _dts(dt):
    return str(dt)[6:]


def dn(r):
    return r.to_dense() if isinstance(r, LinearOperator) else r


def _probe(cols, dt):
    i = torch.arange(cols * 2, dtype=torch.float64).reshape(cols, 2)
    return torch.cos(1.0 + 0.7 * i).to(dt)


# explicit "not supported" errors the property allows in place of a result
UNSUPPORTED = (NotImplementedError,)
# the probe `result @ X` is one more program step: it gets its own group (<group>.next!) so that every group has one root cause;
# the trailing "!" lets a known-finding glob exclude it (`*[!!]`)
NEXT = ".next!"


def check_value(rec, group, label, fn, expected, scale=1.0, allowed=UNSUPPORTED, probe=True, want_tensor=None, dtype=None):
    """evaluate fn() on the real code; contract: shape, dtype and dense value equal ``expected``"""
    done, r = rec.guard(group, label, fn, allowed=allowed)
    if not done:
        return None
    if not (isinstance(r, LinearOperator) or torch.is_tensor(r)):
        rec.check(group, label, False, f"result is a {type(r).__name__}, not an operator/tensor")
        return None
    if want_tensor is not None and torch.is_tensor(r) != want_tensor:
        rec.check(group, label, False, f"result kind {type(r).__name__}; expected {'Tensor' if want_tensor else 'LinearOperator'}")
        return None
    if tuple(r.shape) != tuple(expected.shape):
        rec.check(group, label, False, f"shape {tuple(r.shape)} != dense shape {tuple(expected.shape)} ({type(r).__name__})")
        return None
    try:
        d = dn(r)
    except Exception as e:  # noqa
        rec.check(group, label, False, f"to_dense() of the {type(r).__name__} result raised {type(e).__name__}: {e}"[:500])
        return None
    if tuple(d.shape) != tuple(expected.shape):
        rec.check(group, label, False, f"to_dense shape {tuple(d.shape)} != {tuple(expected.shape)} ({type(r).__name__})")
        return None
    want_dt = dtype or expected.dtype
    if d.dtype != want_dt or (isinstance(r, LinearOperator) and r.dtype != want_dt):
        rec.check(group, label, False, f"dtype {d.dtype}/{getattr(r, 'dtype', None)} != {want_dt} ({type(r).__name__})")
        return None
    if not zoo.close(d, expected.to(d.dtype), scale=scale):
        err = float((d.double() - expected.double()).abs().max())
        rec.check(group, label, False, f"value differs from the dense evaluation: max abs err {err:.3e} (ref {float(expected.abs().max()):.3e}) result type {type(r).__name__}")
        return None
    rec.check(group, label, True)
    if probe and isinstance(r, LinearOperator) and expected.dim() >= 2 and expected.shape[-1] > 0:
        X = _probe(expected.shape[-1], d.dtype)
        try:
            y = r @ X
            ok = tuple(y.shape) == tuple((expected @ X).shape) and zoo.close(dn(y), expected.to(d.dtype) @ X, scale=scale * max(1, expected.shape[-1]))
            rec.check(group + NEXT, label + "|probe=matmul", ok, f"(result @ X) differs from dense (result type {type(r).__name__})")
        except UNSUPPORTED:
            pass
        except Exception as e:  # noqa
            rec.check(group + NEXT, label + "|probe=matmul", False, f"(result @ X) raised {type(e).__name__}: {e}"[:400] + f" (result type {type(r).__name__})")
    return r


_SHAPES = {}


def shape_table(case, nmax=9):
    """{n: matrix shape} of a zoo case, found by building it (batch-free where possible)"""
    t = _SHAPES.get(case.name)
    if t is None:
        t = {}
        for n in range(1, nmax + 1):
            if case.name == "tperm" and n > 3:
                continue
            try:
                b = (2,) if case.name == "cat_batch" else ()
                _, d = case.build(zoo.gen(1), torch.float32 if case.name in ("perm", "tperm") else torch.float64, b, n)
                t[n] = tuple(d.shape[-2:])
            except Exception:
                pass
        _SHAPES[case.name] = t
    return t


def n_for(case, shape):
    for n, s in shape_table(case).items():
        if s == tuple(shape):
            return n
    return None


def batch_ok(case, batch):
    if case.name == "cat_batch" and not batch:
        return False
    if case.name == "tperm" and batch:
        return False
    return True


def dtype_ok(case, dt):
    return dt == torch.float32 if case.name in ("perm", "tperm") else True


def build(case, dt, batch, n, *key):
    """fresh instance (op, dense); seed depends on everything that identifies the cell"""
    return case.build(zoo.gen(_seed(case.name, _dts(dt), tuple(batch), n, *key)), dt, tuple(batch), n)


def is_root(op):
    return isinstance(op, O.RootLinearOperator)


def root_after_mul(op, c):
    """would ``op * c`` be a root-form operator (so that ``x + op*c`` takes the add_low_rank path)?"""
    try:
        return is_root(op.mul(c))
    except Exception:  # noqa
        return False


EXTRA = {}


def _extra_cases():
    """cases not in the shared zoo: exactly-PSD (semi-definite) root forms, negative/indefinite structured operators,
    operators with different child classes (dispatch sometimes looks at the class of a direct child)"""
    Z = zoo

    def root_wide(g, dt, batch, n):
        r = Z.rn(g, *batch, n, n + 1, dtype=dt)
        return O.RootLinearOperator(r), r @ r.mT

    def root_square(g, dt, batch, n):
        r = Z.rn(g, *batch, n, n, dtype=dt) + 2 * torch.eye(n, dtype=dt)
        return O.RootLinearOperator(r), r @ r.mT

    def diag_neg(g, dt, batch, n):
        d = Z.rn(g, *batch, n, dtype=dt)
        return O.DiagLinearOperator(d), torch.diag_embed(d)

    def constdiag_neg(g, dt, batch, n):
        v = -(Z.rn(g, *batch, 1, dtype=dt).abs() + 0.5)
        return O.ConstantDiagLinearOperator(v, diag_shape=n), torch.diag_embed(v.expand(*batch, n))

    def kron_rootdiag(g, dt, batch, n):
        a_, b_ = Z._factor_sizes(n)
        d1 = Z.rn(g, *batch, a_, dtype=dt).abs() + 0.5
        B = Z.spd(g, batch, b_, dt)
        return O.KroneckerProductLinearOperator(O.DiagLinearOperator(d1), O.DenseLinearOperator(B)), Z.kron(torch.diag_embed(d1), B)

    def addeddiag_const(g, dt, batch, n):
        a = Z.spd(g, batch, n, dt)
        v = Z.rn(g, *batch, 1, dtype=dt).abs() + 0.5
        return O.AddedDiagLinearOperator(O.DenseLinearOperator(a), O.ConstantDiagLinearOperator(v, diag_shape=n)), a + torch.diag_embed(v.expand(*batch, n))

    def addeddiag_toeplitz(g, dt, batch, n):
        c = Z.rn(g, *batch, n, dtype=dt) * 0.3
        c[..., 0] = c[..., 0].abs() + n
        d = Z.rn(g, *batch, n, dtype=dt).abs() + 0.5
        return O.AddedDiagLinearOperator(O.ToeplitzLinearOperator(c), O.DiagLinearOperator(d)), Z.toeplitz_dense(c) + torch.diag_embed(d)

    def lrr_addeddiag_const(g, dt, batch, n):
        r = Z.rn(g, *batch, n, max(1, n // 2), dtype=dt)
        v = Z.rn(g, *batch, 1, dtype=dt).abs() + 0.5
        return (O.LowRankRootAddedDiagLinearOperator(O.LowRankRootLinearOperator(r), O.ConstantDiagLinearOperator(v, diag_shape=n)),
                r @ r.mT + torch.diag_embed(v.expand(*batch, n)))

    def constmul_neg(g, dt, batch, n):
        a = Z.spd(g, batch, n, dt)
        c = -(Z.rn(g, *batch, dtype=dt).abs() + 0.5) if batch else torch.tensor(-1.7, dtype=dt)
        return O.ConstantMulLinearOperator(O.DenseLinearOperator(a), c), a * c[..., None, None]

    def sum3(g, dt, batch, n):
        a = Z.spd(g, batch, n, dt)
        d = Z.rn(g, *batch, n, dtype=dt).abs() + 0.5
        r = Z.rn(g, *batch, n, 2, dtype=dt)
        return O.SumLinearOperator(O.DenseLinearOperator(a), O.DiagLinearOperator(d), O.RootLinearOperator(r)), a + torch.diag_embed(d) + r @ r.mT

    def zero_square(g, dt, batch, n):
        return O.ZeroLinearOperator(*batch, n, n, dtype=dt), torch.zeros(*batch, n, n, dtype=dt)

    for c in [
        Z.Case("x_zero_square", "ZeroLinearOperator", zero_square),
        Z.Case("x_root_wide", "RootLinearOperator", root_wide, psd=True),
        Z.Case("x_root_square", "RootLinearOperator", root_square, psd=True),
        Z.Case("x_diag_neg", "DiagLinearOperator", diag_neg),
        Z.Case("x_constdiag_neg", "ConstantDiagLinearOperator", constdiag_neg),
        Z.Case("x_kron_diag_dense", "KroneckerProductLinearOperator", kron_rootdiag, psd=True),
        Z.Case("x_addeddiag_const", "AddedDiagLinearOperator", addeddiag_const, psd=True),
        Z.Case("x_addeddiag_toeplitz", "AddedDiagLinearOperator", addeddiag_toeplitz, psd=True),
        Z.Case("x_lrr_addeddiag_const", "LowRankRootAddedDiagLinearOperator", lrr_addeddiag_const, psd=True),
        Z.Case("x_constmul_neg", "ConstantMulLinearOperator", constmul_neg),
        Z.Case("x_sum3", "SumLinearOperator", sum3, psd=True),
    ]:
        EXTRA[c.name] = c


# torch-free list of the extra case names (kept in sync by _selfcheck_names)
EXTRA_NAMES = ["x_zero_square", "x_root_wide", "x_root_square", "x_diag_neg", "x_constdiag_neg", "x_kron_diag_dense", "x_addeddiag_const",
               "x_addeddiag_toeplitz", "x_lrr_addeddiag_const", "x_constmul_neg", "x_sum3"]


def case_of(name):
    return EXTRA[name] if name in EXTRA else zoo.BY_NAME[name]


def all_case_names():
    from contracts.zoo_names import CASE_NAMES

    return list(CASE_NAMES) + list(EXTRA_NAMES)


# ------------------------------------------------------------------------------------------
# unit 1: the class-pair table for +, -, add/sub(alpha), @ (both operand orders arise because every
# ordered pair is enumerated)

PREF_SHAPES = [(4, 4), (6, 6), (3, 4), (4, 6), (6, 4), (2, 3), (9, 9), (2, 2), (3, 3), (5, 5), (1, 1), (1, 2), (2, 4)]


def _pair_plan(tier):
    """batch-shape pairs / dtypes evaluated for the first and for the further common matrix shapes of a class pair"""
    f64, f32 = "float64", "float32"
    first = [(f64, (), ()), (f64, (2,), (2,)), (f64, (2,), ()), (f64, (1,), (2,)), (f64, (2, 1), (3,)), (f32, (2,), (1,))]
    second = [(f64, (3,), (1,)), (f32, (), ())]
    if tier != "quick":
        first += [(f32, (), (2,)), (f64, (), (2,)), (f64, (3, 1, 2), (2, 1)), (f64, (1, 1), ()), (f32, (2,), (2,)), (f32, (), (3, 2)), (f64, (2, 3), (2, 3)), (f32, (), ())]
        second += [(f64, (), ()), (f64, (2,), (2,)), (f64, (), (2, 2)), (f32, (1, 2), (2,))]
    return first, second


def _compatible(shA, shB, kind):
    return shA == shB if kind == "addsub" else shA[1] == shB[0]


def rtc_pairs(left_names, tier):
    _init()
    rec = Recorder(PID)
    first, second = _pair_plan(tier)
    names = all_case_names()
    for an in left_names:
        A = case_of(an)
        tabA = shape_table(A)
        for bn in names:
            B = case_of(bn)
            tabB = shape_table(B)
            common = [s for s in PREF_SHAPES if s in tabA.values() and s in tabB.values()]
            extra = sorted((set(tabA.values()) & set(tabB.values())) - set(common))
            common += extra
            plans = []
            for i, s in enumerate(common[: (2 if tier == "quick" else 4)]):
                for (dtn, bA, bB) in (first if i == 0 else second):
                    plans.append((s, s, dtn, bA, bB, True))
            # matmul-only shape combinations (rectangular inner dimension)
            mm = [(sa, sb) for sa in tabA.values() for sb in tabB.values() if sa[1] == sb[0] and sa != sb and max(sa + sb) <= 7]
            mm.sort(key=lambda p: (-(p[0][0] != p[0][1]) - (p[1][0] != p[1][1]), -sum(p[0] + p[1])))
            for i, (sa, sb) in enumerate(mm[: (1 if tier == "quick" else 3)]):
                for (dtn, bA, bB) in (second + first[:1] if tier == "quick" else first):
                    plans.append((sa, sb, dtn, bA, bB, False))
            for (sa, sb, dtn, bA, bB, addsub) in plans:
                dt = getattr(torch, dtn)
                if not (dtype_ok(A, dt) and dtype_ok(B, dt) and batch_ok(A, bA) and batch_ok(B, bB)):
                    continue
                _pair_cell(rec, A, B, dt, bA, bB, n_for(A, sa), n_for(B, sb), addsub, full=(tier != "quick"))
    return rec.obligations()


def _pair_cell(rec, A, B, dt, bA, bB, nA, nB, addsub, full=False):
    try:
        a, da = build(A, dt, bA, nA, "L", B.name, bB)
        b, db = build(B, dt, bB, nB, "R", A.name, bA)
    except Exception as e:  # noqa
        rec.check(f"construct/{A.name}", f"{A.name}|{B.name}|{_dts(dt)}|{bA}|{bB}|{nA}|{nB}", False, f"constructor raised {e!r}")
        return
    if da.dtype != db.dtype:  # perm/tperm are float32-only
        return
    try:
        torch.broadcast_shapes(da.shape[:-2], db.shape[:-2])
    except RuntimeError:
        return  # batch shapes that torch would not broadcast are outside the quantifier (C19)
    bc = "same" if da.shape[:-2] == db.shape[:-2] else "bcast"
    lab = f"{A.name}[{_dts(da.dtype)}|b={tuple(da.shape[:-2])}|{da.shape[-2]}x{da.shape[-1]}] . {B.name}[b={tuple(db.shape[:-2])}|{db.shape[-2]}x{db.shape[-1]}]|{bc}"
    pd = A.psd and B.psd
    if addsub:
        # adding a root-form operator goes through add_low_rank (root decompositions): PSD operands only
        if not (is_root(b) and not A.psd):
            check_value(rec, f"add/{A.name}+{B.name}", lab, lambda: a + b, da + db)
        if not (root_after_mul(b, -1) and not A.psd):
            check_value(rec, f"sub/{A.name}-{B.name}", lab, lambda: a - b, da - db)
        if not bA and not bB or (bA, bB) == ((2,), (1,)):
            if not (is_root(b) and not A.psd):
                check_value(rec, f"add_method/{A.name}+{B.name}", lab + "|add()", lambda: a.add(b), da + db)
            if not (root_after_mul(b, 2.5) and not A.psd):
                check_value(rec, f"add_method/{A.name}+{B.name}", lab + "|add(alpha=2.5)", lambda: a.add(b, alpha=2.5), da + 2.5 * db)
            check_value(rec, f"sub_method/{A.name}-{B.name}", lab + "|sub(alpha=0.5)", lambda: a.sub(b, alpha=0.5), da - 0.5 * db)
            if not (root_after_mul(b, 1.5) and not A.psd):
                check_value(rec, f"sub_method/{A.name}-{B.name}", lab + "|sub(alpha=-1.5)", lambda: a.sub(b, alpha=-1.5), da + 1.5 * db)
        if pd and da.shape[-1] == da.shape[-2] and (full or (bA, bB) in (((), ()), ((2,), (2,)), ((1,), (2,)), ((3,), (1,)))):
            # operator-by-operator elementwise product (root decompositions): PSD operands
            check_value(rec, f"mul_op{'' if bc == 'same' else '_bcast'}/{A.name}%{B.name}", lab, lambda: a * b, da * db, scale=100.0)
    if da.shape[-1] == db.shape[-2]:
        check_value(rec, f"matmul/{A.name}@{B.name}", lab, lambda: a @ b, da @ db, scale=max(1, da.shape[-1]))



# ------------------------------------------------------------------------------------------
# per-case families: fresh instances over dtype x batch shape x size


BATCHES_Q = [(), (2,), (1,), (2, 3), (1, 3)]
BATCHES_T = BATCHES_Q + [(3, 1, 2), (1, 1), (2, 1)]
SIZES_Q = [1, 3, 4]
SIZES_T = [1, 2, 3, 4, 6]


def _instances(names, tier, batches=None, sizes=None, dtypes=None, square=None, psd=None):
    """yield (label, case, mk, dense): mk() builds a *fresh* operator with identical values.
    quick: float64 over all batch shapes x sizes, float32 over a sub-grid; thorough: the full product"""
    batches = batches or (BATCHES_Q if tier == "quick" else BATCHES_T)
    sizes = sizes or (SIZES_Q if tier == "quick" else SIZES_T)
    if dtypes is not None or tier != "quick":
        grid = list(itertools.product(dtypes or [torch.float64, torch.float32], batches, sizes))
    else:
        grid = list(itertools.product([torch.float64], batches, sizes))
        grid += list(itertools.product([torch.float32], [b for i, b in enumerate(batches) if i % 2 == 1] or batches[:1], sizes[-2:]))
    for name in names:
        c = case_of(name)
        if psd is not None and c.psd != psd:
            continue
        for dt, batch, n in grid:
            if c.name in ("perm", "tperm"):
                dt = torch.float32  # float32-only classes: use the whole grid in float32
            if not (dtype_ok(c, dt) and batch_ok(c, batch)) or (c.name == "tperm" and n > 3):
                continue

            def mk(c=c, dt=dt, batch=batch, n=n):
                return build(c, dt, batch, n, "inst")[0]

            try:
                _, d = build(c, dt, batch, n, "inst")
            except Exception as e:  # noqa
                yield f"{c.name}|{_dts(dt)}|b={batch}|n={n}", c, None, e
                continue
            if square is not None and (d.shape[-1] == d.shape[-2]) != square:
                continue
            yield f"{c.name}|{_dts(d.dtype)}|b={tuple(d.shape[:-2])}|{d.shape[-2]}x{d.shape[-1]}", c, mk, d


class _default_dtype:
    def __init__(self, dt):
        self.dt = dt

    def __enter__(self):
        self.old = torch.get_default_dtype()
        torch.set_default_dtype(self.dt)

    def __exit__(self, *a):
        torch.set_default_dtype(self.old)


def rtc_tensor_operands(names, tier):
    """operator (+,-,*,/) tensor in both operand orders; tensor batch shapes: same / none / all-ones / extra leading / partial"""
    _init()
    rec = Recorder(PID)
    for label, c, mk, d in _instances(names, tier, sizes=([1, 3] if tier == "quick" else None)):
        if mk is None:
            rec.check(f"construct/{c.name}", label, False, f"constructor raised {d!r}")
            continue
        op = mk()
        dt = d.dtype
        batch, (m, n) = tuple(d.shape[:-2]), d.shape[-2:]
        g = zoo.gen(_seed(label, "T"))
        shapes = {"same": (*batch, m, n), "extra": (3, *batch, m, n)}
        if batch:
            shapes["nobatch"] = (m, n)
            shapes["ones"] = (*[1] * len(batch), m, n)
        if len(batch) >= 2:
            shapes["partial"] = (*batch[1:], m, n)
        for kind, sh in shapes.items():
            T = zoo.rn(g, *sh, dtype=dt)
            Tnz = torch.where(T >= 0, T + 0.5, T - 0.5)
            lab = f"{label}|T={kind}"
            cn = f"{c.name}/T={kind}" + ("_1x1" if (m, n) == (1, 1) else "")
            check_value(rec, f"add_tensor/{cn}", lab + "|op+T", lambda: op + T, d + T)
            check_value(rec, f"radd_tensor/{cn}", lab + "|T+op", lambda: T + op, T + d)
            check_value(rec, f"sub_tensor/{cn}", lab + "|op-T", lambda: op - T, d - T)
            check_value(rec, f"rsub_tensor/{cn}", lab + "|T-op", lambda: T - op, T - d)
            check_value(rec, f"mul_tensor/{cn}", lab + "|op*T", lambda: op * T, d * T)
            check_value(rec, f"rmul_tensor/{cn}", lab + "|T*op", lambda: T * op, T * d)
            check_value(rec, f"div_tensor/{cn}", lab + "|op/T", lambda: op / Tnz, d / Tnz)
            if kind in ("same", "extra", "nobatch"):
                check_value(rec, f"add_tensor/{cn}", lab + "|op.add(T,alpha=-2)", lambda: op.add(T, alpha=-2.0), d - 2.0 * T)
                check_value(rec, f"sub_tensor/{cn}", lab + "|op.sub(T,alpha=0.5)", lambda: op.sub(T, alpha=0.5), d - 0.5 * T)
                check_value(rec, f"mul_tensor/{cn}", lab + "|op.mul(T)", lambda: op.mul(T), d * T)
                check_value(rec, f"div_tensor/{cn}", lab + "|op.div(T)", lambda: op.div(Tnz), d / Tnz)
    return rec.obligations()


def rtc_scalars(names, tier):
    """operator * c, c * operator, operator / c for every scalar kind"""
    _init()
    rec = Recorder(PID)
    for label, c, mk, d in _instances(names, tier, sizes=([1, 3] if tier == "quick" else None)):
        if mk is None:
            rec.check(f"construct/{c.name}", label, False, f"constructor raised {d!r}")
            continue
        op = mk()
        dt = d.dtype
        batch = tuple(d.shape[:-2])
        g = zoo.gen(_seed(label, "S"))
        t = lambda v: torch.tensor(v, dtype=dt)  # noqa
        kinds = [("py_pos", 2.5), ("py_neg", -1.5), ("py_zero", 0.0), ("py_int", 3), ("py_one", 1.0), ("py_negint", -2),
                 ("t0_pos", t(2.5)), ("t0_neg", t(-1.5)), ("t0_zero", t(0.0)), ("t1_pos", t([2.5])), ("t11_neg", t([[-0.5]])), ("t111_pos", t([[[1.5]]]))]
        if batch:
            cb = zoo.rn(g, *batch, 1, 1, dtype=dt).abs() + 0.5
            sg = torch.where(torch.arange(cb.numel()).reshape(cb.shape) % 2 == 0, 1.0, -1.0).to(dt)
            kinds += [("tb_pos", cb), ("tb_mixed", cb * sg), ("tb_neg", -cb), ("tb_ones_shape", t(1.75).reshape(*[1] * len(batch), 1, 1)), ("tb_extra", zoo.rn(g, 3, *batch, 1, 1, dtype=dt).abs() + 0.5)]
            z = cb.clone()
            z.view(-1)[0] = 0.0
            kinds.append(("tb_withzero", z))
            if len(batch) >= 2:
                kinds.append(("tb_partial_lead", zoo.rn(g, batch[0], *[1] * (len(batch) - 1), 1, 1, dtype=dt) - 0.3))
                kinds.append(("tb_partial_trail", zoo.rn(g, batch[-1], 1, 1, dtype=dt).abs() + 0.5))
        else:
            kinds += [("tb_extra", zoo.rn(g, 3, 1, 1, dtype=dt) + 0.2), ("tb_extra2", zoo.rn(g, 2, 1, 1, 1, dtype=dt).abs() + 0.5)]
        cn = c.name
        for kind, cst in kinds:
            lab = f"{label}|c={kind}"
            exp = d * cst
            # one group per (operation, case, kind class): python number / 0-d / 1-element / batch of constants with the operator's batch
            # shape / partially specified batch / larger batch / 1-element constant with MORE dims than the operator
            kc = ("py" if not torch.is_tensor(cst) else "t111" if (cst.numel() == 1 and cst.dim() > d.dim()) else "t0" if cst.dim() == 0 else "t1elt" if kind.startswith("t1") or kind == "tb_ones_shape"
                  else "tb_partial" if kind.startswith("tb_partial") else "tb_extra" if kind.startswith("tb_extra") else "tb")
            gn = f"{c.name}/{kc}"
            check_value(rec, f"mul_scalar/{gn}", lab + "|op*c", lambda: op * cst, exp, dtype=dt)
            check_value(rec, f"rmul_scalar/{gn}", lab + "|c*op", lambda: cst * op, exp, dtype=dt)
            if kind in ("py_pos", "t0_neg", "tb_mixed", "tb_pos"):
                check_value(rec, f"mul_scalar/{gn}", lab + "|op.mul(c)", lambda: op.mul(cst), exp, dtype=dt)
            nonzero = bool((cst != 0).all()) if torch.is_tensor(cst) else cst != 0
            if nonzero:
                check_value(rec, f"div_scalar/{gn}", lab + "|op/c", lambda: op / cst, d / cst, dtype=dt)
                if kind in ("py_neg", "t0_pos", "tb_mixed"):
                    check_value(rec, f"div_scalar/{gn}", lab + "|op.div(c)", lambda: op.div(cst), d / cst, dtype=dt)
        # python scalars while torch's default dtype differs from the operator's dtype
        other = torch.float64 if dt == torch.float32 else torch.float32
        with _default_dtype(other):
            lab = f"{label}|default={_dts(other)}"
            check_value(rec, f"mul_scalar/{cn}/py", lab + "|c=py_pos|op*c", lambda: op * 2.5, d * 2.5, dtype=dt)
            check_value(rec, f"rmul_scalar/{cn}/py", lab + "|c=py_neg|c*op", lambda: -1.5 * op, d * -1.5, dtype=dt)
            check_value(rec, f"div_scalar/{cn}/py", lab + "|c=py_neg|op/c", lambda: op / -4.0, d / -4.0, dtype=dt)
    return rec.obligations()


def _perms(k):
    return list(itertools.permutations(range(k)))


def rtc_batch_ops(names, tier):
    """expand / repeat / unsqueeze / squeeze / permute / transpose of batch dims / sum (every dim, None) / mT"""
    _init()
    rec = Recorder(PID)
    for label, c, mk, d in _instances(names, tier):
        if mk is None:
            rec.check(f"construct/{c.name}", label, False, f"constructor raised {d!r}")
            continue
        op = mk()
        cn = c.name
        batch, (m, n) = tuple(d.shape[:-2]), d.shape[-2:]
        nb = len(batch)
        nd = nb + 2
        # expand
        targets = {"same": (*batch, m, n), "lead2": (2, *batch, m, n), "lead31": (3, 1, *batch, m, n)}
        if 1 in batch:
            targets["ones_to_3"] = (*[3 if b == 1 else b for b in batch], m, n)
            targets["lead2_ones_to_3"] = (2, *[3 if b == 1 else b for b in batch], m, n)
        for k, tgt in targets.items():
            check_value(rec, f"expand/{cn}", f"{label}|expand{tgt}", lambda: op.expand(*tgt), d.expand(*tgt))
            if k in ("lead2", "ones_to_3"):
                check_value(rec, f"expand/{cn}", f"{label}|expand(Size{tgt})", lambda: op.expand(torch.Size(tgt)), d.expand(*tgt))
                t2 = (*tgt[:-2], -1, -1)
                check_value(rec, f"expand/{cn}", f"{label}|expand{t2}", lambda: op.expand(*t2), d.expand(*t2))
        if batch:
            # "Passing -1 as the size for a dimension means not changing the size of that dimension" (docstring of expand)
            t3 = (2, *[-1] * nb, m, n)
            check_value(rec, f"expand_minus1/{cn}", f"{label}|expand{t3}", lambda: op.expand(*t3), d.expand(*t3))
        # repeat
        reps = {"lead2": (2, *[1] * nd), "noop": tuple([1] * nd), "lead3x2": (3, 2, *[1] * nd)}
        if batch:
            reps["batch_x2"] = (*[2] * nb, 1, 1)
            reps["lead2_batch_x3_first"] = (2, 3, *[1] * (nb - 1), 1, 1)
        for k, r in reps.items():
            check_value(rec, f"repeat/{cn}", f"{label}|repeat{r}", lambda: op.repeat(*r), d.repeat(*r))
        # unsqueeze (only batch positions are supported)
        for dim in list(range(0, nb + 1)) + [-(3 + i) for i in range(0, nb + 1)]:
            check_value(rec, f"unsqueeze/{cn}", f"{label}|unsqueeze({dim})", lambda: op.unsqueeze(dim), d.unsqueeze(dim))
        # squeeze: every dim, positive and negative
        for dim in range(-nd, nd):
            pos = dim % nd
            is_mat = pos >= nb
            check_value(rec, f"squeeze/{cn}", f"{label}|squeeze({dim})", lambda: op.squeeze(dim), d.squeeze(dim),
                        want_tensor=(True if (is_mat and d.shape[pos] == 1) else False))
        # permute / transpose of batch dims
        if nb >= 1:
            for pm in _perms(nb):
                full = (*pm, nb, nb + 1)
                exp = d.permute(*full)
                check_value(rec, f"permute/{cn}", f"{label}|permute{full}", lambda: op.permute(*full), exp)
                neg = (*pm, -2, -1)
                check_value(rec, f"permute/{cn}", f"{label}|permute{neg}", lambda: op.permute(*neg), exp)
            allneg = tuple(i - nd for i in _perms(nb)[-1]) + (-2, -1)
            check_value(rec, f"permute/{cn}", f"{label}|permute(tuple{allneg})", lambda: op.permute(allneg), d.permute(*allneg))
        if nb >= 2:
            for (i, j) in [(0, 1), (1, 0), (0, nb - 1), (-3, -4), (-nd, nb - 1)]:
                check_value(rec, f"transpose_batch/{cn}", f"{label}|transpose({i},{j})", lambda: op.transpose(i, j), d.transpose(i, j))
            check_value(rec, f"transpose_batch_same_dim/{cn}", f"{label}|transpose(0,0)", lambda: op.transpose(0, 0), d.transpose(0, 0))
        check_value(rec, f"transpose_mat/{cn}", f"{label}|transpose(-1,-2)", lambda: op.transpose(-1, -2), d.mT)
        check_value(rec, f"transpose_mat/{cn}", f"{label}|transpose({nd - 2},{nd - 1})", lambda: op.transpose(nd - 2, nd - 1), d.mT)
        # sum
        check_value(rec, f"sum/{cn}", f"{label}|sum()", lambda: op.sum(), d.sum(), scale=max(1, m * n), want_tensor=True)
        for dim in range(-nd, nd):
            pos = dim % nd
            check_value(rec, f"sum/{cn}", f"{label}|sum({dim})", lambda: op.sum(dim), d.sum(dim), scale=max(1, d.shape[pos]), want_tensor=(pos >= nb))
    return rec.obligations()


def _psd_dense_ok(d):
    return d.shape[-1] == d.shape[-2]


def rtc_diag_lowrank(names, tier):
    """add_diagonal (0-d, 1-elt, full, batched, broadcast), add_jitter; on PSD operators add_low_rank, cat_rows, prod over batch dims"""
    _init()
    rec = Recorder(PID)
    for label, c, mk, d in _instances(names, tier):
        if mk is None:
            continue  # reported by the other families
        cn = c.name
        dt = d.dtype
        batch, (m, n) = tuple(d.shape[:-2]), d.shape[-2:]
        nb = len(batch)
        g = zoo.gen(_seed(label, "D"))
        op = mk()
        if m != n:
            # declared unsupported for non-square operators: must raise, never return
            done, r = rec.guard(f"add_diagonal_nonsquare/{cn}", label, lambda: op.add_diagonal(torch.ones(n, dtype=dt)), allowed=(RuntimeError, NotImplementedError))
            if done:
                rec.check(f"add_diagonal_nonsquare/{cn}", label, False, f"add_diagonal on a {m}x{n} operator returned a {type(r).__name__}")
            continue
        eye = torch.eye(n, dtype=dt)
        diags = {"0d": torch.tensor(0.75, dtype=dt), "0d_neg": torch.tensor(-0.25, dtype=dt), "1elt": torch.tensor([1.25], dtype=dt), "full": zoo.rn(g, n, dtype=dt).abs() + 0.1,
                 "full_signed": zoo.rn(g, n, dtype=dt)}
        if batch:
            diags["batched_full"] = zoo.rn(g, *batch, n, dtype=dt).abs() + 0.1
            diags["batched_1"] = zoo.rn(g, *batch, 1, dtype=dt).abs() + 0.1
            diags["ones_full"] = zoo.rn(g, *[1] * nb, n, dtype=dt)
        if nb >= 2:
            diags["partial_full"] = zoo.rn(g, *batch[1:], n, dtype=dt)
            diags["partial_1"] = zoo.rn(g, *batch[1:], 1, dtype=dt)
        for k, dg in diags.items():
            emb = torch.diag_embed(dg.expand(*dg.shape[:-1], n)) if dg.dim() else dg * eye
            check_value(rec, f"add_diagonal/{cn}", f"{label}|diag={k}{tuple(dg.shape)}", lambda: op.add_diagonal(dg), d + emb)
        # diagonal with a larger batch shape than the operator: documented as "... N"; either broadcast correctly or raise explicitly
        dg = zoo.rn(g, 3, *batch, n, dtype=dt)
        check_value(rec, f"add_diagonal_bigger_batch/{cn}", f"{label}|diag=extra{tuple(dg.shape)}", lambda: op.add_diagonal(dg), d + torch.diag_embed(dg), allowed=(RuntimeError, NotImplementedError))
        for jv in (None, 0.5, -0.125):
            if jv is None:
                check_value(rec, f"add_jitter/{cn}", f"{label}|jitter=default", lambda: op.add_jitter(), d + 1e-3 * eye)
            else:
                check_value(rec, f"add_jitter/{cn}", f"{label}|jitter={jv}", lambda: op.add_jitter(jv), d + jv * eye)
        if not c.psd:
            continue
        # ---- operations defined through root decompositions: PSD operands
        for k in (1, 2):
            for bk, bsh in {"same": batch, "nobatch": ()}.items():
                if bk == "nobatch" and not batch:
                    continue
                Bm = zoo.rn(g, *bsh, n, k, dtype=dt)
                exp = d + Bm @ Bm.mT
                for gr in (True, False):
                    check_value(rec, f"add_low_rank/{cn}", f"{label}|B={bk}{tuple(Bm.shape)}|generate_roots={gr}",
                                lambda: mk().add_low_rank(Bm, generate_roots=gr), exp, scale=10.0)
        if n >= 1:
            k = 2
            Cm = zoo.rn(g, *batch, k, n, dtype=dt) * 0.3
            Bm = Cm @ d  # cross_mat (k x n); then B A^+ B^T = C A C^T
            Dm = Cm @ d @ Cm.mT + zoo.spd(g, batch, k, dt)
            Dm = 0.5 * (Dm + Dm.mT)
            exp = torch.cat([torch.cat([d, Bm.mT], -1), torch.cat([Bm, Dm], -1)], -2)
            for gr in (True, False):
                check_value(rec, f"cat_rows/{cn}", f"{label}|k={k}|generate_roots={gr}", lambda: mk().cat_rows(Bm, Dm, generate_roots=gr), exp, scale=10.0)
            # cross_mat / new_mat with one more (leading) batch dim than the operator: the operator is expanded
            Cx = zoo.rn(g, 2, *batch, 1, n, dtype=dt) * 0.3
            Bx = Cx @ d
            Dx = Cx @ d @ Cx.mT + 1.5
            dx = d.expand(2, *d.shape)
            expx = torch.cat([torch.cat([dx, Bx.mT], -1), torch.cat([Bx, Dx], -1)], -2)
            check_value(rec, f"cat_rows/{cn}", f"{label}|k=1|cross_extra_batch|generate_roots=False", lambda: mk().cat_rows(Bx, Dx, generate_roots=False), expx, scale=10.0)
        for dim in list(range(nb)) + [-(3 + i) for i in range(nb)]:
            pos = dim % (nb + 2)
            check_value(rec, f"prod/{cn}", f"{label}|prod({dim})", lambda: mk().prod(dim), d.prod(pos), scale=100.0)
    return rec.obligations()


def rtc_cat(names, tier):
    """cat() / CatLinearOperator along every dim (matrix dims, every batch dim, positive and negative), operators mixed with tensors"""
    _init()
    from linear_operator.operators import cat as lo_cat

    rec = Recorder(PID)
    for label, c, mk, d in _instances(names, tier, sizes=([1, 3] if tier == "quick" else [1, 2, 3, 4])):
        if mk is None:
            continue
        cn = c.name
        dt = d.dtype
        batch, (m, n) = tuple(d.shape[:-2]), d.shape[-2:]
        nb = len(batch)
        nd = nb + 2
        g = zoo.gen(_seed(label, "C"))
        op = mk()
        op2 = build(c, dt, batch, n_for(c, (m, n)) or 1, "second")  # same case, same shape, other values
        if tuple(op2[1].shape) != tuple(d.shape):
            op2 = (mk(), d)
        a2, d2 = op2
        for dim in range(-nd, nd):
            pos = dim % nd
            tsh = list(d.shape)
            tsh[pos] = 2
            T = zoo.rn(g, *tsh, dtype=dt)
            lab = f"{label}|dim={dim}"
            check_value(rec, f"cat/{cn}", lab + "|cat([op,T])", lambda: lo_cat([op, T], dim=dim), torch.cat([d, T], pos))
            check_value(rec, f"cat/{cn}", lab + "|cat([T,op,op2])", lambda: lo_cat([T, op, a2], dim=dim), torch.cat([T, d, d2], pos))
            check_value(rec, f"cat/{cn}", lab + "|cat([op,op2])", lambda: lo_cat([op, a2], dim=dim), torch.cat([d, d2], pos))
            check_value(rec, f"CatLinearOperator/{cn}", lab + "|Cat(op,op2,Dense(T))", lambda: O.CatLinearOperator(op, a2, O.DenseLinearOperator(T), dim=dim), torch.cat([d, d2, T], pos))
        T = zoo.rn(g, *d.shape, dtype=dt)
        r = lo_cat([T, T], dim=0)
        rec.check("cat/all_tensors", label, torch.is_tensor(r) and torch.equal(r, torch.cat([T, T], 0)), "cat of tensors only must be torch.cat")
    return rec.obligations()



# ------------------------------------------------------------------------------------------
# random multi-step expression programs


class _Val:
    """a program value: real-code value ``v`` (operator or tensor), dense oracle ``d``, whether it is known positive definite"""

    def __init__(self, v, d, pd, text, mag):
        self.v, self.d, self.pd, self.text, self.mag = v, d, pd, text, mag


class _Abort(Exception):
    pass


PROG_BATCHES = [(), (), (2,), (1,), (3, 2), (1, 2), (3, 1)]


def _short(o):
    return type(o).__name__.replace("LinearOperator", "") or "LinearOperator"


def _cls(x):
    """runtime class of a program operand with the classes nested inside it: Top or Top<+A+B+> (A, B: sorted distinct classes of all
    descendants) - defects of a child class surface in steps on composites, so the group name must show them"""
    if not isinstance(x, LinearOperator):
        return "Tensor"
    seen = set()

    def walk(o):
        for a in list(o._args) + list(o._kwargs.values()):
            if isinstance(a, LinearOperator):
                seen.add(_short(a))
                walk(a)

    walk(x)
    return _short(x) + ("<+" + "+".join(sorted(seen)) + "+>" if seen else "")


class _Prog:
    def __init__(self, rec, idx, tier):
        import random

        self.rec = rec
        self.rng = random.Random(_seed("prog", idx))
        self.g = zoo.gen(_seed("progT", idx))
        self.idx = idx
        self.dt = self.rng.choice([torch.float64, torch.float64, torch.float32])
        self.shape = self.rng.choice([(4, 4), (4, 4), (6, 6), (3, 4), (1, 1), (2, 2), (3, 3)])
        self.square = self.shape[0] == self.shape[1]
        self.names = [nm for nm in all_case_names() if n_for(case_of(nm), self.shape) is not None and dtype_ok(case_of(nm), self.dt)]
        self.depth = self.rng.choice([1, 2, 2, 3, 3, 3] if tier == "quick" else [2, 3, 3, 4, 4])
        self.nleaf = 0

    # -- values
    def leaf(self):
        for _ in range(20):
            c = case_of(self.rng.choice(self.names))
            b = self.rng.choice(PROG_BATCHES)
            if batch_ok(c, b):
                break
        self.nleaf += 1
        v, d = build(c, self.dt, b, n_for(c, self.shape), "prog", self.idx, self.nleaf)
        return _Val(v, d, c.psd, f"{c.name}[b={tuple(d.shape[:-2])}]", float(d.abs().max()) if d.numel() else 0.0)

    def tensor(self, *shape):
        return zoo.rn(self.g, *shape, dtype=self.dt)

    def bshape(self, x):
        """a batch shape broadcastable with x's"""
        b = tuple(x.d.shape[:-2])
        opts = [b, (), tuple(1 for _ in b), (2, *b) if len(b) < 2 else b]
        return self.rng.choice(opts)

    # -- one checked step
    def step(self, opname, text, fn, exp, operands, pd=False, scale=1.0, allowed=UNSUPPORTED):
        group = f"prog/{opname}/" + ",".join(_cls(o.v) if isinstance(o, _Val) else str(o) for o in operands)
        bs = [tuple(o.d.shape[:-2]) for o in operands if isinstance(o, _Val)]
        bc = "" if len(bs) < 2 else ("|same" if bs[0] == bs[1] else "|bcast")
        # structural tag: shapes of the operands of THIS step (known-finding regexes match on structure, not on the random program text)
        tag = ";".join(f"{nm}={tuple(o.d.shape)}" for nm, o in zip("xy", [o for o in operands if isinstance(o, _Val)]))
        label = f"p{self.idx}|{_dts(self.dt)}|{self.shape[0]}x{self.shape[1]}{bc}: {text} #{tag}"
        mag = max([o.mag for o in operands if isinstance(o, _Val)] + [float(exp.abs().max()) if exp.numel() else 0.0])
        ref = max(1.0, float(exp.abs().max()) if exp.numel() else 1.0)
        r = check_value(self.rec, group, label, fn, exp, scale=scale * max(1.0, mag / ref), allowed=allowed)
        if r is None:
            raise _Abort()
        return _Val(r, exp, pd, text, mag)

    def expr(self, depth):
        if depth == 0:
            return self.leaf()
        x = self.expr(depth - 1)
        return self.apply(x, depth)

    def apply(self, x, depth):
        R = self.rng
        is_op = isinstance(x.v, LinearOperator)
        b = tuple(x.d.shape[:-2])
        m, n = x.d.shape[-2:]
        if x.d.dim() < 2:
            raise _Abort()
        if not is_op:
            # the value became a tensor (op @ T, T @ op, sum over a matrix dim ...): continue with tensor (.) operator
            y = self.expr(R.randrange(0, depth))
            if not isinstance(y.v, LinearOperator) or tuple(y.d.shape[-2:]) != (m, n):
                raise _Abort()
            try:
                torch.broadcast_shapes(x.d.shape[:-2], y.d.shape[:-2])
            except RuntimeError:
                raise _Abort()
            k = R.choice(["radd", "rsub", "rmul", "rmatmul"])
            if k == "radd":
                return self.step("radd", f"(T{tuple(x.d.shape)} + {y.text})", lambda: x.v + y.v, x.d + y.d, [x, y])
            if k == "rsub":
                return self.step("rsub", f"(T{tuple(x.d.shape)} - {y.text})", lambda: x.v - y.v, x.d - y.d, [x, y])
            if k == "rmul":
                nm = "rmul_1elt_extra_dims" if (x.d.numel() == 1 and x.d.dim() > y.d.dim()) else "rmul"
                return self.step(nm, f"(T{tuple(x.d.shape)} * {y.text})", lambda: x.v * y.v, x.d * y.d, [x, y])
            if n != m:
                raise _Abort()
            return self.step("rmatmul", f"(T{tuple(x.d.shape)} @ {y.text})", lambda: x.v @ y.v, x.d @ y.d, [x, y], scale=n)
        choices = ["add", "add", "sub", "sub", "matmul", "mul_scalar", "mul_scalar", "div_scalar", "add_tensor", "rsub_tensor", "mul_tensor", "matmul_tensor", "rmatmul_tensor",
                   "mT", "expand", "unsqueeze", "repeat", "cat"]
        if m == n:
            choices += ["add_diagonal", "add_jitter", "add_diagonal"]
        if b:
            choices += ["sum_batch", "sum_batch", "permute", "squeeze"]
        if x.pd and m == n:
            choices += ["mul_op", "add_low_rank", "cat_rows"] + (["prod"] if b else [])
        k = R.choice(choices)
        xt = x.text
        if k in ("add", "sub", "matmul", "mul_op"):
            y = self.expr(R.randrange(0, depth))
            if not isinstance(y.v, LinearOperator) or y.d.dim() < 2:
                raise _Abort()
            try:
                torch.broadcast_shapes(x.d.shape[:-2], y.d.shape[:-2])
            except RuntimeError:
                raise _Abort()
            if k == "matmul":
                if y.d.shape[-2] != n:
                    if y.d.shape[-1] != n:
                        raise _Abort()
                    y = self.step("mT", f"{y.text}.mT", lambda: y.v.mT, y.d.mT, [y], pd=y.pd)
                return self.step("matmul", f"({xt} @ {y.text})", lambda: x.v @ y.v, x.d @ y.d, [x, y], scale=n)
            if tuple(y.d.shape[-2:]) != (m, n):
                raise _Abort()
            if k == "add":
                if is_root(y.v) and not x.pd:
                    x, y = y, x  # `non-PSD + root-form` is outside the quantifier; `root-form + non-PSD` is plain addition
                    if is_root(y.v):
                        raise _Abort()
                return self.step("add", f"({x.text} + {y.text})", lambda: x.v + y.v, x.d + y.d, [x, y], pd=x.pd and y.pd)
            if k == "sub":
                if root_after_mul(y.v, -1) and not x.pd:
                    raise _Abort()
                return self.step("sub", f"({xt} - {y.text})", lambda: x.v - y.v, x.d - y.d, [x, y])
            if not y.pd:
                raise _Abort()
            return self.step("mul_op", f"({xt} * {y.text})", lambda: x.v * y.v, x.d * y.d, [x, y], pd=True, scale=100.0)
        if k in ("mul_scalar", "div_scalar"):
            kind = R.choice(["py_pos", "py_neg", "t0_pos", "t0_neg", "tb", "tb_mixed"] if b else ["py_pos", "py_neg", "t0_pos", "t0_neg", "py_int"])
            val = {"py_pos": 1.75, "py_neg": -0.75, "py_int": 2}.get(kind)
            if kind.startswith("t0"):
                val = torch.tensor(1.5 if kind == "t0_pos" else -2.0, dtype=self.dt)
            if kind.startswith("tb"):
                val = self.tensor(*b, 1, 1).abs() + 0.5
                if kind == "tb_mixed":
                    val = val * torch.where(torch.arange(val.numel()).reshape(val.shape) % 2 == 0, 1.0, -1.0).to(self.dt)
            pos = bool((val > 0).all()) if torch.is_tensor(val) else val > 0
            if k == "mul_scalar":
                return self.step("mul_scalar", f"({xt} * {kind})", lambda: x.v * val, x.d * val, [x, kind], pd=x.pd and pos)
            return self.step("div_scalar", f"({xt} / {kind})", lambda: x.v / val, x.d / val, [x, kind], pd=x.pd and pos)
        if k in ("add_tensor", "rsub_tensor", "mul_tensor"):
            T = self.tensor(*self.bshape(x), m, n)
            ts = f"T{tuple(T.shape)}"
            if k == "add_tensor":
                return self.step("add_tensor", f"({xt} + {ts})", lambda: x.v + T, x.d + T, [x])
            if k == "rsub_tensor":
                return self.step("rsub_tensor", f"({ts} - {xt})", lambda: T - x.v, T - x.d, [x])
            nm = "mul_tensor_1elt_extra_dims" if (T.numel() == 1 and T.dim() > x.d.dim()) else "mul_tensor"
            return self.step(nm, f"({xt} * {ts})", lambda: x.v * T, x.d * T, [x])
        if k == "matmul_tensor":
            T = self.tensor(*self.bshape(x), n, R.choice([1, 3, n]))
            return self.step("matmul_tensor", f"({xt} @ T{tuple(T.shape)})", lambda: x.v @ T, x.d @ T, [x], scale=n)
        if k == "rmatmul_tensor":
            T = self.tensor(*self.bshape(x), R.choice([1, 2, m]), m)
            return self.step("rmatmul_tensor", f"(T{tuple(T.shape)} @ {xt})", lambda: T @ x.v, T @ x.d, [x], scale=m)
        if k == "mT":
            return self.step("mT", f"{xt}.mT", lambda: x.v.mT, x.d.mT, [x], pd=x.pd)
        if k == "expand":
            tgt = (R.choice([2, 3]), *[(3 if (s_ == 1 and R.random() < 0.5) else s_) for s_ in b], m, n)
            return self.step("expand", f"{xt}.expand{tgt}", lambda: x.v.expand(*tgt), x.d.expand(*tgt), [x], pd=x.pd)
        if k == "unsqueeze":
            dim = R.randrange(0, len(b) + 1)
            return self.step("unsqueeze", f"{xt}.unsqueeze({dim})", lambda: x.v.unsqueeze(dim), x.d.unsqueeze(dim), [x], pd=x.pd)
        if k == "squeeze":
            dim = R.randrange(0, len(b))
            return self.step("squeeze", f"{xt}.squeeze({dim})", lambda: x.v.squeeze(dim), x.d.squeeze(dim), [x], pd=x.pd)
        if k == "repeat":
            r = (2, *[R.choice([1, 1, 2]) for _ in b], 1, 1)
            # repeating an EXISTING batch dim of size > 1 takes a different path in BatchRepeatLinearOperator than adding leading dims
            nm = "repeat_existing_dim" if any(k_ > 1 and s_ > 1 for k_, s_ in zip(r[1:-2], b)) else "repeat"
            return self.step(nm, f"{xt}.repeat{r}", lambda: x.v.repeat(*r), x.d.repeat(*r), [x], pd=x.pd)
        if k == "permute":
            pm = list(range(len(b)))
            R.shuffle(pm)
            full = (*pm, len(b), len(b) + 1)
            return self.step("permute", f"{xt}.permute{full}", lambda: x.v.permute(*full), x.d.permute(*full), [x], pd=x.pd)
        if k == "sum_batch":
            dim = R.randrange(0, len(b))
            dim = R.choice([dim, dim - len(b) - 2])
            return self.step("sum_batch", f"{xt}.sum({dim})", lambda: x.v.sum(dim), x.d.sum(dim), [x], pd=x.pd, scale=max(1, x.d.shape[dim]))
        if k == "cat":
            from linear_operator.operators import cat as lo_cat

            dim = R.choice([-1, -2] + ([0] if b else []))
            y = self.leaf() if R.random() < 0.6 else None
            if y is not None and tuple(y.d.shape) == tuple(x.d.shape):
                return self.step("cat", f"cat([{xt}, {y.text}], {dim})", lambda: lo_cat([x.v, y.v], dim=dim), torch.cat([x.d, y.d], dim), [x, y])
            tsh = list(x.d.shape)
            tsh[dim] = 2
            T = self.tensor(*tsh)
            return self.step("cat", f"cat([{xt}, T{tuple(tsh)}], {dim})", lambda: lo_cat([x.v, T], dim=dim), torch.cat([x.d, T], dim), [x, "Tensor"])
        if k == "add_diagonal":
            kind = R.choice(["0d", "1elt", "full", "batched"] if b else ["0d", "1elt", "full"])
            dg = {"0d": lambda: torch.tensor(0.5, dtype=self.dt), "1elt": lambda: torch.tensor([0.25], dtype=self.dt), "full": lambda: self.tensor(n).abs() + 0.1,
                  "batched": lambda: self.tensor(*b, n).abs() + 0.1}[kind]()
            emb = torch.diag_embed(dg.expand(*dg.shape[:-1], n)) if dg.dim() else dg * torch.eye(n, dtype=self.dt)
            return self.step("add_diagonal", f"{xt}.add_diagonal({kind})", lambda: x.v.add_diagonal(dg), x.d + emb, [x, kind], pd=x.pd)
        if k == "add_jitter":
            return self.step("add_jitter", f"{xt}.add_jitter(0.25)", lambda: x.v.add_jitter(0.25), x.d + 0.25 * torch.eye(n, dtype=self.dt), [x], pd=x.pd)
        if k == "add_low_rank":
            Bm = self.tensor(*b, n, R.choice([1, 2]))
            return self.step("add_low_rank", f"{xt}.add_low_rank(B{tuple(Bm.shape)})", lambda: x.v.add_low_rank(Bm), x.d + Bm @ Bm.mT, [x], pd=True, scale=10.0)
        if k == "cat_rows":
            Cm = self.tensor(*b, 2, n) * 0.3
            Bm = Cm @ x.d
            Dm = Cm @ x.d @ Cm.mT + zoo.spd(self.g, b, 2, self.dt)
            Dm = 0.5 * (Dm + Dm.mT)
            exp = torch.cat([torch.cat([x.d, Bm.mT], -1), torch.cat([Bm, Dm], -1)], -2)
            return self.step("cat_rows", f"{xt}.cat_rows(k=2)", lambda: x.v.cat_rows(Bm, Dm), exp, [x], pd=True, scale=10.0)
        if k == "prod":
            dim = R.randrange(0, len(b))
            return self.step("prod", f"{xt}.prod({dim})", lambda: x.v.prod(dim), x.d.prod(dim), [x], pd=True, scale=100.0)
        raise _Abort()


def rtc_programs(lo, hi, tier):
    """random expression programs of depth <= 3 (quick) / <= 4 (thorough); every step is compared with its dense evaluation"""
    _init()
    rec = Recorder(PID)
    for idx in range(lo, hi):
        p = _Prog(rec, idx, tier)
        if not p.names:
            continue
        try:
            p.expr(p.depth)
        except _Abort:
            pass
        except Exception as e:  # noqa  (harness/build errors are failures too: nothing may be silently skipped)
            import traceback

            rec.check("prog/harness", f"p{idx}", False, f"{type(e).__name__}: {e} @ {traceback.format_exc().strip().splitlines()[-3][:200]}")
    return rec.obligations()


def rtc_percase(names, tier, families):
    """several per-case families in one process"""
    obs = []
    for f in families:
        obs += globals()["rtc_" + f](names, tier)
    return obs


def _chunks(xs, k):
    """k nearly equal interleaved chunks (interleaving balances cheap and expensive classes)"""
    return [xs[i::k] for i in range(k) if xs[i::k]]


def rtc_units(tier):
    names = all_case_names()
    us = []
    for i, part in enumerate(_chunks(names, 8 if tier == "quick" else 16)):
        us.append(Unit(f"C02/rtc/pairs#{i}[{part[0]}..]", "contracts.rtc_C02", "rtc_pairs", (part, tier), engine="rtc", timeout_s=1500))
    for i, part in enumerate(_chunks(names, 3 if tier == "quick" else 8)):
        us.append(Unit(f"C02/rtc/tensor_scalar#{i}[{part[0]}..]", "contracts.rtc_C02", "rtc_percase", (part, tier, ("tensor_operands", "scalars")), engine="rtc", timeout_s=1500))
    for i, part in enumerate(_chunks(names, 3 if tier == "quick" else 8)):
        us.append(Unit(f"C02/rtc/batch_diag_cat#{i}[{part[0]}..]", "contracts.rtc_C02", "rtc_percase", (part, tier, ("batch_ops", "diag_lowrank", "cat")), engine="rtc", timeout_s=1500))
    nprog, k = (6000, 3) if tier == "quick" else (40000, 10)
    for i in range(k):
        us.append(Unit(f"C02/rtc/programs#{i}", "contracts.rtc_C02", "rtc_programs", (i * nprog // k, (i + 1) * nprog // k, tier), engine="rtc", timeout_s=1500))
    return us


RTC_META = {
    "explanation": "bounded run-time contracts on the real code under real torch: every expression step (binary op on an ordered class pair, scalar / tensor "
                   "operand, batch rewrite, add_diagonal / add_jitter / add_low_rank / cat_rows / cat, and every step of random multi-step programs) is compared "
                   "with the same step on the independent dense oracles with torch broadcasting semantics: shape, dtype, to_dense() value, and the action of the "
                   "result on a probe matrix (one more `@ tensor` program step)",
    "assumptions": [
        "operations defined through root decompositions (operator*operator, + root-form operator, add_low_rank, cat_rows, prod) are exercised on positive "
        "(semi-)definite operands only, as the property's quantifier states; cat_rows uses blocks with a positive definite Schur complement",
        "NotImplementedError is accepted everywhere as the explicit not-supported error; RuntimeError only for add_diagonal on non-square operators and for a "
        "diagonal with a larger batch shape than the operator",
        "tolerances: float64 1e-9 x scale, float32 2e-4 x scale relative to max(1, |expected|, |operands|) (scale = inner dimension for matmul, 10..100 for root-based paths)",
    ],
    "families": "quick: (1) all 62x62 ordered pairs of 52 zoo + 10 extra cases (negative/indefinite diagonals, semi-definite roots, other child classes) that share a matrix "
                "shape: +, -, add/sub(alpha), @ (also rectangular inner dims), elementwise * on PSD pairs; 2 matrix shapes x up to 6 batch-shape pairs (equal, one-sided, "
                "size-1, two-sided broadcast) x float64/float32; (2) per case x {float64: 5 batch shapes x sizes 1,3,4 (1,3 for the tensor / scalar operand families); float32 sub-grid}: tensor operands of 5 batch kinds for "
                "+,-,*,/ in both orders, 17-20 scalar kinds (python float/int +,-,0,1; 0-d; 1-element of rank 1..3; batch of constants positive/mixed/negative/with zero/"
                "all-ones shape/partial leading/partial trailing/larger batch) for *, reversed *, /, also under the other default dtype; expand/repeat/unsqueeze/squeeze/"
                "permute (all permutations)/transpose/sum over every dim incl. negative dims; add_diagonal (0-d, 1-elt, full, signed, batched, (..,1), broadcast, partial, "
                "larger batch), add_jitter; add_low_rank, cat_rows (also cross_mat with an extra batch dim), prod on PSD cases; cat()/CatLinearOperator along every dim mixed "
                "with tensors; (3) 6000 random programs of depth <= 3 over 25 operations.  thorough: 4 shapes x up to 14 batch pairs, sizes 1,2,3,4,6, 8 batch shapes, full "
                "dtype product, 40000 programs of depth <= 4",
}
