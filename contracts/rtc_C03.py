"""C03 (bounded tier) - indexing and diagonal extraction match torch indexing of the dense matrix.

Run-time contract, evaluated on the real code under real torch:

    for every zoo operator K (oracle matrix D built independently from the constructor arguments) and every
    generated index tuple ``ix`` that torch accepts for D and that selects >= 1 element, with settings.debug on
    and off:   K[ix]  (densified when it comes back as an operator)  has the shape, dtype and values of D[ix];
    K.diagonal() == diagonal(D).
    The only permitted exception is the library's declared "not supported" error (CatLinearOperator: a slice with
    an explicit step on the concatenation dimension / a rank >= 2 index tensor on the concatenation dimension).

The index family is generated per operator rank from index *atoms* concretised for the size of each dimension
(ints: 0, last, middle, -1, -size, -middle; slices: full, explicit step 1, start only, stop only, both, negative
start / stop / both, step 2 / 3 (with and without offsets), over-long bounds on either side, explicit
stop == size, single element; Ellipsis; 0-d LongTensor; 1-d LongTensor of length 1 / 3 / > size with repeats,
unsorted; python list; rank-2 mutually broadcasting LongTensors) - every atom in every position (singles),
a stratified rotating sample of all atom pairs in all position pairs, seeded random full-rank tuples, an Ellipsis
in every position, and rank-2 tensor combinations that consume a matrix dimension.
"""
from __future__ import annotations

import random
import re
import zlib

from engine.common import Unit

PID = "C03"
FULL = slice(None, None, None)


# ------------------------------------------------------------------------------------------
# index atoms / tuples (torch is passed in: module import must stay torch-free)

def fmt_index(ix) -> str:
    def one(a):
        if a is Ellipsis:
            return "..."
        if isinstance(a, slice):
            f = lambda v: "" if v is None else str(v)  # noqa: E731
            s = f"{f(a.start)}:{f(a.stop)}"
            return s if a.step is None else s + f":{a.step}"
        if isinstance(a, bool):
            return repr(a)
        if isinstance(a, int):
            return str(a)
        if isinstance(a, list):
            return "L" + repr(a).replace(" ", "")
        if hasattr(a, "tolist"):
            return ("T" if a.dim() else "T0") + repr(a.tolist()).replace(" ", "")
        return repr(a)
    if not isinstance(ix, tuple):
        return "(" + one(ix) + ")!"  # bare (non-tuple) index
    return "(" + ",".join(one(a) for a in ix) + ")"


def int_atoms(s):
    vals = [0, s - 1, -1, -s]
    if s > 2:
        vals += [s // 2, -(s // 2)]
    if s > 1:
        vals += [1, -2]
    out = []
    for v in vals:
        if -s <= v < s and v not in out:
            out.append(v)
    return out


def slice_atoms(s):
    c = [
        slice(None, None, 1),  # explicit step 1
        slice(1 if s > 1 else 0, None),  # start only
        slice(None, s - 1 if s > 1 else 1),  # stop only
        slice(1, s - 1), slice(1, 2), slice(0, 1), slice(s - 1, s), slice(s // 2, s // 2 + 1),  # both / single element
        slice(-2, None), slice(-1, None), slice(None, -1), slice(-3, -1), slice(-s, -1), slice(-s, None),  # negative
        slice(None, None, 2), slice(None, None, 3), slice(1, None, 2), slice(None, -1, 2), slice(0, s, 2), slice(1, s + 2, 3),
        slice(-3, None, 2), slice(None, None, s), slice(None, None, s + 1),  # steps
        slice(0, s + 3), slice(1, s + 7), slice(-s - 4, None), slice(-s - 4, s + 4), slice(None, 10 ** 6),  # over-long
        slice(0, s), slice(1, s), slice(-2, s), slice(None, s),  # explicit stop == size
    ]
    out, seen = [], set()
    for sl in c:
        key = (sl.start, sl.stop, sl.step)
        if key in seen or len(range(*sl.indices(s))) < 1:
            continue
        seen.add(key)
        out.append(sl)
    return out


class IndexGen:
    """deterministic generator of index tuples for one tensor shape"""

    def __init__(self, torch, shape, seed):
        self.torch = torch
        self.shape = tuple(shape)
        self.r = len(shape)
        self.rnd = random.Random(seed)
        self.ints = [int_atoms(s) for s in shape]
        self.slices = [slice_atoms(s) for s in shape]

    # ---- tensors
    def tvals(self, p, numel, neg=False):
        s = self.shape[p]
        base = [s - 1, 0, s // 2, (s - 1) // 2, s - 1, 1 % s, 0]
        k = self.rnd.randrange(len(base))
        vals = [base[(k + 2 * i) % len(base)] if i < 3 else self.rnd.randrange(s) for i in range(numel)]
        if neg:
            vals = [v - s if (i % 2 == 0) else v for i, v in enumerate(vals)]
        return vals

    def tensor(self, p, shape, neg=False):
        n = 1
        for d in shape:
            n *= d
        return self.torch.tensor(self.tvals(p, n, neg), dtype=self.torch.long).reshape(shape)

    def tensor_atoms(self, p):
        s = self.shape[p]
        t = self.torch
        return [
            t.tensor(0), t.tensor(s - 1), t.tensor(s // 2),  # 0-d
            self.tensor(p, (1,)), self.tensor(p, (3,)), self.tensor(p, (s + 2,)), t.arange(s),  # 1-d (arange = identity index)
            self.tvals(p, 2), [s - 1],  # python lists
        ]

    def neg_scalar_tensor_atoms(self, p):
        return [self.torch.tensor(-1), self.torch.tensor(-self.shape[p])]

    def atoms(self, p, tensors=True):
        a = list(self.ints[p]) + [FULL] + list(self.slices[p])
        if tensors:
            a += self.tensor_atoms(p) + self.neg_scalar_tensor_atoms(p)
        return a

    # ---- joint tensor placement: every tensor position gets length L or 1
    def fix_tensors(self, ix):
        """make the 1-d tensors / lists of a tuple mutually broadcastable (common length, or 1)"""
        t = self.torch
        pos = [i for i, a in enumerate(ix) if isinstance(a, list) or (t.is_tensor(a) and a.dim() >= 1)]
        if len(pos) < 2:
            return ix
        L = max(len(ix[i]) for i in pos)
        ix = list(ix)
        dimpos = self._dim_positions(ix)
        for i in pos:
            if len(ix[i]) not in (1, L):
                v = self.tvals(dimpos[i], L)
                ix[i] = v if isinstance(ix[i], list) else t.tensor(v, dtype=t.long)
        return tuple(ix)

    def _dim_positions(self, ix):
        """tensor dimension addressed by each entry of an index tuple (Ellipsis expanded)"""
        n_specified = sum(1 for a in ix if a is not Ellipsis)
        out, d = [], 0
        for a in ix:
            if a is Ellipsis:
                out.append(None)
                d += self.r - n_specified
            else:
                out.append(d)
                d += 1
        return out

    # ---- the families
    def singles(self):
        out = []
        for p in range(self.r):
            for a in self.atoms(p):
                out.append((FULL,) * p + (a,))
                if p == self.r - 1:
                    out.append((Ellipsis, a))
                if p == self.r - 2:
                    out.append((Ellipsis, a, FULL))
                if p == 0 and self.r > 2:
                    out.append((a, Ellipsis))
        # bare (non-tuple) indices
        out += [a for a in (self.atoms(0)[0], self.slices[0][0], Ellipsis, self.tensor(0, (3,)), self.tvals(0, 2))]
        out += [(), (Ellipsis,), (FULL,) * self.r, (Ellipsis, FULL), (FULL, Ellipsis), (Ellipsis, FULL, FULL)]
        return out

    def all_pairs(self):
        """all (position pair) x (atom pair) combinations, in canonical order (lazily concretised)"""
        out = []
        for p in range(self.r):
            for q in range(p + 1, self.r):
                na, nb = len(self.atoms(p)), len(self.atoms(q))
                for i in range(na):
                    for j in range(nb):
                        out.append((p, q, i, j))
        return out

    def pair(self, p, q, i, j):
        ix = [FULL] * (q + 1)
        ix[p] = self.atoms(p)[i]
        ix[q] = self.atoms(q)[j]
        return self.fix_tensors(tuple(ix))

    def random_full(self):
        ix = []
        for p in range(self.r):
            k = self.rnd.random()
            if k < 0.22:
                ix.append(self.rnd.choice(self.ints[p]))
            elif k < 0.62:
                ix.append(self.rnd.choice(self.slices[p] + [FULL]))
            else:
                ix.append(self.rnd.choice(self.tensor_atoms(p)))
        return self.fix_tensors(tuple(ix))

    def with_ellipsis(self):
        """one Ellipsis in every position of tuples of every length <= rank"""
        out = []
        for length in range(0, self.r + 1):  # number of non-ellipsis entries
            for epos in range(length + 1):
                # dims addressed: first `epos` dims and last `length-epos` dims
                dims = list(range(epos)) + list(range(self.r - (length - epos), self.r))
                for _ in range(2):
                    ent = []
                    for d in dims:
                        k = self.rnd.random()
                        if k < 0.3:
                            ent.append(self.rnd.choice(self.ints[d]))
                        elif k < 0.7:
                            ent.append(self.rnd.choice(self.slices[d] + [FULL]))
                        else:
                            ent.append(self.rnd.choice(self.tensor_atoms(d)))
                    ix = tuple(ent[:epos]) + (Ellipsis,) + tuple(ent[epos:])
                    out.append(self.fix_tensors(ix))
        return out

    def rank2(self):
        """rank >= 2 mutually broadcasting tensors: >= 2 tensor positions, a matrix position among them"""
        r = self.r
        out = []
        shapesets = [((2, 1), (1, 3)), ((2, 3), (3,)), ((2, 2), (2, 2)), ((1, 2), (2, 1)), ((3,), (2, 1)), ((2, 3), (1,)), ((1, 1), (2, 1, 2))]
        possets = [(r - 2, r - 1)]
        for b in range(r - 2):
            possets += [(b, r - 2), (b, r - 1), (b, r - 2, r - 1)]
        if r >= 4:
            possets += [(0, 1, r - 1), (0, 1, r - 2, r - 1)]
        for ps in possets:
            for ss in shapesets:
                shp = list(ss) + [ss[-1]] * (len(ps) - len(ss))
                if self.rnd.random() < 0.5:
                    shp = shp[::-1]
                for fill in range(2):
                    ix = []
                    for d in range(r):
                        if d in ps:
                            ix.append(self.tensor(d, shp[ps.index(d)]))
                        elif fill == 0:
                            ix.append(FULL)
                        else:
                            k = self.rnd.random()
                            ix.append(self.rnd.choice(self.ints[d]) if k < 0.4 else self.rnd.choice(self.slices[d]))
                    out.append(tuple(ix))
                    if ps[0] == r - 2 and fill == 0:
                        out.append((Ellipsis,) + tuple(ix[-2:]))
        return out

    def negative_valued(self):
        """index tensors holding negative entries (torch wraps them) - kept as a separate family"""
        out = []
        for p in range(self.r):
            out.append((FULL,) * p + (self.tensor(p, (3,), neg=True),))
        if self.r >= 2:
            out.append((Ellipsis, self.tensor(self.r - 2, (3,), neg=True), self.tensor(self.r - 1, (3,), neg=True)))
            out.append((Ellipsis, self.tensor(self.r - 2, (3,), neg=True), self.tensor(self.r - 1, (3,))))
        return out


def normalise(torch, ix, rank):
    """full-rank list of entries: Ellipsis expanded, padded with ':', 0-d tensors -> int, lists -> LongTensor"""
    tup = ix if isinstance(ix, tuple) else (ix,)
    n_spec = sum(1 for a in tup if a is not Ellipsis)
    full, seen_e = [], False
    for a in tup:
        if a is Ellipsis and not seen_e:
            full += [FULL] * (rank - n_spec)
            seen_e = True
            continue
        if torch.is_tensor(a) and a.dim() == 0:
            a = int(a)
        elif isinstance(a, list):
            a = torch.tensor(a, dtype=torch.long)
        full.append(a)
    full += [FULL] * (rank - len(full))
    return full


def family_of(torch, ix, rank):
    """input family (part of the group name).  Families are defined on the INPUT only; the three families that
    isolate the generic __getitem__ defects (see notes/C03_findings.md) keep those apart from everything else."""
    full = normalise(torch, ix, rank)
    ist = torch.is_tensor
    batch, row, col = full[:-2], full[-2], full[-1]
    bt = any(ist(a) for a in batch)
    if any(isinstance(a, int) and a < 0 for a in (row, col)):
        return "negint_matrix_pos"
    if bt and isinstance(row, int) and ist(col):
        return "batch_tensor+int_row+tensor_col"
    tens = [a for a in full if ist(a)]
    if not tens:
        return "int_slice_ellipsis"
    bshape = torch.broadcast_shapes(*[a.shape for a in tens])
    if len(bshape) < 2:
        return "tensor_1d"
    tpos = [i for i, a in enumerate(full) if ist(a)]
    contiguous = not any(isinstance(full[i], slice) for i in range(tpos[0], tpos[-1] + 1))
    if bt and ist(row) and not ist(col) and contiguous and tpos[0] != 0:
        return "rank2_batch_row_tensors+trailing_col"
    return "tensor_rank2"


# ------------------------------------------------------------------------------------------
# "trigger" tags: class-aware, INPUT-only predicates, one per known root cause (notes/C03_findings.md).  The tag is part of
# the group name, so that every group carries (at most) one root cause and the untagged groups are expected to pass.

CAT_DIMS = {  # case -> concatenation dimensions (negative), as seen from the outer operator
    "cat_cols": (-1,), "cat_rows": (-2,), "x_cat3_rows": (-2,), "x_cat3_cols": (-1,), "x_cat_rows_square": (-2,), "x_cat_cols_square": (-1,),
    "x_cat_of_cat": (-2, -1), "x_batchrepeat_cat": (-2,), "x_cat_batch_inner": (-3,), "cat_batch": ("first",),
}
NUM_BLOCKS = {"blockdiag": 2, "blockdiag3": 3, "blockinterleaved": 2, "blockinterleaved3": 3, "nest_blockdiag_toeplitz": 2, "x_blockdiag_kron": 2,
              "x_blockinter_sum": 2, "x_sumbatch_blockdiag": 2, "x_constmul_blockinter": 3}  # (x_tri_of_blockdiag: Triangular._getitem does not take the fast path)
CHOL_CASES = ("chol_lower", "chol_upper")
KNOWN_DEFECT_CASES = set(CAT_DIMS) | set(NUM_BLOCKS) | set(CHOL_CASES) | {"tperm"}
CAT_PIECES = {}  # (F4, `.to(None)` on a non-dense piece of a CatLinearOperator, was fixed in /repo a904f2a: tag no longer needed)


def trigger_of(torch, case, full, shape):
    """tag of the first known root cause whose (input-only) trigger condition the index satisfies, else None.
    ``full``: normalise()d index (rank entries: int / slice / LongTensor)."""
    ist = torch.is_tensor
    rank = len(shape)
    batch, row, col = full[:-2], full[-2], full[-1]
    bt = any(ist(a) for a in batch)
    absorbed = (bt and (ist(row) or ist(col))) or (ist(row) and ist(col))

    def as_slice(a):  # what __getitem__ hands to _getitem for an int in a matrix position
        return slice(a, (a + 1) or None, None) if isinstance(a, int) else a

    if case == "tperm" and absorbed:
        return "tperm_get_indices"
    if case in CHOL_CASES and not absorbed:
        r_, c_ = as_slice(row), as_slice(col)
        both_full = isinstance(r_, slice) and r_ == FULL and isinstance(c_, slice) and c_ == FULL
        same = (ist(r_) and ist(c_) and torch.equal(r_, c_)) or (not ist(r_) and not ist(c_) and r_ == c_)
        if same and not both_full:
            return "chol_row_eq_col"
    if case in CAT_DIMS:
        for d in CAT_DIMS[case]:
            d = -rank if d == "first" else d
            if -d > rank:
                continue
            a = full[d]
            size = shape[d]
            if d >= -2 and isinstance(a, int) and not absorbed:
                a = as_slice(a)
            if isinstance(a, slice) and a != FULL and a.step is None and not absorbed:  # (absorbed: the slice is converted to a tensor first)
                if (a.start is not None and a.start < -size) or (a.stop is not None and a.stop >= size):
                    return "cat_slice_mod_size"
            if d < -2 and isinstance(a, int) and a < 0:
                return "cat_batch_dim_negative_int"
            if d < -2 and ist(a) and not absorbed and sum(1 for b in batch if ist(b)) >= 2:
                return "cat_batch_dim_tensor+other_batch_tensor"
            if d == -3 and not absorbed and any(isinstance(b, int) for b in batch):
                return "cat_dim-3_any_batch_int"
            if isinstance(a, int) and a < 0:
                return "cat_negative_int"
            if case in CAT_PIECES and not absorbed and d >= -2:
                sizes, nondense = CAT_PIECES[case](size)
                pos = None
                if isinstance(a, slice) and a != FULL and a.step is None:
                    pos = list(range(*a.indices(size)))
                elif ist(a) and a.dim() == 1:
                    pos = [int(v) % size for v in a.tolist()]
                if pos:
                    bounds = [0]
                    for z in sizes:
                        bounds.append(bounds[-1] + z)
                    pieces = {next((i for i in range(len(sizes)) if bounds[i] <= q < bounds[i + 1]), None) for q in pos}
                    if len(pieces) == 1 and next(iter(pieces)) in nondense:
                        return "cat_single_nondense_piece"
    if case in NUM_BLOCKS and not absorbed:
        k = NUM_BLOCKS[case]
        r_, c_ = as_slice(row), as_slice(col)
        if isinstance(r_, slice) and isinstance(c_, slice) and not (r_ == FULL and c_ == FULL) and r_.step is None and c_.step is None:
            m_, n_ = shape[-2], shape[-1]
            if not ((r_.start or 0) % k or (c_.start or 0) % k or (r_.stop or m_) % k or (c_.stop or n_) % k):
                return "block_aligned_slices"
    if absorbed and any(isinstance(a, int) and a < 0 for a in (row, col)):
        return "negint_absorbed"
    return None


_UNSUPPORTED_RX = re.compile(r"not (currently |yet )?supported|does not support|unsupported", re.I)


def _tree_has_cat(op, O, depth=0):
    if isinstance(op, O.CatLinearOperator):
        return True
    if depth > 6 or not isinstance(op, O.LinearOperator):
        return False
    kids = list(getattr(op, "_args", ())) + list(getattr(op, "_kwargs", {}).values())
    return any(_tree_has_cat(k, O, depth + 1) for k in kids if isinstance(k, O.LinearOperator))


def permitted_unsupported(torch, O, exc, op, ix, cat_dim=None):
    """the narrow set of declared not-supported combinations (read from cat_linear_operator.py):
    CatLinearOperator._split_slice rejects a slice whose ``step is not None`` on the concatenation dimension;
    CatLinearOperator._getitem rejects an index tensor of rank > 1 on the concatenation dimension."""
    if not isinstance(exc, (RuntimeError, NotImplementedError)) or not _UNSUPPORTED_RX.search(str(exc)):
        return False
    if not _tree_has_cat(op, O):
        return False
    tup = ix if isinstance(ix, tuple) else (ix,)
    rank = op.dim()
    n_spec = sum(1 for a in tup if a is not Ellipsis)
    full, seen_e = [], False
    for a in tup:
        if a is Ellipsis and not seen_e:
            full += [FULL] * (rank - n_spec)
            seen_e = True
        else:
            full.append(a)
    full += [FULL] * (rank - len(full))

    def offending(a):
        return (isinstance(a, slice) and a.step is not None) or (torch.is_tensor(a) and a.dim() > 1)

    if cat_dim is not None and isinstance(op, O.CatLinearOperator):
        return offending(full[cat_dim])
    return any(offending(a) for a in full)


# ------------------------------------------------------------------------------------------
# extra operators (nestings, broadcasting batch shapes) - built with the zoo helpers

def extra_cases():
    import torch
    from contracts import zoo
    from contracts.zoo import Case, O, block_diag_dense, block_interleaved_dense, interp_matrix, kron, rn, spd, toeplitz_dense

    def toep(g, dt, batch, n):
        c = rn(g, *batch, n, dtype=dt) * 0.3
        c[..., 0] = c[..., 0].abs() + n
        return O.ToeplitzLinearOperator(c), toeplitz_dense(c)

    def diag(g, dt, batch, n):
        d = rn(g, *batch, n, dtype=dt).abs() + 0.5
        return O.DiagLinearOperator(d), torch.diag_embed(d)

    def cat3_rows(g, dt, batch, n):
        a, b = rn(g, *batch, n, n, dtype=dt), rn(g, *batch, 1, n, dtype=dt)
        D, Dd = diag(g, dt, batch, n)
        return O.CatLinearOperator(O.DenseLinearOperator(a), D, O.DenseLinearOperator(b), dim=-2), torch.cat([a, Dd, b], -2)

    def cat3_cols(g, dt, batch, n):
        T, Td = toep(g, dt, batch, n)
        a = rn(g, *batch, n, 2, dtype=dt)
        D, Dd = diag(g, dt, batch, n)
        return O.CatLinearOperator(T, O.DenseLinearOperator(a), D, dim=-1), torch.cat([Td, a, Dd], -1)

    def cat_batch_inner(g, dt, batch, n):
        # concatenation along the LAST batch dimension (dim=-3); needs batch rank >= 1
        a, b = rn(g, *batch[:-1], 2, n, n + 1, dtype=dt), rn(g, *batch[:-1], 1, n, n + 1, dtype=dt)
        return O.CatLinearOperator(O.DenseLinearOperator(a), O.DenseLinearOperator(b), dim=-3), torch.cat([a, b], -3)

    def cat_of_cat(g, dt, batch, n):
        a, b, c = rn(g, *batch, n, n, dtype=dt), rn(g, *batch, n, 1, dtype=dt), rn(g, *batch, 2, n + 1, dtype=dt)
        inner = O.CatLinearOperator(O.DenseLinearOperator(a), O.DenseLinearOperator(b), dim=-1)
        return O.CatLinearOperator(inner, O.DenseLinearOperator(c), dim=-2), torch.cat([torch.cat([a, b], -1), c], -2)

    def blockdiag_kron(g, dt, batch, n):
        a_, b_ = zoo._factor_sizes(n)
        A, B = rn(g, *batch, 2, a_, a_, dtype=dt), rn(g, *batch, 2, b_, b_, dtype=dt)
        return O.BlockDiagLinearOperator(O.KroneckerProductLinearOperator(A, B)), block_diag_dense(kron(A, B))

    def blockinter_sum(g, dt, batch, n):
        a = rn(g, *batch, 2, n, n, dtype=dt)
        T, Td = toep(g, dt, (*batch, 2), n)
        return O.BlockInterleavedLinearOperator(O.SumLinearOperator(O.DenseLinearOperator(a), T)), block_interleaved_dense(a + Td)

    def sumbatch_blockdiag(g, dt, batch, n):
        blocks = rn(g, *batch, 3, 2, n, n, dtype=dt)
        return O.SumBatchLinearOperator(O.BlockDiagLinearOperator(O.DenseLinearOperator(blocks))), block_diag_dense(blocks).sum(-3)

    def batchrepeat_cat(g, dt, batch, n):
        a, b = rn(g, n, n, dtype=dt), rn(g, 2, n, dtype=dt)
        rep = torch.Size(batch) if batch else torch.Size([2])
        return (O.BatchRepeatLinearOperator(O.CatLinearOperator(O.DenseLinearOperator(a), O.DenseLinearOperator(b), dim=-2), rep),
                torch.cat([a, b], -2).repeat(*rep, 1, 1))

    def kron_toeplitz_diag(g, dt, batch, n):
        (T, Td), (D, Dd) = toep(g, dt, batch, 3), diag(g, dt, batch, n)
        return O.KroneckerProductLinearOperator(T, D), kron(Td, Dd)

    def constmul_batchconst_kron(g, dt, batch, n):
        a_, b_ = zoo._factor_sizes(n)
        A, B = rn(g, *batch, a_, a_ + 1, dtype=dt), rn(g, *batch, b_, b_, dtype=dt)
        c = rn(g, *batch, dtype=dt) if batch else torch.tensor(-0.7, dtype=dt)
        return O.ConstantMulLinearOperator(O.KroneckerProductLinearOperator(A, B), c), kron(A, B) * c[..., None, None]

    def matmul_toeplitz_dense(g, dt, batch, n):
        T, Td = toep(g, dt, batch, n)
        a = rn(g, *batch, n, n + 2, dtype=dt)
        return O.MatmulLinearOperator(T, O.DenseLinearOperator(a)), Td @ a

    def _split(batch):
        # two batch shapes that broadcast to `batch`
        if not batch:
            return (), ()
        return (*batch[:-1], 1), batch[-1:]

    def sum_bcast(g, dt, batch, n):
        b1, b2 = _split(batch)
        a = rn(g, *b1, n, n, dtype=dt)
        D, Dd = diag(g, dt, b2, n)
        return O.SumLinearOperator(O.DenseLinearOperator(a), D), a + Dd

    def matmul_bcast(g, dt, batch, n):
        b1, b2 = _split(batch)
        a, b = rn(g, *b1, n, n + 1, dtype=dt), rn(g, *b2, n + 1, n + 2, dtype=dt)
        return O.MatmulLinearOperator(O.DenseLinearOperator(a), O.DenseLinearOperator(b)), a @ b

    def kron_bcast(g, dt, batch, n):
        b1, b2 = _split(batch)
        A, B = rn(g, *b1, 2, 3, dtype=dt), rn(g, *b2, n, n, dtype=dt)
        return O.KroneckerProductLinearOperator(O.DenseLinearOperator(A), O.DenseLinearOperator(B)), kron(A, B)

    def interp_bcast(g, dt, batch, n):
        m = n + 1
        base = spd(g, (), m, dt)
        li = torch.randint(0, m, (*batch, n, 2), generator=g)
        ri = torch.randint(0, m, (*batch, n + 1, 2), generator=g)
        lv, rv = rn(g, *batch, n, 2, dtype=dt), rn(g, *batch, n + 1, 2, dtype=dt)
        return O.InterpolatedLinearOperator(O.DenseLinearOperator(base), li, lv, ri, rv), interp_matrix(li, lv, m) @ base @ interp_matrix(ri, rv, m).mT

    def masked_toeplitz(g, dt, batch, n):
        m = n + 2
        T, Td = toep(g, dt, batch, m)
        rm = torch.zeros(m, dtype=torch.bool)
        rm[torch.randperm(m, generator=g)[:n]] = True
        cm = torch.zeros(m, dtype=torch.bool)
        cm[torch.randperm(m, generator=g)[:n + 1]] = True
        return O.MaskedLinearOperator(T, rm, cm), Td[..., rm, :][..., :, cm]

    def addeddiag_toeplitz_const(g, dt, batch, n):
        T, Td = toep(g, dt, batch, n)
        v = rn(g, *batch, 1, dtype=dt).abs() + 0.5
        return O.AddedDiagLinearOperator(T, O.ConstantDiagLinearOperator(v, diag_shape=n)), Td + torch.diag_embed(v.expand(*batch, n))

    def sum3_dense_kron_zero(g, dt, batch, n):
        K, Kd = zoo._kron(g, dt, batch, n)
        a = rn(g, *batch, n, n, dtype=dt)
        return O.SumLinearOperator(O.DenseLinearOperator(a), K, O.ZeroLinearOperator(*batch, n, n, dtype=dt)), a + Kd

    def zero_square(g, dt, batch, n):
        return O.ZeroLinearOperator(*batch, n, n, dtype=dt), torch.zeros(*batch, n, n, dtype=dt)

    def constmul_blockinter(g, dt, batch, n):
        blocks = rn(g, *batch, 3, n, n + 1, dtype=dt)
        return (O.ConstantMulLinearOperator(O.BlockInterleavedLinearOperator(O.DenseLinearOperator(blocks)), torch.tensor(0.5, dtype=dt)),
                block_interleaved_dense(blocks) * 0.5)

    def sumbatch_interp(g, dt, batch, n):
        op, d = zoo._interp(g, dt, (*batch, 2), n)
        return O.SumBatchLinearOperator(op), d.sum(-3)

    def tri_of_blockdiag(g, dt, batch, n):
        blocks = rn(g, *batch, 2, n, n, dtype=dt).tril()
        return O.TriangularLinearOperator(O.BlockDiagLinearOperator(O.DenseLinearOperator(blocks))), block_diag_dense(blocks)

    def interp_of_kron(g, dt, batch, n):
        K, Kd = zoo._kron(g, dt, batch, n + 1)
        m = n + 1
        li = torch.randint(0, m, (*batch, n, 2), generator=g)
        lv = rn(g, *batch, n, 2, dtype=dt)
        ri = torch.randint(0, m, (*batch, n + 2, 1), generator=g)
        rv = rn(g, *batch, n + 2, 1, dtype=dt)
        return O.InterpolatedLinearOperator(K, li, lv, ri, rv), interp_matrix(li, lv, m) @ Kd @ interp_matrix(ri, rv, m).mT

    def getitem_history(g, dt, batch, n):
        # operator obtained by indexing an operator (multi-step history): rows 1::2 of a Kronecker sum
        (K, Kd), (T, Td) = zoo._kron(g, dt, batch, 2 * n), toep(g, dt, batch, 2 * n)
        return (K + T)[..., 1::2, :], (Kd + Td)[..., 1::2, :]

    def dense_sq(g, dt, batch, n):
        a = rn(g, *batch, n, n, dtype=dt)
        return O.DenseLinearOperator(a), a.clone()

    def cat_rows_square(g, dt, batch, n):
        # square concatenations: CatLinearOperator._diagonal for cat_dim -2 / -1
        k = n + 1
        a, b = rn(g, *batch, 1, k, dtype=dt), rn(g, *batch, n, k, dtype=dt)
        D, Dd = diag(g, dt, batch, k)
        return O.CatLinearOperator(O.DenseLinearOperator(a), O.DenseLinearOperator(b), dim=-2) if n % 2 else \
            O.CatLinearOperator(O.DenseLinearOperator(a), D[..., :n, :], dim=-2), torch.cat([a, b if n % 2 else Dd[..., :n, :]], -2)

    def cat_cols_square(g, dt, batch, n):
        k = n + 2
        a, b = rn(g, *batch, k, 2, dtype=dt), rn(g, *batch, k, n, dtype=dt)
        return O.CatLinearOperator(O.DenseLinearOperator(a), O.DenseLinearOperator(b), dim=-1), torch.cat([a, b], -1)

    def interp_root(g, dt, batch, n):
        # InterpolatedLinearOperator over RootLinearOperator(Dense): special branch of _diagonal
        m = n + 1
        r = rn(g, *batch, m, 2, dtype=dt)
        li = torch.randint(0, m, (*batch, n, 2), generator=g)
        ri = torch.randint(0, m, (*batch, n, 2), generator=g)
        lv, rv = rn(g, *batch, n, 2, dtype=dt), rn(g, *batch, n, 2, dtype=dt)
        return (O.InterpolatedLinearOperator(O.RootLinearOperator(r), li, lv, ri, rv),
                interp_matrix(li, lv, m) @ (r @ r.mT) @ interp_matrix(ri, rv, m).mT)

    def kernel_square(g, dt, batch, n):
        x1 = rn(g, *batch, n, 2, dtype=dt)
        x2 = x1 + 0.25 * rn(g, *batch, n, 2, dtype=dt)
        ls = rn(g, *batch, dtype=dt).abs() + 0.7 if batch else torch.tensor(0.9, dtype=dt)
        return (O.KernelLinearOperator(x1, x2, covar_func=zoo._rbf, lengthscale=ls, num_nonbatch_dimensions={"lengthscale": 0}),
                zoo._rbf(x1, x2, ls))

    def matmul_toeplitz_square(g, dt, batch, n):
        T, Td = toep(g, dt, batch, n)
        a = rn(g, *batch, n, n, dtype=dt)
        return O.MatmulLinearOperator(T, O.DenseLinearOperator(a)), Td @ a

    def matmul_unbatched_right(g, dt, batch, n):
        a, b = rn(g, *batch, n, n + 1, dtype=dt), rn(g, n + 1, n, dtype=dt)
        return O.MatmulLinearOperator(O.DenseLinearOperator(a), O.DenseLinearOperator(b)), a @ b

    return [
        Case("x_cat3_rows", "CatLinearOperator", cat3_rows, square=False),
        Case("x_cat3_cols", "CatLinearOperator", cat3_cols, square=False),
        Case("x_cat_batch_inner", "CatLinearOperator", cat_batch_inner, square=False, sizes_note="needs batch rank>=1"),
        Case("x_cat_of_cat", "nested", cat_of_cat, square=False),
        Case("x_blockdiag_kron", "nested", blockdiag_kron),
        Case("x_blockinter_sum", "nested", blockinter_sum),
        Case("x_sumbatch_blockdiag", "nested", sumbatch_blockdiag),
        Case("x_batchrepeat_cat", "nested", batchrepeat_cat, square=False),
        Case("x_kron_toeplitz_diag", "nested", kron_toeplitz_diag),
        Case("x_constmul_batchconst_kron", "nested", constmul_batchconst_kron, square=False),
        Case("x_matmul_toeplitz_dense", "nested", matmul_toeplitz_dense, square=False),
        Case("x_sum_bcast", "SumLinearOperator", sum_bcast),
        Case("x_matmul_bcast", "MatmulLinearOperator", matmul_bcast, square=False),
        Case("x_kron_bcast", "KroneckerProductLinearOperator", kron_bcast, square=False),
        Case("x_interp_bcast", "InterpolatedLinearOperator", interp_bcast, square=False),
        Case("x_masked_toeplitz", "nested", masked_toeplitz, square=False),
        Case("x_addeddiag_toeplitz_const", "nested", addeddiag_toeplitz_const),
        Case("x_sum3_dense_kron_zero", "nested", sum3_dense_kron_zero),
        Case("x_zero_square", "ZeroLinearOperator", zero_square),
        Case("x_constmul_blockinter", "nested", constmul_blockinter, square=False),
        Case("x_sumbatch_interp", "nested", sumbatch_interp, square=False),
        Case("x_tri_of_blockdiag", "nested", tri_of_blockdiag),
        Case("x_interp_of_kron", "nested", interp_of_kron, square=False),
        Case("x_getitem_history", "nested", getitem_history, square=False),
        Case("x_dense_square", "DenseLinearOperator", dense_sq),
        Case("x_cat_rows_square", "CatLinearOperator", cat_rows_square),
        Case("x_cat_cols_square", "CatLinearOperator", cat_cols_square),
        Case("x_interp_root", "nested", interp_root),
        Case("x_kernel_square", "KernelLinearOperator", kernel_square),
        Case("x_matmul_toeplitz_square", "nested", matmul_toeplitz_square),
        Case("x_matmul_unbatched_right", "MatmulLinearOperator", matmul_unbatched_right),
    ]


EXTRA_NAMES = [
    "x_cat3_rows", "x_cat3_cols", "x_cat_batch_inner", "x_cat_of_cat", "x_blockdiag_kron", "x_blockinter_sum", "x_sumbatch_blockdiag",
    "x_batchrepeat_cat", "x_kron_toeplitz_diag", "x_constmul_batchconst_kron", "x_matmul_toeplitz_dense", "x_sum_bcast", "x_matmul_bcast",
    "x_kron_bcast", "x_interp_bcast", "x_masked_toeplitz", "x_addeddiag_toeplitz_const", "x_sum3_dense_kron_zero", "x_zero_square",
    "x_constmul_blockinter", "x_sumbatch_interp", "x_tri_of_blockdiag", "x_interp_of_kron", "x_getitem_history", "x_dense_square",
    "x_cat_rows_square", "x_cat_cols_square", "x_interp_root", "x_kernel_square", "x_matmul_toeplitz_square", "x_matmul_unbatched_right",
]

CAT_DIM = {"cat_cols": -1, "cat_rows": -2, "x_cat3_rows": -2, "x_cat3_cols": -1, "x_cat_batch_inner": -3, "x_cat_rows_square": -2, "x_cat_cols_square": -1}


def all_instances(tier, names, dtypes=None, batches=None, sizes=None):
    """zoo instances + the extra cases, same grid / labels / seeds as zoo.instances"""
    import itertools

    from contracts import zoo

    yield from zoo.instances(tier, names=names, dtypes=dtypes, batches=batches, sizes=sizes)
    batches = batches or (zoo.BATCHES_QUICK if tier == "quick" else zoo.BATCHES_QUICK + [(1, 2), (3, 1, 2)])
    sizes = sizes or (zoo.SIZES_QUICK if tier == "quick" else [1, 2, 3, 4, 6, 9])
    for c in extra_cases():
        if c.name not in names:
            continue
        for dt, batch, n in itertools.product(dtypes or zoo.DTYPES, batches, sizes):
            if c.name == "x_cat_batch_inner" and not batch:
                continue
            label = f"{c.name}|{str(dt)[6:]}|b={batch}|n={n}"
            s = zlib.crc32(repr((c.name, str(dt), batch, n, 0)).encode()) % (2 ** 31)
            try:
                op, dense = c.build(zoo.gen(s), dt, batch, n)
            except Exception as e:  # noqa
                yield (label, c, None, e)
                continue
            yield (label, c, op, dense)


# ------------------------------------------------------------------------------------------
# the unit function

BUDGET = {  # number of index tuples per operator instance and family
    "quick": dict(singles=40, pairs=16, rand=6, ellipsis=6, rank2=7, negval=2, second_step=2),
    "thorough": dict(singles=100, pairs=48, rand=16, ellipsis=10, rank2=16, negval=3, second_step=4),
}


def rtc_getitem(case_names, tier):
    from contracts import zoo  # first: puts VERIF_REPO in front of sys.path
    import torch
    import linear_operator
    from linear_operator import settings
    from contracts.rtc_common import Recorder
    from engine.common import SEED

    torch.set_num_threads(1)  # tiny tensors; one OS process per unit already
    O = linear_operator.operators
    LO = O.LinearOperator
    rec = Recorder(PID)
    bud = BUDGET[tier]
    skipped_torch = 0
    n_indices = 0

    def compare(group, label, res, exp, dt):
        """res: operator or tensor returned by the library; exp: torch's answer on the dense oracle"""
        if isinstance(res, LO):
            if tuple(res.shape) != tuple(exp.shape):
                return rec.check(group, label, False, f"operator result shape {tuple(res.shape)} vs torch {tuple(exp.shape)}")
            done, d = rec.guard(group, label, lambda: res.to_dense())
            if not done:
                return False
            kind = type(res).__name__
        elif torch.is_tensor(res):
            d, kind = res, "tensor"
        else:
            return rec.check(group, label, False, f"result is a {type(res).__name__}")
        if tuple(d.shape) != tuple(exp.shape):
            return rec.check(group, label, False, f"{kind} result shape {tuple(d.shape)} vs torch {tuple(exp.shape)}")
        if d.dtype != exp.dtype:
            return rec.check(group, label, False, f"{kind} result dtype {d.dtype} vs {exp.dtype}")
        ok = zoo.close(d, exp, dt=dt, scale=4.0)
        return rec.check(group, label, ok, "" if ok else f"{kind} result values differ from D[index]: max abs err "
                         f"{float((d.double() - exp.double()).abs().max()):.3e}")

    if tier == "quick":  # float64 on the full batch x size grid, float32 on half of the sizes
        grids = [dict(dtypes=[torch.float64]), dict(dtypes=[torch.float32], sizes=[1, 4])]
    else:
        grids = [dict()]
    for label, c, op, dense in (inst for gr in grids for inst in all_instances(tier, case_names, **gr)):
        if op is None:
            rec.check(f"construct/{c.name}", label, False, f"constructor raised {dense!r}")
            continue
        dt = dense.dtype
        rank = dense.dim()
        seed = zlib.crc32(repr((label, SEED)).encode()) % (2 ** 31)
        ig = IndexGen(torch, dense.shape, seed)

        # the oracle itself: to_dense() (what the property compares with) must be the documented matrix
        done, td = rec.guard(f"oracle_to_dense/{c.name}", label, lambda: op.to_dense())
        if done:
            rec.check(f"oracle_to_dense/{c.name}", label, td.shape == dense.shape and zoo.close(td, dense, scale=4.0), "to_dense() != D (see C01)")
        else:
            continue  # results of indexing could not be densified either: reported once in this group (a C01 matter)

        # ---- diagonal
        if dense.shape[-1] == dense.shape[-2]:
            expd = dense.diagonal(dim1=-2, dim2=-1)
            for dbg in (True, False):
                with settings.debug(dbg):
                    for how, fn in (("diagonal", lambda: op.diagonal()), ("torch.diagonal", lambda: torch.diagonal(op, dim1=-2, dim2=-1)),
                                    ("_diagonal", lambda: op._diagonal())):
                        lab = f"{label}|dbg={int(dbg)}|{how}"
                        done, r = rec.guard(f"diagonal/{c.name}", lab, fn)
                        if done:
                            ok = torch.is_tensor(r) and r.shape == expd.shape and r.dtype == expd.dtype and zoo.close(r, expd, dt=dt, scale=4.0)
                            rec.check(f"diagonal/{c.name}", lab, ok, f"shape {tuple(r.shape)} dtype {r.dtype} vs {tuple(expd.shape)} {expd.dtype}"
                                      if not (torch.is_tensor(r) and r.shape == expd.shape and r.dtype == expd.dtype) else "values differ from diag(D)")

        # ---- index tuples: a stratified, rotating 1/k sample of every family (offset = hash of the instance label,
        #      so the instances of one case together cover every stratum several times)
        def take(lst, n):
            if n <= 0 or not lst:
                return []
            stride = max(1, -(-len(lst) // n))
            return lst[seed % stride::stride]

        idxs = take(ig.singles(), bud["singles"])
        pairs = ig.all_pairs()
        idxs += [ig.pair(*pq) for pq in take(pairs, bud["pairs"])]
        idxs += [ig.random_full() for _ in range(bud["rand"])]
        idxs += take(ig.with_ellipsis(), bud["ellipsis"])
        idxs += take(ig.rank2(), bud["rank2"])
        negv = take(ig.negative_valued(), bud["negval"])
        seen = set()
        second = 0
        for which, lst in (("std", idxs), ("negval", negv)):
            for ix in lst:
                key = fmt_index(ix)
                if key in seen:
                    continue
                seen.add(key)
                try:
                    exp = dense[ix]
                except Exception:  # torch itself rejects the index: not in the property's domain (C19)
                    skipped_torch += 1
                    continue
                if exp.numel() == 0:
                    continue
                n_indices += 1
                fam = "negative_valued_tensor" if which == "negval" else family_of(torch, ix, rank)
                trig = trigger_of(torch, c.name, normalise(torch, ix, rank), tuple(dense.shape))
                group = f"getitem:{fam}{'+' + trig if trig else ''}/{c.name}"
                results = []
                for dbg in (True, False):
                    lab = f"{label}|dbg={int(dbg)}|ix={key}"
                    with settings.debug(dbg):
                        try:
                            res = op[ix]
                        except Exception as e:  # noqa
                            if permitted_unsupported(torch, O, e, op, ix, CAT_DIM.get(c.name)):
                                rec.check(f"getitem:declared_unsupported/{c.name}", lab, True, nontrivial=False)
                            else:
                                import traceback
                                tb = [ln.strip() for ln in traceback.format_exc().strip().splitlines() if ln.strip().startswith("File")]
                                rec.check(group, lab, False, f"raised {type(e).__name__}: {str(e)[:300]} @ {tb[-1][-120:] if tb else ''}")
                            continue
                        if compare(group, lab, res, exp, dt):
                            results.append(res)
                # ---- second step on an operator result (multi-step history): index / diagonal of the result
                if results and isinstance(results[0], LO) and second < bud["second_step"] and (seed + n_indices) % 7 == 0:
                    second += 1
                    res = results[0]
                    ig2 = IndexGen(torch, exp.shape, seed + second)
                    for ix2 in [ig2.random_full() for _ in range(3)] + [(Ellipsis, ig2.tensor(exp.dim() - 2, (3,)), ig2.tensor(exp.dim() - 1, (3,)))]:
                        try:
                            exp2 = exp[ix2]
                        except Exception:
                            continue
                        if exp2.numel() == 0:
                            continue
                        fam2 = family_of(torch, ix2, exp.dim())
                        if fam2 in ("negint_matrix_pos", "batch_tensor+int_row+tensor_col", "rank2_batch_row_tensors+trailing_col"):
                            continue  # generic __getitem__ defect families: already evaluated in the first step
                        lab2 = f"{label}|ix={key}|then={fmt_index(ix2)}"
                        trig2 = trigger_of(torch, c.name, normalise(torch, ix2, exp.dim()), tuple(exp.shape))  # (matrix dims stay last)
                        # a first step that satisfies a trigger may "pass" and still hand back a damaged operator; second steps on
                        # results of the classes with known indexing defects cannot be classified from the input alone
                        t2 = (trig and f"after_{trig}") or trig2 or ("unclassified" if c.name in KNOWN_DEFECT_CASES else "plain")
                        g2 = f"getitem_twice:{t2}/{c.name}"
                        try:
                            r2 = res[ix2]
                        except Exception as e:  # noqa
                            if not permitted_unsupported(torch, O, e, res, ix2):
                                rec.check(g2, lab2, False, f"raised {type(e).__name__}: {str(e)[:300]}")
                            continue
                        compare(g2, lab2, r2, exp2, dt)
                    if exp.shape[-1] == exp.shape[-2]:
                        lab2 = f"{label}|ix={key}|then=diagonal"
                        gd = f"getitem_twice:diagonal{'_after_' + trig if trig else ''}/{c.name}"
                        done, r2 = rec.guard(gd, lab2, lambda: res.diagonal())
                        if done:
                            e2 = exp.diagonal(dim1=-2, dim2=-1)
                            rec.check(gd, lab2, r2.shape == e2.shape and zoo.close(r2, e2, dt=dt, scale=4.0), "diagonal of indexed operator")
    obs = rec.obligations()
    return {"obligations": obs, "stats": {"indices": n_indices, "skipped_torch_rejects": skipped_torch}}


def rtc_units(tier):
    from contracts.zoo_names import CASE_NAMES
    names = list(CASE_NAMES) + EXTRA_NAMES
    nunits = 16 if tier == "quick" else 26
    buckets = [[] for _ in range(nunits)]
    for i, nm in enumerate(names):  # round-robin: spreads the expensive (interpolated / nested) cases
        buckets[i % nunits].append(nm)
    return [Unit(f"C03/rtc/getitem[{','.join(b)}]", "contracts.rtc_C03", "rtc_getitem", (b, tier), engine="rtc", timeout_s=1500)
            for b in buckets if b]


RTC_META = {
    "explanation": "bounded run-time contract: op[index] (densified if an operator) and op.diagonal() compared with torch indexing of the "
                   "independent dense oracle D(op), shape + dtype + values, settings.debug on and off; declared not-supported errors "
                   "(CatLinearOperator: stepped slice / rank>=2 tensor on the concatenation dimension) are the only tolerated exceptions",
    "assumptions": ["torch's own indexing of the dense oracle defines the expected result (indices torch rejects are skipped, see C19)",
                    "zoo oracle D(op) (contracts/zoo.py + extra nested/broadcast cases in rtc_C03.extra_cases)",
                    "values compared with the zoo tolerance (float64 4e-9, float32 8e-4 relative to max|D|): indexing may recompute entries"],
    "families": "52 zoo cases + 31 extra nested / broadcasting-batch cases x batch shapes {(),(2,),(1,),(2,3)} (+(1,2),(3,1,2) thorough) "
                "x sizes {1,2,4,6} in float64 and {1,4} in float32 (thorough: {1,2,3,4,6,9} in both dtypes); per instance: every index atom (8 ints, <=31 slices, 0-d/1-d tensors, lists) in every "
                "position (singles, also behind/before an Ellipsis and as bare index), a stratified rotating 1/k sample of all atom pairs in all "
                "position pairs (16 quick / 48 thorough per instance), seeded random full-rank tuples (6 / 16), an Ellipsis in every position of "
                "tuples of every length, rank-2 broadcasting tensor combinations over every admissible position set, tensors with negative "
                "entries (own group), a second indexing step / diagonal on operator results; each with settings.debug on and off",
}
