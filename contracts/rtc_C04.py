"""C04 (bounded tier) - solve returns A^{-1}B whichever algorithm the library selects.

Also hosts the helpers shared by the bounded tiers of C04 / C05 / C06 (``helpers()``): local PSD
cases with prescribed spectra and extra nestings, fresh-instance enumeration, the settings-grid
context, the verbose_linalg log capture used to learn which algorithm really ran, and tolerances.

Nothing here imports torch at module import time (the driver imports this module)."""
from __future__ import annotations

import functools

from engine.common import Unit

PID = "C04"

# names of the local (non-zoo) cases; kept torch-free so that rtc_units() can split them in units
LOCAL_NAMES = [
    "dense_geo1e4", "dense_geo1e6", "dense_clustered1e4", "dense_uniform1e2", "user_geo1e4", "user_clustered1e3",
    "addeddiag_const", "addeddiag_root", "addeddiag_override", "dense_add_jitter", "kernel_plus_jitter", "interp_plus_diag",
    "toeplitz_ar1", "kron3", "kron_dense_diag", "kron_toeplitz_dense", "kpad_kd_const", "kpad_kd", "kpad_add_jitter",
    "kpad_add_diagonal_vec", "kpad_const_plus_const", "constmul_kron", "constmul_batchconst", "sum_kron_lowrank",
    "chol_inverse", "chol_inverse_upper", "chol_of_kron", "chol_of_blockdiag", "chol_of_batchrepeat", "chol_of_diag",
    "blockdiag_kron", "blockdiag_addeddiag", "blockinter_toeplitz", "batchrepeat_kron", "batchrepeat_blockdiag",
    "dense_expand", "toeplitz_repeat", "lrrad_const", "lrrad_fullrank", "sumbatch_addeddiag", "psdsum_kron_diag",
    "cat_batch_psd",
]
ZOO_PSD_NAMES = [
    "dense_psd", "diag", "constdiag", "identity", "toeplitz", "chol_lower", "chol_upper", "kron2", "kron_diag", "kpad_const",
    "kpad_diag", "sumkron", "addeddiag", "lrr_addeddiag", "sum", "psdsum", "mul", "constmul", "blockdiag", "blockinterleaved",
    "blockinterleaved3", "sumbatch", "batchrepeat", "batchrepeat2", "user_psd", "nest_sum_kron_root_diag",
    "nest_blockdiag_toeplitz", "nest_sumbatch_kron",
]
ALL_NAMES = ZOO_PSD_NAMES + LOCAL_NAMES
TRI_NAMES = [
    "tri_lower", "tri_upper", "tri_lower_T", "tri_upper_T", "tri_of_batchrepeat_lower", "tri_of_batchrepeat_upper",
    "tri_of_blockdiag_lower", "tri_of_blockdiag_upper", "tri_times_const", "tri_plus_diag", "tri_inverse_lower",
    "tri_inverse_upper", "kron_tri_lower", "kron_tri_upper", "kron_tri_lower_T",
]


@functools.lru_cache(maxsize=None)
def helpers():
    """Everything that needs torch; built once per (unit) process."""
    import contextlib
    import itertools
    import logging
    import math
    import types
    import warnings
    import zlib

    import torch

    torch.set_num_threads(1)
    from contracts import zoo  # noqa: E402  (puts VERIF_REPO first on sys.path and imports linear_operator)

    import linear_operator
    from linear_operator import operators as O
    from linear_operator import settings as S

    H = types.SimpleNamespace()
    H.torch, H.zoo, H.O, H.S, H.lo = torch, zoo, O, S, linear_operator
    f64 = torch.float64

    # ------------------------------------------------------------------ log capture
    logger = S.verbose_linalg.logger
    for h in list(logger.handlers):
        logger.removeHandler(h)
    logger.propagate = False

    class _ListHandler(logging.Handler):
        def __init__(self):
            super().__init__(level=logging.DEBUG)
            self.msgs = []

        def emit(self, record):
            self.msgs.append(record.getMessage())

    handler = _ListHandler()
    logger.addHandler(handler)

    class LogCapture:
        """with LogCapture() as lc: ...; lc.algos -> subset of {cg, cholesky, lanczos, symeig, pivchol, svd}"""

        def __enter__(self):
            handler.msgs = []
            self._ctx = S.verbose_linalg(True)
            self._ctx.__enter__()
            return self

        def __exit__(self, *a):
            self._ctx.__exit__(*a)
            self.msgs = list(handler.msgs)
            al = set()
            for m in self.msgs:
                if m.startswith("Running CG"):
                    al.add("cg")
                elif m.startswith("Running Cholesky"):
                    al.add("cholesky")
                elif m.startswith("Running Lanczos"):
                    al.add("lanczos")
                elif m.startswith("Running symeig"):
                    al.add("symeig")
                elif m.startswith("Running Pivoted Cholesky"):
                    al.add("pivchol")
                elif m.startswith("Running svd"):
                    al.add("svd")
            self.algos = al
            return False

    H.LogCapture = LogCapture

    class WarnCapture:
        def __enter__(self):
            self._cm = warnings.catch_warnings(record=True)
            self.w = self._cm.__enter__()
            warnings.simplefilter("always")
            return self

        def __exit__(self, *a):
            self._cm.__exit__(*a)
            self.texts = [str(x.message) for x in self.w]
            self.cg_not_converged = any("CG terminated" in t for t in self.texts)
            self.jitter_added = any("added jitter" in t for t in self.texts)
            return False

    H.WarnCapture = WarnCapture

    # ------------------------------------------------------------------ settings grid
    def cg_tol(cfg, dt):
        """configured CG tolerance; 'tight' = the tightest value the dtype can reach before the solver's own floor
        (otherwise float32 runs burn all 1000 iterations without ever meeting the tolerance)"""
        v = cfg.get("cg_tol", 1.0)
        if v == "tight":
            return 1e-7 if dt == f64 else 1e-4
        return float(v)

    H.cg_tol = cg_tol

    def cfg_ctx(cfg, N, dt=f64):
        """context for one settings combination.  cfg: dict; values 'N', 'N-1', '2N+20' are resolved with
        the operator size N, 'tight' with the dtype."""
        def rv(v):
            if v == "tight":
                return cg_tol(cfg, dt)
            if v == "N":
                return N
            if v == "N-1":
                return max(N - 1, 0)
            if v == "2N+20":
                return 2 * N + 20
            return v

        st = contextlib.ExitStack()
        if "mc" in cfg:
            st.enter_context(S.max_cholesky_size(rv(cfg["mc"])))
        if any(k in cfg for k in ("solves", "log_prob", "covar")):
            st.enter_context(S.fast_computations(solves=cfg.get("solves", True), log_prob=cfg.get("log_prob", True),
                                                 covar_root_decomposition=cfg.get("covar", True)))
        for key, ctx in (("cg_tol", S.cg_tolerance), ("max_cg", S.max_cg_iterations), ("max_pc", S.max_preconditioner_size),
                         ("min_pc", S.min_preconditioning_size), ("max_root", S.max_root_decomposition_size),
                         ("num_trace", S.num_trace_samples), ("max_lq", S.max_lanczos_quadrature_iterations)):
            if key in cfg:
                st.enter_context(ctx(rv(cfg[key])))
        if "memeff" in cfg:
            st.enter_context(S.memory_efficient(cfg["memeff"]))
        if "skip_ld" in cfg:
            st.enter_context(S.skip_logdet_forward(cfg["skip_ld"]))
        if cfg.get("linalg_f32"):
            st.enter_context(S.linalg_dtypes(default=torch.float32))
        return st

    H.cfg_ctx = cfg_ctx

    def expect_direct(cfg, N, which="solves"):
        """documented method selection: Cholesky (no CG) iff fast <which> off or N <= max_cholesky_size"""
        mc = cfg.get("mc", 800)
        mc = N if mc == "N" else (max(N - 1, 0) if mc == "N-1" else mc)
        if not cfg.get("solves", True):
            return True
        if which == "log_prob" and not cfg.get("log_prob", True):
            return True
        return N <= mc

    H.expect_direct = expect_direct

    # ------------------------------------------------------------------ spectra / SPD builders
    def spectrum(g, kind, n, cond):
        if n == 1:
            return torch.full((1,), 1.0 + 0.5 * float(torch.rand(1, generator=g, dtype=f64)), dtype=f64)
        if kind == "geo":
            ev = torch.logspace(0, math.log10(cond), n, dtype=f64)
        elif kind == "uniform":
            ev = torch.linspace(1.0, cond, n, dtype=f64)
        elif kind == "clustered":
            k = n // 2
            lo = 1.0 + 0.05 * torch.arange(n - k, dtype=f64)
            hi = cond * (1.0 - 0.02 * torch.arange(k, dtype=f64))
            ev = torch.cat([lo, hi])
        elif kind == "rand":  # distinct, irregular: products / sums across factors stay distinct
            ev = 1.0 + (cond - 1.0) * torch.rand(n, generator=g, dtype=f64).sort()[0]
            ev[0], ev[-1] = 1.0 + 0.1 * float(torch.rand(1, generator=g, dtype=f64)), cond
            ev = ev + 0.37 * torch.arange(n, dtype=f64) / n
        else:
            raise ValueError(kind)
        return ev

    def spd_spec(g, batch, n, dt, kind="geo", cond=10.0):
        q, _ = torch.linalg.qr(torch.randn(*batch, n, n, generator=g, dtype=f64))
        ev = spectrum(g, kind, n, cond)
        if kind == "rand" and batch:  # a different spectrum per batch element
            ev = torch.stack([spectrum(g, kind, n, cond) for _ in range(math.prod(batch))]).reshape(*batch, n)
        a = (q * ev.unsqueeze(-2)) @ q.mT
        a = 0.5 * (a + a.mT)
        return a.to(dt)

    H.spd_spec = spd_spec
    rn, kron, fs = zoo.rn, zoo.kron, zoo._factor_sizes

    def tril_pd(g, batch, n, dt):
        t = rn(g, *batch, n, n, dtype=dt).tril() * 0.5
        d = t.diagonal(dim1=-1, dim2=-2)
        return t - torch.diag_embed(d) + torch.diag_embed(d.abs() + 1.0)

    def tri_signed(g, batch, n, dt, upper):
        t = rn(g, *batch, n, n, dtype=dt) * 0.5
        t = t.triu() if upper else t.tril()
        d = t.diagonal(dim1=-1, dim2=-2)
        sgn = torch.where(d >= 0, torch.ones_like(d), -torch.ones_like(d))
        return t - torch.diag_embed(d) + torch.diag_embed(sgn * (d.abs() + 1.0))

    def posdiag(g, batch, n, dt, lo=0.5):
        return rn(g, *batch, n, dtype=dt).abs() + lo

    Dn, Dg = O.DenseLinearOperator, O.DiagLinearOperator

    def constdiag(g, batch, n, dt, lo=0.5):
        v = rn(g, *batch, 1, dtype=dt).abs() + lo
        return O.ConstantDiagLinearOperator(v, diag_shape=n), torch.diag_embed(v.expand(*batch, n))

    def ar1_col(g, batch, n, dt, rho=0.8):
        r = torch.full((*batch, 1), rho, dtype=f64) * (0.6 + 0.4 * torch.rand(*batch, 1, generator=g, dtype=f64))
        return (r ** torch.arange(n, dtype=f64)).to(dt)

    # ------------------------------------------------------------------ local PSD cases
    L = {}

    def case(name, cond=10.0, cg=True, f32=True, cls="local"):
        def deco(fn):
            c = zoo.Case(name, cls, fn, psd=True)
            c.cond, c.cg, c.f32 = cond, cg, f32
            L[name] = c
            return fn
        return deco

    for nm, kind, cond, wrap in (("dense_geo1e4", "geo", 1e4, "dense"), ("dense_geo1e6", "geo", 1e6, "dense"),
                                 ("dense_clustered1e4", "clustered", 1e4, "dense"), ("dense_uniform1e2", "uniform", 1e2, "dense"),
                                 ("user_geo1e4", "geo", 1e4, "user"), ("user_clustered1e3", "clustered", 1e3, "user")):
        def _mk(kind=kind, cond=cond, wrap=wrap):
            def f(g, dt, batch, n):
                a = spd_spec(g, batch, n, dt, kind, cond)
                return (Dn(a) if wrap == "dense" else zoo._UserOp(a)), a.clone()
            return f
        case(nm, cond=cond, cg=cond <= 1e4, f32=cond <= 1e3)(_mk())

    @case("addeddiag_const", cond=2e3)
    def _(g, dt, batch, n):  # decaying kernel-like spectrum + constant noise: constant-diagonal preconditioner branch
        q, _ = torch.linalg.qr(torch.randn(*batch, n, n, generator=g, dtype=f64))
        ev = 100.0 * 0.35 ** torch.arange(n, dtype=f64)
        k = ((q * ev) @ q.mT).to(dt)
        k = 0.5 * (k + k.mT)
        D, Dd = constdiag(g, batch, n, dt, lo=0.05)
        return O.AddedDiagLinearOperator(Dn(k), D), k + Dd

    @case("addeddiag_root", cond=1e3)
    def _(g, dt, batch, n):
        r = rn(g, *batch, n, max(1, n // 2), dtype=dt)
        d = posdiag(g, batch, n, dt, 0.1)
        return O.AddedDiagLinearOperator(O.RootLinearOperator(r), Dg(d)), r @ r.mT + torch.diag_embed(d)

    @case("addeddiag_override", cond=1e2)
    def _(g, dt, batch, n):  # user-supplied (Jacobi) preconditioner
        a = spd_spec(g, batch, n, dt, "rand", 50.0)
        d = posdiag(g, batch, n, dt)

        def override(op):
            p = op._linear_op._diagonal() + op._diag_tensor._diagonal()
            return (lambda v: v / p.unsqueeze(-1)), Dg(p), p.log().sum(-1)

        return O.AddedDiagLinearOperator(Dn(a), Dg(d), preconditioner_override=override), a + torch.diag_embed(d)

    @case("dense_add_jitter", cond=1e2)
    def _(g, dt, batch, n):
        a = spd_spec(g, batch, n, dt, "rand", 30.0)
        return Dn(a).add_jitter(0.25), a + 0.25 * torch.eye(n, dtype=dt)

    @case("kernel_plus_jitter", cond=1e3)
    def _(g, dt, batch, n):
        x = rn(g, *batch, n, 2, dtype=dt)
        ls = rn(g, *batch, dtype=dt).abs() + 0.7 if batch else torch.tensor(1.3, dtype=dt)
        K = O.KernelLinearOperator(x, x, covar_func=zoo._rbf, lengthscale=ls, num_nonbatch_dimensions={"lengthscale": 0})
        return K.add_jitter(0.1), zoo._rbf(x, x, ls) + 0.1 * torch.eye(n, dtype=dt)

    @case("interp_plus_diag", cond=1e3)
    def _(g, dt, batch, n):  # SKI-like: W K W^T + D
        op, d = zoo._interp_sym(g, dt, batch, n)
        dd = posdiag(g, batch, n, dt, 0.3)
        return op + Dg(dd), d + torch.diag_embed(dd)

    @case("toeplitz_ar1", cond=1e2)
    def _(g, dt, batch, n):
        c = ar1_col(g, batch, n, dt)
        return O.ToeplitzLinearOperator(c), zoo.toeplitz_dense(c)

    @case("kron3", cond=1e3)
    def _(g, dt, batch, n):
        A, B, C = spd_spec(g, batch, 2, dt, "rand", 7.0), spd_spec(g, batch, n, dt, "rand", 11.0), spd_spec(g, batch, 2, dt, "rand", 5.0)
        return O.KroneckerProductLinearOperator(Dn(A), Dn(B), Dn(C)), kron(kron(A, B), C)

    @case("kron_dense_diag", cond=1e2)
    def _(g, dt, batch, n):
        a_, b_ = fs(n)
        A, d = spd_spec(g, batch, a_, dt, "rand", 9.0), posdiag(g, batch, b_, dt)
        return O.KroneckerProductLinearOperator(Dn(A), Dg(d)), kron(A, torch.diag_embed(d))

    @case("kron_toeplitz_dense", cond=1e3)
    def _(g, dt, batch, n):
        a_, b_ = fs(n)
        c, B = ar1_col(g, batch, a_, dt), spd_spec(g, batch, b_, dt, "rand", 9.0)
        return O.KroneckerProductLinearOperator(O.ToeplitzLinearOperator(c), Dn(B)), kron(zoo.toeplitz_dense(c), B)

    def _kron_rand(g, dt, batch, n, c1=9.0, c2=13.0):
        a_, b_ = fs(n)
        A, B = spd_spec(g, batch, a_, dt, "rand", c1), spd_spec(g, batch, b_, dt, "rand", c2)
        return O.KroneckerProductLinearOperator(Dn(A), Dn(B)), kron(A, B), (a_, b_)

    @case("kpad_kd_const", cond=1e3)
    def _(g, dt, batch, n):  # Kronecker + Kronecker-of-constant-diagonals (non-unit constants)
        K, Kd, (a_, b_) = _kron_rand(g, dt, batch, n)
        (D1, d1), (D2, d2) = constdiag(g, batch, a_, dt, 1.5), constdiag(g, batch, b_, dt, 0.3)
        return O.KroneckerProductAddedDiagLinearOperator(K, O.KroneckerProductDiagLinearOperator(D1, D2)), Kd + kron(d1, d2)

    @case("kpad_kd", cond=1e3)
    def _(g, dt, batch, n):  # Kronecker + Kronecker-of-diagonals (symmetrisation branch)
        K, Kd, (a_, b_) = _kron_rand(g, dt, batch, n)
        d1, d2 = posdiag(g, batch, a_, dt), posdiag(g, batch, b_, dt)
        return (O.KroneckerProductAddedDiagLinearOperator(K, O.KroneckerProductDiagLinearOperator(Dg(d1), Dg(d2))),
                Kd + kron(torch.diag_embed(d1), torch.diag_embed(d2)))

    @case("kpad_add_jitter", cond=1e3)
    def _(g, dt, batch, n):
        K, Kd, _s = _kron_rand(g, dt, batch, n)
        return K.add_jitter(0.4), Kd + 0.4 * torch.eye(n, dtype=dt)

    @case("kpad_add_diagonal_vec", cond=1e3)
    def _(g, dt, batch, n):
        K, Kd, _s = _kron_rand(g, dt, batch, n)
        d = posdiag(g, batch, n, dt)
        return K.add_diagonal(d), Kd + torch.diag_embed(d)

    @case("kpad_const_plus_const", cond=1e3)
    def _(g, dt, batch, n):
        K, Kd, _s = _kron_rand(g, dt, batch, n)
        (D1, d1), (D2, d2) = constdiag(g, batch, n, dt), constdiag(g, batch, n, dt)
        return (K + D1) + D2, Kd + d1 + d2

    @case("constmul_kron", cond=1e3)
    def _(g, dt, batch, n):
        K, Kd, _s = _kron_rand(g, dt, batch, n)
        return K * 2.5, Kd * 2.5

    @case("constmul_batchconst", cond=1e2)
    def _(g, dt, batch, n):
        a = spd_spec(g, batch, n, dt, "rand", 40.0)
        c = rn(g, *batch, dtype=dt).abs() + 0.5 if batch else torch.tensor(0.7, dtype=dt)
        return O.ConstantMulLinearOperator(zoo._UserOp(a), c), a * c[..., None, None]

    @case("sum_kron_lowrank", cond=1e3)
    def _(g, dt, batch, n):
        K, Kd, _s = _kron_rand(g, dt, batch, n)
        r = rn(g, *batch, n, max(1, n // 2), dtype=dt)
        return K + O.LowRankRootLinearOperator(r), Kd + r @ r.mT

    @case("chol_inverse", cond=1e2)
    def _(g, dt, batch, n):
        t = tril_pd(g, batch, n, dt)
        return O.CholLinearOperator(O.TriangularLinearOperator(t)).inverse(), torch.linalg.inv((t @ t.mT).to(f64)).to(dt)

    @case("chol_inverse_upper", cond=1e2)
    def _(g, dt, batch, n):
        r = tril_pd(g, batch, n, dt).mT.contiguous()
        return (O.CholLinearOperator(O.TriangularLinearOperator(r, upper=True), upper=True).inverse(),
                torch.linalg.inv((r.mT @ r).to(f64)).to(dt))

    @case("chol_of_kron", cond=1e3)
    def _(g, dt, batch, n):
        K, Kd, _s = _kron_rand(g, dt, batch, n)
        return O.CholLinearOperator(K.cholesky()), Kd

    @case("chol_of_blockdiag", cond=1e2)
    def _(g, dt, batch, n):
        blocks = spd_spec(g, (*batch, 2), n, dt, "rand", 20.0)
        return O.CholLinearOperator(O.BlockDiagLinearOperator(Dn(blocks)).cholesky()), zoo.block_diag_dense(blocks)

    @case("chol_of_batchrepeat", cond=1e2)
    def _(g, dt, batch, n):
        a = spd_spec(g, (), n, dt, "rand", 20.0)
        rep = torch.Size(batch) if batch else torch.Size([1])
        return O.CholLinearOperator(O.BatchRepeatLinearOperator(Dn(a), rep).cholesky()), a.repeat(*rep, 1, 1)

    @case("chol_of_diag", cond=1e2)
    def _(g, dt, batch, n):
        d = posdiag(g, batch, n, dt)
        return O.CholLinearOperator(Dg(d)), torch.diag_embed(d * d)

    @case("blockdiag_kron", cond=1e3)
    def _(g, dt, batch, n):
        K, Kd, _s = _kron_rand(g, dt, (*batch, 2), n)
        return O.BlockDiagLinearOperator(K), zoo.block_diag_dense(Kd)

    @case("blockdiag_addeddiag", cond=1e2)
    def _(g, dt, batch, n):
        blocks = spd_spec(g, (*batch, 3), n, dt, "rand", 20.0)
        d = posdiag(g, (*batch, 3), n, dt)
        return O.BlockDiagLinearOperator(O.AddedDiagLinearOperator(Dn(blocks), Dg(d))), zoo.block_diag_dense(blocks + torch.diag_embed(d))

    @case("blockinter_toeplitz", cond=1e2)
    def _(g, dt, batch, n):
        c = ar1_col(g, (*batch, 2), n, dt)
        return O.BlockInterleavedLinearOperator(O.ToeplitzLinearOperator(c)), zoo.block_interleaved_dense(zoo.toeplitz_dense(c))

    @case("batchrepeat_kron", cond=1e3)
    def _(g, dt, batch, n):
        K, Kd, _s = _kron_rand(g, dt, (), n)
        rep = torch.Size(batch) if batch else torch.Size([2])
        return O.BatchRepeatLinearOperator(K, rep), Kd.repeat(*rep, 1, 1)

    @case("batchrepeat_blockdiag", cond=1e2)
    def _(g, dt, batch, n):
        blocks = spd_spec(g, (2, 2), n, dt, "rand", 20.0)  # base batch (2,), 2 blocks
        rep = torch.Size((*batch, 2)) if batch else torch.Size([2])
        return O.BatchRepeatLinearOperator(O.BlockDiagLinearOperator(Dn(blocks)), rep), zoo.block_diag_dense(blocks).repeat(*rep, 1, 1)

    @case("dense_expand", cond=1e2)
    def _(g, dt, batch, n):  # stride-0 batch dimensions
        a = spd_spec(g, (), n, dt, "rand", 30.0)
        b = batch if batch else (2,)
        return Dn(a).expand(*b, n, n), a.expand(*b, n, n).clone()

    @case("toeplitz_repeat", cond=1e2)
    def _(g, dt, batch, n):
        c = ar1_col(g, (), n, dt)
        b = batch if batch else (2,)
        return O.ToeplitzLinearOperator(c).repeat(*b, 1, 1), zoo.toeplitz_dense(c).repeat(*b, 1, 1)

    @case("lrrad_const", cond=1e3)
    def _(g, dt, batch, n):
        r = rn(g, *batch, n, max(1, n // 2), dtype=dt)
        D, Dd = constdiag(g, batch, n, dt, 0.2)
        return O.LowRankRootAddedDiagLinearOperator(O.LowRankRootLinearOperator(r), D), r @ r.mT + Dd

    @case("lrrad_fullrank", cond=1e3)
    def _(g, dt, batch, n):  # rank > n, diagonal first
        r = rn(g, *batch, n, n + 1, dtype=dt)
        d = posdiag(g, batch, n, dt, 0.2)
        return O.LowRankRootAddedDiagLinearOperator(Dg(d), O.LowRankRootLinearOperator(r)), r @ r.mT + torch.diag_embed(d)

    @case("sumbatch_addeddiag", cond=1e2)
    def _(g, dt, batch, n):
        blocks = spd_spec(g, (*batch, 2), n, dt, "rand", 20.0)
        d = posdiag(g, (*batch, 2), n, dt)
        return O.SumBatchLinearOperator(O.AddedDiagLinearOperator(Dn(blocks), Dg(d))), (blocks + torch.diag_embed(d)).sum(-3)

    @case("psdsum_kron_diag", cond=1e3)
    def _(g, dt, batch, n):
        K, Kd, _s = _kron_rand(g, dt, batch, n)
        a = spd_spec(g, batch, n, dt, "rand", 10.0)
        return O.PsdSumLinearOperator(K, zoo._UserOp(a)), Kd + a

    @case("cat_batch_psd", cond=1e2)
    def _(g, dt, batch, n):  # concatenation along a batch dimension of PSD batches
        rest = batch[1:] if batch else ()
        a, b = spd_spec(g, (2, *rest), n, dt, "rand", 20.0), spd_spec(g, (1, *rest), n, dt, "rand", 30.0)
        return O.CatLinearOperator(Dn(a), Dn(b), dim=0), torch.cat([a, b], 0)

    assert sorted(L) == sorted(LOCAL_NAMES), sorted(set(L) ^ set(LOCAL_NAMES))
    for nm in ZOO_PSD_NAMES:
        c = zoo.BY_NAME[nm]
        assert c.psd, nm
        if not hasattr(c, "cond"):
            c.cond, c.cg, c.f32 = 1e2, True, True
    H.CASES = {**{nm: zoo.BY_NAME[nm] for nm in ZOO_PSD_NAMES}, **L}

    # ------------------------------------------------------------------ triangular family (stored orientation)
    T = {}

    def tcase(name, upper):
        def deco(fn):
            c = zoo.Case(name, "triangular", fn)
            c.upper = upper
            T[name] = c
            return fn
        return deco

    for up in (False, True):
        nm = "upper" if up else "lower"

        @tcase(f"tri_{nm}", up)
        def _(g, dt, batch, n, up=up):
            t = tri_signed(g, batch, n, dt, up)
            return O.TriangularLinearOperator(t, upper=up), t.clone()

        @tcase(f"tri_{nm}_T", not up)
        def _(g, dt, batch, n, up=up):
            t = tri_signed(g, batch, n, dt, up)
            return O.TriangularLinearOperator(t, upper=up)._transpose_nonbatch(), t.mT.clone()

        @tcase(f"tri_of_batchrepeat_{nm}", up)
        def _(g, dt, batch, n, up=up):
            t = tri_signed(g, (), n, dt, up)
            rep = torch.Size(batch) if batch else torch.Size([2])
            return O.TriangularLinearOperator(O.BatchRepeatLinearOperator(Dn(t), rep), upper=up), t.repeat(*rep, 1, 1)

        @tcase(f"tri_of_blockdiag_{nm}", up)
        def _(g, dt, batch, n, up=up):  # the structure BlockDiagLinearOperator.cholesky() returns
            t = tri_signed(g, (*batch, 2), n, dt, up)
            inner = O.BlockDiagLinearOperator(O.TriangularLinearOperator(t, upper=up))
            return O.TriangularLinearOperator(inner, upper=up), zoo.block_diag_dense(t)

        @tcase(f"tri_inverse_{nm}", up)
        def _(g, dt, batch, n, up=up):
            t = tri_signed(g, batch, n, dt, up)
            return O.TriangularLinearOperator(t, upper=up).inverse(), torch.linalg.inv(t.to(f64)).to(dt)

        @tcase(f"kron_tri_{nm}", up)
        def _(g, dt, batch, n, up=up):
            a_, b_ = fs(n)
            A, B = tri_signed(g, batch, a_, dt, up), tri_signed(g, batch, b_, dt, up)
            return (O.KroneckerProductTriangularLinearOperator(O.TriangularLinearOperator(A, upper=up),
                                                               O.TriangularLinearOperator(B, upper=up), upper=up), kron(A, B))

    @tcase("kron_tri_lower_T", True)
    def _(g, dt, batch, n):
        a_, b_ = fs(n)
        A, B = tri_signed(g, batch, a_, dt, False), tri_signed(g, batch, b_, dt, False)
        op = O.KroneckerProductTriangularLinearOperator(O.TriangularLinearOperator(A), O.TriangularLinearOperator(B))
        return op._transpose_nonbatch(), kron(A, B).mT.clone()

    @tcase("tri_times_const", False)
    def _(g, dt, batch, n):  # public route to non-dense data (ConstantMul) without its own _cholesky_solve
        t = tri_signed(g, batch, n, dt, False)
        return O.TriangularLinearOperator(t) * 2.0, t * 2.0

    @tcase("tri_plus_diag", False)
    def _(g, dt, batch, n):
        t = tri_signed(g, batch, n, dt, False)
        d = posdiag(g, batch, n, dt)
        d = d * torch.sign(t.diagonal(dim1=-1, dim2=-2))  # keep it well conditioned
        return O.TriangularLinearOperator(t) + Dg(d), t + torch.diag_embed(d)

    assert sorted(T) == sorted(TRI_NAMES), sorted(set(T) ^ set(TRI_NAMES))
    H.TRI = T

    # ------------------------------------------------------------------ instance enumeration
    def combos(tier, dtypes=None, batches=None, sizes=None):
        """(dtype, batch, n) combinations: every (batch, size) pair in float64, a checkerboard half in float32 (quick: even,
        thorough: odd); thorough adds batch shapes (1,2), (3,1,2) and sizes 3, 9 (and a second seed for sizes <= 2, see family())."""
        quick = tier == "quick"
        full = dtypes is not None or batches is not None or sizes is not None
        batches = batches or (zoo.BATCHES_QUICK if quick else zoo.BATCHES_QUICK + [(1, 2), (3, 1, 2)])
        sizes = sizes or (zoo.SIZES_QUICK if quick else [1, 2, 3, 4, 6, 9])
        dtypes = dtypes or zoo.DTYPES
        out = []
        for dt, (ib, batch), (i_n, n) in itertools.product(dtypes, enumerate(batches), enumerate(sizes)):
            if not full and dt == torch.float32 and (ib + i_n) % 2 == (1 if quick else 0):
                continue  # float32: quick takes the even checkerboard half, thorough the odd one (complementary)
            out.append((dt, batch, n))
        return out

    H.combos = combos

    def family(tier, names, cases=None, dtypes=None, batches=None, sizes=None, seeds=None, combos_=None):
        """yield (label, case, dt, batch, n, make) with make() -> fresh (op, dense); a fresh operator per
        evaluation so that caches of one configuration never leak into the next (histories are explicit)."""
        cases = cases or H.CASES
        quick = tier == "quick"
        base = int(__import__("os").environ.get("VERIF_SEED", "0") or 0)
        cb = combos_ if combos_ is not None else combos(tier, dtypes, batches, sizes)
        for nm in names:
            c = cases[nm]
            for (dt, batch, n) in cb:
              for sd in (seeds or ([0] if quick or n > 2 else [0, 1])):  # thorough: a second seed for the small sizes
                if dt == torch.float32 and not getattr(c, "f32", True):
                    continue
                s = zlib.crc32(repr((c.name, str(dt), batch, n, sd + base)).encode()) % (2 ** 31)

                def make(c=c, dt=dt, batch=batch, n=n, s=s):
                    return c.build(zoo.gen(s), dt, batch, n)

                label = f"{c.name}|{str(dt)[6:]}|b={batch}|n={n}" + (f"|s={sd}" if sd else "")
                yield label, c, dt, batch, n, make

    H.family = family

    # ------------------------------------------------------------------ oracles / tolerances
    def kappa(D):
        ev = torch.linalg.eigvalsh(0.5 * (D + D.mT).to(f64))
        return float((ev[..., -1] / ev[..., 0].clamp_min(1e-300)).max())

    def kappa_general(D):
        sv = torch.linalg.svdvals(D.to(f64))
        return float((sv[..., 0] / sv[..., -1].clamp_min(1e-300)).max())

    H.kappa, H.kappa_general = kappa, kappa_general

    def eps_of(dt):
        return 1.2e-7 if dt == torch.float32 else 2.3e-16

    def tau_direct(dt, kap, n, lin32=False):
        """normalised backward error allowed for a direct method.  Cholesky / substitution are backward
        stable (n*eps); the eigen-structured shortcuts are only forward stable (eps*kappa)."""
        e = eps_of(torch.float32 if lin32 else dt)
        return e * (400.0 + 40.0 * n + 40.0 * kap)

    H.eps_of, H.tau_direct = eps_of, tau_direct
    H.TAU_LANCZOS = 2e-5  # tridiagonal jitter 1e-6 (relative) with head-room; see RTC_META["assumptions"]

    def tau_lanczos(dt, kap):
        """results built on Lanczos roots: documented jitter (float64); in float32 the accuracy additionally depends on how
        close the random start vector is to an invariant subspace, hence the wide margin"""
        return (H.TAU_LANCZOS if dt == f64 else 5e-3) * max(1.0, kap / 1e2)

    H.tau_lanczos = tau_lanczos

    def mat(x):  # view a possibly 1-D rhs as a matrix
        return x.unsqueeze(-1) if x.dim() == 1 else x

    def spec_norm(D):
        return torch.linalg.matrix_norm(D.to(f64), ord=2)

    def backward_residual(D, X, B):
        """max over batch of ||D X - B||_F / (||D||_2 ||X||_F + ||B||_F)"""
        D, X, B = D.to(f64), mat(X).to(f64), mat(B).to(f64)
        R = D @ X - B
        num = torch.linalg.matrix_norm(R)
        den = spec_norm(D) * torch.linalg.matrix_norm(X) + torch.linalg.matrix_norm(B.expand_as(R))
        return float((num / den.clamp_min(1e-300)).max())

    def cg_mean_rel_residual(D, X, B):
        """the quantity linear_cg compares with cg_tolerance: mean over columns and batch of ||A x - b|| / ||b||"""
        D, X, B = D.to(f64), mat(X).to(f64), mat(B).to(f64)
        R = D @ X - B
        bn = B.expand_as(R).norm(dim=-2).clamp_min(1e-300)
        return float((R.norm(dim=-2) / bn).mean())

    H.mat, H.backward_residual, H.cg_mean_rel_residual, H.spec_norm = mat, backward_residual, cg_mean_rel_residual, spec_norm

    def rhs_shapes(batch, N, tier):
        """rhs kinds for an operator with batch shape `batch` and size N"""
        r = {"mat": (N, 3), "mat1": (N, 1)}
        if not batch:
            r["vec"] = (N,)
        else:
            r["batched"] = (*batch, N, 2)
            r["bcast1"] = (*[1] * len(batch), N, 2)
            if len(batch) > 1:
                r["fewer"] = (*batch[1:], N, 2)
                r["mixed1"] = (batch[0], *[1] * (len(batch) - 1), N, 2)
        r["extra"] = (3, *batch, N, 2)
        return r

    H.rhs_shapes = rhs_shapes
    return H


# ==========================================================================================
# unit functions

CONFIGS = [  # (name, settings, role)   role: "full" = whole rhs x left grid, "side" = two rhs kinds
    ("default", {}, "full"),
    ("chol0_tight", {"mc": 0, "cg_tol": "tight"}, "full"),
    ("chol0_deftol", {"mc": 0}, "side"),
    ("chol0_tol1e-2", {"mc": 0, "cg_tol": 1e-2}, "side"),
    ("chol0_nosolves", {"mc": 0, "solves": False}, "side"),
    ("chol0_nologprob", {"mc": 0, "log_prob": False, "cg_tol": 1e-4}, "side"),
    ("mcN", {"mc": "N", "cg_tol": 1e-4}, "side"),
    ("mcN-1", {"mc": "N-1", "cg_tol": 1e-4}, "side"),
    ("chol0_pc3", {"mc": 0, "min_pc": 0, "max_pc": 3, "cg_tol": 1e-4}, "side"),
    ("chol0_pc0", {"mc": 0, "min_pc": 0, "max_pc": 0, "cg_tol": 1e-4}, "side"),
    ("chol0_pcdefault_min0", {"mc": 0, "min_pc": 0, "cg_tol": 1e-3}, "side"),
    ("chol0_memeff", {"mc": 0, "memeff": True, "cg_tol": 1e-4}, "side"),
    ("default_memeff", {"memeff": True}, "side"),
    ("chol0_maxcg", {"mc": 0, "max_cg": "2N+20", "cg_tol": 1e-4}, "side"),
    ("default_lin32", {"linalg_f32": True}, "side"),
]
CFG_TINY_ITER = ("chol0_maxcg3", {"mc": 0, "max_cg": 3, "max_lq": 3, "cg_tol": "tight"})
# (rhs kind, left kind) pairs of the full grid
FULL_PAIRS = [(r, "none") for r in ("vec", "mat", "mat1", "batched", "bcast1", "fewer", "mixed1", "extra")] + [
    ("vec", "orth"), ("vec", "rect"), ("mat", "orth"), ("mat", "rect"), ("batched", "orth"), ("batched", "rect"), ("extra", "rect"),
    ("bcast1", "rect")]
# (a left factor whose batch dimensions differ from the rhs' own is not part of the property statement: not enumerated)


def _run_history(op, history, shapes, dt, zoo):
    """multi-step histories: leave cached factors behind before the solve under test.  A failure of the
    history step itself belongs to another property (C05/C06) and is not recorded here."""
    try:
        if history == "cholesky_first":
            op.cholesky()
        elif history == "root_first":
            op.root_decomposition()
        elif history == "solve_twice":
            op.solve(zoo.rn(zoo.gen(5), *shapes["mat"], dtype=dt))
        elif history == "logdet_first":
            op.logdet()
        elif history == "rootinv_first":
            op.root_inv_decomposition()
        return True
    except Exception:  # noqa
        return False


def _solve_checks(H, rec, c, label, make, D, kap, cfgname, cfg, pairs, tier, entry="method", history=None):
    """evaluate the C04 contract for one operator instance under one settings combination"""
    torch, zoo = H.torch, H.zoo
    f64 = torch.float64
    dt, N, batch = D.dtype, D.shape[-1], tuple(D.shape[:-2])
    Dm = D.to(f64)
    g = zoo.gen(977)
    shapes = H.rhs_shapes(batch, N, tier)
    tri = c.cls == "triangular"
    for rk, lk in pairs:
        if rk not in shapes:
            continue
        B = zoo.rn(g, *shapes[rk], dtype=dt)
        rb = tuple(B.shape[:-2]) if B.dim() > 1 else ()
        ob = tuple(torch.broadcast_shapes(batch, rb))
        if lk == "none":
            Lf = None
        elif lk == "orth":
            Lf = torch.linalg.qr(zoo.rn(g, *rb, N, N, dtype=f64))[0].to(dt)
        elif lk == "rect":
            Lf = zoo.rn(g, *rb, 2, N, dtype=dt)
        lab = f"{label}|cfg={cfgname}|rhs={rk}|left={lk}" + (f"|hist={history}" if history else "") + (f"|via={entry}" if entry != "method" else "")
        grp_exc = f"solve/{c.name}" if lk == "none" else f"solve_left/{c.name}"
        op, _ = make()
        torch.manual_seed(1234)
        try:
            with H.cfg_ctx(cfg, N, dt), H.LogCapture() as lc, H.WarnCapture() as wc:
                if history and not _run_history(op, history, shapes, dt, zoo):
                    continue
                if entry == "method":
                    X = op.solve(B) if Lf is None else op.solve(B, Lf)
                elif entry == "torch":
                    X = torch.linalg.solve(op, B)
                elif entry == "functional":
                    X = H.lo.solve(op, B) if Lf is None else H.lo.solve(op, B, Lf)
        except Exception as e:  # noqa
            import traceback
            tb = traceback.format_exc().strip().splitlines()
            rec.check(grp_exc, lab, False, f"raised {type(e).__name__}: {e}"[:300] + " @ " + (tb[-3].strip() if len(tb) >= 3 else ""))
            continue
        if isinstance(X, H.O.LinearOperator):
            X = X.to_dense()
        # ---- expected value / shape / dtype
        Xe = torch.linalg.solve(Dm, H.mat(B).to(f64).expand(*ob, N, H.mat(B).shape[-1]))
        if Lf is not None:
            Xe = Lf.to(f64) @ Xe
        if B.dim() == 1:
            Xe = Xe.squeeze(-1)
        ok_shape = torch.is_tensor(X) and tuple(X.shape) == tuple(Xe.shape)
        rec.check(f"solve_shape/{c.name}", lab, ok_shape, f"shape {tuple(X.shape) if torch.is_tensor(X) else type(X)} expected {tuple(Xe.shape)}")
        if not ok_shape:
            continue
        rec.check(f"solve_dtype/{c.name}", lab, X.dtype == dt, f"dtype {X.dtype} expected {dt}")
        if not bool(torch.isfinite(X).all()):
            rec.check(grp_exc, lab, False, "non-finite entries in the result")
            continue
        # ---- which algorithm ran -> tolerance
        lin32 = bool(cfg.get("linalg_f32"))
        used_cg, used_lanczos = "cg" in lc.algos, "lanczos" in lc.algos
        if not tri and H.expect_direct(cfg, N):
            rec.check(f"method_selection/{c.name}", lab, not used_cg,
                      f"CG ran although fast solves are off or N={N} <= max_cholesky_size (log: {lc.msgs[:3]})")
        if Lf is not None and lk == "orth":  # recover the solution through the orthogonal left factor
            Xs = Lf.mT.to(f64) @ H.mat(X).to(f64)
            Xs = Xs.squeeze(-1) if B.dim() == 1 else Xs
        else:
            Xs = X
        vgrp = f"solve/{c.name}" if lk == "none" else f"solve_left/{c.name}"
        if used_cg:
            tol = H.cg_tol(cfg, dt)
            floor = 2e-5 if dt == f64 else 2e-3
            if wc.cg_not_converged:
                # the solver said so itself (NumericalWarning): the property only bounds converged solves.  With the
                # default cap (1000 >> N) a give-up on these small well-posed systems is itself a failure.
                capped = cfg.get("max_cg") is not None
                r = H.cg_mean_rel_residual(Dm, Xs, B) if (Lf is None or lk == "orth") else 0.0
                rec.check(f"solve_cg_warned/{c.name}", lab, capped or r <= 10 * max(tol, floor),
                          f"CG gave up (NumericalWarning) at mean relative residual {r:.2e} with max_cg_iterations=1000 >> N={N}", nontrivial=not capped)
            elif Lf is None or lk == "orth":
                r = H.cg_mean_rel_residual(Dm, Xs, B)
                rec.check(vgrp, lab, r <= max(tol, floor), f"CG path: mean relative residual {r:.3e} > max(cg_tolerance={tol}, floor {floor}); kappa={kap:.1e}")
            else:
                err = float((X.to(f64) - Xe).norm() / (Xe.norm() + 1e-300))
                bound = 4 * kap * max(tol, floor)
                rec.check(vgrp, lab, bound >= 0.3 or err <= bound, f"CG path with left factor: relative error {err:.3e} > {bound:.1e}", nontrivial=bound < 0.3)
        else:
            tau = max(H.tau_lanczos(dt, kap), H.tau_direct(dt, kap, N, lin32)) if used_lanczos else H.tau_direct(dt, kap, N, lin32)
            if Lf is None or lk == "orth":
                r = H.backward_residual(Dm, Xs, B)
                rec.check(vgrp, lab, r <= tau, f"{'lanczos-root' if used_lanczos else 'direct'} path: ||DX-B||/(||D||||X||+||B||) = {r:.3e} > {tau:.1e}; "
                          f"kappa={kap:.1e} log={sorted(lc.algos)}")
            else:
                err = float((X.to(f64) - Xe).norm() / (Xe.norm() + 1e-300))
                bound = min(0.5, tau * kap * 4)
                rec.check(vgrp, lab, err <= bound, f"left factor: relative error {err:.3e} > {bound:.1e} (kappa={kap:.1e})")


def _instances(H, rec, tier, case_names, cases=None, **kw):
    for label, c, dt, batch, n, make in H.family(tier, case_names, cases=cases, **kw):
        try:
            _, D = make()
        except Exception as e:  # noqa
            rec.check(f"construct/{c.name}", label, False, f"constructor raised {e!r}"[:300])
            continue
        kap = H.kappa_general(D) if c.cls == "triangular" else H.kappa(D)
        yield label, c, dt, batch, n, make, D, kap


def rtc_solve(case_names, tier):
    """solve / solve with left factor over the settings grid x rhs kinds, fresh operator per evaluation"""
    from contracts.rtc_common import Recorder
    H = helpers()
    torch = H.torch
    rec = Recorder(PID)
    quick = tier == "quick"
    for k, (label, c, dt, batch, n, make, D, kap) in enumerate(_instances(H, rec, tier, case_names)):
        N = D.shape[-1]
        for j, (cfgname, cfg, role) in enumerate(CONFIGS):
            if not H.expect_direct(cfg, N) and not getattr(c, "cg", True):
                continue  # condition number above the CG bound (1e4): direct methods only
            if cfg.get("linalg_f32") and kap > 1e3:
                continue
            if role == "full":
                pairs = FULL_PAIRS
            else:
                if quick and (k + j) % 2:  # quick: every side configuration on every second instance (alternating)
                    continue
                pairs = [("mat", "none"), ("bcast1", "none")] if batch else [("vec", "none"), ("mat", "none")]
                if not quick:
                    pairs = pairs + [("extra", "none"), ("mat", "rect")]
            _solve_checks(H, rec, c, label, make, D, kap, cfgname, cfg, pairs, tier)
        # iteration cap far below N: either converged or warned, never an exception / wrong shape
        if getattr(c, "cg", True) and N >= 4:
            _solve_checks(H, rec, c, label, make, D, kap, CFG_TINY_ITER[0], CFG_TINY_ITER[1], [("mat", "none")], tier)
    return rec.obligations()


def rtc_solve_entry_history(case_names, tier):
    """other entry points (torch.linalg.solve, linear_operator.solve) and multi-step histories (cached factors)"""
    from contracts.rtc_common import Recorder
    H = helpers()
    torch = H.torch
    rec = Recorder(PID)
    quick = tier == "quick"
    if quick:
        cb = [(torch.float64, (), 4), (torch.float64, (2,), 4), (torch.float32, (2, 3), 2), (torch.float32, (), 2)]
    else:
        cb = H.combos("quick", sizes=[1, 2, 3, 6])
    for label, c, dt, batch, n, make, D, kap in _instances(H, rec, tier, case_names, combos_=cb):
        N = D.shape[-1]
        for cfgname, cfg in (("default", {}), ("chol0_tight", {"mc": 0, "cg_tol": "tight"}), ("chol0_pc3", {"mc": 0, "min_pc": 0, "max_pc": 3, "cg_tol": 1e-4})):
            if not H.expect_direct(cfg, N) and not getattr(c, "cg", True):
                continue
            rk = ["mat", "batched"] if batch else ["vec", "mat"]
            if cfgname != "chol0_pc3":
                _solve_checks(H, rec, c, label, make, D, kap, cfgname, cfg, [(r, "none") for r in rk], tier, entry="torch")
                _solve_checks(H, rec, c, label, make, D, kap, cfgname, cfg, [(rk[0], "none"), (rk[1], "rect")], tier, entry="functional")
            for hist in ("cholesky_first", "root_first", "rootinv_first", "solve_twice", "logdet_first"):
                if hist == "cholesky_first" and cfgname == "chol0_pc3":
                    continue
                _solve_checks(H, rec, c, label, make, D, kap, cfgname, cfg, [(rk[-1], "none")], tier, history=hist)
    return rec.obligations()


def rtc_dtype_default(case_names, tier):
    """torch default dtype differs from the operator dtype (float64 default with float32 operators; the
    converse, float32 default with float64 operators, is what every other unit runs)"""
    from contracts.rtc_common import Recorder
    H = helpers()
    torch = H.torch
    rec = Recorder(PID)
    old = torch.get_default_dtype()
    try:
        torch.set_default_dtype(torch.float64)
        cb = [(torch.float32, (), 2), (torch.float32, (2,), 4)] + ([] if tier == "quick" else [(torch.float32, (2, 3), 3), (torch.float32, (1,), 6)])
        for label, c, dt, batch, n, make, D, kap in _instances(H, rec, tier, case_names, combos_=cb):
            N = D.shape[-1]
            for cfgname, cfg in (("default", {}), ("chol0_tol1e-4", {"mc": 0, "cg_tol": 1e-4})):
                if not H.expect_direct(cfg, N) and not getattr(c, "cg", True):
                    continue
                pairs = [("mat", "none"), ("vec", "none"), ("mat", "rect"), ("batched", "none")]
                _solve_checks(H, rec, c, label + "|default=float64", make, D, kap, cfgname, cfg, pairs, tier)
    finally:
        torch.set_default_dtype(old)
    return rec.obligations()


def rtc_triangular(case_names, tier):
    """triangular solves honour the stored orientation: T.solve(B) = D^{-1}B, solve_triangular, and
    _cholesky_solve(rhs, upper) = (T T^T)^{-1} rhs resp. (T^T T)^{-1} rhs for both orientations"""
    from contracts.rtc_common import Recorder
    H = helpers()
    torch, zoo, O = H.torch, H.zoo, H.O
    f64 = torch.float64
    rec = Recorder(PID)
    pairs = [(r, "none") for r in ("vec", "mat", "batched", "bcast1", "extra")] + [("vec", "orth"), ("mat", "rect"), ("batched", "orth"), ("batched", "rect")]
    for label, c, dt, batch, n, make, D, kap in _instances(H, rec, tier, case_names, cases=H.TRI):
        op, _ = make()
        N, batch = D.shape[-1], tuple(D.shape[:-2])
        up = c.upper
        Dm = D.to(f64)
        flag = getattr(op, "upper", None)
        isdiag = isinstance(op, O.DiagLinearOperator)
        # the stored orientation must describe the data
        rec.check(f"tri_orientation_flag/{c.name}", label, isdiag or N == 1 or flag == up, f"operator.upper={flag} but the data is {'upper' if up else 'lower'} triangular")
        for cfgname, cfg in (("default", {}), ("chol0", {"mc": 0, "cg_tol": "tight"})):
            _solve_checks(H, rec, c, label, make, D, kap, cfgname, cfg, pairs, tier)
        # torch.linalg.solve_triangular entry point (only defined for TriangularLinearOperator subclasses)
        g = zoo.gen(31)
        tau = H.tau_direct(dt, kap, N)
        B = zoo.rn(g, *batch, N, 2, dtype=dt)
        if isinstance(op, O.TriangularLinearOperator) and not isdiag:
            op, _ = make()
            ok, X = rec.guard(f"solve_triangular/{c.name}", label, lambda: torch.linalg.solve_triangular(op, B, upper=bool(flag)))
            if ok:
                rec.check(f"solve_triangular/{c.name}", label, tuple(X.shape) == tuple(B.shape) and H.backward_residual(Dm, X, B) <= tau, "solve_triangular(op, B, upper=op.upper) != D^{-1}B")
        # Cholesky-factor semantics: a lower factor is used with upper=False, an upper factor with upper=True
        u = up
        G = (Dm.mT @ Dm) if u else (Dm @ Dm.mT)
        for rk, sh in (("mat", (N, 3)), ("batched", (*batch, N, 2))):
            op, _ = make()
            Bc = zoo.rn(g, *sh, dtype=dt)
            lab = f"{label}|upper={u}|rhs={rk}"
            ok, X = rec.guard(f"_cholesky_solve/{c.name}", lab, lambda: op._cholesky_solve(Bc, upper=u))
            if ok:
                X = X.to_dense() if isinstance(X, O.LinearOperator) else X
                es = (*torch.broadcast_shapes(batch, Bc.shape[:-2]), N, Bc.shape[-1])
                good = tuple(X.shape) == es and H.backward_residual(G, X, Bc) <= H.tau_direct(dt, kap * kap, N)
                rec.check(f"_cholesky_solve/{c.name}", lab, good, f"_cholesky_solve(rhs, upper={u}) is not ({'T^T T' if u else 'T T^T'})^-1 rhs: shape {tuple(X.shape)} vs {es}")
    return rec.obligations()


def rtc_perm(tier):
    """structure shortcut listed in the property's code anchors: permutation operators solve by transposition"""
    from contracts.rtc_common import Recorder
    H = helpers()
    torch, zoo = H.torch, H.zoo
    rec = Recorder(PID)
    c = zoo.BY_NAME["perm"]
    for batch in ([(), (2,), (2, 3)] if tier == "quick" else zoo.BATCHES_QUICK + [(3, 1, 2)]):
        for n in (1, 2, 5):
            op, D = c.build(zoo.gen(n + 7 * len(batch)), torch.float32, batch, n)
            for rk, sh in H.rhs_shapes(batch, n, tier).items():
                B = zoo.rn(zoo.gen(3), *sh, dtype=torch.float32)
                lab = f"perm|b={batch}|n={n}|rhs={rk}"
                with H.S.max_cholesky_size(0):
                    ok, X = rec.guard("solve/perm", lab, lambda: op.solve(B))
                if ok:
                    Xe = (D.mT @ H.mat(B)).squeeze(-1) if B.dim() == 1 else D.mT @ B
                    rec.check("solve/perm", lab, tuple(X.shape) == tuple(Xe.shape) and bool((X == Xe).all()), "P.solve(B) != P^T B")
    return rec.obligations()


# ------------------------------------------------------------------------------------------------------
# preconditioned CG at sizes where CG does not terminate finitely: K + D with an ACTIVE pivoted-Cholesky preconditioner

PCG_NAMES = ["pcg_rbf_hetero", "pcg_rbf_const", "pcg_rbf_add_jitter", "pcg_user_spectrum", "pcg_rbf_batch"]
PCG_NOISES = [1e-2, 1.0, 1e2, 1e4]
PCG_TOLS = [1e-2, 1e-3, 1e-4]


def rtc_pcg(case_names, tier):
    """K + D (AddedDiagLinearOperator) above max_cholesky_size with n >= min_preconditioning_size and
    max_preconditioner_size in {5, 15}: the solve is CG *with* the pivoted-Cholesky preconditioner, the size (120..300, thorough
    500) is far above the mandatory 11 iterations and the preconditioner rank, and the noise level spans 1e-2 .. 1e4 (the
    preconditioned and the plain residual norms differ by about sqrt(noise)).  Contract (property text): the returned X has
    mean_j ||A x_j - b_j|| / ||b_j|| within the configured cg_tolerance."""
    import zlib
    from contracts.rtc_common import Recorder
    H = helpers()
    torch, zoo, O = H.torch, H.zoo, H.O
    f64, f32 = torch.float64, torch.float32
    rec = Recorder(PID)
    quick = tier == "quick"
    base = int(__import__("os").environ.get("VERIF_SEED", "0") or 0)

    def rbf(g, batch, n, s, ls):
        x = torch.rand(*batch, n, 2, generator=g, dtype=f64)
        d2 = (x.unsqueeze(-2) - x.unsqueeze(-3)).pow(2).sum(-1)
        return s * torch.exp(-0.5 * d2 / ls ** 2)

    def build(name, g, dt, n, noise, ls):
        """(operator, dense oracle); K has outputscale 100 * noise, i.e. a fixed signal-to-noise ratio at every noise level"""
        s = 100.0 * noise
        batch = (2,) if name == "pcg_rbf_batch" else ()
        if name == "pcg_user_spectrum":  # slowly decaying prescribed spectrum, no class-specific code in K
            q, _ = torch.linalg.qr(torch.randn(n, n, generator=g, dtype=f64))
            k = (q * (s * 0.97 ** torch.arange(n, dtype=f64))) @ q.mT
            k = 0.5 * (k + k.mT)
        else:
            k = rbf(g, batch, n, s, ls)
        k = k.to(dt)
        eye = torch.eye(n, dtype=dt)
        if name == "pcg_rbf_const":
            v = torch.full((*batch, 1), noise, dtype=dt)
            return O.AddedDiagLinearOperator(O.DenseLinearOperator(k), O.ConstantDiagLinearOperator(v, diag_shape=n)), k + noise * eye
        if name == "pcg_rbf_add_jitter":
            return O.DenseLinearOperator(k).add_jitter(noise), k + noise * eye
        d = (noise * (0.5 + torch.rand(*batch, n, generator=g, dtype=f64))).to(dt)  # heteroskedastic
        K = zoo._UserOp(k) if name == "pcg_user_spectrum" else O.DenseLinearOperator(k)
        return O.AddedDiagLinearOperator(K, O.DiagLinearOperator(d)), k + torch.diag_embed(d)

    sizes = [120, 300] if quick else [120, 300, 500]
    lss = [0.1, 0.3]
    ranks = [5, 15]
    cnt = 0
    for name in case_names:
        for ni, noise in enumerate(PCG_NOISES):
            for ti, tol in enumerate(PCG_TOLS):
                for dt in (f64, f32):
                    if dt == f32 and tol < 1e-3:
                        continue  # float32 cannot meet 1e-4 reliably (see RTC_META: 'tight')
                    grid = [(n, ls, rk) for n in sizes for ls in lss for rk in ranks]
                    if quick:  # quick: two (size, lengthscale, rank) cells per (case, noise, tolerance, dtype), rotating through the grid
                        cnt += 1
                        grid = [grid[(3 * cnt) % len(grid)], grid[(3 * cnt + 5) % len(grid)]]
                    for (n, ls, rk) in grid:
                        entries = (("mat", "method"), ("vec", "torch")) if not quick else ((("mat", "method"),) if (cnt + n) % 3 else (("vec", "torch"),))
                        for rk_name, entry in entries:
                            if name == "pcg_rbf_batch":
                                rk_name = "mat"  # a batched operator takes a matrix right-hand side
                            lsl = "na" if name == "pcg_user_spectrum" else f"{ls:g}"
                            label = f"{name}|{str(dt)[6:]}|b={(2,) if name == 'pcg_rbf_batch' else ()}|n={n}|noise={noise:g}|ls={lsl}|rank={rk}|cfg=pcg_tol{tol:g}|rhs={rk_name}" + ("|via=torch" if entry == "torch" else "")
                            sd = zlib.crc32(repr((name, str(dt), n, noise, ls, base)).encode()) % (2 ** 31)
                            g = zoo.gen(sd)
                            try:
                                op, D = build(name, g, dt, n, noise, ls)
                            except Exception as e:  # noqa
                                rec.check(f"construct/{name}", label, False, f"constructor raised {e!r}"[:300])
                                continue
                            batch = tuple(D.shape[:-2])
                            B = zoo.rn(g, *batch, n, 3, dtype=dt) if rk_name == "mat" else zoo.rn(g, n, dtype=dt)
                            cfg = {"mc": 0, "min_pc": 10, "max_pc": rk, "cg_tol": tol, "max_cg": 10 * n}
                            torch.manual_seed(1234)
                            with H.cfg_ctx(cfg, n, dt), H.LogCapture() as lc, H.WarnCapture() as wc:
                                ok, X = rec.guard(f"solve_pcg/{name}", label, (lambda: op.solve(B)) if entry == "method" else (lambda: torch.linalg.solve(op, B)))
                            if not ok:
                                continue
                            es = (*batch, n, 3) if rk_name == "mat" else (n,)
                            good = torch.is_tensor(X) and tuple(X.shape) == tuple(es) and X.dtype == dt and bool(torch.isfinite(X).all())
                            rec.check(f"solve_pcg/{name}", label, good, f"shape/dtype/finite: {tuple(X.shape) if torch.is_tensor(X) else type(X)} {getattr(X, 'dtype', None)} expected {tuple(es)} {dt}")
                            if not good:
                                continue
                            # the cell under test really is CG + pivoted-Cholesky preconditioner (otherwise the evaluation is vacuous)
                            rec.check(f"solve_pcg_route/{name}", label, "cg" in lc.algos and "pivchol" in lc.algos, f"expected CG with the pivoted-Cholesky preconditioner; log: {lc.msgs[:3]}")
                            Xm = X.unsqueeze(-1) if B.dim() == 1 else X
                            r = H.cg_mean_rel_residual(D.to(f64), Xm, H.mat(B))
                            floor = 2e-5 if dt == f64 else 2e-3
                            # linear_cg stops on the recursively updated residual; the true one differs by rounding only: head-room factor 2
                            bound = 2.0 * max(tol, floor)
                            if wc.cg_not_converged:
                                # the solver itself reports that it did not reach the tolerance within 10 N iterations: no head-room here,
                                # the answer is accepted only if it nevertheless meets the configured tolerance
                                rec.check(f"solve_pcg_gave_up/{name}", label, r <= max(tol, floor),
                                          f"preconditioned CG gave up (NumericalWarning) after max_cg_iterations={10 * n} = 10 N at mean relative residual {r:.2e} > {max(tol, floor):.1e} "
                                          f"although cg_tolerance={tol:g} is above the solver's ~1e-5 floor")
                            else:
                                rec.check(f"solve_pcg/{name}", label, r <= bound, f"preconditioned CG reported convergence but mean_j ||A x_j - b_j||/||b_j|| = {r:.3e} > 2*max(cg_tolerance={tol:g}, floor {floor:g})")
    return rec.obligations()


def _chunks(names, k):
    return [names[i:i + k] for i in range(0, len(names), k)]


def rtc_units(tier):
    us = []
    mod = "contracts.rtc_C04"
    for ch in _chunks(ALL_NAMES, 5):
        us.append(Unit(f"C04/rtc/solve[{','.join(ch)}]", mod, "rtc_solve", (ch, tier), engine="rtc", timeout_s=1500))
    for ch in _chunks(ALL_NAMES, 35):
        us.append(Unit(f"C04/rtc/entry_history[{ch[0]}..{ch[-1]}]", mod, "rtc_solve_entry_history", (ch, tier), engine="rtc", timeout_s=1500))
    us.append(Unit("C04/rtc/default_dtype+perm", mod, "rtc_dtype_default_and_perm", (ALL_NAMES, tier), engine="rtc", timeout_s=1500))
    us.append(Unit("C04/rtc/pcg[pcg_rbf_hetero,pcg_rbf_const,pcg_rbf_batch]", mod, "rtc_pcg", (["pcg_rbf_hetero", "pcg_rbf_const", "pcg_rbf_batch"], tier), engine="rtc", timeout_s=1500))
    us.append(Unit("C04/rtc/pcg[pcg_rbf_add_jitter,pcg_user_spectrum]", mod, "rtc_pcg", (["pcg_rbf_add_jitter", "pcg_user_spectrum"], tier), engine="rtc", timeout_s=1500))
    us.append(Unit("C04/rtc/triangular", mod, "rtc_triangular", (TRI_NAMES, tier), engine="rtc", timeout_s=1500))
    return us


def rtc_dtype_default_and_perm(case_names, tier):
    return rtc_dtype_default(case_names, tier) + rtc_perm(tier)


RTC_META = {
    "explanation": "run-time contract for solve on the real code: for every PSD zoo case and 42 local PSD cases "
                   "(prescribed spectra, extra nestings) a fresh operator is solved under every settings combination, rhs kind "
                   "and left-factor kind; the algorithm that really ran is read from the verbose_linalg log and selects the "
                   "tolerance (direct / Lanczos-root / CG); triangular operators are solved in both orientations.",
    "assumptions": [
        "direct methods: ||DX-B||_F <= eps*(400+40N+40*kappa) * (||D||_2||X||_F+||B||_F) (Cholesky/substitution are backward stable, "
        "the eigen-structured shortcuts only forward stable, hence the kappa term)",
        "CG: the quantity linear_cg itself tests, mean_j ||A x_j-b_j||/||b_j|| <= max(cg_tolerance, floor) with floor 2e-5 (float64) / 2e-3 (float32); "
        "when the solver emits its own 'CG terminated' NumericalWarning only shape/dtype/finite-ness are required",
        "solves that internally use a Lanczos root (SumKronecker above max_cholesky_size) are held to the documented tridiagonal "
        "jitter (relative 1e-6): tolerance 2e-5*max(1,kappa/100) in float64, 5e-3*max(1,kappa/100) in float32 (start-vector sensitivity)",
        "cg_tolerance 'tight' = 1e-7 (float64) / 1e-4 (float32): float32 cannot meet a tighter tolerance and would burn all 1000 iterations",
        "with a non-invertible left factor the forward error bound kappa*tau is used",
        "method selection (no CG when fast solves are off or N <= max_cholesky_size) is taken from the settings documentation",
        "pcg units (sizes where CG does not terminate finitely, active pivoted-Cholesky preconditioner): mean_j ||A x_j-b_j||/||b_j|| <= 2*max(cg_tolerance, floor); "
        "the factor 2 is head-room for the recursively updated residual the solver tests versus the true one; a solve that gives up with the solver's own "
        "NumericalWarning after 10 N iterations is accepted only if it nevertheless meets max(cg_tolerance, floor)",
    ],
    "families": "28 PSD zoo cases + 42 local PSD cases (geometric/clustered/uniform spectra, kappa up to 1e6 direct / 1e4 CG, Kronecker "
                "x3, Kronecker+diag variants, inverse-of-Cholesky, Cholesky-of-structured, block/repeat/expand nestings, SKI, kernel) x "
                "dtypes {f32,f64} (f64 all, f32 a checkerboard half: quick even / thorough odd) x batch {(),(2,),(1,),(2,3)} (+(1,2),(3,1,2) thorough) x sizes {1,2,4,6} (+3,9 thorough) x 15 settings "
                "combinations (max_cholesky_size 0/N-1/N/default, fast solves/log_prob, cg_tolerance 1/1e-2/1e-4/1e-6, max_cg_iterations, "
                "preconditioner size 0/3/15, min_preconditioning_size, memory_efficient, linalg dtypes) x rhs {vec, mat, 1-col, batched, "
                "size-1 broadcast, fewer batch dims, mixed, extra batch} x left {none, orthogonal, 2xN, batched}; entry points op.solve / "
                "torch.linalg.solve / linear_operator.solve; histories (cholesky/root/solve/logdet first); default dtype float64 with "
                "float32 operators; 15 triangular cases in both orientations incl. solve_triangular and _cholesky_solve; permutation solve; "
                "preconditioned CG (pcg units): K + D with RBF / prescribed-spectrum K (signal = 100 x noise), heteroskedastic / constant / add_jitter noise, "
                "batch {(),(2,)}, n {120,300} (+500 thorough), noise {1e-2,1,1e2,1e4}, rbf lengthscale {0.1,0.3}, max_preconditioner_size {5,15} with "
                "min_preconditioning_size 10, cg_tolerance {1e-2,1e-3,1e-4}, f64 + f32, matrix / vector rhs, op.solve / torch.linalg.solve "
                "(quick: two (n, lengthscale, rank) cells per (case, noise, tolerance, dtype)).",
}
