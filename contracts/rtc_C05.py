"""C05 (bounded tier) - logdet and inverse quadratic forms equal the dense values or their quadrature.

Run-time contracts on the real code: output shapes for every (rhs kind, logdet flag, reduce flag) combination
incl. the placeholder conventions, dense values on every deterministic path, and - on the stochastic
Lanczos-quadrature path - the *exact* Gauss-Lanczos quadrature recomputed in float64 for the probe vectors
the library really drew (read from the autograd node of the result)."""
from __future__ import annotations

from engine.common import Unit

PID = "C05"

CONFIGS = [  # (name, settings, role)
    ("default", {}, "full"),
    ("chol0", {"mc": 0, "cg_tol": "tight", "num_trace": 4}, "full"),
    ("chol0_nologprob", {"mc": 0, "log_prob": False}, "side"),
    ("chol0_nosolves", {"mc": 0, "solves": False, "cg_tol": "tight", "num_trace": 3}, "side"),
    ("mcN", {"mc": "N", "cg_tol": "tight"}, "side"),
    ("mcN-1", {"mc": "N-1", "cg_tol": "tight", "num_trace": 2}, "side"),
    ("chol0_skipld", {"mc": 0, "cg_tol": "tight", "skip_ld": True}, "side"),
    ("chol0_pc3", {"mc": 0, "cg_tol": "tight", "min_pc": 0, "max_pc": 3, "num_trace": 2}, "side"),
    ("chol0_lq2", {"mc": 0, "cg_tol": "tight", "max_lq": 2, "num_trace": 2}, "side"),
    ("default_lin32", {"linalg_f32": True}, "side"),
    ("chol0_memeff", {"mc": 0, "cg_tol": "tight", "memeff": True, "num_trace": 2}, "side"),
]
FULL_COMBOS = ([("none", True, True)] + [(rk, ld, red) for rk in ("vec", "mat") for ld in (True, False) for red in (True, False)]
               + [("mat1", True, False), ("mat1", False, True)])
FULL_COMBOS_CG = [("none", True, True), ("vec", True, True), ("vec", False, False), ("mat", True, True), ("mat", True, False),
                  ("mat", False, True), ("mat", False, False)]
SIDE_COMBOS = [("none", True, True), ("mat", True, True), ("mat", False, False)]


def _placeholder_ok(torch, x):
    """a term that was not requested: None, an empty tensor, or zeros"""
    return x is None or (torch.is_tensor(x) and (x.numel() == 0 or bool((x == 0).all())))


def _find_slq_node(res):
    """autograd node of the stochastic-quadrature Function (it carries the probe vectors on its ctx)"""
    seen, stack = set(), [getattr(res, "grad_fn", None)]
    while stack:
        nd = stack.pop()
        if nd is None or id(nd) in seen:
            continue
        seen.add(id(nd))
        if hasattr(nd, "probe_vectors") and hasattr(nd, "probe_vector_norms"):
            return nd
        stack.extend(f for f, _ in getattr(nd, "next_functions", ()))
    return None


def _iql_checks(H, rec, c, label, make, D, kap, cfgname, cfg, combos, tier, history=None, entry="method"):
    torch, zoo, O = H.torch, H.zoo, H.O
    f64 = torch.float64
    dt, N, batch = D.dtype, D.shape[-1], tuple(D.shape[:-2])
    Dm = D.to(f64)
    ld_exact = torch.logdet(Dm)
    lin32 = bool(cfg.get("linalg_f32"))
    tau = H.tau_direct(dt, kap, N, lin32)
    g = zoo.gen(4242)
    for rk, want_ld, red in combos:
        if rk == "vec" and batch:
            continue
        R = None if rk == "none" else zoo.rn(g, *{"vec": (N,), "mat": (*batch, N, 3), "mat1": (*batch, N, 1)}[rk], dtype=dt)
        lab = f"{label}|cfg={cfgname}|rhs={rk}|logdet={want_ld}|reduce={red}" + (f"|hist={history}" if history else "") + (f"|via={entry}" if entry != "method" else "")
        op, _ = make()
        torch.manual_seed(99)
        try:
            with H.cfg_ctx(cfg, N, dt), H.LogCapture() as lc, H.WarnCapture() as wc:
                if history:
                    try:
                        {"root_first": lambda: op.root_decomposition(), "root_symeig_first": lambda: op.root_decomposition(method="symeig"),
                         "cholesky_first": lambda: op.cholesky(), "solve_first": lambda: op.solve(zoo.rn(zoo.gen(1), *batch, N, 2, dtype=dt)),
                         "logdet_first": lambda: op.logdet()}[history]()
                    except Exception:  # noqa  (belongs to C04 / C06)
                        continue
                    lc.__exit__(None, None, None)
                    lc.__enter__()
                if entry == "method":
                    iq, ld = op.inv_quad_logdet(R, logdet=want_ld, reduce_inv_quad=red)
                elif entry == "functional":
                    iq, ld = H.lo.inv_quad_logdet(op, R, logdet=want_ld, reduce_inv_quad=red)
                elif entry == "logdet":
                    iq, ld = None, op.logdet()
                elif entry == "torch.logdet":
                    iq, ld = None, torch.logdet(op)
                elif entry == "inv_quad":
                    iq, ld = op.inv_quad(R, reduce_inv_quad=red), None
                elif entry == "functional.inv_quad":
                    iq, ld = H.lo.inv_quad(op, R, reduce_inv_quad=red), None
        except Exception as e:  # noqa
            import traceback
            tb = traceback.format_exc().strip().splitlines()
            grp = "inv_quad_logdet_vector_rhs" if rk == "vec" else "inv_quad_logdet"
            rec.check(f"{grp}/{c.name}", lab, False, f"raised {type(e).__name__}: {e}"[:300] + " @ " + (tb[-3].strip() if len(tb) >= 3 else ""))
            continue
        used_cg = "cg" in lc.algos
        used_lanczos = "lanczos" in lc.algos
        # ---------------- logdet term
        if want_ld:
            ok = torch.is_tensor(ld) and tuple(ld.shape) == batch
            rec.check(f"logdet_shape/{c.name}", lab, ok, f"logdet shape {tuple(ld.shape) if torch.is_tensor(ld) else type(ld).__name__} expected batch shape {batch}")
            if ok:
                rec.check(f"logdet_dtype/{c.name}", lab, ld.dtype == dt, f"logdet dtype {ld.dtype} expected {dt}")
                stochastic = used_cg  # a CG run while computing a log-determinant = the Lanczos-quadrature path
                if cfg.get("skip_ld") and stochastic:
                    pass  # the value is skipped on purpose (documented): only the shape is contracted
                elif stochastic:
                    # values of the stochastic path are decided by the dedicated unit (exact quadrature for the drawn probes);
                    # here: finite, and within a crude 6-sigma style envelope so that a gross error shows up even here
                    rec.check(f"logdet_stochastic_finite/{c.name}", lab, bool(torch.isfinite(ld).all()), "non-finite stochastic log-determinant")
                else:
                    tol = (H.tau_lanczos(dt, kap) if used_lanczos else tau) * max(4.0, N)
                    err = float(((ld.to(f64) - ld_exact).abs() / (1.0 + ld_exact.abs())).max())
                    rec.check(f"logdet/{c.name}", lab, err <= tol, f"deterministic path: |logdet - dense|/(1+|dense|) = {err:.3e} > {tol:.1e} (kappa={kap:.1e}, log={sorted(lc.algos)})")
                # documented selection for the log-determinant: Cholesky iff fast log_prob is off or N <= max_cholesky_size
                if H.expect_direct({k: v for k, v in cfg.items() if k != "solves"}, N, which="log_prob"):
                    rec.check(f"method_selection/{c.name}", lab, not used_cg, f"CG ran although fast log_prob is off or N={N} <= max_cholesky_size")
        elif entry in ("method", "functional"):
            rec.check(f"placeholder/{c.name}", lab, _placeholder_ok(torch, ld), f"logdet not requested but got {ld!r}"[:200])
        # ---------------- inverse quadratic term
        if R is not None and entry not in ("logdet", "torch.logdet"):
            Rm = H.mat(R).to(f64)
            e = (Rm * torch.linalg.solve(Dm, Rm)).sum(-2)
            if red:
                e = e.sum(-1)
            shapes_ok = [tuple(e.shape)]
            if rk == "vec" and not red:
                shapes_ok.append(tuple(e.shape[:-1]))  # a vector rhs has no column dimension: () and (1,) are both within the documentation
            ok = torch.is_tensor(iq) and tuple(iq.shape) in shapes_ok
            rec.check(f"inv_quad_shape/{c.name}", lab, ok, f"inv_quad shape {tuple(iq.shape) if torch.is_tensor(iq) else type(iq).__name__} expected {shapes_ok[0]}")
            if ok:
                rec.check(f"inv_quad_dtype/{c.name}", lab, iq.dtype == dt, f"inv_quad dtype {iq.dtype} expected {dt}")
                err = float(((iq.to(f64).reshape(e.shape) - e).abs().max()) / (e.abs().max() + 1e-300))
                if used_cg:
                    tolv = H.cg_tol(cfg, dt)
                    floor = 2e-5 if dt == f64 else 2e-3
                    bound = 4 * kap * max(tolv, floor)
                    if wc.cg_not_converged or bound >= 0.3:
                        rec.check(f"inv_quad/{c.name}", lab, True, nontrivial=False)
                    else:
                        rec.check(f"inv_quad/{c.name}", lab, err <= bound, f"CG path: relative error of the quadratic form {err:.3e} > {bound:.1e}")
                else:
                    tol = (H.tau_lanczos(dt, kap) * kap if used_lanczos else 8 * tau * max(1.0, kap))
                    rec.check(f"inv_quad/{c.name}", lab, err <= min(tol, 0.3), f"deterministic path: relative error of tr(R^T A^-1 R) {err:.3e} > {tol:.1e} (kappa={kap:.1e}, log={sorted(lc.algos)})")
        elif R is None and entry in ("method", "functional"):
            rec.check(f"placeholder/{c.name}", lab, _placeholder_ok(torch, iq), f"inv_quad not requested but got {iq!r}"[:200])


def _instances(H, rec, tier, case_names, **kw):
    from contracts import rtc_C04
    yield from rtc_C04._instances(H, rec, tier, case_names, **kw)


def rtc_iql(case_names, tier):
    """inv_quad_logdet over settings x rhs kinds x flags: shapes, placeholders, dense values on deterministic paths"""
    from contracts.rtc_common import Recorder
    from contracts.rtc_C04 import helpers
    H = helpers()
    rec = Recorder(PID)
    quick = tier == "quick"
    for k, (label, c, dt, batch, n, make, D, kap) in enumerate(_instances(H, rec, tier, case_names)):
        N = D.shape[-1]
        for j, (cfgname, cfg, role) in enumerate(CONFIGS):
            if not H.expect_direct(cfg, N, "log_prob") and not getattr(c, "cg", True):
                continue
            if cfg.get("linalg_f32") and kap > 1e3:
                continue
            if role == "full":
                combos = FULL_COMBOS if (cfgname == "default" or not quick) else FULL_COMBOS_CG
            else:
                if quick and (k + j) % 2:
                    continue
                combos = SIDE_COMBOS if quick else SIDE_COMBOS + [("vec", True, False), ("mat1", False, True)]
            _iql_checks(H, rec, c, label, make, D, kap, cfgname, cfg, combos, tier)
    return rec.obligations()


def rtc_entries_histories(case_names, tier):
    """logdet / torch.logdet / inv_quad / functional entry points, broadcasting rhs for inv_quad, cached-factor histories"""
    from contracts.rtc_common import Recorder
    from contracts.rtc_C04 import helpers
    H = helpers()
    torch, zoo = H.torch, H.zoo
    f64 = torch.float64
    rec = Recorder(PID)
    quick = tier == "quick"
    if quick:
        cb = [(f64, (), 4), (f64, (2,), 2), (torch.float32, (2, 3), 2), (torch.float32, (), 1)]
    else:
        cb = H.combos("quick", sizes=[1, 2, 3, 6])
    for label, c, dt, batch, n, make, D, kap in _instances(H, rec, tier, case_names, combos_=cb):
        N, batch = D.shape[-1], tuple(D.shape[:-2])
        for cfgname, cfg in (("default", {}), ("chol0", {"mc": 0, "cg_tol": "tight", "num_trace": 3})):
            if not H.expect_direct(cfg, N, "log_prob") and not getattr(c, "cg", True):
                continue
            _iql_checks(H, rec, c, label, make, D, kap, cfgname, cfg, [("none", True, True)], tier, entry="logdet")
            _iql_checks(H, rec, c, label, make, D, kap, cfgname, cfg, [("none", True, True)], tier, entry="torch.logdet")
            _iql_checks(H, rec, c, label, make, D, kap, cfgname, cfg, [("mat", False, True), ("mat", False, False), ("vec", False, True), ("vec", False, False)], tier, entry="inv_quad")
            _iql_checks(H, rec, c, label, make, D, kap, cfgname, cfg, [("mat", False, False)], tier, entry="functional.inv_quad")
            _iql_checks(H, rec, c, label, make, D, kap, cfgname, cfg, [("mat", True, True), ("none", True, True)], tier, entry="functional")
            for hist in ("root_first", "root_symeig_first", "cholesky_first", "solve_first", "logdet_first"):
                _iql_checks(H, rec, c, label, make, D, kap, cfgname, cfg, [("mat", True, False)], tier, history=hist)
            # inv_quad broadcasts its right-hand side like matmul (inv_quad_logdet documents equal batch shapes instead)
            g = zoo.gen(77)
            Dm = D.to(f64)
            for bk, sh in (("extra", (3, *batch, N, 2)), ("nobatch", (N, 2))) + ((("ones", (*[1] * len(batch), N, 2)),) if batch else ()):
                R = zoo.rn(g, *sh, dtype=dt)
                for red in (True, False):
                    lab = f"{label}|cfg={cfgname}|rhs_bcast={bk}|reduce={red}"
                    op, _ = make()
                    with H.cfg_ctx(cfg, N, dt), H.LogCapture() as lc:
                        ok, iq = rec.guard(f"inv_quad_broadcast/{c.name}", lab, lambda: op.inv_quad(R, reduce_inv_quad=red))
                    if not ok:
                        continue
                    Rx = R.to(f64).expand(*torch.broadcast_shapes(batch, R.shape[:-2]), N, R.shape[-1])
                    e = (Rx * torch.linalg.solve(Dm.expand(*Rx.shape[:-2], N, N), Rx)).sum(-2)
                    e = e.sum(-1) if red else e
                    good = torch.is_tensor(iq) and tuple(iq.shape) == tuple(e.shape)
                    if good:
                        err = float((iq.to(f64) - e).abs().max() / (e.abs().max() + 1e-300))
                        bound = 4 * kap * 2e-5 if dt == f64 else 4 * kap * 2e-3
                        if "cg" in lc.algos:
                            good = err <= min(0.3, max(bound, 1e-3))
                        elif "lanczos" in lc.algos:
                            good = err <= min(0.3, H.tau_lanczos(dt, kap) * kap)
                        else:
                            good = err <= min(0.3, 8 * H.tau_direct(dt, kap, N) * max(1.0, kap))
                    rec.check(f"inv_quad_broadcast/{c.name}", lab, good, f"inv_quad with broadcasting rhs: shape {tuple(iq.shape) if torch.is_tensor(iq) else None} expected {tuple(e.shape)} or value differs")
    return rec.obligations()


def rtc_default_dtype(case_names, tier):
    """torch default dtype float64 with float32 operators (the converse is what every other unit runs)"""
    from contracts.rtc_common import Recorder
    from contracts.rtc_C04 import helpers
    H = helpers()
    torch = H.torch
    rec = Recorder(PID)
    old = torch.get_default_dtype()
    try:
        torch.set_default_dtype(torch.float64)
        cb = [(torch.float32, (), 4), (torch.float32, (2,), 2)] + ([] if tier == "quick" else [(torch.float32, (2, 3), 3)])
        for label, c, dt, batch, n, make, D, kap in _instances(H, rec, tier, case_names, combos_=cb):
            N = D.shape[-1]
            for cfgname, cfg in (("default", {}), ("chol0", {"mc": 0, "cg_tol": "tight", "num_trace": 3})):
                if not H.expect_direct(cfg, N, "log_prob") and not getattr(c, "cg", True):
                    continue
                _iql_checks(H, rec, c, label + "|default=float64", make, D, kap, cfgname, cfg, SIDE_COMBOS + [("mat", True, False)], tier)
    finally:
        torch.set_default_dtype(old)
    return rec.obligations()


# ------------------------------------------------------------------------------------------------------
# stochastic Lanczos quadrature: exact quadrature for the probes actually drawn


def _node_dense(H, c, op, D, probes):
    """dense matrix (float64) of the operator the quadrature node worked on, and the reduction from node-level
    values to the result.  Wrappers delegate to their base operator: block-diagonal -> batch of blocks (summed),
    batch-repeat -> base (repeated)."""
    torch, O = H.torch, H.O
    Dm = D.to(torch.float64)
    N = D.shape[-1]
    nb = tuple(probes.shape[:-2])
    nn = probes.shape[-2]
    if nb == tuple(D.shape[:-2]) and nn == N:
        return Dm, (lambda v: v), op
    if isinstance(op, O.BlockDiagLinearOperator):
        k = op.num_blocks
        m = N // k
        blocks = torch.stack([Dm[..., b * m:(b + 1) * m, b * m:(b + 1) * m] for b in range(k)], -3)
        if nb == tuple(blocks.shape[:-2]) and nn == m:
            return blocks, (lambda v: v.sum(-1)), op.base_linear_op
    if isinstance(op, O.BlockInterleavedLinearOperator):
        k = op.num_blocks
        blocks = torch.stack([Dm[..., b::k, b::k] for b in range(k)], -3)
        if nb == tuple(blocks.shape[:-2]) and nn == N // k:
            return blocks, (lambda v: v.sum(-1)), op.base_linear_op
    if isinstance(op, O.BatchRepeatLinearOperator):
        bb = tuple(op.base_linear_op.batch_shape)
        if nb == bb and nn == N:
            idx = tuple(slice(0, s) for s in bb)
            base = Dm[(..., *idx, slice(None), slice(None))] if len(bb) == Dm.dim() - 2 else None
            if base is not None:
                rep = op.batch_repeat
                return base, (lambda v: v.repeat(*rep)), op.base_linear_op
    return None, None, None


def _lanczos_quadrature(torch, A, q0, k):
    """e1^T log(T_k) e1 of the k-step Lanczos tridiagonalisation of A started at q0 (float64, full
    re-orthogonalisation) = the k-point Gauss quadrature of q0^T log(A) q0; exact for k = n"""
    n = A.shape[-1]
    Q = [q0 / q0.norm()]
    al, be = [], []
    for j in range(k):
        w = A @ Q[j]
        a = torch.dot(Q[j], w)
        al.append(a)
        w = w - a * Q[j] - (be[-1] * Q[j - 1] if j > 0 else 0)
        for _ in range(2):
            for q in Q:
                w = w - torch.dot(q, w) * q
        b = w.norm()
        if j == k - 1 or float(b) < 1e-12:
            break
        be.append(b)
        Q.append(w / b)
    m = len(al)
    T = torch.diag(torch.stack(al))
    if m > 1:
        off = torch.stack(be[:m - 1])
        T = T + torch.diag(off, 1) + torch.diag(off, -1)
    ev, V = torch.linalg.eigh(T)
    return (V[0] ** 2 * ev.clamp_min(1e-300).log()).sum()


HETERO_NAMES = ["hetero_scaledI_first", "hetero_scaledI_last", "hetero_rank1_first", "hetero_3evals_mid", "hetero_user_scaledI",
                "hetero_blockdiag_scaledI", "hetero_addeddiag_scaledI"]


def _hetero_cases(H):
    """heterogeneous batches: one batch member has a low-degree minimal polynomial (c*I: 1 Lanczos step, I + v v^T: 2 steps,
    three distinct eigenvalues: 3 steps) while the other members are generic PD matrices that need all n steps.  The property
    is stated per operator, i.e. per batch member: each member's log-determinant is the n-step quadrature of its own probes."""
    torch, zoo, O = H.torch, H.zoo, H.O
    f64 = torch.float64

    def special(g, kind, n):
        if kind == "scaledI":
            return 2.0 * torch.eye(n, dtype=f64)
        if kind == "rank1":
            v = torch.randn(n, 1, generator=g, dtype=f64)
            return torch.eye(n, dtype=f64) + v @ v.mT
        if kind == "3evals":
            q, _ = torch.linalg.qr(torch.randn(n, n, generator=g, dtype=f64))
            ev = torch.tensor([1.0, 3.0, 7.5], dtype=f64)[torch.arange(n) % 3]
            a = (q * ev) @ q.mT
            return 0.5 * (a + a.mT)
        raise ValueError(kind)

    def mats(g, dt, batch, n, kind, where):
        b = batch if batch else (2,)
        a = H.spd_spec(g, b, n, f64, "rand", 20.0).reshape(-1, n, n).clone()
        idx = {"first": 0, "last": a.shape[0] - 1, "mid": a.shape[0] // 2}[where]
        a[idx] = special(g, kind, n)
        return a.reshape(*b, n, n).to(dt)

    C = {}

    def case(name):
        def deco(fn):
            c = zoo.Case(name, "hetero_batch", fn, psd=True)
            c.cond, c.cg, c.f32 = 1e2, True, True
            C[name] = c
            return fn
        return deco

    for nm, kind, where in (("hetero_scaledI_first", "scaledI", "first"), ("hetero_scaledI_last", "scaledI", "last"),
                            ("hetero_rank1_first", "rank1", "first"), ("hetero_3evals_mid", "3evals", "mid")):
        def _mk(kind=kind, where=where):
            def f(g, dt, batch, n):
                a = mats(g, dt, batch, n, kind, where)
                return O.DenseLinearOperator(a), a.clone()
            return f
        case(nm)(_mk())

    @case("hetero_user_scaledI")
    def _(g, dt, batch, n):  # no class-specific overrides at all
        a = mats(g, dt, batch, n, "scaledI", "first")
        return zoo._UserOp(a), a.clone()

    @case("hetero_blockdiag_scaledI")
    def _(g, dt, batch, n):  # the blocks are the batch the quadrature runs on: [2I, generic] on the diagonal
        a = mats(g, dt, (*batch, 2), n, "scaledI", "first")
        return O.BlockDiagLinearOperator(O.DenseLinearOperator(a)), zoo.block_diag_dense(a)

    @case("hetero_addeddiag_scaledI")
    def _(g, dt, batch, n):  # K + D with K = I resp. generic, D = I: un-preconditioned below min_preconditioning_size
        a = mats(g, dt, batch, n, "scaledI", "first")
        eye = torch.eye(n, dtype=dt)
        return O.AddedDiagLinearOperator(O.DenseLinearOperator(a - eye), O.DiagLinearOperator(torch.ones(*a.shape[:-1], dtype=dt))), a.clone()

    assert sorted(C) == sorted(HETERO_NAMES)
    return C


def rtc_slq(case_names, tier, family="std"):
    """stochastic path: returned logdet == log|P| + (n/m) sum_i q_i^T log(P^-1/2 A P^-1/2) q_i for the whitened unit
    probes q_i = P^-1/2 u_i/|.| of the probes u_i found on the autograd node (budget >= n), resp. its k-point
    Gauss-Lanczos rule (budget k < n); the accompanying inv_quad term is the CG quadratic form"""
    from contracts.rtc_common import Recorder
    from contracts.rtc_C04 import helpers
    H = helpers()
    torch, zoo, O = H.torch, H.zoo, H.O
    f64 = torch.float64
    rec = Recorder(PID)
    quick = tier == "quick"
    cfgs = [
        ("m1", {"mc": 0, "num_trace": 1, "cg_tol": "tight"}),
        ("m5", {"mc": 0, "num_trace": 5, "cg_tol": "tight"}),
        ("m3_lqN", {"mc": 0, "num_trace": 3, "max_lq": "N", "cg_tol": "tight"}),
        ("m3_lq3", {"mc": 0, "num_trace": 3, "max_lq": 3, "cg_tol": "tight"}),
        ("m4_pc2", {"mc": 0, "num_trace": 4, "min_pc": 0, "max_pc": 2, "cg_tol": "tight"}),
        ("m2_pc15", {"mc": 0, "num_trace": 2, "min_pc": 0, "cg_tol": "tight"}),
        ("m3_pc0", {"mc": 0, "num_trace": 3, "min_pc": 0, "max_pc": 0, "cg_tol": "tight"}),
        ("m3_mcN-1", {"mc": "N-1", "num_trace": 3, "cg_tol": "tight"}),
        ("m2_deftol", {"mc": 0, "num_trace": 2}),
    ]
    if quick:
        cb = [(f64, (), 4), (f64, (2,), 6), (f64, (2, 3), 2), (f64, (1,), 1), (torch.float32, (), 6), (torch.float32, (2,), 2), (f64, (), 2), (torch.float32, (1,), 4)]
    else:
        cb = H.combos("thorough")
    cases = None
    if family == "hetero":
        # heterogeneous batches, sizes up to the default quadrature budget (20): the n-step rule is demanded of every member
        cases = _hetero_cases(H)
        cfgs = [cf for cf in cfgs if cf[0] in ("m1", "m5", "m3_lqN", "m3_lq3", "m3_pc0", "m2_deftol")]
        if quick:
            cb = [(f64, (2,), 6), (f64, (3,), 12), (f64, (2,), 16), (f64, (2, 2), 5), (torch.float32, (2,), 8), (f64, (), 9)]
        else:
            cb = [(dt_, b_, n_) for dt_ in (f64, torch.float32) for b_ in ((), (2,), (3,), (2, 2), (1, 2)) for n_ in (3, 5, 8, 12, 16, 20)]
    deterministic = set()
    for label, c, dt, batch, n, make, D, kap in _instances(H, rec, tier, case_names, cases=cases, combos_=cb):
        if not getattr(c, "cg", True) or kap > 2e4:
            continue
        N, batch = D.shape[-1], tuple(D.shape[:-2])
        for ci, (cfgname, cfg) in enumerate(cfgs):
            if (c.name, cfgname == "m3_mcN-1") in deterministic:
                continue  # closed-form class: no stochastic path to examine (decided by rtc_iql)
            for rk in ("none", "mat"):
                if quick and family == "std" and (ci + (rk == "mat")) % 2 and cfgname not in ("m5", "m4_pc2"):
                    continue
                lab = f"{label}|cfg={cfgname}|rhs={rk}"
                op, _ = make()
                try:
                    op.requires_grad_(True)
                except Exception:  # noqa
                    pass
                R = None if rk == "none" else zoo.rn(zoo.gen(8), *batch, N, 2, dtype=dt).requires_grad_(True)
                torch.manual_seed(4321 + ci)
                try:
                    with H.cfg_ctx(cfg, N, dt), H.LogCapture() as lc, H.WarnCapture() as wc:
                        iq, ld = op.inv_quad_logdet(R, logdet=True)
                except Exception:  # reported by rtc_iql (same call, same settings family)
                    continue
                node = _find_slq_node(ld)
                if node is None:
                    # a deterministic path was taken: decided by rtc_iql; count it so that vacuity is visible
                    rec.check(f"slq_path_taken/{c.name}", lab, True, nontrivial=False)
                    deterministic.add((c.name, cfgname == "m3_mcN-1"))
                    continue
                U = node.probe_vectors.detach().to(f64)  # (*node_batch, n_node, m) unit columns
                m = U.shape[-1]
                An, reduce_fn, node_op = _node_dense(H, c, op, D, U)
                if An is None:
                    rec.check(f"slq_unmapped/{c.name}", lab, True, f"harness cannot map node with probes {tuple(U.shape)} to the dense oracle {tuple(D.shape)}", nontrivial=False)
                    continue
                nn = An.shape[-1]
                unit = bool(((U.norm(dim=-2) - 1).abs() < (1e-4 if dt == torch.float32 else 1e-10)).all())
                rec.check(f"slq_probes_unit/{c.name}", lab, unit and m == cfg["num_trace"], f"probes are not m={cfg['num_trace']} unit vectors: shape {tuple(U.shape)}")
                # preconditioner actually used (only operators that are themselves AddedDiag-like can have one)
                P, logdet_p = None, torch.zeros(An.shape[:-2], dtype=f64)
                if isinstance(node_op, O.AddedDiagLinearOperator):
                    nbatch = tuple(An.shape[:-2])
                    with H.cfg_ctx(cfg, N, dt):
                        clo, plt, ldp = node_op._preconditioner()
                    if clo is not None:
                        if isinstance(plt, O.PsdSumLinearOperator):
                            Lp = plt.linear_ops[0].root.to_dense().detach().to(f64)
                            P = Lp @ Lp.mT + torch.diag_embed(plt.linear_ops[1]._diag.detach().to(f64).expand(*nbatch, nn))
                        else:
                            P = torch.diag_embed(plt._diag.detach().to(f64).expand(*nbatch, nn))
                        V = zoo.rn(zoo.gen(3), *nbatch, nn, 2, dtype=dt)
                        pc_ok = zoo.close(clo(V).detach().to(f64), torch.linalg.solve(P, V.to(f64)), dt=dt, scale=50.0 * max(1.0, H.kappa(P) / 10))
                        rec.check(f"slq_preconditioner_consistent/{c.name}", lab, pc_ok, "preconditioner closure is not the inverse of the preconditioner operator it returns")
                        ldp_t = torch.as_tensor(ldp).detach().to(f64)
                        ok_ldp = tuple(ldp_t.shape) == nbatch and float((ldp_t - torch.logdet(P)).abs().max()) <= (5e-3 if dt == torch.float32 else 1e-8) * (1 + float(torch.logdet(P).abs().max()))
                        rec.check(f"slq_preconditioner_consistent/{c.name}", lab, ok_ldp, f"log|P| returned {ldp_t.tolist() if ldp_t.numel() < 8 else tuple(ldp_t.shape)} vs dense {torch.logdet(P).tolist() if P.numel() < 200 else ''}"[:300])
                        logdet_p = torch.logdet(P)
                # exact quadrature
                budget = cfg.get("max_lq", 20)
                budget = nn if budget == "N" else budget
                kq = min(budget, nn)
                flatA = An.reshape(-1, nn, nn)
                flatU = U.reshape(-1, nn, m)
                flatP = P.reshape(-1, nn, nn) if P is not None else None
                est = torch.zeros(flatA.shape[0], dtype=f64)
                for b in range(flatA.shape[0]):
                    A_b = flatA[b]
                    if flatP is not None:
                        C = torch.linalg.cholesky(flatP[b])
                        Ci = torch.linalg.inv(C)
                        A_b = Ci @ A_b @ Ci.mT
                        A_b = 0.5 * (A_b + A_b.mT)
                    s = 0.0
                    for j in range(m):
                        q0 = flatU[b, :, j] if flatP is None else Ci @ flatU[b, :, j]
                        s = s + _lanczos_quadrature(torch, A_b, q0, kq)
                    est[b] = nn / m * s
                est = est.reshape(An.shape[:-2]) + logdet_p
                exp = reduce_fn(est)
                got = ld.detach().to(f64)
                if tuple(got.shape) != tuple(exp.shape):
                    rec.check(f"slq_exact/{c.name}", lab, False, f"shape {tuple(got.shape)} vs {tuple(exp.shape)}")
                    continue
                kA = max(kap, 1.0)
                # the library's tridiagonal comes from the CG coefficients (no re-orthogonalisation): for kappa > 1e3 ghost
                # eigenvalues appear within n <= 18 steps and the rule is only reproduced to a few digits (DESIGN section 6);
                # scale / sign / probe mistakes are O(10%) and still visible at the wide tolerance
                tol = (5e-3 if dt == torch.float32 else 2e-7) * max(1.0, kA / 100.0) if kA <= 1e3 else 2e-2
                err = float(((got - exp).abs() / (1.0 + exp.abs())).max())
                grp = "slq_exact" if kq >= nn else "slq_kstep"
                rec.check(f"{grp}/{c.name}", lab, err <= tol, f"returned logdet {got.flatten()[:3].tolist()} vs exact {kq}-point Gauss-Lanczos quadrature for the drawn probes {exp.flatten()[:3].tolist()}"
                          f" (rel err {err:.2e} > {tol:.0e}; preconditioner={'yes' if P is not None else 'no'}; dense logdet {torch.logdet(D.to(f64)).flatten()[:3].tolist()})")
                if R is not None and not wc.cg_not_converged:
                    Rm = R.detach().to(f64)
                    e = (Rm * torch.linalg.solve(D.to(f64), Rm)).sum(-2).sum(-1)
                    ok = tuple(iq.shape) == tuple(e.shape)
                    bound = 4 * kap * max(H.cg_tol(cfg, dt), 2e-5 if dt == f64 else 2e-3)
                    if ok and bound < 0.3:
                        ok = float(((iq.detach().to(f64) - e).abs() / e.abs()).max()) <= bound
                    rec.check(f"slq_inv_quad/{c.name}", lab, ok, "inv_quad term on the stochastic path is not the CG quadratic form / wrong shape")
    return rec.obligations()


def _chunks(names, k):
    return [names[i:i + k] for i in range(0, len(names), k)]


def rtc_units(tier):
    from contracts.rtc_C04 import ALL_NAMES
    mod = "contracts.rtc_C05"
    us = []
    for ch in _chunks(ALL_NAMES, 7):
        us.append(Unit(f"C05/rtc/iql[{','.join(ch)}]", mod, "rtc_iql", (ch, tier), engine="rtc", timeout_s=1500))
    for ch in _chunks(ALL_NAMES, 24):
        us.append(Unit(f"C05/rtc/entries_histories[{ch[0]}..{ch[-1]}]", mod, "rtc_entries_histories", (ch, tier), engine="rtc", timeout_s=1500))
    for ch in _chunks(ALL_NAMES, 24):
        us.append(Unit(f"C05/rtc/slq[{ch[0]}..{ch[-1]}]", mod, "rtc_slq", (ch, tier), engine="rtc", timeout_s=1500))
    for ch in _chunks(HETERO_NAMES, 4):
        us.append(Unit(f"C05/rtc/slq_hetero[{','.join(ch)}]", mod, "rtc_slq", (ch, tier, "hetero"), engine="rtc", timeout_s=1500))
    us.append(Unit("C05/rtc/default_dtype", mod, "rtc_default_dtype", (ALL_NAMES, tier), engine="rtc", timeout_s=1500))
    return us


RTC_META = {
    "explanation": "run-time contract for inv_quad_logdet / logdet / inv_quad on the real code: exact output shapes and placeholder "
                   "conventions for every (rhs kind, logdet, reduce) combination, dense values on deterministic paths (path read from the "
                   "verbose_linalg log), and on the stochastic path the exact Gauss-Lanczos quadrature recomputed in float64 for the probes "
                   "found on the autograd node of the result (with the preconditioner actually used).",
    "assumptions": [
        "a term that was not requested may be None, an empty tensor or zeros (the three conventions in the documentation/annotations)",
        "vector rhs with reduce_inv_quad=False: shapes (*batch,) and (*batch,1) are both accepted",
        "deterministic logdet: |ld-dense|/(1+|dense|) <= max(4,N)*eps*(400+40N+40kappa); quadratic forms: relative 8*tau*kappa",
        "stochastic logdet compared with the exact k-point Gauss-Lanczos rule (k=min(budget,n)) to 2e-7*max(1,kappa/100) relative (float64), 5e-3 (float32); "
        "the CG-derived tridiagonal is not re-orthogonalised: for 1e3 < kappa <= 2e4 the comparison is only made to 2e-2 (n <= 18)",
        "the preconditioner P is taken from the operator's own _preconditioner() and checked for internal consistency (closure = P^-1, log|P|), "
        "because the identity holds for any SPD P",
        "skip_logdet_forward: only the shape of the log-determinant is contracted",
    ],
    "families": "28 PSD zoo + 42 local PSD cases x dtypes x batch shapes {(),(2,),(1,),(2,3)} x sizes {1,2,4,6} x 11 settings combinations "
                "(max_cholesky_size 0/N-1/N/default, fast log_prob/solves, num_trace_samples 1..5, max_lanczos_quadrature_iterations 2/3/N/20, "
                "skip_logdet_forward, memory_efficient, preconditioner size 0/2/3/15, linalg dtypes) x rhs {none, vector, matrix, 1 column} x logdet {T,F} x reduce {T,F}; "
                "entry points logdet / torch.logdet / inv_quad / functional; broadcasting rhs for inv_quad; histories (cached root / cholesky / solve / logdet); default dtype float64 with float32 operators; "
                "stochastic path on heterogeneous batches (slq_hetero units): one member c*I / I+vv^T / three distinct eigenvalues (first, middle or last in the batch) among generic "
                "PD members, as Dense / user-defined / BlockDiag blocks / AddedDiag, batch {(2,),(3,),(2,2)}, n {5,6,8,9,12,16} <= the default quadrature budget (thorough: n {3..20}, 5 batch shapes, f32), "
                "num_trace_samples {1,2,3,5}, budgets {3, N, 20}: every member's logdet must be the quadrature of its own probes.",
}
