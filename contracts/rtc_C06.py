"""C06 (bounded tier) - every factorization returned really factorizes the operator.

Run-time contracts on the real code for cholesky(upper), root_decomposition(method), root_inv_decomposition(method),
diagonalization(method), eigh / eigvalsh, svd (methods, torch.linalg.* and functional entry points) over the PSD zoo
and the local PSD cases of rtc_C04, for sizes on both sides of max_cholesky_size / max_root_decomposition_size.
The algorithm that really ran is read from the verbose_linalg log and selects the contract: exact for direct
methods, 'orthogonal compression onto the space it spans' (+ documented jitter) for Lanczos, rank/tolerance for
pivoted Cholesky."""
from __future__ import annotations

from engine.common import Unit

PID = "C06"

ROOT_METHODS = [None, "cholesky", "symeig", "diagonalization", "svd", "lanczos", "pivoted_cholesky"]
ROOT_INV_METHODS = [None, "cholesky", "symeig", "diagonalization", "svd", "lanczos", "pinverse"]
CONFIGS = [  # (name, settings, role)  "full": every operation x method; "side": method selection only (method=None / lanczos)
    ("default", {}, "full"),
    ("chol0", {"mc": 0}, "full"),
    ("chol0_nocovar", {"mc": 0, "covar": False}, "side"),
    ("mcN", {"mc": "N"}, "side"),
    ("mcN-1", {"mc": "N-1"}, "side"),
    ("chol0_rootN", {"mc": 0, "max_root": "N"}, "side"),
    ("chol0_rootsmall", {"mc": 0, "max_root": "small"}, "side"),
    ("default_rootsmall", {"max_root": "small"}, "side"),
    ("default_lin32", {"linalg_f32": True}, "side"),
]


def _tools(H):
    """numerical helpers (float64)"""
    torch = H.torch
    f64 = torch.float64

    def dn(x):
        return x.to_dense() if isinstance(x, H.O.LinearOperator) else x

    def fro(x):
        return torch.linalg.matrix_norm(x.to(f64)).max() if x.numel() else torch.zeros((), dtype=f64)

    def rel(a, b):  # max over batch of ||a-b||_F / ||b||_F
        a, b = a.to(f64), b.to(f64)
        return float((torch.linalg.matrix_norm(a - b) / torch.linalg.matrix_norm(b).clamp_min(1e-300)).max())

    def orth_err(q):  # ||Q^T Q - I||_max
        q = q.to(f64)
        k = q.shape[-1]
        return float((q.mT @ q - torch.eye(k, dtype=f64)).abs().max()) if k else 0.0

    def range_basis(R, rtol=1e-9):
        """orthonormal basis (float64) of the column space of R, per batch element -> list of (n x r) matrices"""
        R = R.to(f64)
        flat = R.reshape(-1, *R.shape[-2:])
        out = []
        for Rb in flat:
            U, S, _ = torch.linalg.svd(Rb, full_matrices=False)
            r = int((S > rtol * max(float(S.max()), 1e-300)).sum())
            out.append(U[:, :r])
        return out

    def min_rel_gap(D):
        ev = torch.linalg.eigvalsh(D.to(f64))
        if ev.shape[-1] < 2:
            return 1.0
        return float(((ev[..., 1:] - ev[..., :-1]).min(-1)[0] / ev[..., -1]).min())

    return dn, fro, rel, orth_err, range_basis, min_rel_gap


def _resolve(cfg, N):
    cfg = dict(cfg)
    if cfg.get("max_root") == "small":
        cfg["max_root"] = max(2, N - 2)
    return cfg


def _fact_checks(H, rec, c, label, make, D, kap, cfgname, cfg0, role, tier):
    torch, zoo, O, S = H.torch, H.zoo, H.O, H.S
    f64 = torch.float64
    dn, fro, rel, orth_err, range_basis, min_rel_gap = _tools(H)
    dt, N, batch = D.dtype, D.shape[-1], tuple(D.shape[:-2])
    cfg = _resolve(cfg0, N)
    Dm = D.to(f64)
    Dinv = torch.linalg.inv(Dm)
    I = torch.eye(N, dtype=f64)
    lin32 = bool(cfg.get("linalg_f32"))
    e = H.eps_of(torch.float32 if lin32 else dt)
    tau = e * (400.0 + 40.0 * N)  # backward-stable factorizations: no kappa
    # Lanczos: tridiagonal jitter 1e-6 relative + finite orthogonality; float32 accuracy also depends on how close the random
    # start vector is to an invariant subspace of some batch element (eps/beta amplification), hence the wide float32 margin
    tau_l = (3e-5 if dt == f64 else 2e-2)
    gap = min_rel_gap(D)
    distinct = gap > 1e-3
    evs = torch.linalg.eigvalsh(Dm)
    spread = (evs[..., -1] - evs[..., 0]) / evs[..., -1]
    scalar_matrix = N > 1 and bool((spread <= 1e-12).any())  # A = c*I: every start vector is an eigenvector (breakdown before the first step)
    near_scalar = N > 1 and not scalar_matrix and bool((spread <= 1e-2).any())  # ill-posed for Lanczos in working precision: not contracted
    budget = cfg.get("max_root", 100)
    budget = N if budget == "N" else budget
    full = role == "full"
    diaglike = (O.DiagLinearOperator,)

    def run(group, lab, fn):
        """evaluate fn under the settings with log capture; returns (ok, value, algos)"""
        torch.manual_seed(2024)
        try:
            with H.cfg_ctx(cfg, N, dt), H.LogCapture() as lc, H.WarnCapture() as wc:
                v = fn()
        except Exception as ex:  # noqa
            import traceback
            tb = traceback.format_exc().strip().splitlines()
            g2 = group
            if isinstance(ex, IndexError) and any("t_mat[0, 1]" in ln for ln in tb):
                g2 = "lanczos_one_iteration/" + group.split("/")[0]  # known: lanczos_tridiag cannot run a single iteration (1x1 matrix / rank bound 1)
            rec.check(g2, lab, False, f"raised {type(ex).__name__}: {ex}"[:300] + " @ " + (tb[-3].strip() if len(tb) >= 3 else ""))
            return False, None, set()
        return True, v, lc.algos

    def compression_checks(group, lab, R, target, inverse, algos):
        """Lanczos semantics: R R^T = Q (Q^T A Q) Q^T (resp. Q (Q^T A Q)^-1 Q^T) for an orthonormal basis Q of range(R);
        equal to A (A^-1) itself once the budget reaches N and the eigenvalues are distinct."""
        R = R.to(f64)
        k = R.shape[-1]
        if near_scalar:
            rec.check(group, lab, True, nontrivial=False)
            return
        if scalar_matrix:
            group = "lanczos_breakdown_at_start/" + group.split("/")[0]  # A = c*I: the start vector is an eigenvector
        rec.check(group, lab, R.shape[-2] == N and tuple(R.shape[:-2]) == batch and k <= N, f"Lanczos root has shape {tuple(R.shape)}; expected (*{batch}, {N}, <= {N})")
        if R.shape[-2] != N or tuple(R.shape[:-2]) != batch:
            return
        if not bool(torch.isfinite(R).all()):
            rec.check(group, lab, False, "non-finite entries in the Lanczos-based factor")
            return
        G = R @ R.mT
        worst = 0.0
        for b, Q in enumerate(range_basis(R)):
            A = Dm.reshape(-1, N, N)[b]
            Gb = G.reshape(-1, N, N)[b]
            C = Q.mT @ A @ Q
            if inverse:
                err = float(torch.linalg.matrix_norm(C @ (Q.mT @ Gb @ Q) - torch.eye(Q.shape[-1], dtype=f64)))
                err = err / max(1.0, kap)
                out = float(torch.linalg.matrix_norm(Gb - Q @ (Q.mT @ Gb @ Q) @ Q.mT) / torch.linalg.matrix_norm(Gb).clamp_min(1e-300))
                err = max(err, out)
            else:
                err = float(torch.linalg.matrix_norm(Gb - Q @ C @ Q.mT) / torch.linalg.matrix_norm(A))
            worst = max(worst, err)
        rec.check(group, lab, worst <= tau_l, f"Lanczos-based root is not the orthogonal compression of A onto the space it spans (+jitter): {worst:.2e} > {tau_l:.0e}")
        if budget >= N and distinct and kap <= 1e4:
            if inverse:
                err = float(torch.linalg.matrix_norm(Dm @ G - I).max()) / max(1.0, kap)
            else:
                err = rel(G, Dm)
            rec.check(group, lab, err <= tau_l, f"Lanczos with rank bound {budget} >= N={N} and distinct eigenvalues (gap {gap:.1e}): R R^T differs from "
                      f"{'A^-1' if inverse else 'A'} by {err:.2e} > {tau_l:.0e} (columns {k})")

    # ------------------------------------------------------------------ cholesky
    if full:
        for entry in ("method", "torch"):
            for up in (False, True):
                if entry == "torch" and cfgname != "default":
                    continue
                lab = f"{label}|cfg={cfgname}|upper={up}" + ("|via=torch.linalg.cholesky" if entry == "torch" else "")
                op, _ = make()
                grp = f"cholesky/{c.name}"
                ok, Lop, algos = run(grp, lab, (lambda: op.cholesky(upper=up)) if entry == "method" else (lambda: torch.linalg.cholesky(op, upper=up)))
                if not ok:
                    continue
                Ld = dn(Lop)
                good_shape = torch.is_tensor(Ld) and tuple(Ld.shape) == tuple(D.shape)
                rec.check(grp, lab, good_shape and Ld.dtype == dt, f"factor shape/dtype {tuple(Ld.shape)}/{Ld.dtype} expected {tuple(D.shape)}/{dt}")
                if not good_shape:
                    continue
                other = Ld.tril(-1) if up else Ld.triu(1)
                rec.check(f"cholesky_triangular/{c.name}", lab, bool((other == 0).all()), f"requested {'upper' if up else 'lower'} factor has non-zero entries in the other triangle (max {float(other.abs().max()):.2e})")
                Ld64 = Ld.to(f64)
                err = rel(Ld64.mT @ Ld64 if up else Ld64 @ Ld64.mT, Dm)
                rec.check(grp, lab, err <= tau, f"{'R^T R' if up else 'L L^T'} differs from A: {err:.2e} > {tau:.1e}")
                if N > 1 and hasattr(Lop, "upper") and not isinstance(Lop, diaglike):
                    rec.check(f"cholesky_orientation_flag/{c.name}", lab, bool(Lop.upper) == up, f"cholesky(upper={up}) returned {type(Lop).__name__} with .upper={Lop.upper}")
        # both orientations from one operator (cached factor must not be returned for the other orientation)
        lab = f"{label}|cfg={cfgname}|hist=upper_then_lower"
        op, _ = make()
        ok, pair, _a = run(f"cholesky/{c.name}", lab, lambda: (dn(op.cholesky(upper=True)), dn(op.cholesky(upper=False)), dn(op.cholesky(upper=True))))
        if ok:
            U1, L1, U2 = (x.to(f64) for x in pair)
            good = rel(U1.mT @ U1, Dm) <= tau and rel(L1 @ L1.mT, Dm) <= tau and bool((U1.tril(-1) == 0).all()) and bool((L1.triu(1) == 0).all()) and bool((U1 == U2).all())
            rec.check(f"cholesky/{c.name}", lab, good, "cholesky(upper=True), cholesky(upper=False), cholesky(upper=True) on one operator: orientation / value wrong")

    # ------------------------------------------------------------------ root_decomposition
    methods = ROOT_METHODS if full else [None, "lanczos"]
    for m in methods:
        for entry in ("method", "functional"):
            if entry == "functional" and (m not in (None, "symeig") or cfgname != "default"):
                continue
            lab = f"{label}|cfg={cfgname}|method={m}" + ("|via=functional" if entry == "functional" else "")
            grp = f"root_decomposition[{m}]/{c.name}"
            op, _ = make()
            ok, Rop, algos = run(grp, lab, (lambda: op.root_decomposition(method=m).root) if entry == "method" else (lambda: H.lo.root_decomposition(op, method=m).root))
            if not ok:
                continue
            R = dn(Rop)
            if not (torch.is_tensor(R) and R.dim() == D.dim() and R.shape[-2] == N and tuple(R.shape[:-2]) == batch):
                rec.check(grp, lab, False, f"root has shape {tuple(R.shape) if torch.is_tensor(R) else type(R)}; expected (*{batch}, {N}, k)")
                continue
            rec.check(grp, lab, R.dtype == dt, f"root dtype {R.dtype} expected {dt}")
            R64 = R.to(f64)
            if not bool(torch.isfinite(R64).all()):
                rec.check(("lanczos_breakdown_at_start/" + grp.split("/")[0]) if scalar_matrix and "lanczos" in algos else grp, lab, False, "non-finite entries in the root")
                continue
            if "lanczos" in algos:
                compression_checks(grp, lab, R64, Dm, False, algos)
            elif "pivchol" in algos or m == "pivoted_cholesky":
                E = Dm - R64 @ R64.mT
                ev = torch.linalg.eigvalsh(0.5 * (E + E.mT))
                scale = float(fro(Dm))
                psd = float(ev.min()) >= -max(tau, 1e-6 if dt == f64 else 1e-3) * scale
                k = R.shape[-1]
                trel = float((E.diagonal(dim1=-1, dim2=-2).sum(-1) / Dm.diagonal(dim1=-1, dim2=-2).sum(-1)).max())
                rank_ok = k <= min(budget, N)
                done = trel <= 1.05e-3 + tau if budget >= N else True
                # after k steps the residual (a Schur complement) vanishes on k pivots: at least k (near-)zero eigenvalues
                zeros = int((ev.abs() <= max(tau, 1e-6 if dt == f64 else 1e-3) * scale).sum(-1).min())
                rec.check(grp, lab, psd and rank_ok and done and zeros >= min(k, N) - (0 if k <= N else k - N),
                          f"pivoted Cholesky root: residual PSD={psd}, columns {k} (bound {min(budget, N)}), relative trace residual {trel:.2e}, zero directions {zeros}")
            else:
                err = rel(R64 @ R64.mT, Dm)
                rec.check(grp, lab, err <= tau, f"direct method (log {sorted(algos)}): R R^T differs from A by {err:.2e} > {tau:.1e}")

    # ------------------------------------------------------------------ root_inv_decomposition
    methods = ROOT_INV_METHODS if full else [None, "lanczos"]
    tau_inv = e * (400.0 + 40.0 * N + 40.0 * kap)
    for m in methods:
        for entry in ("method", "functional"):
            if entry == "functional" and (m not in (None,) or cfgname != "default"):
                continue
            lab = f"{label}|cfg={cfgname}|method={m}" + ("|via=functional" if entry == "functional" else "")
            grp = f"root_inv_decomposition[{m}]/{c.name}"
            op, _ = make()
            ok, Rop, algos = run(grp, lab, (lambda: op.root_inv_decomposition(method=m).root) if entry == "method" else (lambda: H.lo.root_inv_decomposition(op, method=m).root))
            if not ok:
                continue
            R = dn(Rop)
            if not (torch.is_tensor(R) and R.dim() == D.dim() and R.shape[-2] == N and tuple(R.shape[:-2]) == batch):
                rec.check(grp, lab, False, f"inverse root has shape {tuple(R.shape) if torch.is_tensor(R) else type(R)}; expected (*{batch}, {N}, k)")
                continue
            rec.check(grp, lab, R.dtype == dt, f"inverse root dtype {R.dtype} expected {dt}")
            R64 = R.to(f64)
            if not bool(torch.isfinite(R64).all()):
                rec.check(("lanczos_breakdown_at_start/" + grp.split("/")[0]) if scalar_matrix and "lanczos" in algos else grp, lab, False, "non-finite entries in the inverse root")
                continue
            if "lanczos" in algos:
                compression_checks(grp, lab, R64, Dinv, True, algos)
            else:
                err = float(torch.linalg.matrix_norm(Dm @ (R64 @ R64.mT) - I).max()) / max(1.0, kap)
                rec.check(grp, lab, err <= tau_inv / max(1.0, kap) + tau, f"direct method (log {sorted(algos)}): ||A R R^T - I||/kappa = {err:.2e} (kappa={kap:.1e})")
    # ------------------------------------------------------------------ diagonalization / eigh / eigvalsh
    def eig_checks(grp, lab, w, Q, algos, lanczos_ok):
        if Q is None or w is None:
            rec.check(grp, lab, False, f"eigenvectors / eigenvalues missing: ({type(w).__name__}, {type(Q).__name__})")
            return
        Qd = dn(Q)
        if not (torch.is_tensor(w) and torch.is_tensor(Qd) and Qd.dim() == D.dim() and Qd.shape[-2] == N and w.shape[-1] == Qd.shape[-1]
                and tuple(Qd.shape[:-2]) == batch and tuple(w.shape[:-1]) == batch):
            rec.check(grp, lab, False, f"shapes evals {tuple(w.shape)} evecs {tuple(Qd.shape)}; expected (*{batch}, k) and (*{batch}, {N}, k)")
            return
        rec.check(grp, lab, w.dtype == dt and Qd.dtype == dt, f"dtypes {w.dtype}/{Qd.dtype} expected {dt}")
        Q64, w64 = Qd.to(f64), w.to(f64)
        oe = orth_err(Q64)
        if not (bool(torch.isfinite(Q64).all()) and bool(torch.isfinite(w64).all())):
            rec.check(("lanczos_breakdown_at_start/" + grp.split("/")[0]) if scalar_matrix and "lanczos" in algos else grp, lab, False, "non-finite eigenvalues / eigenvectors")
            return
        if "lanczos" in algos and lanczos_ok and near_scalar:
            rec.check(grp, lab, True, nontrivial=False)
        elif "lanczos" in algos and lanczos_ok:
            rec.check(("lanczos_breakdown_at_start/" + grp.split("/")[0]) if scalar_matrix else grp, lab, oe <= tau_l, f"Lanczos eigenvectors not orthonormal: {oe:.2e}")
            Rr = Q64 * w64.clamp_min(0).sqrt().unsqueeze(-2)
            compression_checks(grp, lab, Rr, Dm, False, algos)
        else:
            k = Qd.shape[-1]
            rec.check(grp, lab, k == N, f"direct eigendecomposition returned {k} of {N} eigenpairs")
            rec.check(grp, lab, oe <= tau, f"Q^T Q differs from I by {oe:.2e} > {tau:.1e}")
            err = rel((Q64 * w64.unsqueeze(-2)) @ Q64.mT, Dm)
            rec.check(grp, lab, err <= tau, f"Q diag(w) Q^T differs from A by {err:.2e} > {tau:.1e}")

    for m in ([None, "symeig", "lanczos"] if full else [None]):
        lab = f"{label}|cfg={cfgname}|method={m}"
        grp = f"diagonalization[{m}]/{c.name}"
        op, _ = make()
        ok, res, algos = run(grp, lab, lambda: op.diagonalization(method=m))
        if ok:
            if not (isinstance(res, tuple) and len(res) == 2):
                rec.check(grp, lab, False, f"diagonalization returned {type(res).__name__}")
            else:
                eig_checks(grp, lab, res[0], res[1], algos, True)
    if full:
        evd = torch.linalg.eigvalsh(Dm)
        for entry, fn in (("eigh", lambda op: op.eigh()), ("torch.linalg.eigh", lambda op: torch.linalg.eigh(op)),
                          ("eigh_twice", lambda op: (op.eigh(), op.eigh())[1]), ("eigh_after_eigvalsh", lambda op: (op.eigvalsh(), op.eigh())[1]),
                          ("eigh_after_diagonalization", lambda op: (op.diagonalization(), op.eigh())[1])):
            if entry != "eigh" and cfgname != "default":
                continue
            lab = f"{label}|cfg={cfgname}|via={entry}"
            grp = f"eigh/{c.name}"
            op, _ = make()
            ok, res, algos = run(grp, lab, lambda: fn(op))
            if ok:
                if not (isinstance(res, tuple) and len(res) == 2):
                    rec.check(grp, lab, False, f"eigh returned {type(res).__name__}")
                else:
                    eig_checks(grp, lab, res[0], res[1], algos - {"lanczos"}, False)
        for entry, fn in (("eigvalsh", lambda op: op.eigvalsh()), ("torch.linalg.eigvalsh", lambda op: torch.linalg.eigvalsh(op)),
                          ("eigvalsh_after_eigh", lambda op: (op.eigh(), op.eigvalsh())[1])):
            if entry != "eigvalsh" and cfgname != "default":
                continue
            lab = f"{label}|cfg={cfgname}|via={entry}"
            grp = f"eigvalsh/{c.name}"
            op, _ = make()
            ok, w, algos = run(grp, lab, lambda: fn(op))
            if ok:
                good = torch.is_tensor(w) and tuple(w.shape) == (*batch, N)
                rec.check(grp, lab, good, f"eigvalsh returned {type(w).__name__} of shape {tuple(w.shape) if torch.is_tensor(w) else None}; expected a tensor (*{batch}, {N})")
                if good:
                    err = float(((w.to(f64).sort(-1)[0] - evd).abs().max(-1)[0] / evd[..., -1]).max())
                    rec.check(grp, lab, err <= tau and w.dtype == dt, f"eigenvalues (as a multiset) differ from the dense ones by {err:.2e} > {tau:.1e} (relative to the largest)")
        # ------------------------------------------------------------------ svd
        for entry in ("svd", "torch.linalg.svd"):
            if entry != "svd" and cfgname != "default":
                continue
            lab = f"{label}|cfg={cfgname}|via={entry}"
            grp = f"svd/{c.name}"
            op, _ = make()
            ok, res, algos = run(grp, lab, (lambda: op.svd()) if entry == "svd" else (lambda: torch.linalg.svd(op)))
            if not ok:
                continue
            if not (isinstance(res, tuple) and len(res) == 3):
                rec.check(grp, lab, False, f"svd returned {type(res).__name__}")
                continue
            U, Sg, V = dn(res[0]), res[1], dn(res[2])
            if entry == "torch.linalg.svd":
                V = V.mT  # torch convention: Vh
            shp = torch.is_tensor(U) and torch.is_tensor(V) and torch.is_tensor(Sg) and tuple(U.shape) == tuple(D.shape) and tuple(V.shape) == tuple(D.shape) and tuple(Sg.shape) == (*batch, N)
            rec.check(grp, lab, shp, f"shapes U {tuple(U.shape) if torch.is_tensor(U) else None} S {tuple(Sg.shape) if torch.is_tensor(Sg) else None} V {tuple(V.shape) if torch.is_tensor(V) else None}")
            if not shp:
                continue
            U64, V64, S64 = U.to(f64), V.to(f64), Sg.to(f64)
            rec.check(grp, lab, bool((S64 >= 0).all()), "negative singular value")
            rec.check(grp, lab, orth_err(U64) <= tau and orth_err(V64) <= tau, f"U / V not orthonormal: {orth_err(U64):.2e} / {orth_err(V64):.2e} > {tau:.1e}")
            err = rel((U64 * S64.unsqueeze(-2)) @ V64.mT, Dm)
            rec.check(grp, lab, err <= tau, f"U diag(S) V^T differs from A by {err:.2e} > {tau:.1e}")
            rec.check(grp, lab, U.dtype == dt and V.dtype == dt and Sg.dtype == dt, f"dtypes {U.dtype}/{Sg.dtype}/{V.dtype}")


def rtc_factorizations(case_names, tier):
    from contracts.rtc_common import Recorder
    from contracts import rtc_C04
    H = rtc_C04.helpers()
    rec = Recorder(PID)
    quick = tier == "quick"
    for k, (label, c, dt, batch, n, make, D, kap) in enumerate(rtc_C04._instances(H, rec, tier, case_names)):
        for j, (cfgname, cfg, role) in enumerate(CONFIGS):
            if cfg.get("linalg_f32") and kap > 1e3:
                continue
            if quick and role == "side" and (k + j) % 2:
                continue
            _fact_checks(H, rec, c, label, make, D, kap, cfgname, cfg, role, tier)
    return rec.obligations()


def rtc_default_dtype(case_names, tier):
    """torch default dtype float64 with float32 operators"""
    from contracts.rtc_common import Recorder
    from contracts import rtc_C04
    H = rtc_C04.helpers()
    torch = H.torch
    rec = Recorder(PID)
    old = torch.get_default_dtype()
    try:
        torch.set_default_dtype(torch.float64)
        cb = [(torch.float32, (), 4), (torch.float32, (2,), 2)]
        for label, c, dt, batch, n, make, D, kap in rtc_C04._instances(H, rec, tier, case_names, combos_=cb):
            for cfgname, cfg, role in CONFIGS[:2]:
                _fact_checks(H, rec, c, label + "|default=float64", make, D, kap, cfgname, cfg, role, tier)
    finally:
        torch.set_default_dtype(old)
    return rec.obligations()


# ------------------------------------------------------------------------------------------------------
# multi-step histories over two operators that share a base: K and a "K + diagonal" wrapper built on it

HIST_BASES = ["dense_psd", "toeplitz", "user_psd", "root_sq", "chol_lower", "kron2", "constmul", "sum", "psdsum", "mul", "blockdiag",
              "batchrepeat", "dense_expand", "kernel_plus_jitter"]
HIST_WRAPPERS = ["add_jitter", "add_diagonal_scalar", "addeddiag_constdiag", "add_diagonal_vec"]
HIST_FIRST = ["svd", "eigh", "diagonalization", "root_decomposition", "root_decomposition[svd]", "root_decomposition[symeig]", "cholesky"]
HIST_THEN = ["svd", "torch.linalg.svd", "eigh", "eigvalsh", "diagonalization", "root_decomposition", "root_decomposition[svd]",
             "root_decomposition[symeig]", "root_inv_decomposition", "cholesky"]


def _hist_factorize(H, tools, name, op, Dm, dt, kap):
    """run one factorization of `op` and evaluate the C06 contract against the dense oracle Dm (float64) of *that* operator.
    Returns (ok, detail).  Default settings and sizes <= max_cholesky_size: every method here is a direct one."""
    torch = H.torch
    f64 = torch.float64
    dn, fro, rel, orth_err, range_basis, min_rel_gap = tools
    N = Dm.shape[-1]
    batch = tuple(Dm.shape[:-2])
    e = H.eps_of(dt)
    tau = e * (400.0 + 40.0 * N)
    if name in ("svd", "torch.linalg.svd"):
        U, Sg, V = op.svd() if name == "svd" else torch.linalg.svd(op)
        U, V = dn(U).to(f64), dn(V).to(f64)
        if name == "torch.linalg.svd":
            V = V.mT
        if tuple(U.shape) != tuple(Dm.shape) or tuple(V.shape) != tuple(Dm.shape) or tuple(Sg.shape) != (*batch, N):
            return False, f"shapes U {tuple(U.shape)} S {tuple(Sg.shape)} V {tuple(V.shape)}"
        S64 = Sg.to(f64)
        err, ou, ov = rel((U * S64.unsqueeze(-2)) @ V.mT, Dm), orth_err(U), orth_err(V)
        return (err <= tau and ou <= tau and ov <= tau and bool((S64 >= 0).all()),
                f"U diag(S) V^T differs from the operator's matrix by {err:.2e} (allowed {tau:.1e}); orthonormality {ou:.1e}/{ov:.1e}; min S {float(S64.min()):.2e}")
    if name in ("eigh", "diagonalization"):
        w, Q = op.eigh() if name == "eigh" else op.diagonalization()
        Q = dn(Q).to(f64)
        w = w.to(f64)
        if tuple(Q.shape) != tuple(Dm.shape) or tuple(w.shape) != (*batch, N):
            return False, f"shapes evals {tuple(w.shape)} evecs {tuple(Q.shape)}"
        err, oe = rel((Q * w.unsqueeze(-2)) @ Q.mT, Dm), orth_err(Q)
        return err <= tau and oe <= tau, f"Q diag(w) Q^T differs from the operator's matrix by {err:.2e} (allowed {tau:.1e}); Q^T Q - I {oe:.1e}"
    if name == "eigvalsh":
        w = op.eigvalsh()
        if tuple(w.shape) != (*batch, N):
            return False, f"eigvalsh shape {tuple(w.shape)}"
        evd = torch.linalg.eigvalsh(Dm)
        err = float(((w.to(f64).sort(-1)[0] - evd).abs().max(-1)[0] / evd[..., -1]).max())
        return err <= tau, f"eigenvalues (as a multiset) differ from the dense ones by {err:.2e} (allowed {tau:.1e})"
    if name.startswith("root_decomposition"):
        m = name[len("root_decomposition["):-1] if "[" in name else None
        R = dn(op.root_decomposition(method=m).root).to(f64)
        if R.shape[-2] != N or tuple(R.shape[:-2]) != batch:
            return False, f"root shape {tuple(R.shape)}"
        err = rel(R @ R.mT, Dm)
        return err <= tau, f"R R^T differs from the operator's matrix by {err:.2e} (allowed {tau:.1e})"
    if name == "root_inv_decomposition":
        R = dn(op.root_inv_decomposition().root).to(f64)
        if R.shape[-2] != N or tuple(R.shape[:-2]) != batch:
            return False, f"inverse root shape {tuple(R.shape)}"
        tol = (e * (400.0 + 40.0 * N + 40.0 * kap)) / max(1.0, kap) + tau
        err = float(torch.linalg.matrix_norm(Dm @ (R @ R.mT) - torch.eye(N, dtype=f64)).max()) / max(1.0, kap)
        return err <= tol, f"||A R R^T - I||/kappa = {err:.2e} (allowed {tol:.1e})"
    if name == "cholesky":
        Lc = dn(op.cholesky()).to(f64)
        if tuple(Lc.shape) != tuple(Dm.shape):
            return False, f"factor shape {tuple(Lc.shape)}"
        err = rel(Lc @ Lc.mT, Dm)
        return err <= tau and bool((Lc.triu(1) == 0).all()), f"L L^T differs from the operator's matrix by {err:.2e} (allowed {tau:.1e})"
    raise ValueError(name)


def rtc_wrapper_history(case_names, tier):
    """Two operators sharing one base: K and A = K + (constant) diagonal built on K (add_jitter / add_diagonal(scalar) /
    AddedDiagLinearOperator(K, ConstantDiagLinearOperator) / add_diagonal(vector)).  Factorize one of them, then factorize the
    other one with every method, then the first one again: every returned factorization must factorize the operator it was
    asked of (A's wrappers reuse - and K memoizes - K's factors, so each must stay a factorization of its own operator)."""
    from contracts.rtc_common import Recorder
    from contracts import rtc_C04
    H = rtc_C04.helpers()
    torch, zoo, O = H.torch, H.zoo, H.O
    f64 = torch.float64
    tools = _tools(H)
    rec = Recorder(PID)
    quick = tier == "quick"

    def root_sq(g, dt, batch, n):
        r = zoo.rn(g, *batch, n, n, dtype=dt) + 0.5 * torch.eye(n, dtype=dt)
        return O.RootLinearOperator(r), r @ r.mT

    cases = dict(H.CASES)
    cases["root_sq"] = zoo.Case("root_sq", "RootLinearOperator", root_sq, psd=True)
    if quick:
        cb = [(f64, (), 4), (f64, (2,), 3), (torch.float32, (2, 3), 2), (f64, (1,), 5), (torch.float32, (), 6)]
    else:
        cb = H.combos("quick", sizes=[1, 2, 3, 6])

    def wrap(kind, K, D, seed):
        """(A, dense of A) built on the operator object K itself"""
        N, batch, dt = D.shape[-1], tuple(D.shape[:-2]), D.dtype
        I = torch.eye(N, dtype=dt)
        if kind == "add_jitter":
            return K.add_jitter(0.75), D + 0.75 * I
        if kind == "add_diagonal_scalar":
            return K.add_diagonal(torch.tensor([1.5], dtype=dt)), D + 1.5 * I
        g = zoo.gen(seed)
        if kind == "addeddiag_constdiag":
            v = zoo.rn(g, *batch, 1, dtype=dt).abs() + 0.3
            return O.AddedDiagLinearOperator(K, O.ConstantDiagLinearOperator(v, diag_shape=N)), D + v.unsqueeze(-1) * I
        if kind == "add_diagonal_vec":
            d = zoo.rn(g, *batch, N, dtype=dt).abs() + 0.3
            return K.add_diagonal(d), D + torch.diag_embed(d)
        raise ValueError(kind)

    firsts = HIST_FIRST
    for k, (label, c, dt, batch, n, make, D, kap) in enumerate(rtc_C04._instances(H, rec, tier, case_names, cases=cases, combos_=cb)):
        N = D.shape[-1]
        Dm = D.to(f64)
        for wi, wk in enumerate(HIST_WRAPPERS):
            for fi, f1 in enumerate(firsts):
                for order in ("wrapper_first", "base_first"):
                    if quick and (k + wi + fi + (order == "base_first")) % 2:
                        continue  # quick: a checkerboard half of (instance, wrapper, first step, order)
                    lab0 = f"{label}|wrap={wk}|order={order}|first={f1}"
                    K, _ = make()
                    try:
                        A, DA = wrap(wk, K, D, 11 + k)
                    except Exception as ex:  # noqa
                        rec.check(f"wrapper_history_construct/{c.name}", lab0, False, f"building the wrapper raised {type(ex).__name__}: {ex}"[:300])
                        continue
                    DAm = DA.to(f64)
                    kapA = H.kappa(DAm)
                    ops = {"A": (A, DAm, kapA), "K": (K, Dm, kap)}
                    t1, t2 = ("A", "K") if order == "wrapper_first" else ("K", "A")
                    steps = [(t1, f1)] + [(t2, f2) for f2 in HIST_THEN] + [(t1, f1), (t1, "svd"), (t1, "eigh")]
                    torch.manual_seed(77)
                    for si, (tgt, fn) in enumerate(steps):
                        op_, Dd, kp = ops[tgt]
                        lab = f"{lab0}|step={si}|target={tgt}|then={fn}"
                        grp = f"wrapper_history[{fn}]/{c.name}"
                        try:
                            ok, detail = _hist_factorize(H, tools, fn, op_, Dd, dt, kp)
                        except Exception as ex:  # noqa
                            import traceback
                            tb = traceback.format_exc().strip().splitlines()
                            ok, detail = False, f"raised {type(ex).__name__}: {ex}"[:300] + " @ " + (tb[-3].strip() if len(tb) >= 3 else "")
                        rec.check(grp, lab, ok, f"{'K + diagonal' if tgt == 'A' else 'K'} after {si} earlier factorization(s) on the pair: {detail}")
                    # neither operator's matrix may have changed
                    for tgt in ("K", "A"):
                        op_, Dd, _kp = ops[tgt]
                        try:
                            same = tools[2](op_.to_dense().to(f64), Dd) <= H.eps_of(dt) * 40
                        except Exception:  # noqa
                            same = False
                        rec.check(f"wrapper_history[to_dense]/{c.name}", f"{lab0}|target={tgt}", same, "to_dense() of the operator changed after factorizations on the pair")
    return rec.obligations()


def rtc_method_history(tier):
    """One operator object asked for the same factorization with DIFFERENT arguments in sequence (a rank-limited Lanczos
    diagonalization / root first, then a direct method, and the other way round): every answer must factorize the operator
    with the method that was asked for - a result memoized for other arguments must not be handed back."""
    from contracts.rtc_common import Recorder
    from contracts import rtc_C04
    H = rtc_C04.helpers()
    torch, zoo, O = H.torch, H.zoo, H.O
    from linear_operator import settings
    f64 = torch.float64
    rec = Recorder(PID)
    names = ["dense_psd", "toeplitz", "kron2", "sum", "constmul", "psdsum", "blockdiag"]
    for name in names:
        case = zoo.BY_NAME[name]
        for batch in ((), (2,), (3, 2)) if tier != "quick" else ((), (2,)):
            for n in (8, 12) if tier != "quick" else (8,):
                for order in ("lanczos_first", "direct_first"):
                    try:
                        op, D = case.build(zoo.gen(21), f64, batch, n)
                    except Exception:  # noqa
                        continue
                    N = D.shape[-1]
                    lab = f"{name}|float64|b={batch}|n={N}|order={order}"

                    def direct(tag):
                        ev, Q = op.diagonalization(method="symeig")
                        Qd = Q.to_dense() if hasattr(Q, "to_dense") else Q
                        okk = ev.shape[-1] == N and Qd.shape[-1] == N and float(((Qd * ev.unsqueeze(-2)) @ Qd.mT - D).abs().max()) <= 1e-8 * max(1.0, float(D.abs().max()))
                        rec.check(f"method_history[diagonalization(symeig)]/{name}", f"{lab}|{tag}", okk, f"diagonalization(method='symeig') returned {ev.shape[-1]} eigenpairs of an {N} x {N} operator / Q diag(w) Q^T differs from A")
                        R = op.root_decomposition(method="symeig").root.to_dense()
                        rec.check(f"method_history[root_decomposition(symeig)]/{name}", f"{lab}|{tag}", float((R @ R.mT - D).abs().max()) <= 1e-8 * max(1.0, float(D.abs().max())), "root_decomposition(method='symeig'): R R^T differs from A")
                    try:
                        if order == "direct_first":
                            direct("before")
                        with settings.max_root_decomposition_size(3):
                            op.diagonalization(method="lanczos")
                            op.root_decomposition(method="lanczos")
                        direct("after a rank-3 lanczos call on the same object")
                    except Exception as ex:  # noqa
                        rec.check(f"method_history[diagonalization(symeig)]/{name}", lab, False, f"raised {type(ex).__name__}: {ex}"[:300])
    return rec.obligations()


def _chunks(names, k):
    return [names[i:i + k] for i in range(0, len(names), k)]


def rtc_units(tier):
    from contracts.rtc_C04 import ALL_NAMES
    mod = "contracts.rtc_C06"
    us = []
    for ch in _chunks(ALL_NAMES, 5):
        us.append(Unit(f"C06/rtc/factorizations[{','.join(ch)}]", mod, "rtc_factorizations", (ch, tier), engine="rtc", timeout_s=1500))
    for ch in _chunks(ALL_NAMES, 35):
        us.append(Unit(f"C06/rtc/default_dtype[{ch[0]}..{ch[-1]}]", mod, "rtc_default_dtype", (ch, tier), engine="rtc", timeout_s=1500))
    for ch in _chunks(HIST_BASES, 5):
        us.append(Unit(f"C06/rtc/wrapper_history[{','.join(ch)}]", mod, "rtc_wrapper_history", (ch, tier), engine="rtc", timeout_s=1500))
    us.append(Unit("C06/rtc/method_history", mod, "rtc_method_history", (tier,), engine="rtc", timeout_s=900))
    return us


RTC_META = {
    "explanation": "run-time contract for every factorization entry point on the real code: residuals R R^T - A, A R R^T - I, Q^T Q - I, "
                   "Q diag(w) Q^T - A, U diag(S) V^T - A, exact zeros of the Cholesky factor's other triangle and its orientation flag, S >= 0; "
                   "the algorithm that really ran (verbose_linalg log) selects exact / Lanczos-compression / pivoted-Cholesky semantics.",
    "assumptions": [
        "direct factorizations: relative Frobenius residual <= eps*(400+40N) (no kappa); inverse roots: ||A R R^T - I|| <= eps*(400+40N+40kappa)",
        "Lanczos roots/diagonalizations: R R^T equals the orthogonal compression of A onto range(R) (inverse: its inverse there) up to 3e-5 (float64) / 2e-2 (float32; start-vector sensitivity) "
        "(documented tridiagonal jitter 1e-6); equal to A / A^-1 itself only when the rank bound >= N and the relative eigenvalue gap exceeds 1e-3",
        "pivoted Cholesky root: PSD residual, at most min(rank bound, N) columns, as many vanishing residual directions as columns, relative trace residual <= 1e-3 when the bound reaches N",
        "eigenvalues are compared as multisets (the documentation says they are not sorted)",
        "1x1 operators and diagonal-like factors carry no orientation flag",
    ],
    "families": "28 PSD zoo + 42 local PSD cases x dtypes x batch {(),(2,),(1,),(2,3)} x sizes {1,2,4,6} x 9 settings combinations (max_cholesky_size 0/N-1/N/default, "
                "fast covar_root_decomposition, max_root_decomposition_size N / max(2,N-2) / default, linalg dtypes) x cholesky(upper T/F) x 7 root methods x 7 inverse-root "
                "methods x 3 diagonalization methods x eigh/eigvalsh/svd via methods, torch.linalg.* and functional entry points; "
                "histories (both orientations from one operator, eigh twice, eigvalsh/diagonalization before eigh); default dtype float64 with float32 operators; "
                "two-operator histories (wrapper_history units): K from 14 base cases and A = K.add_jitter / K.add_diagonal(1-element) / AddedDiag(K, ConstantDiag) / K.add_diagonal(vector) "
                "built on the same K object; one of {svd, eigh, diagonalization, root_decomposition[None|svd|symeig], cholesky} on A (resp. K), then 10 factorizations of the other operator, "
                "then the first one again, each against its own dense oracle (quick: a checkerboard half), 5 (dtype, batch, size) combinations, default settings.",
}
