"""C07 bounded tier — gradients through operators equal gradients through the dense computation.

Run-time contracts on the real code under real torch (never counted as proved):

 (i)  ``bilinear``: for every builder (all classes with a hand-written ``_bilinear_derivative`` + nestings +
      classes relying on the default) ``op._bilinear_derivative(U, V)`` is compared with
      ``torch.autograd.grad((U * op2._matmul(V)).sum())`` where ``op2`` is rebuilt with
      ``op.representation_tree()`` from detached clones of ``op.representation()``; the result tuple must have
      one entry per representation tensor, and every entry belonging to a tensor that requires grad must equal
      the autograd gradient after the reduction autograd itself applies to results of ``Function.backward``
      (``sum_to_size`` of broadcast leading / size-1 dimensions).
 (ii) ``entry points``: local builders return ``(leaves, make_op(leaves), make_dense(leaves))``; the dense matrix
      is assembled from the same leaves by independent torch code.  For each differentiable entry point a random
      scalarisation ``sum(W * f(op, rhs))`` is differentiated w.r.t. every leaf (and rhs / lhs) for subsets of
      tensors requiring grad, and compared with the gradient of ``sum(W * f_dense(D, rhs))``.  Functions defined
      only on symmetric matrices are evaluated on builders whose ``make_op`` symmetrises its leaves
      (``0.5 (S + S^T)``, shared interpolation weights ...), so only symmetric perturbations are compared.
"""
from __future__ import annotations

import itertools
import math
import zlib
from collections import OrderedDict

from engine.common import Unit

PID = "C07"

torch = None
O = None
settings = None
zoo = None
linear_operator = None


def _imp():
    global torch, O, settings, zoo, linear_operator
    if torch is None:
        from contracts import zoo as _zoo  # puts VERIF_REPO first on sys.path
        import torch as _torch
        import linear_operator as _lo
        from linear_operator import operators as _O, settings as _settings

        torch, O, settings, zoo, linear_operator = _torch, _O, _settings, _zoo, _lo
        torch.set_num_threads(1)


# ------------------------------------------------------------------------------------------
# builders: (leaves, make_op, make_dense)


class Spec:
    def __init__(self, leaves, make_op, make_dense, psd=False, square=True, tri=False, note="", degenerate=False):
        self.leaves = OrderedDict(leaves)
        self.make_op = make_op
        self.make_dense = make_dense
        self.psd = psd
        self.square = square
        self.tri = tri
        self.note = note
        self.degenerate = degenerate  # multiple of the identity: Krylov methods break down after one step (not a gradient matter)


def _rn(g, *shape):
    return torch.randn(tuple(shape), generator=g, dtype=torch.float64)


def _spd(g, batch, n, cond=6.0):
    """random SPD, eigenvalues drawn independently in [1, cond] for every batch element (distinct with probability one, so
    that block / Kronecker / repeated compositions have simple spectra: full Krylov spaces, differentiable eigh)"""
    batch = tuple(batch)
    q, _ = torch.linalg.qr(torch.randn((*batch, n, n), generator=g, dtype=torch.float64))
    ev = 1.0 + (cond - 1.0) * torch.rand((*batch, n), generator=g, dtype=torch.float64)
    a = (q * ev.unsqueeze(-2)) @ q.mT
    return 0.5 * (a + a.mT)


def _sym(x):
    return 0.5 * (x + x.mT)


def _pos(g, *shape):
    return _rn(g, *shape).abs() + 0.5


def _toep_col(g, batch, n):
    c = _rn(g, *batch, n) * 0.3
    c[..., 0] = c[..., 0].abs() + n
    return c


def _fs(n):
    for a in range(2, n + 1):
        if n % a == 0:
            return a, n // a
    return 1, n


def _exp(t, batch, k):
    """expand a leaf without batch dims to batch ``batch`` (stride-0 view); k = number of trailing non-batch dims"""
    return t.expand(*batch, *t.shape[-k:]) if len(batch) else t


def b_dense_rect(g, b, n):
    return Spec({"A": _rn(g, *b, n, n + 1)}, lambda L: O.DenseLinearOperator(L["A"]), lambda L: L["A"], square=False)


def b_dense_sym(g, b, n):
    return Spec({"S": _spd(g, b, n)}, lambda L: O.DenseLinearOperator(_sym(L["S"])), lambda L: _sym(L["S"]), psd=True)


def b_dense_sym_exp(g, b, n):
    return Spec({"S": _spd(g, (), n)}, lambda L: O.DenseLinearOperator(_exp(_sym(L["S"]), b, 2)),
                lambda L: _exp(_sym(L["S"]), b, 2), psd=True, note="expanded")


def b_diag(g, b, n):
    return Spec({"d": _pos(g, *b, n)}, lambda L: O.DiagLinearOperator(L["d"]), lambda L: torch.diag_embed(L["d"]), psd=True)


def b_diag_exp(g, b, n):
    return Spec({"d": _pos(g, n)}, lambda L: O.DiagLinearOperator(_exp(L["d"], b, 1)),
                lambda L: torch.diag_embed(_exp(L["d"], b, 1)), psd=True, note="expanded")


def b_constdiag(g, b, n):
    return Spec({"v": _pos(g, *b, 1)}, lambda L: O.ConstantDiagLinearOperator(L["v"], diag_shape=n),
                lambda L: torch.diag_embed(L["v"].expand(*b, n)), psd=True, degenerate=True)


def b_constdiag_exp(g, b, n):
    return Spec({"v": _pos(g, 1)}, lambda L: O.ConstantDiagLinearOperator(_exp(L["v"], b, 1), diag_shape=n),
                lambda L: torch.diag_embed(_exp(L["v"], b, 1).expand(*b, n)), psd=True, note="expanded", degenerate=True)


def b_toeplitz(g, b, n):
    return Spec({"c": _toep_col(g, b, n)}, lambda L: O.ToeplitzLinearOperator(L["c"]), lambda L: zoo.toeplitz_dense(L["c"]), psd=True)


def b_toeplitz_exp(g, b, n):
    return Spec({"c": _toep_col(g, (), n)}, lambda L: O.ToeplitzLinearOperator(_exp(L["c"], b, 1)),
                lambda L: zoo.toeplitz_dense(_exp(L["c"], b, 1)), psd=True, note="expanded")


def b_constmul(g, b, n):
    c = _pos(g, *b) if len(b) else torch.tensor(1.7, dtype=torch.float64)
    return Spec({"S": _spd(g, b, n), "k": c}, lambda L: O.ConstantMulLinearOperator(O.DenseLinearOperator(_sym(L["S"])), L["k"]),
                lambda L: _sym(L["S"]) * L["k"][..., None, None], psd=True)


def b_constmul_scalar(g, b, n):
    # one 0-d constant shared by the whole batch (must be summed over the batch)
    return Spec({"c": _toep_col(g, b, n), "k": torch.tensor(0.8, dtype=torch.float64)},
                lambda L: O.ConstantMulLinearOperator(O.ToeplitzLinearOperator(L["c"]), L["k"]),
                lambda L: zoo.toeplitz_dense(L["c"]) * L["k"], psd=True, note="broadcast constant")


def b_constmul_neg_rect(g, b, n):
    c = -_pos(g, *b) if len(b) else torch.tensor(-1.3, dtype=torch.float64)
    return Spec({"A": _rn(g, *b, n, n + 2), "k": c}, lambda L: O.ConstantMulLinearOperator(O.DenseLinearOperator(L["A"]), L["k"]),
                lambda L: L["A"] * L["k"][..., None, None], square=False)


def b_constmul_exp(g, b, n):
    # constant is a 1-element leaf expanded over the batch
    k = _pos(g, *[1] * len(b)) if len(b) else torch.tensor(1.9, dtype=torch.float64)
    ex = (lambda t: t.expand(*b)) if len(b) else (lambda t: t)
    return Spec({"S": _spd(g, b, n), "k": k},
                lambda L: O.ConstantMulLinearOperator(O.DenseLinearOperator(_sym(L["S"])), ex(L["k"])),
                lambda L: _sym(L["S"]) * ex(L["k"])[..., None, None], psd=True, note="expanded")


def b_matmul(g, b, n):
    return Spec({"A": _rn(g, *b, n, n + 1), "B": _rn(g, n + 1, n + 2)},
                lambda L: O.MatmulLinearOperator(O.DenseLinearOperator(L["A"]), O.DenseLinearOperator(L["B"])),
                lambda L: L["A"] @ L["B"], square=False, note="right factor broadcast over batch")


def b_matmul_diag_dense(g, b, n):
    return Spec({"d": _pos(g, *b, n), "A": _rn(g, *b, n, n)},
                lambda L: O.MatmulLinearOperator(O.DiagLinearOperator(L["d"]), O.DenseLinearOperator(L["A"])),
                lambda L: torch.diag_embed(L["d"]) @ L["A"])


def b_matmul_toeplitz_dense(g, b, n):
    return Spec({"c": _toep_col(g, (), n), "A": _rn(g, *b, n, 2)},
                lambda L: O.MatmulLinearOperator(O.ToeplitzLinearOperator(L["c"]), O.DenseLinearOperator(L["A"])),
                lambda L: zoo.toeplitz_dense(L["c"]) @ L["A"], square=False, note="left factor broadcast over batch")


def b_mul_roots(g, b, n):
    # well conditioned by construction: R1 close to 1.5 I, the entries of R2 close to 1 (no row of R2 near zero)
    return Spec({"R1": 0.3 * _rn(g, *b, n, n) + 1.5 * torch.eye(n, dtype=torch.float64), "R2": 0.3 * _rn(g, *b, n, max(1, n - 1)) + 1.0},
                lambda L: O.MulLinearOperator(O.RootLinearOperator(L["R1"]), O.RootLinearOperator(L["R2"])),
                lambda L: (L["R1"] @ L["R1"].mT) * (L["R2"] @ L["R2"].mT), psd=True)


def b_mul_dense_toeplitz(g, b, n):
    return Spec({"S": _spd(g, b, n), "c": _toep_col(g, b, n)},
                lambda L: O.MulLinearOperator(O.DenseLinearOperator(_sym(L["S"])), O.ToeplitzLinearOperator(L["c"])),
                lambda L: _sym(L["S"]) * zoo.toeplitz_dense(L["c"]), psd=True)


def b_sum(g, b, n):
    return Spec({"S": _spd(g, b, n), "c": _toep_col(g, b, n)},
                lambda L: O.SumLinearOperator(O.DenseLinearOperator(_sym(L["S"])), O.ToeplitzLinearOperator(L["c"])),
                lambda L: _sym(L["S"]) + zoo.toeplitz_dense(L["c"]), psd=True)


def b_sum_bcast(g, b, n):
    return Spec({"S": _spd(g, (), n), "c": _toep_col(g, b, n)},
                lambda L: O.SumLinearOperator(O.DenseLinearOperator(_sym(L["S"])), O.ToeplitzLinearOperator(L["c"])),
                lambda L: _sym(L["S"]) + zoo.toeplitz_dense(L["c"]), psd=True, note="first summand broadcast over batch")


def b_sum3(g, b, n):
    return Spec({"S": _spd(g, b, n), "d": _pos(g, *b, n), "R": _rn(g, *b, n, 2)},
                lambda L: O.SumLinearOperator(O.DenseLinearOperator(_sym(L["S"])), O.DiagLinearOperator(L["d"]), O.RootLinearOperator(L["R"])),
                lambda L: _sym(L["S"]) + torch.diag_embed(L["d"]) + L["R"] @ L["R"].mT, psd=True)


def b_psdsum(g, b, n):
    return Spec({"S": _spd(g, b, n), "T": _spd(g, b, n)},
                lambda L: O.PsdSumLinearOperator(O.DenseLinearOperator(_sym(L["S"])), O.DenseLinearOperator(_sym(L["T"]))),
                lambda L: _sym(L["S"]) + _sym(L["T"]), psd=True)


def b_blockdiag(g, b, n):
    return Spec({"S": _spd(g, (*b, 2), n)}, lambda L: O.BlockDiagLinearOperator(O.DenseLinearOperator(_sym(L["S"]))),
                lambda L: zoo.block_diag_dense(_sym(L["S"])), psd=True)


def b_blockdiag3_gen(g, b, n):
    return Spec({"A": _rn(g, *b, 3, n, n)}, lambda L: O.BlockDiagLinearOperator(O.DenseLinearOperator(L["A"])),
                lambda L: zoo.block_diag_dense(L["A"]))


def b_blockdiag_toeplitz(g, b, n):
    c = _rn(g, *b, 2, n) * 0.3
    c[..., 0] = c[..., 0].abs() + n
    return Spec({"c": c}, lambda L: O.BlockDiagLinearOperator(O.ToeplitzLinearOperator(L["c"])),
                lambda L: zoo.block_diag_dense(zoo.toeplitz_dense(L["c"])), psd=True)


def b_blockinter(g, b, n):
    return Spec({"S": _spd(g, (*b, 2), n)}, lambda L: O.BlockInterleavedLinearOperator(O.DenseLinearOperator(_sym(L["S"]))),
                lambda L: zoo.block_interleaved_dense(_sym(L["S"])), psd=True)


def b_blockinter3_diag(g, b, n):
    return Spec({"d": _pos(g, *b, 3, n)}, lambda L: O.BlockInterleavedLinearOperator(O.DiagLinearOperator(L["d"])),
                lambda L: zoo.block_interleaved_dense(torch.diag_embed(L["d"])), psd=True)


def b_sumbatch(g, b, n):
    return Spec({"S": _spd(g, (*b, 3), n)}, lambda L: O.SumBatchLinearOperator(O.DenseLinearOperator(_sym(L["S"]))),
                lambda L: _sym(L["S"]).sum(-3), psd=True)


def b_sumbatch_kron(g, b, n):
    a_, c_ = _fs(n)
    return Spec({"S1": _spd(g, (*b, 2), a_), "S2": _spd(g, (*b, 2), c_)},
                lambda L: O.SumBatchLinearOperator(O.KroneckerProductLinearOperator(O.DenseLinearOperator(_sym(L["S1"])), O.DenseLinearOperator(_sym(L["S2"])))),
                lambda L: zoo.kron(_sym(L["S1"]), _sym(L["S2"])).sum(-3), psd=True)


def b_batchrepeat(g, b, n):
    rep = torch.Size(b) if len(b) else torch.Size([1])
    return Spec({"S": _spd(g, (), n)}, lambda L: O.BatchRepeatLinearOperator(O.DenseLinearOperator(_sym(L["S"])), rep),
                lambda L: _sym(L["S"]).repeat(*rep, 1, 1), psd=True)


def b_batchrepeat2(g, b, n):
    rep = torch.Size((*b, 3)) if len(b) else torch.Size([3])
    return Spec({"c": _toep_col(g, (2,), n)}, lambda L: O.BatchRepeatLinearOperator(O.ToeplitzLinearOperator(L["c"]), rep),
                lambda L: zoo.toeplitz_dense(L["c"]).repeat(*rep, 1, 1), psd=True)


def b_batchrepeat_rect(g, b, n):
    rep = torch.Size(b) if len(b) else torch.Size([2])
    return Spec({"A": _rn(g, n, n + 1)}, lambda L: O.BatchRepeatLinearOperator(O.DenseLinearOperator(L["A"]), rep),
                lambda L: L["A"].repeat(*rep, 1, 1), square=False, note="non-square: default derivative path")


def _masks(g, m, n, mc=None, nc=None):
    rm = torch.zeros(m, dtype=torch.bool)
    rm[torch.randperm(m, generator=g)[:n]] = True
    if mc is None:
        return rm, rm.clone()
    cm = torch.zeros(mc, dtype=torch.bool)
    cm[torch.randperm(mc, generator=g)[:nc]] = True
    return rm, cm


def b_masked(g, b, n):
    rm, cm = _masks(g, n + 2, n, n + 3, n + 1)
    return Spec({"A": _rn(g, *b, n + 2, n + 3)}, lambda L: O.MaskedLinearOperator(O.DenseLinearOperator(L["A"]), rm, cm),
                lambda L: L["A"][..., rm, :][..., :, cm], square=False)


def b_masked_sym(g, b, n):
    rm, cm = _masks(g, n + 2, n)
    return Spec({"c": _toep_col(g, b, n + 2)}, lambda L: O.MaskedLinearOperator(O.ToeplitzLinearOperator(L["c"]), rm, cm),
                lambda L: zoo.toeplitz_dense(L["c"])[..., rm, :][..., :, cm], psd=True)


def b_kron(g, b, n):
    a_, c_ = _fs(n)
    return Spec({"S1": _spd(g, b, a_), "S2": _spd(g, b, c_)},
                lambda L: O.KroneckerProductLinearOperator(O.DenseLinearOperator(_sym(L["S1"])), O.DenseLinearOperator(_sym(L["S2"]))),
                lambda L: zoo.kron(_sym(L["S1"]), _sym(L["S2"])), psd=True)


def b_kron_bcast(g, b, n):
    a_, c_ = _fs(n)
    return Spec({"S1": _spd(g, b, a_), "c": _toep_col(g, (), c_)},
                lambda L: O.KroneckerProductLinearOperator(O.DenseLinearOperator(_sym(L["S1"])), O.ToeplitzLinearOperator(L["c"])),
                lambda L: zoo.kron(_sym(L["S1"]), zoo.toeplitz_dense(L["c"])), psd=True, note="second factor broadcast over batch")


def b_kron3_rect(g, b, n):
    return Spec({"A": _rn(g, *b, 2, 3), "B": _rn(g, *b, n, 1), "C": _rn(g, *b, 1, 2)},
                lambda L: O.KroneckerProductLinearOperator(L["A"], L["B"], L["C"]),
                lambda L: zoo.kron(zoo.kron(L["A"], L["B"]), L["C"]), square=False)


def b_kron_diag(g, b, n):
    a_, c_ = _fs(n)
    return Spec({"d1": _pos(g, *b, a_), "d2": _pos(g, *b, c_)},
                lambda L: O.KroneckerProductDiagLinearOperator(O.DiagLinearOperator(L["d1"]), O.DiagLinearOperator(L["d2"])),
                lambda L: zoo.kron(torch.diag_embed(L["d1"]), torch.diag_embed(L["d2"])), psd=True)


def _tril_pos(g, b, n):
    t = _rn(g, *b, n, n).tril()
    dg = t.diagonal(dim1=-1, dim2=-2)
    return t - torch.diag_embed(dg) + torch.diag_embed(dg.abs() + 1.0)


def b_kron_tri(g, b, n):
    a_, c_ = _fs(n)
    return Spec({"T1": _tril_pos(g, b, a_), "T2": _tril_pos(g, b, c_)},
                lambda L: O.KroneckerProductTriangularLinearOperator(O.TriangularLinearOperator(L["T1"].tril()), O.TriangularLinearOperator(L["T2"].tril())),
                lambda L: zoo.kron(L["T1"].tril(), L["T2"].tril()), tri=True)


def b_kpad_const(g, b, n):
    a_, c_ = _fs(n)
    return Spec({"S1": _spd(g, b, a_), "S2": _spd(g, b, c_), "v": _pos(g, *b, 1)},
                lambda L: O.KroneckerProductAddedDiagLinearOperator(
                    O.KroneckerProductLinearOperator(O.DenseLinearOperator(_sym(L["S1"])), O.DenseLinearOperator(_sym(L["S2"]))),
                    O.ConstantDiagLinearOperator(L["v"], diag_shape=n)),
                lambda L: zoo.kron(_sym(L["S1"]), _sym(L["S2"])) + torch.diag_embed(L["v"].expand(*b, n)), psd=True)


def b_kpad_diag(g, b, n):
    a_, c_ = _fs(n)
    return Spec({"S1": _spd(g, b, a_), "S2": _spd(g, b, c_), "d": _pos(g, *b, n)},
                lambda L: O.KroneckerProductAddedDiagLinearOperator(
                    O.KroneckerProductLinearOperator(O.DenseLinearOperator(_sym(L["S1"])), O.DenseLinearOperator(_sym(L["S2"]))),
                    O.DiagLinearOperator(L["d"])),
                lambda L: zoo.kron(_sym(L["S1"]), _sym(L["S2"])) + torch.diag_embed(L["d"]), psd=True)


def b_sumkron(g, b, n):
    a_, c_ = _fs(n)
    return Spec({"S1": _spd(g, b, a_), "S2": _spd(g, b, c_), "S3": _spd(g, b, a_), "S4": _spd(g, b, c_)},
                lambda L: O.SumKroneckerLinearOperator(
                    O.KroneckerProductLinearOperator(O.DenseLinearOperator(_sym(L["S1"])), O.DenseLinearOperator(_sym(L["S2"]))),
                    O.KroneckerProductLinearOperator(O.DenseLinearOperator(_sym(L["S3"])), O.DenseLinearOperator(_sym(L["S4"])))),
                lambda L: zoo.kron(_sym(L["S1"]), _sym(L["S2"])) + zoo.kron(_sym(L["S3"]), _sym(L["S4"])), psd=True)


def b_interp(g, b, n):
    m = n + 1
    li = torch.randint(0, m, (*b, n, 2), generator=g)
    ri = torch.randint(0, m, (*b, n + 2, 2), generator=g)
    return Spec({"A": _rn(g, *b, m, m), "lv": _rn(g, *b, n, 2), "rv": _rn(g, *b, n + 2, 2)},
                lambda L: O.InterpolatedLinearOperator(O.DenseLinearOperator(L["A"]), li, L["lv"], ri, L["rv"]),
                lambda L: _interp_w(li, L["lv"], m) @ L["A"] @ _interp_w(ri, L["rv"], m).mT, square=False)


def _interp_w(idx, val, ncols):
    # differentiable W[r, idx[r,k]] += val[r,k]
    W = torch.zeros(*idx.shape[:-1], ncols, dtype=val.dtype)
    return W.scatter_add(-1, idx, val)


def b_interp_sym(g, b, n):
    m = n + 1
    li = torch.randint(0, m, (*b, n, 2), generator=g)
    lv = _rn(g, *b, n, 2)
    return Spec({"S": _spd(g, b, m), "lv": lv, "e": _pos(g, *b, n)},
                lambda L: O.AddedDiagLinearOperator(O.InterpolatedLinearOperator(O.DenseLinearOperator(_sym(L["S"])), li, L["lv"], li, L["lv"]), O.DiagLinearOperator(L["e"])),
                lambda L: _interp_w(li, L["lv"], m) @ _sym(L["S"]) @ _interp_w(li, L["lv"], m).mT + torch.diag_embed(L["e"]), psd=True,
                note="shared interpolation weights + diagonal (keeps it PD)")


def b_interp_toeplitz_bcast(g, b, n):
    m = n + 1
    li = torch.randint(0, m, (*b, n, 2), generator=g)
    ri = torch.randint(0, m, (*b, n, 1), generator=g)
    return Spec({"c": _toep_col(g, (), m), "lv": _rn(g, *b, n, 2), "rv": _rn(g, *b, n, 1)},
                lambda L: O.InterpolatedLinearOperator(O.ToeplitzLinearOperator(L["c"]), li, L["lv"], ri, L["rv"]),
                lambda L: _interp_w(li, L["lv"], m) @ zoo.toeplitz_dense(L["c"]) @ _interp_w(ri, L["rv"], m).mT,
                note="base operator broadcast over the interpolation batch")


def b_addeddiag(g, b, n):
    return Spec({"S": _spd(g, b, n), "d": _pos(g, *b, n)},
                lambda L: O.AddedDiagLinearOperator(O.DenseLinearOperator(_sym(L["S"])), O.DiagLinearOperator(L["d"])),
                lambda L: _sym(L["S"]) + torch.diag_embed(L["d"]), psd=True)


def b_addeddiag_const(g, b, n):
    return Spec({"c": _toep_col(g, b, n), "v": _pos(g, *b, 1)},
                lambda L: O.AddedDiagLinearOperator(O.ToeplitzLinearOperator(L["c"]), O.ConstantDiagLinearOperator(L["v"], diag_shape=n)),
                lambda L: zoo.toeplitz_dense(L["c"]) + torch.diag_embed(L["v"].expand(*b, n)), psd=True)


def b_add_diagonal_bcast(g, b, n):
    # the public add_diagonal with a diagonal that has no batch dims (expanded inside the library)
    return Spec({"S": _spd(g, b, n), "d": _pos(g, n)},
                lambda L: O.DenseLinearOperator(_sym(L["S"])).add_diagonal(L["d"]),
                lambda L: _sym(L["S"]) + torch.diag_embed(L["d"]), psd=True, note="diag broadcast over batch (expanded by add_diagonal)")


def b_lrr_addeddiag(g, b, n):
    return Spec({"R": _rn(g, *b, n, max(1, n // 2)), "d": _pos(g, *b, n)},
                lambda L: O.LowRankRootAddedDiagLinearOperator(O.LowRankRootLinearOperator(L["R"]), O.DiagLinearOperator(L["d"])),
                lambda L: L["R"] @ L["R"].mT + torch.diag_embed(L["d"]), psd=True)


def b_root(g, b, n):
    return Spec({"R": 0.3 * _rn(g, *b, n, n) + torch.eye(n, dtype=torch.float64) * 2}, lambda L: O.RootLinearOperator(L["R"]),
                lambda L: L["R"] @ L["R"].mT, psd=True)


def b_root_lowrank(g, b, n):
    return Spec({"R": _rn(g, *b, n, max(1, n - 1))}, lambda L: O.RootLinearOperator(L["R"]), lambda L: L["R"] @ L["R"].mT)


def b_root_kron(g, b, n):
    a_, c_ = _fs(n)
    return Spec({"A": _rn(g, *b, a_, 2), "B": _rn(g, *b, c_, 1)},
                lambda L: O.RootLinearOperator(O.KroneckerProductLinearOperator(L["A"], L["B"])),
                lambda L: zoo.kron(L["A"], L["B"]) @ zoo.kron(L["A"], L["B"]).mT)


def b_tri_lower(g, b, n):
    return Spec({"T": _tril_pos(g, b, n)}, lambda L: O.TriangularLinearOperator(L["T"].tril()), lambda L: L["T"].tril(), tri=True)


def b_tri_upper(g, b, n):
    return Spec({"T": _tril_pos(g, b, n).mT.contiguous()}, lambda L: O.TriangularLinearOperator(L["T"].triu(), upper=True),
                lambda L: L["T"].triu(), tri=True)


def b_chol_lower(g, b, n):
    return Spec({"T": _tril_pos(g, b, n)}, lambda L: O.CholLinearOperator(O.TriangularLinearOperator(L["T"].tril())),
                lambda L: L["T"].tril() @ L["T"].tril().mT, psd=True)


def b_chol_upper(g, b, n):
    return Spec({"T": _tril_pos(g, b, n).mT.contiguous()},
                lambda L: O.CholLinearOperator(O.TriangularLinearOperator(L["T"].triu(), upper=True), upper=True),
                lambda L: L["T"].triu().mT @ L["T"].triu(), psd=True)


def _rbf(x1, x2, lengthscale, outputscale=None, **kw):
    d = (x1.unsqueeze(-2) - x2.unsqueeze(-3)).pow(2).sum(-1)
    r = torch.exp(-0.5 * d / lengthscale.unsqueeze(-1).unsqueeze(-1) ** 2)
    if outputscale is not None:
        r = r * outputscale.unsqueeze(-1).unsqueeze(-1)
    return r


def b_kernel(g, b, n):
    ls = _pos(g, *b) + 0.5 if len(b) else torch.tensor(1.3, dtype=torch.float64)
    return Spec({"x1": _rn(g, *b, n, 2), "x2": _rn(g, *b, n + 1, 2), "ls": ls, "os": torch.tensor(1.5, dtype=torch.float64)},
                lambda L: O.KernelLinearOperator(L["x1"], L["x2"], covar_func=_rbf, lengthscale=L["ls"], outputscale=L["os"],
                                                 num_nonbatch_dimensions={"lengthscale": 0, "outputscale": 0}),
                lambda L: _rbf(L["x1"], L["x2"], L["ls"], L["os"]), square=False,
                note="tensor kwargs (sorted into the representation), 0-d outputscale broadcast over the batch")


def b_kernel_psd(g, b, n):
    ls = _pos(g, *b) + 0.5 if len(b) else torch.tensor(1.3, dtype=torch.float64)
    return Spec({"x": _rn(g, *b, n, 2), "ls": ls, "d": _pos(g, *b, n)},
                lambda L: O.AddedDiagLinearOperator(
                    O.KernelLinearOperator(L["x"], L["x"], covar_func=_rbf, lengthscale=L["ls"], num_nonbatch_dimensions={"lengthscale": 0}),
                    O.DiagLinearOperator(L["d"])),
                lambda L: _rbf(L["x"], L["x"], L["ls"]) + torch.diag_embed(L["d"]), psd=True)


def b_cat_cols(g, b, n):
    return Spec({"A": _rn(g, *b, n, n), "B": _rn(g, *b, n, 2)},
                lambda L: O.CatLinearOperator(O.DenseLinearOperator(L["A"]), O.DenseLinearOperator(L["B"]), dim=-1),
                lambda L: torch.cat([L["A"], L["B"]], -1), square=False)


def b_cat_rows(g, b, n):
    return Spec({"A": _rn(g, *b, n, n), "c": _toep_col(g, b, n)},
                lambda L: O.CatLinearOperator(O.DenseLinearOperator(L["A"]), O.ToeplitzLinearOperator(L["c"]), dim=-2),
                lambda L: torch.cat([L["A"], zoo.toeplitz_dense(L["c"])], -2), square=False)


_USER = {}


def _user_classes():
    if _USER:
        return _USER

    class UserOp(O.LinearOperator):
        """user subclass relying on every default (incl. the default _bilinear_derivative)"""

        def __init__(self, t):
            super().__init__(t)
            self.t_ = t

        def _matmul(self, rhs):
            return self.t_ @ rhs

        def _size(self):
            return self.t_.shape

        def _transpose_nonbatch(self):
            return UserOp(self.t_.mT)

    class UserKwOp(O.LinearOperator):
        """D = scale * (t + diag(zeta)) ; tensor kwargs 'zeta' < 'scale' sort differently from their call order"""

        def __init__(self, t, scale=None, zeta=None, flag=True):
            super().__init__(t, scale=scale, zeta=zeta, flag=flag)
            self.t_, self.scale, self.zeta = t, scale, zeta

        def _matmul(self, rhs):
            return self.scale[..., None, None] * (self.t_ @ rhs + self.zeta.unsqueeze(-1) * rhs)

        def _size(self):
            return self.t_.shape

        def _transpose_nonbatch(self):
            return UserKwOp(self.t_.mT, scale=self.scale, zeta=self.zeta)

    _USER["UserOp"], _USER["UserKwOp"] = UserOp, UserKwOp
    return _USER


def b_user_rect(g, b, n):
    U = _user_classes()["UserOp"]
    return Spec({"A": _rn(g, *b, n, n + 1)}, lambda L: U(L["A"]), lambda L: L["A"], square=False)


def b_user_kw(g, b, n):
    # tensor kwargs without batch dimensions (the default batch indexing / permutation only touches positional args)
    U = _user_classes()["UserKwOp"]
    return Spec({"S": _spd(g, b, n), "zeta": _pos(g, n), "scale": torch.tensor(1.4, dtype=torch.float64)},
                lambda L: U(_sym(L["S"]), zeta=L["zeta"], scale=L["scale"]),
                lambda L: L["scale"] * (_sym(L["S"]) + torch.diag_embed(L["zeta"])), psd=True,
                note="tensor kwargs broadcast over the batch")


def b_nest_constmul_interp(g, b, n):
    m = n + 1
    li = torch.randint(0, m, (*b, n, 2), generator=g)
    return Spec({"c": _toep_col(g, b, m), "lv": _rn(g, *b, n, 2), "k": torch.tensor(2.5, dtype=torch.float64), "e": _pos(g, *b, 1)},
                lambda L: O.AddedDiagLinearOperator(
                    O.ConstantMulLinearOperator(O.InterpolatedLinearOperator(O.ToeplitzLinearOperator(L["c"]), li, L["lv"], li, L["lv"]), L["k"]),
                    O.ConstantDiagLinearOperator(L["e"], diag_shape=n)),
                lambda L: L["k"] * (_interp_w(li, L["lv"], m) @ zoo.toeplitz_dense(L["c"]) @ _interp_w(li, L["lv"], m).mT) + torch.diag_embed(L["e"].expand(*b, n)),
                psd=True)


def b_nest_matmul_sum(g, b, n):
    # (Dense + Toeplitz) @ (c * BlockDiag) : matmul feeding intermediate vectors into sum / constmul / block derivatives
    k = 2 * n
    return Spec({"A": _rn(g, *b, n, k), "c": _toep_col(g, b, n), "Bk": _rn(g, *b, 2, n, n), "k": _pos(g, *b) if len(b) else torch.tensor(0.7, dtype=torch.float64)},
                lambda L: O.MatmulLinearOperator(
                    O.SumLinearOperator(O.DenseLinearOperator(L["A"][..., :n] + 0), O.ToeplitzLinearOperator(L["c"])),
                    O.MatmulLinearOperator(O.DenseLinearOperator(L["A"]), O.ConstantMulLinearOperator(O.BlockDiagLinearOperator(O.DenseLinearOperator(L["Bk"])), L["k"]))),
                lambda L: (L["A"][..., :n] + zoo.toeplitz_dense(L["c"])) @ (L["A"] @ (zoo.block_diag_dense(L["Bk"]) * L["k"][..., None, None])),
                square=False)


def b_nest_sum_kron_root_diag(g, b, n):
    a_, c_ = _fs(n)
    return Spec({"S1": _spd(g, b, a_), "S2": _spd(g, b, c_), "R": _rn(g, *b, n, 2), "d": _pos(g, *b, n)},
                lambda L: O.AddedDiagLinearOperator(
                    O.SumLinearOperator(O.KroneckerProductLinearOperator(O.DenseLinearOperator(_sym(L["S1"])), O.DenseLinearOperator(_sym(L["S2"]))), O.RootLinearOperator(L["R"])),
                    O.DiagLinearOperator(L["d"])),
                lambda L: zoo.kron(_sym(L["S1"]), _sym(L["S2"])) + L["R"] @ L["R"].mT + torch.diag_embed(L["d"]), psd=True)


BUILDERS = OrderedDict(
    (f.__name__[2:], f)
    for f in [
        b_dense_rect, b_dense_sym, b_dense_sym_exp, b_diag, b_diag_exp, b_constdiag, b_constdiag_exp, b_toeplitz, b_toeplitz_exp,
        b_constmul, b_constmul_scalar, b_constmul_neg_rect, b_constmul_exp, b_matmul, b_matmul_diag_dense, b_matmul_toeplitz_dense,
        b_mul_roots, b_mul_dense_toeplitz, b_sum, b_sum_bcast, b_sum3, b_psdsum, b_blockdiag, b_blockdiag3_gen, b_blockdiag_toeplitz,
        b_blockinter, b_blockinter3_diag, b_sumbatch, b_sumbatch_kron, b_batchrepeat, b_batchrepeat2, b_batchrepeat_rect,
        b_masked, b_masked_sym, b_kron, b_kron_bcast, b_kron3_rect, b_kron_diag, b_kron_tri, b_kpad_const, b_kpad_diag, b_sumkron,
        b_interp, b_interp_sym, b_interp_toeplitz_bcast, b_addeddiag, b_addeddiag_const, b_add_diagonal_bcast, b_lrr_addeddiag,
        b_root, b_root_lowrank, b_root_kron, b_tri_lower, b_tri_upper, b_chol_lower, b_chol_upper, b_kernel, b_kernel_psd,
        b_cat_cols, b_cat_rows, b_user_rect, b_user_kw, b_nest_constmul_interp, b_nest_matmul_sum, b_nest_sum_kron_root_diag,
    ]
)
BUILDER_NAMES = list(BUILDERS)

BATCHES = {"quick": [(), (2,), (1, 3)], "thorough": [(), (2,), (1,), (2, 3), (1, 3), (3, 1, 2)]}
SIZES = {"quick": [1, 2, 4], "thorough": [1, 2, 3, 4, 6]}
# quick: a covering subset of the product (every batch shape with a 1x1 or small and a larger size)
QUICK_COMBOS = [((), 1), ((), 2), ((), 4), ((2,), 1), ((2,), 4), ((1, 3), 2)]


def _combos(tier):
    if tier == "quick":
        return QUICK_COMBOS
    return list(itertools.product(BATCHES[tier], SIZES[tier]))


def instances(tier, names):
    import os

    seed0 = int(os.environ.get("VERIF_SEED", "0") or 0)
    for name in names:
        f = BUILDERS[name]
        for b, n in _combos(tier):
            s = zlib.crc32(repr((name, b, n, seed0)).encode()) % (2**31)
            label = f"{name}|b={b}|n={n}"
            try:
                spec = f(zoo.gen(s), tuple(b), n)
            except Exception as e:  # noqa
                yield label, name, None, e
                continue
            torch.manual_seed(s)  # the library draws Lanczos start vectors / probes from the global RNG: make every instance reproducible
            yield label, name, spec, None


# ------------------------------------------------------------------------------------------
# helpers


def _leaves(spec, subset, dtype=None):
    """fresh leaf clones; requires_grad on the names in ``subset``"""
    L = OrderedDict()
    for k, v in spec.leaves.items():
        t = v.detach().clone()
        if dtype is not None:
            t = t.to(dtype)
        L[k] = t.requires_grad_(k in subset)
    return L


def _subsets(names, full):
    names = list(names)
    if full and len(names) <= 4:
        out = []
        for r in range(1, len(names) + 1):
            out += [tuple(c) for c in itertools.combinations(names, r)]
        return out
    out = [tuple(names)] + [(x,) for x in names]
    if len(names) > 2:
        out += [tuple(names[:-1]), tuple(names[1:])]
    seen, res = set(), []
    for s in out:
        if s not in seen:
            seen.add(s)
            res.append(s)
    return res


def _gclose(a, b, tol):
    if a is None:
        return b is None or float(b.abs().max()) <= tol if b is not None and b.numel() else True
    if b is None:
        return float(a.abs().max()) <= tol if a.numel() else True
    if a.shape != b.shape:
        return False
    if a.numel() == 0:
        return True
    if not bool(torch.isfinite(a).all()):
        return False
    ref = max(1.0, float(b.abs().max()))
    return float((a.double() - b.double()).abs().max()) <= tol * ref


def _gdiff(a, b):
    if a is None or b is None:
        return f"lib={'None' if a is None else tuple(a.shape)} ref={'None' if b is None else tuple(b.shape)}"
    if a.shape != b.shape:
        return f"shape {tuple(a.shape)} vs {tuple(b.shape)}"
    return f"maxdiff {float((a.double() - b.double()).abs().max()):.3e} ref {float(b.abs().max()):.3e}"


def _W(g, shape, dtype=None):
    return torch.randn(tuple(shape), generator=g, dtype=torch.float64).to(dtype or torch.float64)


# ------------------------------------------------------------------------------------------
# (i) hand-written _bilinear_derivative vs autograd of the operator's own _matmul


def _uv_kinds(batch, m, n):
    kinds = OrderedDict()
    kinds["mat"] = ((*batch, m, 3), (*batch, n, 3))
    kinds["vec1"] = ((*batch, m, 1), (*batch, n, 1))
    kinds["extra"] = ((2, *batch, m, 2), (2, *batch, n, 2))
    if len(batch):
        kinds["vbcast"] = ((*batch, m, 2), (n, 2))  # what Matmul.backward passes for an un-batched rhs
    return kinds


def rtc_bilinear(names, tier):
    _imp()
    from contracts.rtc_common import Recorder

    rec = Recorder(PID)
    tol = 1e-9
    for label, name, spec, err in instances(tier, names):
        grp = f"bilinear/{name}"
        if spec is None:
            rec.check(f"construct/{name}", label, False, f"builder raised {err!r}")
            continue
        lnames = list(spec.leaves)
        for subset in _subsets(lnames, full=len(lnames) <= 3):
            sl = f"{label}|rg={'+'.join(subset)}"
            L = _leaves(spec, subset)
            ok, op = rec.guard(f"construct/{name}", sl, lambda: spec.make_op(L))
            if not ok:
                continue
            m, n = op.shape[-2:]
            batch = tuple(op.batch_shape)
            reps = op.representation()
            g = zoo.gen(zlib.crc32(sl.encode()) % (2**31))
            for kind, (us, vs) in _uv_kinds(batch, m, n).items():
                U, V = _rn(g, *us), _rn(g, *vs)
                il = f"{sl}|uv={kind}"
                # reference: autograd through the operator's own _matmul on a rebuild from detached clones
                try:
                    clones = [r.detach().clone().requires_grad_(bool(r.dtype.is_floating_point and r.requires_grad)) for r in reps]
                    op2 = op.representation_tree()(*clones)
                    loss = (U * op2._matmul(V)).sum()
                    wrt = [c for c in clones if c.requires_grad]
                    refs_ = list(torch.autograd.grad(loss, wrt, allow_unused=True)) if wrt else []
                except Exception:  # the class's own multiplication does not support this operand layout: nothing to compare
                    rec.check(grp, il, True, nontrivial=False)
                    continue
                refs, it = [], iter(refs_)
                for c in clones:
                    refs.append(next(it) if c.requires_grad else None)
                ok, res = rec.guard(grp, il, lambda: op._bilinear_derivative(U, V))
                if not ok:
                    continue
                if not isinstance(res, (tuple, list)) or len(res) != len(reps):
                    rec.check(grp, il, False, f"returned {len(res) if isinstance(res, (tuple, list)) else type(res).__name__} entries for {len(reps)} representation tensors")
                    continue
                good, detail = True, ""
                reduced = [None] * len(reps)
                for k, (r, c, ref) in enumerate(zip(res, clones, refs)):
                    if not c.requires_grad or r is None:
                        continue
                    if r.dtype != c.dtype:
                        good, detail = False, f"entry {k}: dtype {r.dtype} vs {c.dtype}"
                        break
                    rr = r.detach()
                    if rr.shape != c.shape:
                        # autograd reduces results of Function.backward with sum_to_size when the parameter shape is
                        # expandable to the returned shape; anything else is a shape error at backward time
                        try:
                            rr = rr.sum_to_size(c.shape)
                        except RuntimeError:
                            good, detail = False, f"entry {k}: shape {tuple(r.shape)} not reducible to {tuple(c.shape)}"
                            break
                    reduced[k] = rr
                    # (A) vs autograd through the class's own _matmul; skipped where that multiplication is not
                    # autograd-differentiable w.r.t. the tensor (autograd reports it unused, e.g. sparse interpolation)
                    if ref is not None and not _gclose(rr, ref, tol):
                        good, detail = False, f"entry {k} ({tuple(c.shape)}): {_gdiff(rr, ref)}"
                        break
                if good:
                    for k, (r, c, ref) in enumerate(zip(res, clones, refs)):
                        if c.requires_grad and r is None and ref is not None and ref.numel() and float(ref.abs().max()) > tol:
                            good, detail = False, f"entry {k}: None but autograd gradient is non-zero ({float(ref.abs().max()):.3e})"
                            break
                rec.check(grp, il, good, detail)
                if not good:
                    continue
                # (B) vs the dense oracle at leaf level: pull the returned entries back to the builder's leaves
                grp2 = f"bilinear_dense/{name}"

                def dense_ref():
                    Ld = _leaves(spec, subset)
                    s = (U * (spec.make_dense(Ld) @ V)).sum()
                    return torch.autograd.grad(s, [Ld[k] for k in subset], allow_unused=True)

                ok, gref = rec.guard(grp2, il, dense_ref)
                if not ok:
                    continue
                sur = None
                for k, rep in enumerate(reps):
                    if reduced[k] is not None and rep.requires_grad:
                        t = (rep * reduced[k]).sum()
                        sur = t if sur is None else sur + t
                if sur is None:
                    gl = [None] * len(subset)
                else:
                    gl = torch.autograd.grad(sur, [L[k] for k in subset], allow_unused=True, retain_graph=True)
                good, detail = True, ""
                for k, a, r in zip(subset, gl, gref):
                    a = torch.zeros_like(L[k]) if a is None else a
                    r = torch.zeros_like(L[k]) if r is None else r
                    if not _gclose(a, r, tol):
                        good, detail = False, f"leaf {k}: {_gdiff(a, r)}"
                        break
                rec.check(grp2, il, good, detail)
    return rec.obligations()


# ------------------------------------------------------------------------------------------
# (ii) entry points


class _Cfg:
    """settings configuration of one evaluation"""

    def __init__(self, me=False, chol=True, extra=()):
        self.me, self.chol, self.extra = me, chol, extra

    def tag(self):
        return f"me={int(self.me)}|chol={'default' if self.chol else 0}"

    def __enter__(self):
        self.stack = [settings.memory_efficient(self.me)]
        if not self.chol:
            self.stack += [settings.max_cholesky_size(0), settings.cg_tolerance(1e-13), settings.max_cg_iterations(400),
                           settings.min_preconditioning_size(10**6)]
        self.stack += list(self.extra)
        for c in self.stack:
            c.__enter__()
        return self

    def __exit__(self, *a):
        for c in reversed(self.stack):
            c.__exit__(*a)
        return False


def _rhs_kinds(batch, n, which):
    kinds = OrderedDict()
    kinds["vec"] = (n,)
    kinds["mat"] = (n, 3)
    kinds["mat1"] = (n, 1)
    if len(batch):
        kinds["batched"] = (*batch, n, 2)
        kinds["bcast1"] = (*[1] * len(batch), n, 2)
    kinds["extra"] = (2, *batch, n, 2)
    return OrderedDict((k, v) for k, v in kinds.items() if k in which)


def _run_pair(rec, grp, il, spec, subset_names, extras, f_lib, f_dense, tol, cfgs, dense_cache=None, allowed=()):
    """extras: OrderedDict name -> tensor (rhs, lhs ...).  subset_names: names requiring grad among leaves+extras.
    f_lib(op, X) / f_dense(D, X) return a scalar.  Compares value and each gradient."""
    allnames = list(spec.leaves) + list(extras)
    # dense reference with everything requiring grad
    key = il.split("|rg=")[0]
    if dense_cache is not None and key in dense_cache:
        sref, gref = dense_cache[key]
    else:
        Ld = _leaves(spec, allnames)
        Xd = OrderedDict((k, v.detach().clone().requires_grad_(True)) for k, v in extras.items())
        D = spec.make_dense(Ld)
        sref = f_dense(D, Xd)
        wrt = list(Ld.values()) + list(Xd.values())
        gs = torch.autograd.grad(sref, wrt, allow_unused=True)
        gref = {k: (g_ if g_ is not None else torch.zeros_like(w)) for k, g_, w in zip(allnames, gs, wrt)}
        sref = sref.detach()
        if dense_cache is not None:
            dense_cache[key] = (sref, gref)
    tol0 = tol
    for cfg in cfgs:
        cl = f"{il}|{cfg.tag()}"
        # linear_cg stops updating a direction once p^T A p < eps = 1e-10, i.e. its accuracy floor is ~1e-6 relative
        # whatever cg_tolerance is configured: CG paths are compared to 5e-5
        tol = tol0 if cfg.chol else max(tol0, 5e-5)
        # the forward evaluation itself (no tensor requires grad): a failure here is not a gradient defect; it is
        # recorded once per input under forward/<group> and the gradient comparison is skipped
        fkey = ("fwd", key, cfg.tag())
        if dense_cache is not None and fkey in dense_cache:
            if not dense_cache[fkey]:
                continue
        else:
            def fwd():
                with cfg, torch.no_grad():
                    return f_lib(spec.make_op(_leaves(spec, ())), OrderedDict((k, v.detach().clone()) for k, v in extras.items()))

            okf, sf = rec.guard(f"forward/{grp}", f"{key}|{cfg.tag()}", fwd, allowed=allowed)
            if okf:
                okf = rec.check(f"forward/{grp}", f"{key}|{cfg.tag()}", _gclose(sf, sref, tol), f"forward value: {_gdiff(sf, sref)}")
            if dense_cache is not None:
                dense_cache[fkey] = okf
            if not okf:
                continue
        L = _leaves(spec, subset_names)
        X = OrderedDict((k, v.detach().clone().requires_grad_(k in subset_names)) for k, v in extras.items())

        def run():
            with cfg:
                op = spec.make_op(L)
                s = f_lib(op, X)
                wrt = [t for k, t in itertools.chain(L.items(), X.items()) if k in subset_names]
                if not s.requires_grad:  # the scalar does not depend on any tensor of the subset (e.g. an index that misses it)
                    return s.detach(), [None] * len(wrt)
                gs = torch.autograd.grad(s, wrt, allow_unused=True)
            return s.detach(), gs

        ok, out = rec.guard(grp, cl, run, allowed=allowed)
        if not ok:
            continue
        s, gs = out
        if not _gclose(s, sref, tol):
            rec.check(grp, cl, False, f"forward value: {_gdiff(s, sref)}")
            continue
        good, detail = True, ""
        for k, g_ in zip([k for k in allnames if k in subset_names], gs):
            ref = gref[k]
            if g_ is None:
                g_ = torch.zeros_like(ref)
            if g_.dtype != ref.dtype:
                good, detail = False, f"grad[{k}] dtype {g_.dtype}"
                break
            if not _gclose(g_, ref, tol):
                good, detail = False, f"grad[{k}]: {_gdiff(g_, ref)}"
                break
        rec.check(grp, cl, good, detail)


def _dn(r):
    return r.to_dense() if isinstance(r, O.LinearOperator) else r


def _extras_subsets(lnames, enames, full):
    return _subsets(list(lnames) + list(enames), full)


def rtc_linear(names, tier):
    """matmul / transpose-matmul / to_dense / diagonal / indexing / sums"""
    _imp()
    from contracts.rtc_common import Recorder

    rec = Recorder(PID)
    tol = 1e-9
    cfg_both = [_Cfg(me=False), _Cfg(me=True)]
    cfg_one = [_Cfg(me=False)]
    for label, name, spec, err in instances(tier, names):
        if spec is None:
            rec.check(f"construct/{name}", label, False, f"builder raised {err!r}")
            continue
        L0 = _leaves(spec, ())
        ok, op0 = rec.guard(f"construct/{name}", label, lambda: spec.make_op(L0))
        if not ok:
            continue
        D0 = spec.make_dense(L0)
        if tuple(op0.shape) != tuple(D0.shape):
            rec.check(f"construct/{name}", label, False, f"builder shape mismatch {tuple(op0.shape)} vs {tuple(D0.shape)}")
            continue
        m, n = D0.shape[-2:]
        batch = tuple(D0.shape[:-2])
        lnames = list(spec.leaves)
        g = zoo.gen(zlib.crc32(("lin" + label).encode()) % (2**31))
        # --- matmul over rhs kinds; all subsets for the matrix rhs
        for rk, sh in _rhs_kinds(batch, n, ("vec", "mat", "mat1", "batched", "bcast1", "extra")).items():
            X = _rn(g, *sh)
            oshape = (D0 @ X).shape
            W = _W(g, oshape)
            cache = {}
            for subset in _extras_subsets(lnames, ["X"], full=(rk == "mat")):
                il = f"{label}|rhs={rk}|rg={'+'.join(subset)}"
                _run_pair(rec, f"matmul/{name}", il, spec, subset, OrderedDict(X=X),
                          lambda op, E: (W * (op @ E["X"])).sum(), lambda D, E: (W * (D @ E["X"])).sum(), tol,
                          cfg_both if rk in ("mat", "vec", "batched") else cfg_one, cache)
        # --- transpose multiply and left multiply
        Y = _rn(g, *batch, m, 2)
        Wt = _W(g, (*batch, n, 2))
        cache = {}
        for subset in _extras_subsets(lnames, ["Y"], full=False):
            il = f"{label}|rg={'+'.join(subset)}"
            _run_pair(rec, f"mT_matmul/{name}", il, spec, subset, OrderedDict(Y=Y),
                      lambda op, E: (Wt * (op.mT @ E["Y"])).sum(), lambda D, E: (Wt * (D.mT @ E["Y"])).sum(), tol, cfg_one, cache)
        Z = _rn(g, 2, m)
        Wz = _W(g, (*batch, 2, n))
        cache = {}
        for subset in [tuple(lnames) + ("Z",), tuple(lnames)]:
            il = f"{label}|rg={'+'.join(subset)}"
            _run_pair(rec, f"rmatmul/{name}", il, spec, subset, OrderedDict(Z=Z),
                      lambda op, E: (Wz * (E["Z"] @ op)).sum(), lambda D, E: (Wz * (E["Z"] @ D)).sum(), tol, cfg_one, cache)
        # --- to_dense, diagonal, sums, indexing: leaves only
        Wd = _W(g, D0.shape)
        subsets = _subsets(lnames, full=False)
        ents = [("to_dense", lambda op, E: (Wd * op.to_dense()).sum(), lambda D, E: (Wd * D).sum())]
        if m == n:
            Wg = _W(g, (*batch, n))
            ents.append(("diagonal", lambda op, E: (Wg * op.diagonal()).sum(), lambda D, E: (Wg * D.diagonal(dim1=-2, dim2=-1)).sum()))
        Wr, Wc = _W(g, (*batch, m)), _W(g, (*batch, n))
        ents.append(("sum_all", lambda op, E: op.sum() * 1.3, lambda D, E: D.sum() * 1.3))
        ents.append(("sum_cols", lambda op, E: (Wr * op.sum(-1)).sum(), lambda D, E: (Wr * D.sum(-1)).sum()))
        ents.append(("sum_rows", lambda op, E: (Wc * op.sum(-2)).sum(), lambda D, E: (Wc * D.sum(-2)).sum()))
        if len(batch):
            Wb = _W(g, (*batch[1:], m, n))
            ents.append(("sum_batch0", lambda op, E: (Wb * _dn(op.sum(0))).sum(), lambda D, E: (Wb * D.sum(0)).sum()))
            Wb1 = _W(g, (*batch[:-1], m, n))
            ents.append(("sum_batch_last", lambda op, E: (Wb1 * _dn(op.sum(-3))).sum(), lambda D, E: (Wb1 * D.sum(-3)).sum()))
        # indexing
        ri = torch.randint(0, m, (3,), generator=g)
        ci = torch.randint(0, n, (3,), generator=g)
        Wi = _W(g, (*batch, 3))
        ents.append(("index_tensor_rc", lambda op, E: (Wi * op[..., ri, ci]).sum(), lambda D, E: (Wi * D[..., ri, ci]).sum()))
        Wi2 = _W(g, (*batch, 3, n))
        ents.append(("index_tensor_rows", lambda op, E: (Wi2 * _dn(op[..., ri, :])).sum(), lambda D, E: (Wi2 * D[..., ri, :]).sum()))
        r0, c0 = int(ri[0]), int(ci[0])
        Wi3 = _W(g, (*batch, n))
        ents.append(("index_int_row", lambda op, E: (Wi3 * op[..., r0, :]).sum(), lambda D, E: (Wi3 * D[..., r0, :]).sum()))
        Wi4 = _W(g, tuple(batch))
        ents.append(("index_int_rc", lambda op, E: (Wi4 * op[..., r0, c0]).sum(), lambda D, E: (Wi4 * D[..., r0, c0]).sum()))
        sl_r, sl_c = slice(0, max(1, m - 1)), slice(n // 2, n)
        Wi5 = _W(g, D0[..., sl_r, sl_c].shape)
        ents.append(("index_slices", lambda op, E: (Wi5 * _dn(op[..., sl_r, sl_c])).sum(), lambda D, E: (Wi5 * D[..., sl_r, sl_c]).sum()))
        if len(batch):
            b0 = batch[0] - 1
            Wi6 = _W(g, D0[b0].shape)
            ents.append(("index_batch_int", lambda op, E: (Wi6 * _dn(op[b0])).sum(), lambda D, E: (Wi6 * D[b0]).sum()))
            bi = torch.randint(0, batch[0], (3,), generator=g)
            Wi7 = _W(g, D0[bi, ..., ri, ci].shape)
            ents.append(("index_tensor_brc", lambda op, E: (Wi7 * op[bi, ..., ri, ci]).sum(), lambda D, E: (Wi7 * D[bi, ..., ri, ci]).sum()))
        for ename, fl, fd in ents:
            cache = {}
            for subset in subsets:
                il = f"{label}|rg={'+'.join(subset)}"
                _run_pair(rec, f"{ename}/{name}", il, spec, subset, OrderedDict(), fl, fd, tol, cfg_one, cache)
    return rec.obligations()


def _solve_dense(D, X):
    if X.dim() == 1:
        return torch.linalg.solve(D, X.unsqueeze(-1)).squeeze(-1)
    return torch.linalg.solve(D, X)


def rtc_solve(names, tier):
    """solve (with / without left factor), inv_quad, logdet, inv_quad_logdet — Cholesky (default) and CG (max_cholesky_size 0)"""
    _imp()
    from contracts.rtc_common import Recorder

    rec = Recorder(PID)
    for label, name, spec, err in instances(tier, names):
        if spec is None or not (spec.psd or spec.tri):
            continue
        L0 = _leaves(spec, ())
        ok, op0 = rec.guard(f"construct/{name}", label, lambda: spec.make_op(L0))
        if not ok:
            continue
        D0 = spec.make_dense(L0)
        n = D0.shape[-1]
        batch = tuple(D0.shape[:-2])
        lnames = list(spec.leaves)
        g = zoo.gen(zlib.crc32(("solve" + label).encode()) % (2**31))
        c_chol0, c_chol1, c_cg0, c_cg1 = _Cfg(me=False, chol=True), _Cfg(me=True, chol=True), _Cfg(me=False, chol=False), _Cfg(me=True, chol=False)
        cfgs = [c_chol0, c_chol1, c_cg0, c_cg1]
        cfgs_light = [c_chol0, c_cg1]
        thorough = tier != "quick"
        tol = 2e-7

        def cfgs_for(rk, subset, nall):
            # every configuration for the subset "everything requires grad"; two (Cholesky / CG, alternating
            # memory_efficient) for the other subsets; one for the secondary rhs layouts
            if thorough:
                return cfgs
            if rk in ("mat", "vec"):
                return cfgs if len(subset) == nall else cfgs_light
            return {"batched": [c_chol1], "bcast1": [c_cg0], "extra": [c_cg1], "mat1": [c_chol0]}.get(rk, cfgs_light) if len(subset) != nall else cfgs_light

        # ---- solve
        for rk, sh in _rhs_kinds(batch, n, ("vec", "mat", "batched") + (("bcast1", "extra") if (thorough or n == 4) else ())).items():
            X = _rn(g, *sh)
            W = _W(g, _solve_dense(D0, X).shape)
            cache = {}
            for subset in _extras_subsets(lnames, ["X"], full=(rk == "mat")):
                il = f"{label}|rhs={rk}|rg={'+'.join(subset)}"
                _run_pair(rec, f"solve/{name}", il, spec, subset, OrderedDict(X=X),
                          lambda op, E: (W * op.solve(E["X"])).sum(), lambda D, E: (W * _solve_dense(D, E["X"])).sum(), tol,
                          cfgs_for(rk, subset, len(lnames) + 1), cache)
        # ---- solve with left factor
        for rk, sh in _rhs_kinds(batch, n, ("mat", "batched")).items():
            X = _rn(g, *sh)
            Lf = _rn(g, *sh[:-2], 2, n)
            W = _W(g, (Lf @ _solve_dense(D0, X)).shape)
            cache = {}
            for subset in _extras_subsets(lnames, ["Lf", "X"], full=(rk == "mat" and len(lnames) <= 2)):
                il = f"{label}|rhs={rk}|rg={'+'.join(subset)}"
                _run_pair(rec, f"solve_left/{name}", il, spec, subset, OrderedDict(Lf=Lf, X=X),
                          lambda op, E: (W * op.solve(E["X"], E["Lf"])).sum(), lambda D, E: (W * (E["Lf"] @ _solve_dense(D, E["X"]))).sum(), tol,
                          cfgs_for(rk, subset, len(lnames) + 2) if rk == "mat" else cfgs_light[:1 + int(len(subset) == len(lnames) + 2)], cache)
        if not spec.psd:
            continue
        # ---- inv_quad
        for rk, sh in _rhs_kinds(batch, n, ("vec", "mat", "batched")).items():
            if rk == "vec" and len(batch):
                continue
            X = _rn(g, *sh)
            for red in (True, False):
                if rk == "vec" and not red:
                    continue
                if not red and rk != "mat" and not thorough:
                    continue
                ref_shape = ((X.unsqueeze(-1) if X.dim() == 1 else X) * 1.0).shape
                oshape = (*batch,) if red else (*batch, ref_shape[-1])
                W = _W(g, oshape)

                def fd(D, E, red=red, W=W):
                    Xm = E["X"].unsqueeze(-1) if E["X"].dim() == 1 else E["X"]
                    q = (Xm * torch.linalg.solve(D, Xm)).sum(-2)
                    return (W * (q.sum(-1) if red else q)).sum()

                cache = {}
                for subset in _extras_subsets(lnames, ["X"], full=(rk == "mat" and red)):
                    il = f"{label}|rhs={rk}|reduce={int(red)}|rg={'+'.join(subset)}"
                    _run_pair(rec, f"inv_quad/{name}", il, spec, subset, OrderedDict(X=X),
                              lambda op, E, red=red, W=W: (W * op.inv_quad(E["X"], reduce_inv_quad=red)).sum(), fd, tol,
                              cfgs_for(rk, subset, len(lnames) + 1) if red else [c_cg1 if rk == "mat" else c_chol0], cache)
        # ---- logdet / inv_quad_logdet.  The CG path estimates logdet stochastically; with deterministic probe vectors
        # sqrt(n) * I the estimator (and the gradient it back-propagates) is exact up to the CG tolerance.
        Wl = _W(g, tuple(batch))
        Wq = _W(g, tuple(batch))
        Xq = _rn(g, *batch, n, 2)

        def mk_cfg(me, chol):
            if chol:
                return _Cfg(me=me, chol=True)
            return _Cfg(me=me, chol=False, extra=(_DetProbes(), settings.num_trace_samples(2 * n if me else n), settings.max_lanczos_quadrature_iterations(max(n, 2))))

        lcfgs = [mk_cfg(False, True), mk_cfg(True, True), mk_cfg(False, False), mk_cfg(True, False)]
        cache = {}
        for subset in _subsets(lnames, full=len(lnames) <= 3):
            il = f"{label}|rg={'+'.join(subset)}"
            _run_pair(rec, f"logdet/{name}", il, spec, subset, OrderedDict(),
                      lambda op, E: (Wl * op.logdet()).sum(), lambda D, E: (Wl * torch.logdet(D)).sum(), 2e-6,
                      lcfgs if (thorough or len(subset) == len(lnames)) else [lcfgs[0], lcfgs[3]], cache)
        cache = {}

        def fl_iql(op, E):
            q, ld = op.inv_quad_logdet(inv_quad_rhs=E["X"], logdet=True)
            return (Wq * q).sum() + (Wl * ld).sum()

        def fd_iql(D, E):
            q = (E["X"] * torch.linalg.solve(D, E["X"])).sum((-2, -1))
            return (Wq * q).sum() + (Wl * torch.logdet(D)).sum()

        for subset in _extras_subsets(lnames, ["X"], full=len(lnames) <= 3):
            il = f"{label}|rg={'+'.join(subset)}"
            _run_pair(rec, f"inv_quad_logdet/{name}", il, spec, subset, OrderedDict(X=Xq), fl_iql, fd_iql, 2e-6,
                      lcfgs if (thorough or len(subset) == len(lnames) + 1) else [lcfgs[1], lcfgs[2]], cache)
    return rec.obligations()


class _DetProbes:
    """context that makes the stochastic trace estimator of InvQuadLogdet exact: settings.deterministic_probes(True)
    (probe vectors are then generated by ``torch.randn(*batch, r, k)``) with ``torch.randn`` replaced, for requests
    whose last dimension k is a multiple of the second-to-last r, by sqrt(r) * [I_r, ..., I_r]: the normalised probes
    are the unit vectors (each k / r times), (r / k) * sum_j z_j z_j^T = I, so both the Lanczos-quadrature value of
    logdet and the gradient that is back-propagated are exact up to the CG / Lanczos accuracy.  Also valid for
    classes that delegate to a sub-operator of a smaller size dividing num_trace_samples (block operators)."""

    def __init__(self, n=None, batch=None):
        pass

    def __enter__(self):
        self.ctx = settings.deterministic_probes(True)
        self.ctx.__enter__()
        settings.deterministic_probes.probe_vectors = None
        self.real = real = torch.randn

        def fake_randn(*size, **kw):
            shape = tuple(size[0]) if len(size) == 1 and isinstance(size[0], (tuple, list, torch.Size)) else tuple(size)
            if "generator" not in kw and len(shape) >= 2 and all(isinstance(x, int) for x in shape) and shape[-2] > 0 and shape[-1] % shape[-2] == 0:
                r, k = shape[-2:]
                base = torch.eye(r, dtype=kw.get("dtype") or torch.get_default_dtype()).repeat(1, k // r) * math.sqrt(r)
                return base.expand(*shape).contiguous()
            return real(*size, **kw)

        torch.randn = fake_randn
        return self

    def __exit__(self, *a):
        torch.randn = self.real
        settings.deterministic_probes.probe_vectors = None
        return self.ctx.__exit__(*a)


def rtc_decomp(names, tier):
    """root_decomposition / root_inv_decomposition / diagonalization / pivoted_cholesky / sqrt_inv_matmul.
    Scalars are functions of the matrix only (R R^T, Q diag(e) Q^T, Nystrom form of the pivoted factor), so that the
    dense side does not depend on the non-unique factor."""
    _imp()
    from contracts.rtc_common import Recorder

    rec = Recorder(PID)
    for label, name, spec, err in instances(tier, names):
        if spec is None or not spec.psd:
            continue
        L0 = _leaves(spec, ())
        ok, op0 = rec.guard(f"construct/{name}", label, lambda: spec.make_op(L0))
        if not ok:
            continue
        D0 = spec.make_dense(L0)
        n = D0.shape[-1]
        batch = tuple(D0.shape[:-2])
        lnames = list(spec.leaves)
        g = zoo.gen(zlib.crc32(("dec" + label).encode()) % (2**31))
        Wm = _W(g, D0.shape)
        subsets = _subsets(lnames, full=False)
        nojit = (settings.tridiagonal_jitter(0.0),)
        # ---- root decompositions
        for method in (None, "cholesky", "symeig", "lanczos"):
            if method == "lanczos" and spec.degenerate:
                continue
            cfgs = [_Cfg(me=False, extra=nojit), _Cfg(me=True, extra=nojit)] if method == "lanczos" else [_Cfg(me=False)]
            tol = 1e-6 if method == "lanczos" else 1e-8

            def fl_root(op, E, method=method):
                R = op.root_decomposition(method=method).root.to_dense()
                return (Wm * (R @ R.mT)).sum()

            cache = {}
            for subset in subsets:
                il = f"{label}|method={method}|rg={'+'.join(subset)}"
                _run_pair(rec, f"root_decomposition/{name}", il, spec, subset, OrderedDict(), fl_root, lambda D, E: (Wm * D).sum(), tol, cfgs, cache)

            def fl_rinv(op, E, method=method):
                R = op.root_inv_decomposition(method=method).root.to_dense()
                return (Wm * (R @ R.mT)).sum()

            cache = {}
            for subset in subsets:
                il = f"{label}|method={method}|rg={'+'.join(subset)}"
                _run_pair(rec, f"root_inv_decomposition/{name}", il, spec, subset, OrderedDict(), fl_rinv,
                          lambda D, E: (Wm * torch.linalg.inv(D)).sum(), tol * 10, cfgs, cache)
        # Lanczos-root through the default route (max_cholesky_size 0)
        cache = {}
        for subset in ([] if spec.degenerate else subsets[:2]):
            il = f"{label}|method=auto-lanczos|rg={'+'.join(subset)}"
            _run_pair(rec, f"root_decomposition/{name}", il, spec, subset, OrderedDict(),
                      lambda op, E: (Wm * (lambda R: R @ R.mT)(op.root_decomposition().root.to_dense())).sum(), lambda D, E: (Wm * D).sum(), 1e-6,
                      [_Cfg(me=False, chol=False, extra=nojit)], cache)
        # ---- diagonalization
        for method in ("symeig", "lanczos"):
            if method == "lanczos" and spec.degenerate:
                continue
            cfgs = [_Cfg(me=False, extra=nojit), _Cfg(me=True, extra=nojit)] if method == "lanczos" else [_Cfg(me=False)]
            tol = 1e-6 if method == "lanczos" else 1e-8

            def fl_diag(op, E, method=method):
                evals, evecs = op.diagonalization(method=method)
                Q = _dn(evecs)
                return (Wm * ((Q * evals.unsqueeze(-2)) @ Q.mT)).sum() + 0.3 * (evals**2).sum()

            # INPUT-only label tag "closepair" (method='lanczos' only): the smallest gap between neighbouring eigenvalues of the
            # dense oracle is < 0.03 (spectra lie in [1, cond]).  It is the trigger condition of the known finding C07-A4
            # (Diagonalization.backward adds +1e-10 to BOTH sigma_i - sigma_j and sigma_j - sigma_i: the gradient is off by
            # ~1e-10 / gap^2, above this check's 1e-6 for a gap below ~0.01..0.02).  The tag changes neither the check nor its
            # tolerance; it only lets the finding's regex name the condition instead of one seeded instance.
            gtag = ""
            if method == "lanczos" and n >= 2:
                ev0 = torch.linalg.eigvalsh(D0.detach())
                if float((ev0[..., 1:] - ev0[..., :-1]).min()) < 0.03:
                    gtag = "|closepair"
            cache = {}
            for subset in subsets:
                il = f"{label}{gtag}|method={method}|rg={'+'.join(subset)}"
                _run_pair(rec, f"diagonalization/{name}", il, spec, subset, OrderedDict(), fl_diag,
                          lambda D, E: (Wm * D).sum() + 0.3 * (D * D.mT).sum(), tol, cfgs, cache)
        # ---- pivoted cholesky
        for rank in sorted({n, max(1, n // 2)}):
            with torch.no_grad():
                try:
                    _, piv = op0.pivoted_cholesky(rank, error_tol=0.0, return_pivots=True)
                except Exception:
                    piv = None
            if piv is None:
                rec.guard(f"pivoted_cholesky/{name}", f"{label}|rank={rank}", lambda: op0.pivoted_cholesky(rank, error_tol=0.0, return_pivots=True))
                continue
            idx = piv[..., :rank]

            def fd_pc(D, E, idx=idx, rank=rank):
                Kc = D.gather(-1, idx.unsqueeze(-2).expand(*D.shape[:-1], rank))
                Kpp = Kc.gather(-2, idx.unsqueeze(-1).expand(*D.shape[:-2], rank, rank))
                return (Wm * (Kc @ torch.linalg.solve(Kpp, Kc.mT))).sum()

            def fl_pc(op, E, rank=rank):
                Lp = op.pivoted_cholesky(rank, error_tol=0.0)
                return (Wm * (Lp @ Lp.mT)).sum()

            cache = {}
            for subset in subsets:
                il = f"{label}|rank={rank}|rg={'+'.join(subset)}"
                _run_pair(rec, f"pivoted_cholesky/{name}", il, spec, subset, OrderedDict(), fl_pc, fd_pc, 1e-7, [_Cfg(me=False)], cache)
        # ---- sqrt_inv_matmul (contour integral quadrature + MINRES: approximate, tolerance = quadrature accuracy)
        if n >= 2:
            ciq = (settings.num_contour_quadrature(25), settings.minres_tolerance(1e-12))
            X = _rn(g, *batch, n, 2)
            Lh = _rn(g, *batch, 3, n)
            W1 = _W(g, (*batch, n, 2))
            W2 = _W(g, (*batch, 3, 2))
            W3 = _W(g, (*batch, 3))

            def isqrt(D):
                # coupled Newton-Schulz iteration (plain matmuls: differentiable also for repeated eigenvalues)
                nrm = D.detach().norm(dim=(-2, -1), keepdim=True)
                Y = D / nrm
                I = torch.eye(D.shape[-1], dtype=D.dtype).expand_as(D)
                Z = I
                for _ in range(60):
                    T = 0.5 * (3.0 * I - Z @ Y)
                    Y, Z = Y @ T, T @ Z
                return Z / nrm.sqrt()

            cache = {}
            for subset in _extras_subsets(lnames, ["X"], full=False):
                il = f"{label}|rg={'+'.join(subset)}"
                _run_pair(rec, f"sqrt_inv_matmul/{name}", il, spec, subset, OrderedDict(X=X),
                          lambda op, E: (W1 * op.sqrt_inv_matmul(E["X"])).sum(), lambda D, E: (W1 * (isqrt(D) @ E["X"])).sum(), 2e-4,
                          [_Cfg(me=False, extra=ciq)], cache)

            def fl_sl(op, E):
                r, q = op.sqrt_inv_matmul(E["X"], E["Lh"])
                return (W2 * r).sum() + (W3 * q).sum()

            def fd_sl(D, E):
                r = E["Lh"] @ isqrt(D) @ E["X"]
                q = (E["Lh"] * torch.linalg.solve(D, E["Lh"].mT).mT).sum(-1)
                return (W2 * r).sum() + (W3 * q).sum()

            cache = {}
            for subset in _extras_subsets(lnames, ["X", "Lh"], full=False):
                il = f"{label}|rg={'+'.join(subset)}"
                _run_pair(rec, f"sqrt_inv_matmul_lhs/{name}", il, spec, subset, OrderedDict(X=X, Lh=Lh), fl_sl, fd_sl, 2e-4,
                          [_Cfg(me=False, extra=ciq)], cache)
    return rec.obligations()


def rtc_float32(names, tier):
    """float32 operators (torch default dtype float32 and float64): gradients have the leaf dtype and match the
    float64 dense gradient to single precision (matmul, solve, inv_quad_logdet via Cholesky)"""
    _imp()
    from contracts.rtc_common import Recorder

    rec = Recorder(PID)
    tol = 2e-3
    old = torch.get_default_dtype()
    try:
        for default in (torch.float32, torch.float64):
            torch.set_default_dtype(default)
            for label, name, spec, err in instances(tier, names):
                if spec is None:
                    continue
                lnames = list(spec.leaves)
                L64 = _leaves(spec, lnames)
                D = spec.make_dense(L64)
                m, n = D.shape[-2:]
                batch = tuple(D.shape[:-2])
                if n > 2 and tier == "quick" and len(batch) > 1:
                    continue
                g = zoo.gen(zlib.crc32(("f32" + label).encode()) % (2**31))
                X64 = _rn(g, *batch, n, 2).requires_grad_(True)
                ents = [("matmul", lambda op, X: op @ X, lambda D, X: D @ X)]
                if spec.psd:
                    ents.append(("solve", lambda op, X: op.solve(X), lambda D, X: torch.linalg.solve(D, X)))
                    ents.append(("inv_quad_logdet", lambda op, X: sum(op.inv_quad_logdet(X, logdet=True)),
                                 lambda D, X: (X * torch.linalg.solve(D, X)).sum((-2, -1)) + torch.logdet(D)))
                for ename, fl, fd in ents:
                    out = fd(D, X64)
                    W = _W(g, out.shape)
                    gref = torch.autograd.grad((W * out).sum(), list(L64.values()) + [X64], allow_unused=True, retain_graph=True)
                    L = _leaves(spec, lnames, dtype=torch.float32)
                    X = X64.detach().to(torch.float32).requires_grad_(True)
                    il = f"{label}|default={str(default)[6:]}"

                    def run():
                        op = spec.make_op(L)
                        o = fl(op, X)
                        return o, torch.autograd.grad((W.to(torch.float32) * o).sum(), list(L.values()) + [X], allow_unused=True)

                    ok, res = rec.guard(f"float32_{ename}/{name}", il, run)
                    if not ok:
                        continue
                    o, gs = res
                    good, detail = o.dtype == torch.float32, f"output dtype {o.dtype}"
                    if good:
                        for k, a, r in zip(lnames + ["X"], gs, gref):
                            if a is None and r is None:
                                continue
                            if a is not None and a.dtype != torch.float32:
                                good, detail = False, f"grad[{k}] dtype {a.dtype}"
                                break
                            a = torch.zeros_like(r) if a is None else a
                            r = torch.zeros_like(a) if r is None else r
                            if not _gclose(a, r, tol):
                                good, detail = False, f"grad[{k}]: {_gdiff(a, r)}"
                                break
                    rec.check(f"float32_{ename}/{name}", il, good, detail)
    finally:
        torch.set_default_dtype(old)
    return rec.obligations()


# ------------------------------------------------------------------------------------------
# units


def _chunks(xs, k):
    k = max(1, k)
    size = (len(xs) + k - 1) // k
    return [xs[i:i + size] for i in range(0, len(xs), size)]


PSD_NAMES = None


def rtc_units(tier):
    us = []
    for i, ch in enumerate(_chunks(BUILDER_NAMES, 2)):
        us.append(Unit(f"C07/rtc/bilinear[{i}:{ch[0]}..{ch[-1]}]", "contracts.rtc_C07", "rtc_bilinear", (ch, tier), engine="rtc", timeout_s=1500))
    for i, ch in enumerate(_chunks(BUILDER_NAMES, 6)):
        us.append(Unit(f"C07/rtc/linear[{i}:{ch[0]}..{ch[-1]}]", "contracts.rtc_C07", "rtc_linear", (ch, tier), engine="rtc", timeout_s=1500))
    for i, ch in enumerate(_chunks(BUILDER_NAMES, 10)):
        us.append(Unit(f"C07/rtc/solve[{i}:{ch[0]}..{ch[-1]}]", "contracts.rtc_C07", "rtc_solve", (ch, tier), engine="rtc", timeout_s=1500))
    for i, ch in enumerate(_chunks(BUILDER_NAMES, 6)):
        us.append(Unit(f"C07/rtc/decomp[{i}:{ch[0]}..{ch[-1]}]", "contracts.rtc_C07", "rtc_decomp", (ch, tier), engine="rtc", timeout_s=1500))
    for i, ch in enumerate(_chunks(BUILDER_NAMES, 1)):
        us.append(Unit(f"C07/rtc/float32[{i}:{ch[0]}..{ch[-1]}]", "contracts.rtc_C07", "rtc_float32", (ch, tier), engine="rtc", timeout_s=1500))
    return us


RTC_META = {
    "explanation": "bounded run-time contracts: hand-written _bilinear_derivative vs autograd of the operator's own _matmul; "
                   "autograd through every differentiable entry point vs autograd through the dense matrix assembled from the same leaves",
    "assumptions": [
        "bounded tier only: a finite family of concrete inputs, float64 (plus a float32 slice); never counted as proved",
        "a _bilinear_derivative entry may carry extra leading / size-1-expanded dimensions: it is reduced with sum_to_size exactly as "
        "torch.autograd reduces the results of Function.backward before comparing",
        "functions defined only on symmetric matrices are compared along symmetric perturbations (builders symmetrise their leaves)",
        "CG paths at cg_tolerance 1e-13; the stochastic logdet estimator is made exact with deterministic probe vectors sqrt(n) I; "
        "Lanczos paths with tridiagonal_jitter 0 and full Krylov dimension; contour-integral sqrt_inv_matmul to 2e-4 (25 quadrature points)",
    ],
    "families": "65 local builders (every class with custom derivative code, expanded / broadcast parameters, nestings, tensor kwargs, user "
                "subclasses) x batch shapes {(),(2,),(1,3)} (+(1,),(2,3),(3,1,2) thorough) x sizes {1,2,4} (+3,6 thorough) x rhs kinds "
                "{vector, matrix, n x 1, batched, broadcast-batched, extra batch dim} x subsets of leaves/rhs requiring grad (all subsets "
                "for <=4 tensors on the Function-backed entry points) x memory_efficient {off,on} x max_cholesky_size {default,0}",
}
