"""C08 — bounded (run-time contract) tier for linear_cg.

Every contract below is a clause of the property statement, evaluated on the REAL
``linear_operator.utils.linear_cg`` under real torch, against dense float64 oracles
(``torch.linalg.solve`` / ``eigvalsh`` / an independent reference Lanczos with double full
re-orthogonalisation).  Nothing here is counted as proved.

This module also hosts ``kit()``: the SPD spectrum families, preconditioners, reference Lanczos and
small numeric helpers shared by rtc_C09 / rtc_C10 / rtc_C11 (torch is imported lazily: importing this
module is torch-free).
"""
from __future__ import annotations

import itertools
import math
from types import SimpleNamespace

from engine.common import Unit

PID = "C08"

_KIT = None


def kit():
    """lazy, torch-importing helper namespace shared by the C08..C11 bounded tiers"""
    global _KIT
    if _KIT is not None:
        return _KIT
    import warnings

    import torch

    from contracts import zoo  # noqa: F401  (puts VERIF_REPO first on sys.path)
    import linear_operator
    from linear_operator.utils.warnings import NumericalWarning

    torch.set_num_threads(1)  # small matrices; one OS process per unit already
    K = SimpleNamespace(torch=torch, zoo=zoo, linear_operator=linear_operator, NumericalWarning=NumericalWarning)
    f64 = torch.float64
    K.DT = {"f64": torch.float64, "f32": torch.float32}
    import os

    K.SEED = int(os.environ.get("VERIF_SEED", "0") or 0)
    # every random matrix / vector of the families is drawn from gen(base_seed): base_seed + 7919 * VERIF_SEED
    K.gen = lambda s: zoo.gen(int(s) + 7919 * K.SEED)

    def dtn(dt):
        return "f64" if dt == torch.float64 else "f32"

    K.dtn = dtn

    def spectrum(kind, n, cond, lo=1.0):
        """eigenvalues in [lo, lo*cond]"""
        if n == 1:
            return torch.full((1,), lo * math.sqrt(cond), dtype=f64)
        if kind == "uniform":
            ev = torch.linspace(1.0, cond, n, dtype=f64)
        elif kind == "geometric":
            ev = torch.logspace(0, math.log10(cond), n, dtype=f64)
        elif kind == "clustered":
            # a tight cluster at the bottom, a few outliers in a tight cluster at the top
            ev = 1 + 1e-3 * torch.linspace(0, 1, n, dtype=f64)
            k = max(1, n // 8)
            ev[-k:] = cond * (1 - 1e-3 * torch.linspace(1, 0, k, dtype=f64))
        elif kind == "repeated":
            # only three distinct eigenvalues (Krylov dimension <= 3)
            ev = torch.ones(n, dtype=f64)
            ev[n // 3:] = math.sqrt(cond)
            ev[(2 * n) // 3:] = cond
        else:
            raise ValueError(kind)
        return ev * lo

    K.spectrum = spectrum

    def rand_orth(g, n):
        q, r = torch.linalg.qr(torch.randn(n, n, generator=g, dtype=f64))
        return q * torch.sign(torch.diagonal(r)).unsqueeze(0)

    K.rand_orth = rand_orth

    def spd(g, batch, n, kind, cond, dtype, lo=1.0, vary=True):
        """batch of SPD matrices with prescribed spectrum family; batch members get different random
        bases and (vary=True) different condition numbers cond/(1+i).  Built in float64, then cast."""
        nb = int(math.prod(batch)) if batch else 1
        mats = []
        for i in range(nb):
            c = max(1.5, cond / (1 + i)) if vary else cond
            ev = spectrum(kind, n, c, lo)
            q = rand_orth(g, n)
            a = (q * ev) @ q.mT
            mats.append(0.5 * (a + a.mT))
        a = torch.stack(mats).reshape(*batch, n, n) if batch else mats[0]
        return a.to(dtype)

    K.spd = spd

    def anorm(A, e):
        """column-wise A-norm, float64"""
        return (e * (A @ e)).sum(-2).clamp_min(0).sqrt()

    K.anorm = anorm

    def eig_bounds(A):
        ev = torch.linalg.eigvalsh(A)
        return ev[..., 0], ev[..., -1]

    K.eig_bounds = eig_bounds

    def psd_sqrt(P):
        ev, U = torch.linalg.eigh(P)
        return (U * ev.clamp_min(0).sqrt().unsqueeze(-2)) @ U.mT

    K.psd_sqrt = psd_sqrt

    def precond(g, A64, kind):
        """(closure or None, dense P = M^{-1} in float64 or None).  A64: float64 (batched) SPD."""
        n = A64.shape[-1]
        if kind == "none":
            return None, None
        if kind == "jacobi":
            P = torch.diag_embed(1.0 / torch.diagonal(A64, dim1=-1, dim2=-2))
        elif kind == "exact":
            P = torch.linalg.inv(A64)
            P = 0.5 * (P + P.mT)
        elif kind == "lowrank":
            # M = L L^T + s I with L the dominant half of the eigen-decomposition: (L L^T + s I)^{-1}
            ev, U = torch.linalg.eigh(A64)
            r = max(1, n // 2)
            L = U[..., :, n - r:] * ev[..., n - r:].sqrt().unsqueeze(-2)
            s = ev[..., : max(1, n - r)].mean(-1)[..., None, None]
            M = L @ L.mT + s * torch.eye(n, dtype=f64)
            P = torch.linalg.inv(M)
            P = 0.5 * (P + P.mT)
        elif kind == "randspd":
            # an arbitrary well-conditioned SPD matrix unrelated to A
            q = rand_orth(g, n)
            P = (q * torch.linspace(0.5, 2.0, n, dtype=f64)) @ q.mT
            P = (0.5 * (P + P.mT)).expand(*A64.shape[:-2], n, n).contiguous()
        else:
            raise ValueError(kind)
        return P, P

    K.precond_dense = precond

    def ref_lanczos(A, v, k, breakdown=1e-9):
        """independent reference: Lanczos with two passes of full re-orthogonalisation, float64, single
        matrix A (n,n) and start vector v (n,).  Returns Q (n,j), T (j,j), j <= k, and whether the Krylov
        space was exhausted before k (breakdown)."""
        n = A.shape[-1]
        scale = float(torch.linalg.matrix_norm(A, 2)) or 1.0
        q = v / v.norm()
        Q = [q]
        al, be = [], []
        broke = False
        for j in range(min(k, n)):
            w = A @ Q[j]
            a = torch.dot(Q[j], w)
            al.append(a)
            if j + 1 == min(k, n):
                break
            w = w - a * Q[j] - (be[-1] * Q[j - 1] if j > 0 else 0)
            Qm = torch.stack(Q, 1)
            for _ in range(2):
                w = w - Qm @ (Qm.mT @ w)
            b = w.norm()
            if float(b) <= breakdown * scale:
                broke = True
                break
            be.append(b)
            Q.append(w / b)
        j = len(al)
        T = torch.zeros(j, j, dtype=f64)
        for i in range(j):
            T[i, i] = al[i]
        for i in range(j - 1):
            T[i, i + 1] = T[i + 1, i] = be[i]
        return torch.stack(Q[:j], 1), T, broke

    K.ref_lanczos = ref_lanczos

    def is_tridiag(T):
        j = T.shape[-1]
        if j <= 2:
            return True
        i = torch.arange(j)
        mask = (i[:, None] - i[None, :]).abs() > 1
        return bool((T[..., mask] == 0).all())

    K.is_tridiag = is_tridiag

    class Counting:
        """wraps a closure, counts calls and keeps the shapes it was called with"""

        def __init__(self, fn):
            self.fn = fn
            self.calls = 0

        def __call__(self, x):
            self.calls += 1
            return self.fn(x)

    K.Counting = Counting

    def run_warn(fn):
        """run fn, return (result, list of NumericalWarnings)"""
        with warnings.catch_warnings(record=True) as w:
            warnings.simplefilter("always")
            r = fn()
        return r, [x for x in w if issubclass(x.category, NumericalWarning)]

    K.run_warn = run_warn

    def sizes(tier, quick, thorough):
        return quick if tier == "quick" else thorough

    K.sizes = sizes
    K.BATCHES = [(), (2,), (1,), (2, 3)]
    _KIT = K
    return K


# ------------------------------------------------------------------------------------------
# the contracts


def _lab(**kw):
    return "|".join(f"{k}={v}" for k, v in kw.items())


def _cg_problem(K, seed, dt, kind, cond, n, batch, ncols, pk, lo=1.0):
    """A (dt), A64, rhs (dt), float64 solution, closure P (dt) / P64, spectrum bounds of the
    (preconditioned) operator"""
    torch = K.torch
    g = K.gen(seed)
    A = K.spd(g, batch, n, kind, cond, dt, lo=lo)
    A64 = A.double()
    b = K.zoo.rn(g, *batch, n, ncols, dtype=dt)
    P64, _ = K.precond_dense(g, A64, pk)
    P = None if P64 is None else P64.to(dt)
    if P is not None:
        P64 = P.double()
        S = K.psd_sqrt(P64)
        ev = torch.linalg.eigvalsh(S @ A64 @ S)
    else:
        ev = torch.linalg.eigvalsh(A64)
    kap = (ev[..., -1] / ev[..., 0]).max().item()
    return A, A64, b, P, P64, ev, kap


def rtc_cg_budget(dtname, kinds, tier):
    """A-norm error non-increasing in the iteration budget; classical bound down to the floor."""
    from contracts.rtc_common import Recorder

    K = kit()
    torch = K.torch
    from linear_operator import settings
    from linear_operator.utils.linear_cg import linear_cg

    rec = Recorder(PID)
    dt = K.DT[dtname]
    sizes = K.sizes(tier, [1, 2, 3, 5, 8, 13, 23, 37, 64], [1, 2, 3, 4, 5, 6, 7, 8, 10, 13, 17, 23, 29, 37, 47, 55, 64])
    conds = [10.0, 1e3, 1e6] if dt == torch.float64 else [10.0, 1e3, 1e4]
    em = 1.2e-7 if dt == torch.float32 else 2.3e-16
    rt = 1e-3 if dt == torch.float32 else 1e-7
    seed = 0
    for kind, cond, n in itertools.product(kinds, conds, sizes):
        # rotate the other dimensions of the family so that every value meets every size
        variants = []
        i = sizes.index(n) + int(math.log10(cond)) + len(kind)
        for v in range(3 if tier == "quick" else 5):
            batch = K.BATCHES[(i + v) % 4]
            pk = ["none", "jacobi", "lowrank", "exact", "randspd"][(i + 2 * v) % 5]
            ncols = [1, 3][(i + v) % 2]
            tbs = [True, False][(i // 2 + v) % 2]
            guess = ["zero", "zero", "random"][(i + v) % 3]
            epsv = [(1e-10, 1e-10), (1e-10, 1e-10), (1e-30, 1e-10), (1e-10, 1e-3)][(i + v) % 4]
            variants.append((batch, pk, ncols, tbs, guess, epsv))
        for batch, pk, ncols, tbs, guess, (eps, sua) in variants:
            if n > 37 and batch == (2, 3):
                batch = (2,)
            seed += 1
            A, A64, b, P, P64, ev, kap = _cg_problem(K, 1000 + seed, dt, kind, cond, n, batch, ncols, pk)
            kapA = float((torch.linalg.eigvalsh(A64)[..., -1] / torch.linalg.eigvalsh(A64)[..., 0]).max())
            lminA = torch.linalg.eigvalsh(A64)[..., 0]
            g = K.gen(seed)
            x0 = None
            if guess == "random":
                x0 = K.zoo.rn(g, *batch, n, ncols, dtype=dt)
            xs = torch.linalg.solve(A64, b.double())
            e0 = (x0.double() if x0 is not None else torch.zeros_like(xs)) - xs
            e0A = K.anorm(A64, e0)
            bn = b.double().norm(dim=-2)
            rho_b = ((ev[..., -1] / ev[..., 0]).sqrt() - 1) / ((ev[..., -1] / ev[..., 0]).sqrt() + 1)  # per batch member
            lab = _lab(dt=dtname, kind=kind, cond=f"{cond:g}", n=n, b=batch, cols=ncols, pre=pk, tbs=int(tbs), x0=guess, eps=f"{eps:g}", sua=f"{sua:g}")
            jmax = min(n + 3, 40 if tier == "quick" else 67)
            # attainable accuracy of the arithmetic (depends on the size of the iterates, hence on the initial guess)
            x0d = x0.double() if x0 is not None else torch.zeros_like(xs)
            slack = 50 * em * kapA * (K.anorm(A64, xs) + K.anorm(A64, x0d))
            lmaxA = torch.linalg.eigvalsh(A64)[..., -1]
            mach_res = 50 * em * (kapA + lmaxA.unsqueeze(-1) * x0d.norm(dim=-2) / bn)
            prev = e0A
            mm = A.matmul
            pc = (lambda v, P=P: P @ v) if P is not None else None
            ok_mono, ok_bound, ok_run = True, True, True
            det_mono = det_bound = ""
            for j in range(1, jmax + 1):
                try:
                    with settings.terminate_cg_by_size(tbs):
                        x, _w = K.run_warn(lambda: linear_cg(mm, b, max_iter=j, max_tridiag_iter=0, tolerance=1e-30, eps=eps,
                                                              stop_updating_after=sua, initial_guess=x0, preconditioner=pc))
                except Exception as e:  # noqa
                    rec.check(f"budget_run/{kind}-{dtname}", lab + f"|j={j}", False, f"raised {type(e).__name__}: {e}")
                    ok_run = False
                    break
                if x.shape != xs.shape or x.dtype != dt:
                    rec.check(f"budget_run/{kind}-{dtname}", lab + f"|j={j}", False, f"shape/dtype {tuple(x.shape)} {x.dtype} vs {tuple(xs.shape)} {dt}")
                    ok_run = False
                    break
                e = x.double() - xs
                eA = K.anorm(A64, e)
                r = (b.double() - A64 @ x.double()) / bn.unsqueeze(-2)
                rn = r.norm(dim=-2)
                # the accuracy floor of the statement: safe divisions (r^T P r < eps, p^T A p < eps), freeze
                # threshold (||r|| < stop_updating_after), all relative to the normalised rhs; plus the
                # attainable accuracy of the arithmetic
                q1 = (r * ((P64 @ r) if P64 is not None else r)).sum(-2)
                q2 = lminA.unsqueeze(-1) * q1 ** 2 / rn.clamp_min(1e-300) ** 2
                at_floor = (torch.minimum(q1, q2) < 16 * eps) | (rn < 4 * sua) | (rn < mach_res)
                # monotone in the budget
                bad = eA > prev * (1 + rt) + slack
                if bad.any() and ok_mono:
                    ok_mono = False
                    det_mono = f"j={j}: ||e||_A {eA.flatten().tolist()[:4]} > previous {prev.flatten().tolist()[:4]}"
                # classical bound (iterations actually available: min(j, n) under terminate_cg_by_size)
                jj = min(j, n) if tbs else j
                bound = 2 * rho_b.unsqueeze(-1) ** jj * e0A
                badb = (eA > bound * (1 + rt) + slack) & ~at_floor
                if badb.any() and ok_bound:
                    ok_bound = False
                    det_bound = f"j={j}: ||e||_A {eA.flatten().tolist()[:4]} > 2rho^j||e0||_A {bound.flatten().tolist()[:4]} (rel.res {rn.flatten().tolist()[:4]})"
                prev = torch.minimum(prev, eA) if dt == torch.float32 else eA
            if ok_run:
                rec.check(f"budget_run/{kind}-{dtname}", lab, True)
                rec.check(f"monotone_Anorm/{kind}-{dtname}", lab, ok_mono, det_mono)
                rec.check(f"classical_bound/{kind}-{dtname}", lab, ok_bound, det_bound)
    return rec.obligations()


def rtc_cg_limit(dtname, kinds, tier):
    """residual below tolerance when no warning, convergence within the iteration count the classical
    bound guarantees, preconditioner independence, zero / tiny / huge columns, scaling law, frozen
    columns, iteration budget respected, shapes and dtypes."""
    from contracts.rtc_common import Recorder

    K = kit()
    torch = K.torch
    from linear_operator import settings
    from linear_operator.utils.linear_cg import linear_cg

    rec = Recorder(PID)
    dt = K.DT[dtname]
    sizes = K.sizes(tier, [1, 2, 3, 5, 9, 16, 31, 64], [1, 2, 3, 4, 5, 7, 9, 12, 16, 22, 31, 45, 64])
    conds = [10.0, 1e3, 1e6] if dt == torch.float64 else [10.0, 1e3]
    em = 1.2e-7 if dt == torch.float32 else 2.3e-16
    seed = 0
    old_default = torch.get_default_dtype()
    for kind, cond, n, batch in itertools.product(kinds, conds, sizes, K.BATCHES):
        if n > 31 and batch == (2, 3):
            continue
        seed += 1
        i = seed
        ncols = [3, 1][i % 2]
        for pk in (["none", "jacobi", "lowrank", "exact", "randspd"] if tier == "thorough" else [["none", "jacobi"], ["lowrank", "none"], ["exact", "randspd"]][i % 3]):
            A, A64, b, P, P64, ev, kap = _cg_problem(K, 5000 + seed, dt, kind, cond, n, batch, ncols, pk)
            kapA = float((torch.linalg.eigvalsh(A64)[..., -1] / torch.linalg.eigvalsh(A64)[..., 0]).max())
            xs = torch.linalg.solve(A64, b.double())
            bn = b.double().norm(dim=-2)
            pc = (lambda v, P=P: P @ v) if P is not None else None
            lab0 = _lab(dt=dtname, kind=kind, cond=f"{cond:g}", n=n, b=batch, cols=ncols, pre=pk)
            # the default dtype must not matter (the operator dtype differs from it in half of the cases)
            torch.set_default_dtype(torch.float64 if (i % 2 and dt == torch.float32) else torch.float32)
            try:
                # ---- (1) warning discipline: no NumericalWarning => mean relative residual < tolerance
                for tol, mi, tbs in ((1e-2, 1000, True), (1e-4, 1000, False), (1.0, 1000, True), (1e-3, max(1, n // 2), True), (1e-6, 12, False)):
                    lab = lab0 + "|" + _lab(tol=f"{tol:g}", mi=mi, tbs=int(tbs))
                    cnt = K.Counting(A.matmul)
                    with settings.terminate_cg_by_size(tbs):
                        done, out = rec.guard(f"run/{pk}-{dtname}", lab, lambda: K.run_warn(lambda: linear_cg(cnt, b, tolerance=tol, max_iter=mi, max_tridiag_iter=0, preconditioner=pc)))
                    if not done:
                        continue
                    x, w = out
                    ok = x.shape == b.shape and x.dtype == dt
                    rec.check(f"shape_dtype/{pk}-{dtname}", lab, ok, f"{tuple(x.shape)} {x.dtype} vs {tuple(b.shape)} {dt}")
                    if not ok:
                        continue
                    rn = (b.double() - A64 @ x.double()).norm(dim=-2) / bn
                    if not w:
                        rec.check(f"no_warning_residual/{pk}-{dtname}", lab, bool(rn.mean() <= tol * (1 + 1e-6) + 50 * em * kapA),
                                  f"no NumericalWarning but mean relative residual {rn.mean().item():.3e} > tolerance {tol:g}")
                    else:
                        rec.check(f"no_warning_residual/{pk}-{dtname}", lab, True, nontrivial=False)
                    budget = min(mi, n) if tbs else mi
                    rec.check(f"iteration_budget/{pk}-{dtname}", lab, cnt.calls <= budget + 1, f"{cnt.calls} matmul calls for an iteration budget of {budget}")
                # ---- (2) convergence: within the iteration count that the classical bound guarantees CG must
                # have reached the tolerance (tolerance well above the floor) -> no warning, residual < tol
                tol = 1e-2 if pk in ("exact", "lowrank", "randspd") else 1e-3
                # the safe divisions (r^T P r < eps, p^T A p < eps) stall CG below this relative residual (statement: floor)
                lminP = float(torch.linalg.eigvalsh(P64)[..., 0].min()) if P64 is not None else 1.0
                lminA = float(torch.linalg.eigvalsh(A64)[..., 0].min())
                floor_r = 4e-5 / min(math.sqrt(lminP), lminP * math.sqrt(lminA))
                if kap * em * 1e3 < tol and tol >= 4 * floor_r:
                    rho = (math.sqrt(kap) - 1) / (math.sqrt(kap) + 1)
                    J = 13 if rho <= 0 else max(13, int(math.ceil(math.log(2 * math.sqrt(kapA) / (0.5 * tol)) / -math.log(max(rho, 1e-12)))) + 2)
                    J = 2 * J + n  # generous (finite precision delays convergence), still a finite budget
                    lab = lab0 + "|" + _lab(tol=f"{tol:g}", J=J)
                    with settings.terminate_cg_by_size(False):
                        done, out = rec.guard(f"converges/{pk}-{dtname}", lab, lambda: K.run_warn(lambda: linear_cg(A.matmul, b, tolerance=tol, max_iter=J, max_tridiag_iter=0, preconditioner=pc)))
                    if done:
                        x, w = out
                        rn = (b.double() - A64 @ x.double()).norm(dim=-2) / bn
                        rec.check(f"converges/{pk}-{dtname}", lab, (not w) and bool(rn.mean() <= tol * (1 + 1e-6) + 50 * em * kapA),
                                  f"warned={bool(w)} mean rel.res {rn.mean().item():.3e} after budget {J} (kappa {kap:.3g})")
                        # the limit does not depend on the preconditioner: error vs the dense solution
                        err = (x.double() - xs).norm(dim=-2) / xs.norm(dim=-2).clamp_min(1e-300)
                        rec.check(f"limit_is_solution/{pk}-{dtname}", lab, bool((err.mean() <= tol * kapA * 1.01 + 50 * em * kapA)), f"relative error {err.max().item():.3e}")
            finally:
                torch.set_default_dtype(old_default)
        # ---- (3) special columns / scaling / vector rhs / frozen columns on a moderately conditioned member
        if cond > 1e3:
            continue
        pk = ["none", "jacobi", "lowrank"][i % 3]
        A, A64, b, P, P64, ev, kap = _cg_problem(K, 9000 + seed, dt, kind, cond, n, batch, 4, pk)
        kap = float((torch.linalg.eigvalsh(A64)[..., -1] / torch.linalg.eigvalsh(A64)[..., 0]).max())  # of A itself from here on
        pc = (lambda v, P=P: P @ v) if P is not None else None
        lab0 = _lab(dt=dtname, kind=kind, cond=f"{cond:g}", n=n, b=batch, pre=pk)
        kw = dict(tolerance=1e-4 if dt == torch.float64 else 1e-3, max_iter=400, max_tridiag_iter=0, preconditioner=pc)
        with settings.terminate_cg_by_size(False):
            # zero column, in the middle
            bz = b.clone()
            bz[..., 1] = 0
            done, out = rec.guard(f"zero_column/{pk}-{dtname}", lab0, lambda: K.run_warn(lambda: linear_cg(A.matmul, bz, **kw)))
            if done:
                x, w = out
                rec.check(f"zero_column/{pk}-{dtname}", lab0, bool((x[..., 1] == 0).all()), f"zero rhs column gives {x[..., 1].abs().max().item():.3e}")
                xs = torch.linalg.solve(A64, bz.double())
                rn = (bz.double() - A64 @ x.double()).norm(dim=-2) / bz.double().norm(dim=-2).clamp_min(1e-300)
                rn[..., 1] = 0
                if not w:
                    rec.check(f"zero_column_others/{pk}-{dtname}", lab0, bool(rn.mean() <= kw["tolerance"] * 1.001 + 50 * em * kap * 10), f"mean rel.res {rn.mean().item():.3e}")
            # all-zero rhs (skips the iteration)
            done, out = rec.guard(f"zero_rhs/{pk}-{dtname}", lab0, lambda: K.run_warn(lambda: linear_cg(A.matmul, torch.zeros_like(b), **kw)))
            if done:
                x, w = out
                rec.check(f"zero_rhs/{pk}-{dtname}", lab0, x.shape == b.shape and bool((x == 0).all()) and not w, f"max {x.abs().max().item():.3e} warned={bool(w)}")
            # scaling law: tiny / huge / negative column scalings give the scaled answer
            # (power-of-two scalings are exact in floating point, so the normalised systems coincide bit for bit:
            # tight; a generic scaling only agrees to the accuracy of the solve)
            sc = torch.tensor([1.0, -4.0, 2.0 ** -20, 2.0 ** 27] if dt == torch.float64 else [1.0, -4.0, 2.0 ** -13, 2.0 ** 20], dtype=dt)
            done, out = rec.guard(f"scaling/{pk}-{dtname}", lab0, lambda: (linear_cg(A.matmul, b, **kw), linear_cg(A.matmul, b * sc, **kw), linear_cg(A.matmul, b * -3.0, **kw)))
            if done:
                x1, x2, x3 = out
                d = (x2.double() / sc.double() - x1.double()).norm(dim=-2) / x1.double().norm(dim=-2).clamp_min(1e-300)
                rec.check(f"scaling/{pk}-{dtname}", lab0, bool((d <= 8 * em).all()), f"x(b*s)/s differs from x(b) by {d.flatten().tolist()[:8]} (relative)")
                d = (x3.double() / -3.0 - x1.double()).norm(dim=-2) / x1.double().norm(dim=-2).clamp_min(1e-300)
                rec.check(f"scaling_generic/{pk}-{dtname}", lab0, bool((d.mean() <= 2 * kw["tolerance"] * kap + 1e3 * em * kap)), f"x(-3b)/-3 differs from x(b) by {d.flatten().tolist()[:8]} (relative)")
            # a column whose norm is below the safe-division threshold: zero or the scaled answer, nothing else
            if dt == torch.float64:
                bt = b.clone()
                bt[..., 2] = bt[..., 2] * 1e-13
                done, out = rec.guard(f"sub_eps_column/{pk}-{dtname}", lab0, lambda: linear_cg(A.matmul, bt, **kw))
                if done:
                    x = out
                    xt = torch.linalg.solve(A64, bt.double())[..., 2]
                    okc = bool((x[..., 2] == 0).all()) or bool(((x[..., 2].double() - xt).norm(dim=-1) <= 1e-2 * xt.norm(dim=-1)).all())
                    rec.check(f"sub_eps_column/{pk}-{dtname}", lab0, okc, "column with ||b|| < eps is neither zero nor the scaled solution")
            # vector rhs (only without batch broadcasting ambiguity: rhs (n,) with batched A broadcasts)
            bv = b[..., 0] if not batch else b[(0,) * len(batch)][..., 0]
            done, out = rec.guard(f"vector_rhs/{pk}-{dtname}", lab0, lambda: (linear_cg(A.matmul, bv, **kw), linear_cg(A.matmul, bv.unsqueeze(-1), **kw)))
            if done:
                xv, xm = out
                exp_shape = (*batch, n) if False else xm.shape[:-1]
                rec.check(f"vector_rhs/{pk}-{dtname}", lab0, xv.shape == exp_shape and torch.equal(xv, xm.squeeze(-1)), f"vector rhs: {tuple(xv.shape)} vs matrix rhs {tuple(xm.shape)}")
                # vector rhs with a vector initial guess
                x0v = torch.zeros_like(bv) + 0.5
                done2, xv2 = rec.guard(f"vector_rhs_guess/{pk}-{dtname}", lab0, lambda: linear_cg(A.matmul, bv, initial_guess=x0v, **kw))
                if done2:
                    xsv = torch.linalg.solve(A64, bv.double().unsqueeze(-1)).squeeze(-1)
                    rec.check(f"vector_rhs_guess/{pk}-{dtname}", lab0, xv2.shape == exp_shape and bool(((xv2.double() - xsv).norm(dim=-1) <= (kw["tolerance"] * kap * 2 + 1e-6) * xsv.norm(dim=-1)).all()),
                              f"shape {tuple(xv2.shape)} err {(xv2.double() - xsv).norm().item():.3e}")
            # initial guesses: exact solution (iteration skipped), perturbed solution, random
            xs = torch.linalg.solve(A64, b.double())
            for gname, x0 in (("exact", xs.to(dt)), ("near", (xs * (1 + 1e-3)).to(dt)), ("random", K.zoo.rn(K.gen(seed), *b.shape, dtype=dt))):
                lab = lab0 + f"|x0={gname}"
                x0c = x0.clone()
                done, out = rec.guard(f"initial_guess/{pk}-{dtname}", lab, lambda: K.run_warn(lambda: linear_cg(A.matmul, b, initial_guess=x0, **kw)))
                if done:
                    x, w = out
                    rn = (b.double() - A64 @ x.double()).norm(dim=-2) / b.double().norm(dim=-2)
                    rn0 = (b.double() - A64 @ x0.double()).norm(dim=-2) / b.double().norm(dim=-2)
                    ok = x.shape == b.shape and (bool(w) or bool(rn.mean() <= kw["tolerance"] * 1.001 + 50 * em * kap * 10))
                    rec.check(f"initial_guess/{pk}-{dtname}", lab, ok, f"mean rel.res {rn.mean().item():.3e} (initial {rn0.mean().item():.3e}) warned={bool(w)}")
                    eA = K.anorm(A64, x.double() - xs)
                    e0 = K.anorm(A64, x0.double() - xs)
                    rec.check(f"initial_guess_no_worse/{pk}-{dtname}", lab, bool((eA <= e0 * (1 + 1e-6) + 50 * em * kap * K.anorm(A64, xs)).all()), f"A-norm error grew from {e0.max().item():.3e} to {eA.max().item():.3e}")
                    rec.check(f"initial_guess_untouched/{pk}-{dtname}", lab, torch.equal(x0, x0c), "initial_guess was mutated")
            # frozen columns: column 0 is an eigenvector (converges in one step, then must stop changing bit-for-bit
            # while the other columns keep iterating)
            if n >= 3:
                evs, U = torch.linalg.eigh(A64)
                bf = b.clone()
                if P64 is None:
                    bf[..., 0] = U[..., :, n // 2].to(dt)
                else:
                    # eigenvector of P A (so that preconditioned CG converges in one step): A^{-1}... use generalised problem
                    S = K.psd_sqrt(P64)
                    _, V = torch.linalg.eigh(S @ A64 @ S)
                    bf[..., 0] = torch.linalg.solve(S, V[..., :, n // 2].unsqueeze(-1)).squeeze(-1).to(dt)
                outs = []
                good = True
                for j in (2, 3, 5, min(9, n + 2)):
                    done, x = rec.guard(f"frozen_column/{pk}-{dtname}", lab0 + f"|j={j}", lambda: linear_cg(A.matmul, bf, tolerance=1e-30, max_iter=j, max_tridiag_iter=0, preconditioner=pc, stop_updating_after=1e-5 if dt == torch.float64 else 1e-3))
                    if not done:
                        good = False
                        break
                    outs.append(x)
                if good:
                    r0 = (bf.double() - A64 @ outs[0].double())[..., 0].norm(dim=-1) / bf.double()[..., 0].norm(dim=-1)
                    if bool((r0 < (1e-6 if dt == torch.float64 else 2e-4)).all()):  # converged after <= 2 steps as arranged
                        same = all(torch.equal(o[..., 0], outs[0][..., 0]) for o in outs[1:])
                        rec.check(f"frozen_column/{pk}-{dtname}", lab0, same, "a converged column changed in later iterations")
                        sua_ = 1e-5 if dt == torch.float64 else 1e-3
                        r1 = (bf.double() - A64 @ outs[0].double())[..., 1].norm(dim=-1) / bf.double()[..., 1].norm(dim=-1)
                        if bool((r1 > 10 * sua_).all()):
                            moved = bool((outs[1][..., 1] != outs[0][..., 1]).flatten(-1).any(-1).all())
                            rec.check(f"unfrozen_columns_iterate/{pk}-{dtname}", lab0, moved, "a non-converged column did not change with a larger budget")
                    else:
                        rec.check(f"frozen_column/{pk}-{dtname}", lab0, True, nontrivial=False)
                # the same with a column that converges only approximately (eigenvector + small perturbation): after one step
                # its residual is far below a large freeze threshold while the safe divisions are still far from triggering
                bf2 = bf.clone()
                bf2[..., 0] = bf[..., 0] + 1e-4 * b[..., 3] * (bf[..., 0].norm(dim=-1, keepdim=True) / b[..., 3].norm(dim=-1, keepdim=True))
                outs = []
                for j in (2, 3, 6):
                    done, x = rec.guard(f"frozen_column_inexact/{pk}-{dtname}", lab0 + f"|j={j}", lambda: linear_cg(A.matmul, bf2, tolerance=1e-30, max_iter=j, max_tridiag_iter=0, preconditioner=pc, stop_updating_after=3e-2))
                    if done:
                        outs.append(x)
                if len(outs) == 3:
                    r0 = (bf2.double() - A64 @ outs[0].double())[..., 0].norm(dim=-1) / bf2.double()[..., 0].norm(dim=-1)
                    if bool((r0 < 3e-3).all()) and bool((r0 > 1e-7).all()):
                        same = all(torch.equal(o[..., 0], outs[0][..., 0]) for o in outs[1:])
                        rec.check(f"frozen_column_inexact/{pk}-{dtname}", lab0, same, "a column whose residual is below stop_updating_after changed in later iterations")
                    else:
                        rec.check(f"frozen_column_inexact/{pk}-{dtname}", lab0, True, nontrivial=False)
            # rhs untouched
            bc = b.clone()
            linear_cg(A.matmul, b, **kw)
            rec.check(f"rhs_untouched/{pk}-{dtname}", lab0, torch.equal(b, bc), "rhs was mutated")
            # rhs broadcast against a batched operator and the other way round
            if batch:
                b1 = b[(0,) * len(batch)]
                done, out = rec.guard(f"broadcast_rhs/{pk}-{dtname}", lab0, lambda: K.run_warn(lambda: linear_cg(A.matmul, b1, **kw)))
                if done:
                    x, w = out
                    ok = tuple(x.shape) == (*batch, n, 4)
                    if ok and not w:
                        rn = (b1.double() - A64 @ x.double()).norm(dim=-2) / b1.double().norm(dim=-2)
                        ok = bool(rn.mean() <= kw["tolerance"] * 1.001 + 500 * em * kap)
                    rec.check(f"broadcast_rhs/{pk}-{dtname}", lab0, ok, f"shape {tuple(x.shape)} (expected {(*batch, n, 4)}) or residual above tolerance without warning")
    return rec.obligations()


def rtc_cg_tridiag(dtname, kinds, tier):
    """the returned tridiagonal matrices are the Lanczos matrices of the (preconditioned) operator started
    at the normalised right-hand sides."""
    from contracts.rtc_common import Recorder

    K = kit()
    torch = K.torch
    from linear_operator import settings
    from linear_operator.utils.linear_cg import linear_cg

    rec = Recorder(PID)
    dt = K.DT[dtname]
    sizes = K.sizes(tier, [1, 2, 3, 4, 6, 9, 14, 22, 40, 64], [1, 2, 3, 4, 5, 6, 7, 9, 11, 14, 18, 22, 30, 40, 52, 64])
    conds = [10.0, 1e3] if dt == torch.float64 else [10.0, 1e2]
    tolT = 1e-7 if dt == torch.float64 else 2e-3
    seed = 0
    for kind, cond, n in itertools.product(kinds, conds, sizes):
        i = sizes.index(n) + int(math.log10(cond)) + len(kind)
        for v in range(3 if tier == "quick" else 6):
            batch = K.BATCHES[(i + v) % 4]
            if n > 22 and batch == (2, 3):
                batch = (2,)
            pk = ["none", "jacobi", "lowrank", "randspd"][(i + v // 2) % 4]
            ncols = [3, 1, 2][(i + v) % 3]
            nt = [ncols, 1, max(1, ncols - 1)][(i // 2 + v) % 3]
            m_opts = [n, n + 2, max(1, n // 2), min(n, 3), 1]
            m = m_opts[(i + v) % len(m_opts)]  # max_tridiag_iter
            mi = [m, m + 3, 1000][(i + v) % 3]  # max_iter >= max_tridiag_iter
            tbs = [True, False][(i + v) % 2]
            seed += 1
            A, A64, b, P, P64, ev, kap = _cg_problem(K, 20000 + seed, dt, kind, cond, n, batch, ncols, pk, lo=2.0)
            pc = (lambda v, P=P: P @ v) if P is not None else None
            lab = _lab(dt=dtname, kind=kind, cond=f"{cond:g}", n=n, b=batch, cols=ncols, nt=nt, m=m, mi=mi, pre=pk, tbs=int(tbs))
            with settings.terminate_cg_by_size(tbs):
                done, out = rec.guard(f"tridiag_run/{pk}-{dtname}", lab, lambda: K.run_warn(lambda: linear_cg(A.matmul, b, n_tridiag=nt, max_iter=mi, max_tridiag_iter=m, tolerance=1e-3, preconditioner=pc)))
            if not done:
                continue
            (x, T), w = out
            j = T.shape[-1]
            okshape = x.shape == b.shape and T.dim() == 3 + len(batch) and tuple(T.shape[:-2]) == (nt, *batch) and T.shape[-2] == j and 1 <= j <= min(m, n) and T.dtype == dt
            rec.check(f"tridiag_shape/{pk}-{dtname}", lab, okshape, f"x {tuple(x.shape)} T {tuple(T.shape)} {T.dtype}; expected ({nt}, *{batch}, j, j) with j <= {min(m, n)}")
            if not okshape:
                continue
            rec.check(f"tridiag_symmetric/{pk}-{dtname}", lab, torch.equal(T, T.mT), "T is not symmetric")
            rec.check(f"tridiag_band/{pk}-{dtname}", lab, K.is_tridiag(T), "T has entries outside the three diagonals")
            # solution still a solution
            rn = (b.double() - A64 @ x.double()).norm(dim=-2) / b.double().norm(dim=-2)
            if not w:
                rec.check(f"tridiag_solution/{pk}-{dtname}", lab, bool(rn.mean() <= 1e-3 * 1.001), f"no warning, mean rel.res {rn.mean().item():.3e}")
            # member-wise comparison with the reference Lanczos process.  Column c of member bi is "valid" for its
            # first j_ok steps: until the CG residual of that column reaches the statement's floor (safe divisions on
            # r^T P r and p^T A p with the absolute threshold eps=1e-10) or the Krylov space is exhausted.
            S = K.psd_sqrt(P64) if P64 is not None else None
            idxs = list(itertools.product(*[range(s) for s in batch])) if batch else [()]
            fails = {"is_lanczos": "", "moments": "", "ritz_in_spectrum": "", "quadrature": "", "size": ""}
            L = min(m, n)
            best_ok = 0
            for bi in idxs:
                Ab = A64[bi]
                Sb = S[bi] if S is not None else None
                Op = Ab if Sb is None else Sb @ Ab @ Sb
                Op = 0.5 * (Op + Op.mT)
                evo, Uo = torch.linalg.eigh(Op)
                nrm = float(evo[-1])
                lminA = float(torch.linalg.eigvalsh(Ab)[0])
                lminP = float(torch.linalg.eigvalsh(P64[bi])[0]) if P64 is not None else 1.0
                for c in range(nt):
                    bcol = b[bi][..., c].double()
                    z = bcol if Sb is None else Sb @ bcol
                    q10 = float(z @ z) / float(bcol @ bcol)  # r0^T P r0 of the normalised system
                    z = z / z.norm()
                    Tc = T[(c, *bi)].double()
                    Qr, Tr, broke = K.ref_lanczos(Op, z, min(L + 1, n))
                    jr = Tr.shape[-1]
                    # valid prefix: (i) above the floor (conservative estimate of the safe-division quantities from the
                    # reference process), (ii) before a Ritz value converges (beta_{k+1}|s_ki| small: from there on finite
                    # precision CG/Lanczos without re-orthogonalisation legitimately departs from the exact process)
                    j_ok = j_fl = 1
                    orth_ok = True
                    surely_floor = False
                    thr_orth = 1e-4 if dt == torch.float64 else 3e-2
                    for k in range(1, min(jr, L + 1)):
                        # CG residual after k steps (relative to the start): beta_{k+1} |e_k^T T_k^{-1} e_1|
                        y = torch.linalg.solve(Tr[:k, :k], torch.eye(k, 1, dtype=torch.float64)).squeeze(-1)
                        bk = float(Tr[k, k - 1])
                        rho = bk * abs(float(y[-1]))
                        if rho * rho * q10 < 1e-12:
                            surely_floor = True
                        if rho * rho * q10 * min(1.0, lminA * lminP) < 1e4 * 1e-10 or bk < 1e-4 * nrm:
                            break
                        j_fl = k + 1
                        if orth_ok and bk * float(torch.linalg.eigh(Tr[:k, :k])[1][-1].abs().min()) < thr_orth * nrm:
                            orth_ok = False
                        if orth_ok:
                            j_ok = k + 1
                    exhausted = broke and jr <= j_fl + 1
                    j_fl = min(j_fl, L)
                    j_ok = min(j_ok, L)
                    best_ok = max(best_ok, j_fl)
                    jc = min(j_ok, j)
                    tl = tolT * (1 + kap / 10)
                    # (a) entries
                    dmax = float((Tc[:jc, :jc] - Tr[:jc, :jc]).abs().max()) / nrm
                    if dmax > tl and not fails["is_lanczos"]:
                        fails["is_lanczos"] = f"member {bi} col {c}: |T - T_lanczos|/|A| = {dmax:.3e} on the leading {jc}x{jc} block (T {j}x{j}): T {Tc[:jc, :jc].diagonal().tolist()[:4]} vs {Tr[:jc, :jc].diagonal().tolist()[:4]}"
                    # (b) moments e1^T T^k e1 = z^T Op^k z for k <= 2 jc - 1
                    tk = torch.zeros(jc, dtype=torch.float64)
                    tk[0] = 1
                    zk = z.clone()
                    for k in range(1, min(2 * jc - 1, 3) + 1):
                        tk = Tc[:jc, :jc] @ tk
                        zk = Op @ zk
                        lhs, rhs_ = float(tk[0]), float(z @ zk)
                        if abs(lhs - rhs_) > 10 * tl * nrm ** k and not fails["moments"]:
                            fails["moments"] = f"member {bi} col {c}: e1^T T^{k} e1 = {lhs:.12g} vs z^T A^{k} z = {rhs_:.12g}"
                    # (c) Ritz values inside the spectrum while CG is above its floor (afterwards the rows written for a
                    # stalled column are not Lanczos coefficients any more; only the quadrature accuracy (d) is claimed)
                    rv, W = torch.linalg.eigh(Tc)
                    wgt = W[0] ** 2
                    if j_fl >= j:
                        outside = (rv < float(evo[0]) - 10 * tl * nrm) | (rv > float(evo[-1]) + 10 * tl * nrm)
                        if bool(outside.any()) and not fails["ritz_in_spectrum"]:
                            fails["ritz_in_spectrum"] = f"member {bi} col {c}: Ritz values {rv[outside].tolist()[:3]} (weights {wgt[outside].tolist()[:3]}) outside the spectrum [{float(evo[0]):.6g}, {float(evo[-1]):.6g}] (T {j}x{j})"
                    # (d) Gauss quadrature: exact at full dimension / once the Krylov space is exhausted; to the floor's
                    # accuracy when CG certainly ran into its floor inside the window
                    full = (j_ok >= j and j == n) or (exhausted and j >= j_fl and j_ok >= j_fl)
                    floor_hit = surely_floor and j_fl < j and not full
                    if full or floor_hit:
                        cz = (Uo.mT @ z) ** 2
                        for fname, f in (("log", torch.log), ("inv", torch.reciprocal), ("sqrt", torch.sqrt)):
                            if float(rv[0]) <= 0:
                                if not fails["quadrature"]:
                                    fails["quadrature"] = f"member {bi} col {c}: T has the non-positive eigenvalue {float(rv[0]):.3e}"
                                break
                            lhs = float((wgt * f(rv)).sum())
                            rhs_ = float((cz * f(evo)).sum())
                            tq = (max(1e3 * tolT, 1e-5) if full else (1e-4 if dt == torch.float64 else 1e-2)) * (1 + kap / 10)
                            if abs(lhs - rhs_) > tq * max(1.0, abs(rhs_)) and not fails["quadrature"]:
                                fails["quadrature"] = f"member {bi} col {c}: e1^T {fname}(T) e1 = {lhs:.10g} vs z^T {fname}(A) z = {rhs_:.10g} ({'full dimension' if full else 'floor reached'}; valid steps {j_ok}/{j_fl}, T {j}x{j})"
            # (e) size: the tridiagonal covers the steps CG was obliged to run (the stopping rule may cut the last one)
            need = min(L, best_ok, mi - 1)
            if j < need:
                fails["size"] = f"T is {j}x{j} although max_tridiag_iter={m}, n={n}, max_iter={mi} and a column stayed above the floor for {best_ok} steps"
            if mi == 1:
                # (own group: with max_iter = 1 the tolerance test may cut the only tridiagonal update)
                d = "; ".join(v for v in fails.values() if v)
                rec.check(f"tridiag_single_iteration/{pk}-{dtname}", lab, not d, d)
            else:
                for name, d in fails.items():
                    rec.check(f"tridiag_{name}/{pk}-{dtname}", lab, not d, d)
    return rec.obligations()


def rtc_cg_errors(tier):
    """NaNs and inconsistent iteration limits raise instead of returning; closure kinds."""
    from contracts.rtc_common import Recorder

    K = kit()
    torch = K.torch
    from linear_operator import settings
    from linear_operator.utils.linear_cg import linear_cg

    rec = Recorder(PID)

    def raises(fn, exc=RuntimeError):
        try:
            r = fn()
        except exc:
            return True, ""
        except Exception as e:  # noqa
            return False, f"raised {type(e).__name__}: {e}"
        return False, f"returned {type(r).__name__} instead of raising"

    for dtname, dt in K.DT.items():
        for n, batch, ncols in itertools.product([1, 2, 5, 17], K.BATCHES, [1, 3]):
            g = K.gen(n * 7 + len(batch))
            A = K.spd(g, batch, n, "uniform", 10.0, dt)
            b = K.zoo.rn(g, *batch, n, ncols, dtype=dt)
            lab = _lab(dt=dtname, n=n, b=batch, cols=ncols)
            # NaN in the rhs (each position class: first / last entry, one column only)
            for where in ("first", "last"):
                bn = b.clone()
                if where == "first":
                    bn[..., 0, 0] = float("nan")
                else:
                    bn[..., -1, -1] = float("nan")
                ok, d = raises(lambda: linear_cg(A.matmul, bn, max_iter=20, max_tridiag_iter=0))
                rec.check("nan_rhs_raises/dense", lab + f"|nan={where}", ok, d)
                ok, d = raises(lambda: linear_cg(A.matmul, bn, n_tridiag=1, max_iter=20, max_tridiag_iter=5))
                rec.check("nan_rhs_raises_tridiag/dense", lab + f"|nan={where}", ok, d)
            # NaN produced by the operator
            An = A.clone()
            An[..., 0, 0] = float("nan")
            ok, d = raises(lambda: linear_cg(An.matmul, b, max_iter=20, max_tridiag_iter=0, initial_guess=torch.ones_like(b)))
            rec.check("nan_matmul_raises/dense", lab, ok, d)
            # NaN in the initial guess
            x0 = torch.zeros_like(b)
            x0[..., 0, 0] = float("nan")
            ok, d = raises(lambda: linear_cg(A.matmul, b, max_iter=20, max_tridiag_iter=0, initial_guess=x0))
            rec.check("nan_guess_raises/dense", lab, ok, d)
            # inconsistent limits
            for mi, mt in ((1, 2), (5, 6), (n, n + 1), (19, 20)):
                for nt in (0, 1):
                    ok, d = raises(lambda: linear_cg(A.matmul, b, n_tridiag=nt, max_iter=mi, max_tridiag_iter=mt))
                    rec.check("limits_raise/dense", lab + f"|mi={mi}|mt={mt}|nt={nt}", ok, d)
            # consistent limits (equality) do not raise
            done, _ = rec.guard("limits_equal_ok/dense", lab, lambda: linear_cg(A.matmul, b, n_tridiag=1, max_iter=3, max_tridiag_iter=3, tolerance=1e30))
            # settings-provided defaults: max_cg_iterations below max_lanczos_quadrature_iterations raises
            with settings.max_cg_iterations(5), settings.max_lanczos_quadrature_iterations(6):
                ok, d = raises(lambda: linear_cg(A.matmul, b))
            rec.check("limits_raise_settings/dense", lab, ok, d)
            # closure kinds: a tensor is accepted and means "multiply by it"; anything else raises
            done, x = rec.guard("tensor_closure/dense", lab, lambda: linear_cg(A, b, max_iter=200, max_tridiag_iter=0, tolerance=1e-4))
            if done:
                xs = torch.linalg.solve(A.double(), b.double())
                rec.check("tensor_closure/dense", lab, x.shape == b.shape and bool(((x.double() - xs).norm() <= 1e-2 * xs.norm())), "tensor closure: wrong solution")
            ok, d = raises(lambda: linear_cg("not callable", b, max_iter=20, max_tridiag_iter=0))
            rec.check("bad_closure_raises/dense", lab, ok, d)
    return rec.obligations()


def rtc_cg_solve_api(case_names, tier):
    """LinearOperator._solve (the CG entry point of every operator) on zoo PSD operators: solution,
    tridiagonal shapes, settings plumbing (cg_tolerance, max_cg_iterations, max_lanczos_quadrature_iterations)."""
    from contracts.rtc_common import Recorder

    K = kit()
    torch = K.torch
    zoo = K.zoo
    from linear_operator import settings
    from linear_operator.operators import LinearOperator

    rec = Recorder(PID)
    for label, c, op, dense in zoo.instances(tier, names=case_names, psd=True, square=True, seed=K.SEED):
        if op is None:
            continue  # constructor failures belong to C01
        dt = dense.dtype
        n = dense.shape[-1]
        batch = tuple(dense.shape[:-2])
        D = dense.double()
        ev = torch.linalg.eigvalsh(0.5 * (D + D.mT))
        if float(ev.min()) <= 0:
            continue
        kap = float((ev[..., -1] / ev[..., 0]).max())
        g = K.gen(n + 17)
        for ncols in (1, 3):
            b = zoo.rn(g, *batch, n, ncols, dtype=dt)
            tol = 1e-3
            lab = f"{label}|cols={ncols}"
            with settings.cg_tolerance(tol), settings.max_cg_iterations(200), settings.terminate_cg_by_size(False), settings.max_lanczos_quadrature_iterations(min(n, 4)):
                done, out = rec.guard(f"_solve/{c.name}", lab, lambda: K.run_warn(lambda: LinearOperator._solve(op, b, None, 0)))
                if done:
                    x, w = out
                    rn = (b.double() - D @ x.double()).norm(dim=-2) / b.double().norm(dim=-2)
                    rec.check(f"_solve/{c.name}", lab, x.shape == b.shape and x.dtype == dt and (bool(w) or bool(rn.mean() <= tol * 1.01 + (2e-5 if dt == torch.float32 else 1e-12) * kap)),
                              f"shape {tuple(x.shape)} mean rel.res {rn.mean().item():.3e} warned={bool(w)}")
                done, out = rec.guard(f"_solve_tridiag/{c.name}", lab, lambda: LinearOperator._solve(op, b, None, 1))
                if done:
                    x, T = out
                    j = T.shape[-1]
                    ok = x.shape == b.shape and tuple(T.shape[:-2]) == (1, *batch) and 1 <= j <= min(n, 4) and torch.equal(T, T.mT)
                    rec.check(f"_solve_tridiag/{c.name}", lab, ok, f"x {tuple(x.shape)} T {tuple(T.shape)}")
                    if ok:
                        # T[0,0] = z^T A z for the first column
                        z = b[..., 0].double()
                        z = z / z.norm(dim=-1, keepdim=True)
                        t00 = (z * (D @ z.unsqueeze(-1)).squeeze(-1)).sum(-1)
                        rec.check(f"_solve_tridiag_t00/{c.name}", lab, bool(((T[0][..., 0, 0].double() - t00).abs() <= (1e-3 if dt == torch.float32 else 1e-8) * t00.abs()).all()),
                                  f"T[0,0] {T[0][..., 0, 0].flatten().tolist()[:3]} vs z^T A z {t00.flatten().tolist()[:3]}")
    return rec.obligations()


# ------------------------------------------------------------------------------------------


def rtc_units(tier):
    from contracts.zoo_names import CASE_NAMES

    M = "contracts.rtc_C08"
    us = []
    for dtn in ("f64", "f32"):
        for kind in ("uniform", "clustered", "geometric"):
            us.append(Unit(f"{PID}/rtc/cg_budget[{dtn},{kind}]", M, "rtc_cg_budget", (dtn, [kind], tier), engine="rtc", timeout_s=1500))
            us.append(Unit(f"{PID}/rtc/cg_limit[{dtn},{kind}]", M, "rtc_cg_limit", (dtn, [kind], tier), engine="rtc", timeout_s=1500))
        us.append(Unit(f"{PID}/rtc/cg_tridiag[{dtn}]", M, "rtc_cg_tridiag", (dtn, ["uniform", "clustered", "geometric", "repeated"], tier), engine="rtc", timeout_s=1500))
    us.append(Unit(f"{PID}/rtc/cg_errors", M, "rtc_cg_errors", (tier,), engine="rtc", timeout_s=900))
    psd_like = [n for n in CASE_NAMES]
    half = (len(psd_like) + 1) // 2
    us.append(Unit(f"{PID}/rtc/cg_solve_api[a]", M, "rtc_cg_solve_api", (psd_like[:half], tier), engine="rtc", timeout_s=1500))
    us.append(Unit(f"{PID}/rtc/cg_solve_api[b]", M, "rtc_cg_solve_api", (psd_like[half:], tier), engine="rtc", timeout_s=1500))
    return us


RTC_META = {
    "explanation": "run-time contracts on linear_cg over SPD spectrum families against dense float64 oracles: A-norm error "
                   "monotone in the iteration budget, classical bound down to the statement's floor, residual below tolerance "
                   "when no NumericalWarning, convergence within the iteration count the bound guarantees, zero/tiny/huge "
                   "columns, scaling law, frozen columns, preconditioner independence, the returned tridiagonals equal an "
                   "independent reference Lanczos process (entries, moments, Ritz values, Gauss quadrature at full dimension), "
                   "error paths",
    "assumptions": [
        "float64 dense solves / eigendecompositions of torch are the oracle",
        "the accuracy floor of the statement is modelled as: r^T P r < 16 eps or lambda_min (r^T P r)^2/||r||^2 < 16 eps (safe divisions), "
        "||r|| < 4 stop_updating_after (freeze), ||r|| < 50 eps_machine kappa (arithmetic), r the true residual of the normalised system",
        "spectra are scaled to lambda_min >= 1 (the absolute safe-division threshold eps makes the floor scale dependent)",
    ],
    "families": "spectra uniform/clustered/geometric(/repeated for the tridiagonals), kappa in {10,1e3,1e6} (f32: <=1e4), sizes 1..64 "
                "(9 quick / 17 thorough values incl. 1,2,3 and primes), batch shapes (),(2,),(1,),(2,3) with members of different "
                "conditioning, 1/3/4 columns, preconditioners none/Jacobi/exact inverse/low-rank+diag/unrelated SPD, initial guesses "
                "zero/random/exact/near, eps and stop_updating_after variants, tolerances 1..1e-6, all budgets 1..n+3 (<=40 quick), "
                "max_tridiag_iter in {1,3,n/2,n,n+2}, n_tridiag 1..cols, terminate_cg_by_size on/off, f32 and f64, default dtype != operator dtype",
}
