"""C09 — bounded (run-time contract) tier for lanczos_tridiag and its consumers
(root_decomposition / root_inv_decomposition / diagonalization with method="lanczos").

Contracts (each a clause of the property statement), evaluated on the real code under real torch:
  * Q has orthonormal columns, T is symmetric tridiagonal, Q^T A Q = T, A Q - Q T is supported in its last
    column, Q e_1 is the normalised start vector, for every budget max_iter in 1..n+2;
  * when the budget reaches the dimension of the Krylov space (early termination, or j = n) A Q = Q T, i.e.
    Q T Q^T equals A on that space;
  * consumers: R R^T (resp. R_inv R_inv^T, E diag(s) E^T) equals the orthogonal compression P A P of A onto the
    space the factor spans (resp. Q (Q^T A Q)^{-1} Q^T) up to the tridiagonal jitter, which must be a
    non-negative multiple of the identity on that space bounded by jitter*lambda_max; equals A / A^{-1} when
    the Krylov space is the whole space.
Dense float64 oracles only (eigh / svd / solve).  Nothing here is counted as proved.
"""
from __future__ import annotations

import itertools
import math

from engine.common import Unit

PID = "C09"


def _lab(**kw):
    return "|".join(f"{k}={v}" for k, v in kw.items())


def _psd(K, g, batch, n, kind, cond, dt):
    """PSD family member: the C08 spectra plus rank-deficient ones"""
    torch = K.torch
    if kind.startswith("rankdef"):
        nb = int(math.prod(batch)) if batch else 1
        mats = []
        for i in range(nb):
            r = max(1, (n + 1) // 2 - i)  # members of different rank
            ev = torch.zeros(n, dtype=torch.float64)
            ev[n - r:] = torch.linspace(1.0, cond, r, dtype=torch.float64)
            q = K.rand_orth(g, n)
            a = (q * ev) @ q.mT
            mats.append(0.5 * (a + a.mT))
        a = torch.stack(mats).reshape(*batch, n, n) if batch else mats[0]
        return a.to(dt)
    return K.spd(g, batch, n, kind, cond, dt)


def _tols(K, dt, loose):
    """strict: float64 on families without breakdown inside the budget (identities exact in exact arithmetic).
    Otherwise (float32, or Krylov spaces exhausted inside the budget, where the routine continues with re-orthogonalised
    rounding noise) the routine's own re-orthogonalisation tolerance tol=1e-5 is the accuracy it works to."""
    torch = K.torch
    if dt == torch.float64 and not loose:
        return dict(orth=1e-8, proj=1e-8, inv=1e-7)
    return dict(orth=2e-5, proj=1e-4, inv=1e-4 if dt == torch.float64 else 1e-3)


def _check_qt(K, rec, grp, lab, A, v, mi, Q, T, nv, batch, dt, expect_start=True, loose=False):
    """all contracts on one (Q, T) pair; A (*batch,n,n), v (*batch,n,nv) or None"""
    torch = K.torch
    n = A.shape[-1]
    tl = _tols(K, dt, loose)
    j = T.shape[-1]
    lead = (nv,) if nv > 1 else ()
    okshape = (tuple(Q.shape) == (*lead, *batch, n, j) and tuple(T.shape) == (*lead, *batch, j, j) and 1 <= j <= min(mi, n)
               and Q.dtype == dt and T.dtype == dt)
    rec.check(f"shape/{grp}", lab, okshape, f"Q {tuple(Q.shape)} T {tuple(T.shape)} {Q.dtype}; expected Q {(*lead, *batch, n, 'j')}, j <= {min(mi, n)}")
    if not okshape:
        return
    fin = bool(torch.isfinite(Q).all() and torch.isfinite(T).all())
    rec.check(f"finite/{grp}", lab, fin, "NaN/inf in Q or T")
    if not fin:
        return
    rec.check(f"T_symmetric/{grp}", lab, torch.equal(T, T.mT), "T is not (exactly) symmetric")
    rec.check(f"T_tridiagonal/{grp}", lab, K.is_tridiag(T), "T has entries outside the three diagonals")
    Qd, Td, Ad = Q.double(), T.double(), A.double()
    if nv > 1:
        Ad = Ad.unsqueeze(0)
    nrm = torch.linalg.matrix_norm(Ad, 2).clamp_min(1e-300)[..., None, None]
    eye = torch.eye(j, dtype=torch.float64)
    o = (Qd.mT @ Qd - eye).abs().amax((-1, -2))
    rec.check(f"orthonormal/{grp}", lab, bool((o <= tl["orth"]).all()), f"max |Q^T Q - I| = {o.max().item():.3e}")
    p = ((Qd.mT @ Ad @ Qd - Td) / nrm).abs().amax((-1, -2))
    rec.check(f"projection/{grp}", lab, bool((p <= tl["proj"]).all()), f"max |Q^T A Q - T|/|A| = {p.max().item():.3e}")
    R = (Ad @ Qd - Qd @ Td) / nrm
    if j > 1:
        r = R[..., :, :-1].abs().amax((-1, -2))
        rec.check(f"residual_last_column/{grp}", lab, bool((r <= tl["proj"]).all()), f"max |(A Q - Q T)[:, :-1]|/|A| = {r.max().item():.3e}")
    last = R[..., :, -1].norm(dim=-1)
    if mi >= n:
        # the budget reaches the dimension of every Krylov space: Q T Q^T equals A on it, i.e. A Q = Q T
        rec.check(f"budget_reaches_krylov_dim/{grp}", lab, bool((last <= tl["inv"]).all()),
                  f"max_iter={mi} >= n={n}, {j} steps returned, but |A Q - Q T|/|A| = {last.max().item():.3e} (Q T Q^T != A on the Krylov space)")
    if v is not None and expect_start:
        vd = v.double()
        q0 = vd / vd.norm(dim=-2, keepdim=True)  # (*batch, n, nv)
        got = Qd[..., :, 0]  # (*lead, *batch, n)
        exp = q0.movedim(-1, 0) if nv > 1 else q0[..., 0]
        rec.check(f"start_vector/{grp}", lab, bool(((got - exp).abs().max() <= 10 * tl["orth"])), "Q e_1 is not the normalised start vector")


def rtc_lanczos(dtname, kinds, tier):
    from contracts.rtc_common import Recorder
    from contracts.rtc_C08 import kit

    K = kit()
    torch = K.torch
    from linear_operator import settings
    from linear_operator.utils.lanczos import lanczos_tridiag

    rec = Recorder(PID)
    dt = K.DT[dtname]
    sizes = K.sizes(tier, [1, 2, 3, 4, 5, 7, 10, 16, 33, 64], [1, 2, 3, 4, 5, 6, 7, 8, 10, 13, 16, 21, 27, 33, 47, 64])
    conds = [10.0, 1e4] if tier == "quick" else [10.0, 1e3, 1e6]
    seed = 0
    for kind, cond, n in itertools.product(kinds, conds, sizes):
        i = sizes.index(n) + int(math.log10(cond)) + len(kind)
        for vv in range(2 if tier == "quick" else 4):
            batch = K.BATCHES[(i + vv) % 4]
            if n > 16 and batch == (2, 3):
                batch = (2,)
            init = ["supplied1", "supplied3", "random1", "supplied1", "random2"][(i + 2 * vv) % 5]
            seed += 1
            torch.set_default_dtype(torch.float64 if (seed % 2 == 0 and dt == torch.float32) else torch.float32)  # default dtype != operator dtype in half of the cases (one OS process per unit: no restore needed)
            g = K.gen(30000 + seed)
            A = _psd(K, g, batch, n, kind, cond, dt)
            nv = {"supplied1": 1, "supplied3": 3, "random1": 1, "random2": 2}[init]
            v = K.zoo.rn(g, *batch, n, nv, dtype=dt) if init.startswith("supplied") else None
            vc = v.clone() if v is not None else None
            if n <= 10 or tier == "thorough" or (i + vv) % 4 == 0:
                budgets = list(range(1, n + 3))
            else:
                budgets = sorted({1, 2, 3, n // 2, n - 1, n, n + 1, n + 2})
            for mi in budgets:
                lab = _lab(dt=dtname, kind=kind, cond=f"{cond:g}", n=n, b=batch, init=init, mi=mi)
                grp = f"{kind}-{dtname}"
                if min(mi, n) == 1:
                    grp = f"budget_one-{dtname}"  # own group: min(max_iter, n) = 1 (1x1 matrices, max_iter = 1)
                torch.manual_seed(seed + 7919 * K.SEED)
                with settings.debug(bool(seed % 2)):
                    done, out = rec.guard(f"run/{grp}", lab, lambda: lanczos_tridiag(A.matmul, mi, dtype=dt, device=A.device, matrix_shape=A.shape[-2:], batch_shape=A.shape[:-2],
                                                                                      init_vecs=v, num_init_vecs=nv))
                if not done:
                    continue
                rec.check(f"run/{grp}", lab, True)
                Q, T = out
                _check_qt(K, rec, grp, lab, A, v, mi, Q, T, nv, batch, dt, loose=kind in ("rankdef", "repeated"))
            if vc is not None:
                rec.check(f"init_vecs_untouched/{kind}-{dtname}", _lab(dt=dtname, kind=kind, n=n, b=batch, init=init), torch.equal(v, vc), "init_vecs was mutated")
    return rec.obligations()


def rtc_lanczos_special(tier):
    """structured inputs: Krylov spaces of small dimension, exact breakdown, batches whose members break down at
    different steps, start vectors that are eigenvectors, debug-mode argument checks."""
    from contracts.rtc_common import Recorder
    from contracts.rtc_C08 import kit

    K = kit()
    torch = K.torch
    from linear_operator import settings
    from linear_operator.utils.lanczos import lanczos_tridiag

    rec = Recorder(PID)

    def run(grp, lab, A, v, mi, nv=1, batch=()):
        dt = A.dtype
        done, out = rec.guard(f"run/{grp}", lab, lambda: lanczos_tridiag(A.matmul, mi, dtype=dt, device=A.device, matrix_shape=A.shape[-2:], batch_shape=A.shape[:-2], init_vecs=v))
        if done:
            rec.check(f"run/{grp}", lab, True)
            _check_qt(K, rec, grp, lab, A, v, mi, out[0], out[1], nv, batch, dt, loose=True)

    for dtname, dt in K.DT.items():
        g = K.gen(77)
        for n in ([2, 3, 5, 9, 20] if tier == "quick" else [2, 3, 4, 5, 7, 9, 14, 20, 40]):
            eye = torch.eye(n, dtype=dt)
            D = torch.diag(torch.arange(1, n + 1, dtype=dt))
            for mi in sorted({2, 3, n, n + 2}):
                base = _lab(dt=dtname, n=n, mi=mi)
                # --- the start vector spans an invariant subspace of dimension 1 (Krylov dimension 1)
                grp = f"start_is_eigenvector-{dtname}"
                run(grp, base + "|A=identity|v=random", eye, K.zoo.rn(g, n, 1, dtype=dt), mi)
                run(grp, base + "|A=3*identity|v=random", 3 * eye, K.zoo.rn(g, n, 1, dtype=dt), mi)
                e0 = torch.zeros(n, 1, dtype=dt)
                e0[0] = 1
                run(grp, base + "|A=diag(1..n)|v=e0", D, e0, mi)
                q = K.rand_orth(g, n)
                A = ((q * torch.linspace(1, 5, n, dtype=torch.float64)) @ q.mT)
                A = (0.5 * (A + A.mT)).to(dt)
                run(grp, base + "|A=dense|v=eigenvector", A, q[:, n // 2:n // 2 + 1].to(dt).contiguous(), mi)
                if n >= 3:
                    R = ((q[:, :2] * torch.tensor([1.0, 2.0], dtype=torch.float64)) @ q[:, :2].mT).to(dt)  # rank 2
                    run(grp, base + "|A=rank2|v=in_nullspace", R, q[:, 2:3].to(dt).contiguous(), mi)
                # --- Krylov dimension 2 and 3 (exact and numerical breakdown later on)
                grp = f"small_krylov-{dtname}"
                e01 = torch.zeros(n, 1, dtype=dt)
                e01[0] = 1
                e01[1] = 1
                run(grp, base + "|A=diag(1..n)|v=e0+e1", D, e01, mi)
                if n >= 3:
                    v3 = (q[:, :3] @ torch.tensor([[1.0], [2.0], [-1.0]], dtype=torch.float64)).to(dt)
                    run(grp, base + "|A=dense|v=3 eigenvectors", A, v3, mi)
                    run(grp, base + "|A=rank2|v=random", R, K.zoo.rn(g, n, 1, dtype=dt), mi)
                    run(grp, base + "|A=rank2|v=in_range", R, (R.double() @ K.zoo.rn(g, n, 1)).to(dt), mi)
                # --- batches whose members have Krylov spaces of different dimension
                grp = f"mixed_batch-{dtname}"
                gen_ = K.spd(g, (), n, "uniform", 10.0, dt)
                rep = K.spd(g, (), n, "repeated", 10.0, dt)
                vb = K.zoo.rn(g, 2, n, 1, dtype=dt)
                run(grp, base + "|members=generic,repeated", torch.stack([gen_, rep]), vb, mi, batch=(2,))
                if n >= 3:
                    run(grp, base + "|members=generic,rank2", torch.stack([gen_, R]), vb, mi, batch=(2,))
                    run(grp, base + "|members=rank2,generic|nv=2", torch.stack([R, gen_]), K.zoo.rn(g, 2, n, 2, dtype=dt), mi, nv=2, batch=(2,))
                # exact breakdown (beta = 0 exactly) of one member while the other goes on
                grp = f"mixed_batch_exact_breakdown-{dtname}"
                vb2 = vb.clone()
                vb2[1] = e01
                run(grp, base + "|members=generic,diag(1..n)|v1=e0+e1", torch.stack([gen_, D]), vb2, mi, batch=(2,))
                grp = f"mixed_batch_with_eigenvector_start-{dtname}"
                run(grp, base + "|members=generic,identity", torch.stack([gen_, eye]), vb, mi, batch=(2,))
        # debug-mode argument checks raise
        n = 4
        A = K.spd(g, (2,), n, "uniform", 10.0, dt)
        other = torch.float32 if dt == torch.float64 else torch.float64
        bad = {
            "dtype": dict(init_vecs=K.zoo.rn(g, 2, n, 1, dtype=other), batch_shape=A.shape[:-2], matrix_shape=A.shape[-2:]),
            "batch_shape": dict(init_vecs=K.zoo.rn(g, 3, n, 1, dtype=dt), batch_shape=A.shape[:-2], matrix_shape=A.shape[-2:]),
            "matrix_shape": dict(init_vecs=K.zoo.rn(g, 2, n + 1, 1, dtype=dt), batch_shape=A.shape[:-2], matrix_shape=A.shape[-2:]),
        }
        for what, kw in bad.items():
            with settings.debug(True):
                try:
                    lanczos_tridiag(A.matmul, 3, dtype=dt, device=A.device, **kw)
                    ok, d = False, "returned instead of raising"
                except RuntimeError:
                    ok, d = True, ""
                except Exception as e:  # noqa
                    ok, d = False, f"raised {type(e).__name__}: {e}"
            rec.check(f"debug_checks/{dtname}", f"mismatch={what}", ok, d)
        try:
            lanczos_tridiag(A, 3, dtype=dt, device=A.device, matrix_shape=A.shape[-2:], batch_shape=A.shape[:-2])
            ok, d = False, "non-callable closure accepted"
        except RuntimeError:
            ok, d = True, ""
        except Exception as e:  # noqa
            ok, d = False, f"raised {type(e).__name__}"
        rec.check(f"debug_checks/{dtname}", "non-callable closure", ok, d)
    return rec.obligations()


# ------------------------------------------------------------------------------------------
# consumers


def _proj(K, F, rel=1e-7):
    """orthonormal basis of range(F) (F: n x k dense float64)"""
    torch = K.torch
    U, S, _ = torch.linalg.svd(F, full_matrices=False)
    if S.numel() == 0 or float(S.max()) == 0:
        return U[:, :0]
    return U[:, S > rel * S.max()]


def _compression_checks(K, rec, grp, lab, A64, M, F, jitter, dt, full, inverse=False):
    """M = F F^T (or E diag(s) E^T) must equal the compression of A (inverse: Q (Q^T A Q)^{-1} Q^T) onto range(F)
    up to a jitter c*P with 0 <= c <= jitter*lambda_max (inverse: relative perturbation of that size)."""
    torch = K.torch
    ev = torch.linalg.eigvalsh(A64)
    lmax = float(ev[-1])
    num = (1e-9 if dt == torch.float64 else 2e-4)
    U = _proj(K, F, rel=1e-7 if dt == torch.float64 else 1e-3)
    k = U.shape[-1]
    P = U @ U.mT
    if not inverse:
        C = P @ A64 @ P
        dev = M - C
        c = float(torch.trace(dev)) / max(k, 1)
        form = float(torch.linalg.matrix_norm(dev - c * P, 2)) / lmax
        rec.check(f"{grp}", lab, form <= 10 * num * max(1.0, k ** 0.5) and -10 * num * lmax <= c <= jitter * lmax * 1.01 + 10 * num * lmax,
                  f"F F^T - P A P = {c:.3e}*P + rest, |rest|/|A| = {form:.3e} (allowed: 0 <= c <= jitter*lambda_max = {jitter * lmax:.3e}); rank {k}")
        if full:
            d = float(torch.linalg.matrix_norm(M - A64, 2)) / lmax
            rec.check(f"{grp}_full", lab, d <= jitter * 1.01 + 10 * num * max(1.0, k ** 0.5), f"Krylov space is the whole space but |F F^T - A|/|A| = {d:.3e}")
    else:
        lmin = float(ev[0])
        kap = lmax / lmin
        Tm = U.mT @ A64 @ U
        C = U @ torch.linalg.inv(Tm) @ U.mT
        d = float(torch.linalg.matrix_norm(M - C, 2)) * lmin  # relative to |A^{-1}|
        rec.check(f"{grp}", lab, d <= 2 * jitter * kap + 10 * num * kap, f"|R R^T - Q (Q^T A Q)^-1 Q^T| * lambda_min = {d:.3e}; rank {k}")
        if full:
            d = float(torch.linalg.matrix_norm(M - torch.linalg.inv(A64), 2)) * lmin
            rec.check(f"{grp}_full", lab, d <= 2 * jitter * kap + 10 * num * kap, f"Krylov space is the whole space but |R R^T - A^-1|/|A^-1| = {d:.3e}")


def rtc_consumers(dtname, kinds, tier):
    from contracts.rtc_common import Recorder
    from contracts.rtc_C08 import kit

    K = kit()
    torch = K.torch
    from linear_operator import settings
    from linear_operator.operators import DenseLinearOperator
    from linear_operator.utils.lanczos import lanczos_tridiag_to_diag

    rec = Recorder(PID)
    dt = K.DT[dtname]
    sizes = K.sizes(tier, [2, 3, 5, 8, 13, 24, 40], [2, 3, 4, 5, 6, 8, 10, 13, 18, 24, 33, 40, 64])
    conds = [10.0, 1e3] if dt == torch.float64 else [10.0, 1e2]
    seed = 0
    for kind, cond, n in itertools.product(kinds, conds, sizes):
        i = sizes.index(n) + int(math.log10(cond)) + len(kind)
        for vv in range(2 if tier == "quick" else 4):
            batch = (K.BATCHES + [(1, 2)])[(i + vv) % 5]
            if n > 13 and batch in ((2, 3), (1, 2)):
                batch = (1,)
            ks = sorted({2, 3, max(2, n // 2), n, n + 2}) if (tier == "thorough" or n <= 8) else sorted({[2, 3][vv % 2], max(2, n // 2), [n, n + 2][vv % 2]})
            for k in ks + [1]:
                jitter = [1e-6, 0.0, 1e-3][(i + vv + k) % 3]
                seed += 1
                torch.set_default_dtype(torch.float64 if (seed % 2 == 0 and dt == torch.float32) else torch.float32)  # default dtype != operator dtype in half of the cases (one OS process per unit: no restore needed)
                g = K.gen(40000 + seed)
                A = _psd(K, g, batch, n, kind, cond, dt)
                A64 = A.double()
                pd = not kind.startswith("rankdef")
                idxs = list(itertools.product(*[range(s) for s in batch])) if batch else [()]
                lab = _lab(dt=dtname, kind=kind, cond=f"{cond:g}", n=n, b=batch, k=k, jitter=f"{jitter:g}")
                # groups: one per spectrum family (families whose Krylov space is exhausted inside the budget have their own
                # failure modes), except for the two input classes that fail as a whole
                sfx = f"{kind}-{dtname}" if k > 1 else f"budget_one-{dtname}"
                if batch == (1, 2) and k > 1:
                    sfx = f"leading_singleton_batch-{dtname}"  # own group: several batch dimensions, the first of size 1
                full = k >= n and kind in ("uniform", "geometric")  # well separated spectra: the Krylov space of a generic vector is the whole space also numerically
                with settings.max_root_decomposition_size(k), settings.tridiagonal_jitter(jitter):
                    # ---- root_decomposition(method="lanczos") (random start vector)
                    torch.manual_seed(seed + 7919 * K.SEED)
                    done, out = rec.guard(f"root_decomposition/{sfx}", lab, lambda: DenseLinearOperator(A).root_decomposition(method="lanczos").root.to_dense())
                    if done:
                        Rt = out
                        ok = tuple(Rt.shape[:-1]) == (*batch, n) and Rt.shape[-1] <= min(k, n) and Rt.dtype == dt and bool(torch.isfinite(Rt).all())
                        rec.check(f"root_decomposition_shape/{sfx}", lab, ok, f"root {tuple(Rt.shape)} {Rt.dtype} finite={bool(torch.isfinite(Rt).all())}")
                        if ok:
                            for bi in idxs:
                                F = Rt[bi].double()
                                _compression_checks(K, rec, f"root_decomposition_compression/{sfx}", lab + f"|member={bi}", A64[bi], F @ F.mT, F, jitter, dt, full)
                    # ---- diagonalization(method="lanczos")
                    torch.manual_seed(seed + 7919 * K.SEED)
                    done, out = rec.guard(f"diagonalization/{sfx}", lab, lambda: DenseLinearOperator(A).diagonalization(method="lanczos"))
                    if done:
                        evals, evecs = out
                        E = evecs.to_dense()
                        ok = tuple(E.shape[:-1]) == (*batch, n) and E.shape[-1] <= min(k, n) and tuple(evals.shape) == (*batch, E.shape[-1]) and E.dtype == dt and bool(torch.isfinite(E).all())
                        rec.check(f"diagonalization_shape/{sfx}", lab, ok, f"evals {tuple(evals.shape)} evecs {tuple(E.shape)}")
                        if ok:
                            for bi in idxs:
                                Eb, sb = E[bi].double(), evals[bi].double()
                                G = Eb.mT @ Eb
                                dg = torch.diagonal(G)
                                okorth = bool(((G - torch.diag(dg)).abs().max() <= (1e-8 if dt == torch.float64 else 5e-5)) and (((dg - 1).abs() <= (1e-8 if dt == torch.float64 else 5e-5)) | (dg == 0)).all())
                                rec.check(f"diagonalization_orthonormal/{sfx}", lab + f"|member={bi}", okorth, f"eigenvector matrix not orthonormal (masked columns must be zero): max offdiag {(G - torch.diag(dg)).abs().max().item():.3e}")
                                if not okorth:
                                    continue  # (one root cause per group: the compression identities presuppose an orthonormal basis)
                                M = (Eb * sb) @ Eb.mT
                                # loose: a perturbation of the size of the jitter times the dimension; sharp: the form c*P
                                ev_ = torch.linalg.eigvalsh(A64[bi])
                                U = _proj(K, Eb, rel=1e-7 if dt == torch.float64 else 1e-3)
                                P = U @ U.mT
                                dloose = float(torch.linalg.matrix_norm(M - P @ A64[bi] @ P, 2)) / float(ev_[-1])
                                rec.check(f"diagonalization_compression/{sfx}", lab + f"|member={bi}", dloose <= 1.01 * jitter * max(1, E.shape[-1]) + (1e-8 if dt == torch.float64 else 2e-3),
                                          f"|E diag(s) E^T - P A P|/|A| = {dloose:.3e}")
                                if full:
                                    dfull = float(torch.linalg.matrix_norm(M - A64[bi], 2)) / float(ev_[-1])
                                    rec.check(f"diagonalization_compression_full/{sfx}", lab + f"|member={bi}", dfull <= 1.01 * jitter * n + (1e-8 if dt == torch.float64 else 2e-3), f"|E diag(s) E^T - A|/|A| = {dfull:.3e}")
                                _compression_checks(K, rec, f"diagonalization_jitter_form/{sfx}", lab + f"|member={bi}", A64[bi], M, Eb, jitter, dt, False)
                    # ---- root_inv_decomposition(method="lanczos") with supplied start vectors
                    if pd:
                        for nprobe in (1, 3):
                            iv = K.zoo.rn(g, *batch, n, nprobe, dtype=dt)
                            tv = K.zoo.rn(g, *batch, n, 2, dtype=dt) if nprobe > 1 else None
                            lab2 = lab + f"|probes={nprobe}"
                            op = DenseLinearOperator(A)
                            done, out = rec.guard(f"root_inv_decomposition/{sfx}", lab2, lambda: op.root_inv_decomposition(initial_vectors=iv, test_vectors=tv, method="lanczos").root.to_dense())
                            if not done:
                                continue
                            Ri = out
                            ok = tuple(Ri.shape[:-1]) == (*batch, n) and Ri.shape[-1] <= min(k, n) and Ri.dtype == dt and bool(torch.isfinite(Ri).all())
                            rec.check(f"root_inv_decomposition_shape/{sfx}", lab2, ok, f"inverse root {tuple(Ri.shape)}")
                            if not ok:
                                continue
                            for bi in idxs:
                                F = Ri[bi].double()
                                _compression_checks(K, rec, f"root_inv_decomposition_compression/{sfx}", lab2 + f"|member={bi}", A64[bi], F @ F.mT, F, jitter, dt, full, inverse=True)
                                if nprobe == 1:
                                    # the space is the Krylov space of the supplied vector: it contains it
                                    U = _proj(K, F, rel=1e-7 if dt == torch.float64 else 1e-3)
                                    v0 = iv[bi][..., 0].double()
                                    res = float((v0 - U @ (U.mT @ v0)).norm() / v0.norm())
                                    rec.check(f"root_inv_decomposition_contains_start/{sfx}", lab2 + f"|member={bi}", res <= (1e-7 if dt == torch.float64 else 1e-3), f"start vector not in the span: {res:.3e}")
                            if nprobe > 1 and kind in ("uniform", "geometric"):  # (no breakdown inside the budget: a joint run equals the single runs)
                                # the probe that minimises the test residual is chosen: the returned factor is not worse on the
                                # test vectors than the factor of any single probe
                                def resid(Rr):
                                    s = Rr.double() @ (Rr.double().mT @ tv.double())
                                    return float((A64 @ s - tv.double()).norm(dim=-2).sum())

                                r_best = resid(Ri)
                                singles = []
                                for p_ in range(nprobe):
                                    o2 = DenseLinearOperator(A)
                                    d2, R2 = rec.guard(f"root_inv_decomposition/{sfx}", lab2 + f"|single={p_}", lambda: o2.root_inv_decomposition(initial_vectors=iv[..., p_:p_ + 1].contiguous(), method="lanczos").root.to_dense())
                                    if d2:
                                        singles.append(resid(R2))
                                if singles:
                                    noise = 1e3 * (1.2e-7 if dt == torch.float32 else 2.3e-16) * float(torch.linalg.cond(A64).max()) * float(tv.double().norm(dim=-2).sum())
                                    rec.check(f"root_inv_decomposition_best_probe/{sfx}", lab2, r_best <= min(singles) * (1 + 1e-6) + noise, f"test residual {r_best:.6e} of the returned factor vs single-probe residuals {singles}")
                            # the call also caches a root decomposition: it must be a compression as well
                            done, Rc = rec.guard(f"root_inv_decomposition_cached_root/{sfx}", lab2, lambda: op.root_decomposition().root.to_dense())
                            if done and tuple(Rc.shape[:-1]) == (*batch, n):
                                for bi in idxs:
                                    F = Rc[bi].double()
                                    _compression_checks(K, rec, f"root_inv_decomposition_cached_root/{sfx}", lab2 + f"|member={bi}", A64[bi], F @ F.mT, F, jitter, dt, full)
                            elif done:
                                rec.check(f"root_inv_decomposition_cached_root/{sfx}", lab2, False, f"cached root has shape {tuple(Rc.shape)}")
    # ---- lanczos_tridiag_to_diag: masks exactly the negative Ritz values
    g = K.gen(4711)
    for j in ([1, 2, 5, 31, 32, 40] if tier == "quick" else [1, 2, 3, 5, 9, 31, 32, 33, 40, 64]):
        for batch in K.BATCHES:
            for shift in (0.0, 0.6):
                a = K.zoo.rn(g, *batch, j, dtype=dt).abs() + 0.1 - shift
                b = K.zoo.rn(g, *batch, max(j - 1, 0), dtype=dt) * 0.3
                T = torch.diag_embed(a)
                if j > 1:
                    T = T + torch.diag_embed(b, 1) + torch.diag_embed(b, -1)
                Tc = T.clone()
                lab = _lab(dt=dtname, j=j, b=batch, shift=shift)
                done, out = rec.guard(f"tridiag_to_diag/{dtname}", lab, lambda: lanczos_tridiag_to_diag(T.clone()))
                if not done:
                    continue
                evals, evecs = out
                ev, U = torch.linalg.eigh(Tc.double())
                pos = (U * ev.clamp_min(0).unsqueeze(-2)) @ U.mT
                neg = ev < -(1e-12 if dt == torch.float64 else 1e-5)
                M = (evecs.double() * evals.double().unsqueeze(-2)) @ evecs.double().mT
                nmask = int(((evecs.double().abs().amax(-2)) == 0).sum())
                ok = tuple(evals.shape) == (*batch, j) and tuple(evecs.shape) == (*batch, j, j) and bool(((M - pos).abs().max() <= (1e-9 if dt == torch.float64 else 2e-4)))
                rec.check(f"tridiag_to_diag/{dtname}", lab, ok and nmask >= int(neg.sum()) and bool((evals > 0).all() | (evals >= 0).all()),
                          f"V diag(s) V^T != positive part of T (max dev {(M - pos).abs().max().item():.3e}); masked {nmask} vs negative {int(neg.sum())}")
    return rec.obligations()


def rtc_consumers_zoo(case_names, tier):
    """the same consumer contracts through the _matmul of every PSD operator class of the zoo"""
    from contracts.rtc_common import Recorder
    from contracts.rtc_C08 import kit

    K = kit()
    torch = K.torch
    zoo = K.zoo
    from linear_operator import settings
    from linear_operator.operators import LinearOperator

    rec = Recorder(PID)
    import zlib

    def rebuild(c, dt, zb, zn):
        s_ = zlib.crc32(repr((c.name, str(dt), zb, zn, K.SEED)).encode()) % (2**31)
        return c.build(K.gen(s_), dt, zb, zn)

    zsizes = [1, 2, 4, 6] if tier == "quick" else [1, 2, 3, 4, 6, 9]
    zbatches = [(), (2,), (1,), (2, 3)] if tier == "quick" else [(), (2,), (1,), (2, 3), (1, 2)]
    combos = [(c, dt, zb, zn) for c in zoo.CASES if c.name in case_names and c.psd and c.square for dt in zoo.DTYPES for zb in zbatches for zn in zsizes]
    for c, dt, zb, zn in combos:
        label = f"{c.name}|{str(dt)[6:]}|b={zb}|n={zn}"
        lead1 = "leading_singleton_batch-" if (len(zb) > 1 and zb[0] == 1) else ""
        try:
            op, dense = rebuild(c, dt, zb, zn)
        except Exception:  # constructor failures belong to C01
            continue
        n = dense.shape[-1]
        if n < 2:
            continue
        # the property is about the Lanczos consumers of the base class: classes that override them (exact structured
        # factorisations, block-wise recursion) are the business of C06
        cls = type(op)
        if any(getattr(cls, m_) is not getattr(LinearOperator, m_) for m_ in ("root_decomposition", "root_inv_decomposition", "diagonalization", "_root_decomposition", "_root_inv_decomposition")):
            continue
        batch = tuple(dense.shape[:-2])
        D = dense.double()
        D = 0.5 * (D + D.mT)
        ev = torch.linalg.eigvalsh(D)
        if float(ev.min()) <= 1e-6 * float(ev.max()):
            continue
        idxs = list(itertools.product(*[range(s) for s in batch])) if batch else [()]
        # operators that are a multiple of the identity: every start vector is an eigenvector (own group)
        eye = torch.eye(n, dtype=torch.float64)
        scalar = bool(((D - D.diagonal(dim1=-1, dim2=-2).mean(-1)[..., None, None] * eye).abs().amax((-1, -2)) <= 1e-12 * ev[..., -1]).any())
        gname = lead1 + f"{c.name}" + ("-scalar_matrix" if scalar else "")
        for k in sorted({2, n + 1}):
            lab = f"{label}|k={k}"
            with settings.max_root_decomposition_size(k), settings.tridiagonal_jitter(0.0):
                torch.manual_seed(n + k + 7919 * K.SEED)
                fresh = rebuild(c, dt, zb, zn)[0]
                done, Rt = rec.guard(f"zoo_root_lanczos/{gname}", lab, lambda: fresh.root_decomposition(method="lanczos").root.to_dense())
                if done:
                    ok = tuple(Rt.shape[:-1]) == (*batch, n) and bool(torch.isfinite(Rt).all())
                    rec.check(f"zoo_root_lanczos/{gname}", lab, ok, f"root {tuple(Rt.shape)} finite={bool(torch.isfinite(Rt).all())}; expected {(*batch, n, 'j')}")
                    if ok:
                        for bi in idxs:
                            F = Rt[bi].double()
                            # random start vector: the Krylov space may be smaller than n for structured operators
                            _compression_checks(K, rec, f"zoo_root_lanczos/{gname}", lab + f"|member={bi}", D[bi], F @ F.mT, F, 0.0, dt, False)
                torch.manual_seed(n + k + 7919 * K.SEED)
                fresh = rebuild(c, dt, zb, zn)[0]
                done, out = rec.guard(f"zoo_diagonalization_lanczos/{gname}", lab, lambda: fresh.diagonalization(method="lanczos"))
                if done:
                    evals, evecs = out
                    E = evecs.to_dense() if hasattr(evecs, "to_dense") else evecs
                    ok = tuple(E.shape[:-1]) == (*batch, n) and tuple(evals.shape) == (*batch, E.shape[-1]) and bool(torch.isfinite(E).all())
                    rec.check(f"zoo_diagonalization_lanczos/{gname}", lab, ok, f"evals {tuple(evals.shape)} evecs {tuple(E.shape)} finite={bool(torch.isfinite(E).all())}; expected batch {batch}")
                    if ok:
                        for bi in idxs:
                            Eb = E[bi].double()
                            _compression_checks(K, rec, f"zoo_diagonalization_lanczos/{gname}", lab + f"|member={bi}", D[bi], (Eb * evals[bi].double()) @ Eb.mT, Eb, 0.0, dt, False)
                g = K.gen(n)
                iv = zoo.rn(g, *batch, n, 1, dtype=dt)
                fresh = rebuild(c, dt, zb, zn)[0]
                done, Ri = rec.guard(f"zoo_root_inv_lanczos/{gname}", lab, lambda: fresh.root_inv_decomposition(initial_vectors=iv, method="lanczos").root.to_dense())
                if done:
                    ok = tuple(Ri.shape[:-1]) == (*batch, n) and bool(torch.isfinite(Ri).all())
                    rec.check(f"zoo_root_inv_lanczos/{gname}", lab, ok, f"inverse root {tuple(Ri.shape)} finite={bool(torch.isfinite(Ri).all())}; expected {(*batch, n, 'j')}")
                    if ok:
                        for bi in idxs:
                            F = Ri[bi].double()
                            _compression_checks(K, rec, f"zoo_root_inv_lanczos/{gname}", lab + f"|member={bi}", D[bi], F @ F.mT, F, 0.0, dt, False, inverse=True)
    return rec.obligations()


def rtc_units(tier):
    from contracts.zoo_names import CASE_NAMES

    M = "contracts.rtc_C09"
    us = []
    for dtn in ("f64", "f32"):
        for kinds in (["uniform", "rankdef"], ["clustered", "repeated"], ["geometric"]):
            us.append(Unit(f"{PID}/rtc/lanczos[{dtn},{'+'.join(kinds)}]", M, "rtc_lanczos", (dtn, kinds, tier), engine="rtc", timeout_s=1500))
        for kinds in (["uniform", "rankdef"], ["clustered", "geometric", "repeated"]):
            us.append(Unit(f"{PID}/rtc/consumers[{dtn},{'+'.join(kinds)}]", M, "rtc_consumers", (dtn, kinds, tier), engine="rtc", timeout_s=1500))
    us.append(Unit(f"{PID}/rtc/lanczos_special", M, "rtc_lanczos_special", (tier,), engine="rtc", timeout_s=900))
    half = (len(CASE_NAMES) + 1) // 2
    us.append(Unit(f"{PID}/rtc/consumers_zoo[a]", M, "rtc_consumers_zoo", (CASE_NAMES[:half], tier), engine="rtc", timeout_s=1500))
    us.append(Unit(f"{PID}/rtc/consumers_zoo[b]", M, "rtc_consumers_zoo", (CASE_NAMES[half:], tier), engine="rtc", timeout_s=1500))
    return us


RTC_META = {
    "explanation": "run-time contracts on lanczos_tridiag (orthonormal Q, symmetric tridiagonal T, Q^T A Q = T, residual supported in the last "
                   "column, start vector, A Q = Q T when the Krylov space is exhausted / j = n, early termination only on breakdown) for every "
                   "budget 1..n+2, and on the Lanczos consumers (root / inverse root / diagonalization equal the orthogonal compression onto "
                   "the space they span up to a jitter of the form c*P; A resp. A^-1 at full dimension; best-probe selection; negative-Ritz masking)",
    "assumptions": ["float64 eigh/svd/inv of torch are the oracle", "the matmul closure returns fresh storage (A.matmul)",
                    "float32 orthonormality is demanded to 5e-5 (the implementation's own re-orthogonalisation tolerance is 1e-5)"],
    "families": "PSD matrices: spectra uniform/clustered/geometric/repeated (3 distinct eigenvalues)/rank-deficient (members of different rank), "
                "kappa 10..1e6, sizes 1..64, batch shapes (),(2,),(1,),(2,3) (consumers also (1,2)), start vectors supplied (1 or 3 columns) / random (1 or 2), all "
                "max_iter in 1..n+2 (n<=10 quick, all sizes thorough; otherwise {1,2,3,n/2,n-1,n,n+1,n+2}), structured breakdown inputs "
                "(c*I, diagonal with unit start, eigenvector start, rank-2, null-space start, mixed batches), debug checks; consumers with "
                "max_root_decomposition_size in {1,2,3,n/2,n,n+2}, tridiagonal_jitter in {0,1e-6,1e-3}, 1 and 3 probes, f32/f64, zoo PSD classes",
}
