"""C10 — bounded (run-time contract) tier for pivoted_cholesky, the permutation helpers and the
pivoted-Cholesky preconditioner of AddedDiagLinearOperator.

Contracts (clauses of the property statement) evaluated on the real code against dense float64 oracles:
  pivoted_cholesky(A, k, error_tol) -> L (n x r, r <= min(k, n)), perm (a bijection of 0..n-1 per batch member) with
    * for every j <= r: A - L_j L_j^T vanishes on the rows/columns perm[:j]; pivot j is a largest remaining
      residual diagonal entry; residual trace / diagonal never increase;
    * A - L L^T is PSD; exact when r = n;
    * r < min(k, n) only if the residual trace of EVERY batch member is <= error_tol * max diag(A)
      (error_tol = None means settings.preconditioner_tolerance);
  (closure, P, logdet) = (K + D)._preconditioner(): closure = (L L^T + D)^{-1} exactly, symmetric positive definite,
    logdet = log det(L L^T + D) tightly, P densifies to L L^T + D; (None, None, None) when preconditioning is switched off
    by max_preconditioner_size = 0 or size < min_preconditioning_size.
Nothing here is counted as proved.
"""
from __future__ import annotations

import itertools
import math

from engine.common import Unit

PID = "C10"


def _lab(**kw):
    return "|".join(f"{k}={v}" for k, v in kw.items())


def _family(K, g, name, batch, n, dt):
    """PSD families for the factorisation.  Returns a float64 (batched) matrix, cast to dt by the caller."""
    torch = K.torch
    nb = int(math.prod(batch)) if batch else 1

    def one(i):
        if name in ("uniform", "geometric", "clustered"):
            return K.spd(g, (), n, name, 100.0, torch.float64).clone()
        if name == "tiny":  # entries far below 1: the early-stop test must be relative to the largest diagonal entry
            return 1e-3 * K.spd(g, (), n, "geometric", 100.0, torch.float64).clone()
        if name == "huge":
            return 1e4 * K.spd(g, (), n, "uniform", 100.0, torch.float64).clone()
        if name == "lowrank":  # numerically low rank: rank r plus 1e-10 * I
            r = max(1, min(n - 1, 2 + i)) if n > 1 else 1
            B = K.zoo.rn(g, n, r)
            return B @ B.mT + 1e-10 * torch.eye(n, dtype=torch.float64)
        if name == "lowrank_exact":  # exactly low rank (members of different rank)
            r = max(1, min(n, 1 + i + n // 3))
            B = K.zoo.rn(g, n, r)
            return B @ B.mT
        if name == "rbf":  # unit diagonal: every first pivot is a tie
            x = K.zoo.rn(g, n, 1) * (1 + i)
            return torch.exp(-0.5 * (x - x.mT) ** 2) + 1e-6 * torch.eye(n, dtype=torch.float64)
        if name == "ties":  # constant diagonal and constant off-diagonal: ties at every step
            return (2.0 + i) * torch.eye(n, dtype=torch.float64) + torch.ones(n, n, dtype=torch.float64)
        if name == "identity":
            return (1.0 + i) * torch.eye(n, dtype=torch.float64)
        if name == "graded":  # diagonal dominant, strongly graded diagonal in member-dependent order
            d = torch.logspace(0, 4, n, dtype=torch.float64)[torch.randperm(n, generator=g)]
            q = K.zoo.rn(g, n, n) * 0.05
            s = d.sqrt()
            return (q @ q.mT + torch.eye(n, dtype=torch.float64)) * s[:, None] * s[None, :]
        raise ValueError(name)

    if name == "permuted":
        # the same matrix under different symmetric permutations: members need different pivots
        base = K.spd(g, (), n, "geometric", 1e3, torch.float64)
        mats = []
        for i in range(nb):
            p = torch.randperm(n, generator=g)
            mats.append(base[p][:, p])
    else:
        mats = [one(i) for i in range(nb)]
    a = torch.stack(mats).reshape(*batch, n, n) if batch else mats[0]
    return 0.5 * (a + a.mT)


def _check_pivchol(K, rec, grp, lab, A64, L, perm, k, tol_eff, dt, batch):
    """all clauses for one call.  A64: the dense matrix the operator represents (float64)."""
    torch = K.torch
    n = A64.shape[-1]
    r = L.shape[-1]
    okshape = tuple(L.shape) == (*batch, n, r) and 1 <= r <= min(k, n) and L.dtype == dt and tuple(perm.shape) == (*batch, n) and perm.dtype == torch.long
    rec.check(f"shape/{grp}", lab, okshape, f"L {tuple(L.shape)} {L.dtype} perm {tuple(perm.shape)} {perm.dtype}; expected L {(*batch, n, 'r')} r <= {min(k, n)}")
    if not okshape:
        return
    fin = bool(torch.isfinite(L).all())
    rec.check(f"finite/{grp}", lab, fin, "NaN/inf in the factor")
    okperm = bool((torch.sort(perm, -1).values == torch.arange(n)).all())
    rec.check(f"permutation_valid/{grp}", lab, okperm, f"pivots are not a permutation of 0..{n - 1}: {perm.reshape(-1, n)[0].tolist()[:12]}")
    if not (fin and okperm):
        return
    em = 1.2e-7 if dt == torch.float32 else 2.3e-16
    idxs = list(itertools.product(*[range(s) for s in batch])) if batch else [()]
    ratios = []
    msgs = {"zero_pivot_rows": "", "pivot_is_max": "", "monotone": "", "residual_psd": "", "exact_full_rank": ""}
    for bi in idxs:
        A = A64[bi]
        Lb = L[bi].double()
        p = perm[bi]
        amax = float(A.diagonal().abs().max())
        tA = 200 * em * n * max(amax, 1e-300)
        R = A.clone()
        prev_diag = R.diagonal().clone()
        for j in range(r + 1):
            if j > 0:
                R = R - torch.outer(Lb[:, j - 1], Lb[:, j - 1])
                z = max(float(R[p[:j], :].abs().max()), float(R[:, p[:j]].abs().max()))
                if z > tA and not msgs["zero_pivot_rows"]:
                    msgs["zero_pivot_rows"] = f"member {bi}: residual after {j} steps does not vanish on the pivot rows/cols: {z:.3e} (tol {tA:.1e})"
                d = R.diagonal()
                if bool((d > prev_diag + tA).any()) and not msgs["monotone"]:
                    msgs["monotone"] = f"member {bi}: a residual diagonal entry grew at step {j}"
                prev_diag = d.clone()
            if j < r:
                d = R.diagonal()
                rest = torch.ones(n, dtype=torch.bool)
                rest[p[:j]] = False
                if float(d[p[j]]) < float(d[rest].max()) - tA and not msgs["pivot_is_max"]:
                    msgs["pivot_is_max"] = f"member {bi}: pivot {j} (index {int(p[j])}) has residual diagonal {float(d[p[j]]):.6g} < largest remaining {float(d[rest].max()):.6g}"
        mn = float(torch.linalg.eigvalsh(0.5 * (R + R.mT))[0])
        if mn < -tA * 5 and not msgs["residual_psd"]:
            msgs["residual_psd"] = f"member {bi}: A - L L^T has eigenvalue {mn:.3e} (tol {tA * 5:.1e})"
        if r == n and float(R.abs().max()) > tA * 5 and not msgs["exact_full_rank"]:
            msgs["exact_full_rank"] = f"member {bi}: r = n but |A - L L^T| = {float(R.abs().max()):.3e}"
        ratios.append(float(R.diagonal().clamp_min(0).sum()) / max(amax, 1e-300))
    for name, m in msgs.items():
        if name == "exact_full_rank" and r != n:
            continue
        rec.check(f"{name}/{grp}", lab, not m, m)
    if r < min(k, n):
        rec.check(f"early_stop_only_below_tol/{grp}", lab, max(ratios) <= tol_eff * (1 + 1e-3) + 50 * em * n,
                  f"stopped at rank {r} < min(k, n) = {min(k, n)} although the residual trace / max diag = {max(ratios):.3e} > error_tol = {tol_eff:g}")
    else:
        rec.check(f"early_stop_only_below_tol/{grp}", lab, True, nontrivial=False)


def rtc_pivchol(dtname, fams, tier):
    from contracts.rtc_common import Recorder
    from contracts.rtc_C08 import kit

    K = kit()
    torch = K.torch
    from linear_operator import settings
    from linear_operator.operators import DenseLinearOperator

    rec = Recorder(PID)
    dt = K.DT[dtname]
    sizes = K.sizes(tier, [1, 2, 3, 5, 8, 13, 27, 64], [1, 2, 3, 4, 5, 6, 8, 10, 13, 19, 27, 40, 64])
    seed = 0
    tight = 1e-10 if dt == torch.float64 else 1e-5  # "tight but positive": above the resolution of the arithmetic
    for fam, n in itertools.product(fams, sizes):
        for batch in K.BATCHES:
            if n > 13 and batch == (2, 3):
                continue
            if tier == "quick" and n > 27 and batch == (1,):
                continue
            seed += 1
            torch.set_default_dtype(torch.float64 if (seed % 2 == 0 and dt == torch.float32) else torch.float32)  # default dtype != operator dtype in half of the cases (one OS process per unit: no restore needed)
            g = K.gen(50000 + seed)
            A = _family(K, g, fam, batch, n, dt).to(dt)
            A64 = A.double()
            Ac = A.clone()
            if n <= 8 or tier == "thorough":
                ranks = list(range(1, n + 2))
            else:
                ranks = sorted({1, 3, n // 2, n, n + 1})
            for k in ranks:
                tols = [None, 0.3, tight] if (n <= 8 and (k in (1, 2, n, n + 1) or k % 3 == 0) or tier == "thorough") else [[None, 0.3, tight][(k + seed) % 3]]
                for et in tols:
                    pt = [1e-3, 1e-3, 5e-2][(seed + k) % 3]  # settings.preconditioner_tolerance, used when error_tol is None
                    lab = _lab(dt=dtname, fam=fam, n=n, b=batch, k=k, error_tol=et, setting_tol=pt)
                    grp = f"{fam}-{dtname}"
                    with settings.preconditioner_tolerance(pt):
                        done, out = rec.guard(f"run/{grp}", lab, lambda: DenseLinearOperator(A).pivoted_cholesky(k, error_tol=et, return_pivots=True))
                        if done and (seed + k) % 4 == 0:
                            d2, L2 = rec.guard(f"run/{grp}", lab, lambda: DenseLinearOperator(A).pivoted_cholesky(k, error_tol=et))
                            if d2:
                                rec.check(f"return_pivots_flag/{grp}", lab, torch.is_tensor(L2) and L2.shape == out[0].shape and bool(((L2 == out[0]) | (torch.isnan(L2) & torch.isnan(out[0]))).all()), "pivoted_cholesky(return_pivots=False) differs from the factor returned with pivots")
                    if not done:
                        continue
                    rec.check(f"run/{grp}", lab, True)
                    L, perm = out
                    _check_pivchol(K, rec, grp, lab, A64, L, perm, k, et if et is not None else pt, dt, batch)
            rec.check(f"input_untouched/{fam}-{dtname}", _lab(dt=dtname, fam=fam, n=n, b=batch), torch.equal(A, Ac), "the operator's tensor was modified")
    return rec.obligations()


def rtc_pivchol_mixed(tier):
    """batches whose members have different numerical rank (some exhausted while others go on), exactly singular
    integer-valued matrices, repeated calls."""
    from contracts.rtc_common import Recorder
    from contracts.rtc_C08 import kit

    K = kit()
    torch = K.torch
    from linear_operator.operators import DenseLinearOperator

    rec = Recorder(PID)
    for dtname, dt in K.DT.items():
        g = K.gen(123)
        for n in ([3, 5, 9, 20] if tier == "quick" else [3, 4, 5, 7, 9, 14, 20, 33]):
            gen_ = K.spd(g, (), n, "geometric", 100.0, torch.float64)
            ones = torch.ones(n, n, dtype=torch.float64)
            B = K.zoo.rn(g, n, 2)
            r2 = B @ B.mT
            two = torch.zeros(n, n, dtype=torch.float64)
            two[0, 0] = 4.0
            two[1, 1] = 1.0
            members = {
                "single_ones": ones[None][0],
                "single_rank2_exact": two,
                "generic,ones": torch.stack([gen_, ones]),
                "generic,rank2": torch.stack([gen_, r2]),
                "rank2,generic,ones": torch.stack([r2, gen_, ones]),
                "generic,two_nonzero_diag": torch.stack([gen_, two]),
            }
            for mname, A in members.items():
                batch = tuple(A.shape[:-2])
                for k in sorted({1, 2, 3, n, n + 1}):
                    for et in (None, 1e-10 if dt == torch.float64 else 1e-5):
                        lab = _lab(dt=dtname, n=n, members=mname, k=k, error_tol=et)
                        grp = f"mixed_rank-{dtname}" if "," in mname else f"singular-{dtname}"
                        Ad = A.to(dt)
                        done, out = rec.guard(f"run/{grp}", lab, lambda: DenseLinearOperator(Ad).pivoted_cholesky(k, error_tol=et, return_pivots=True))
                        if done:
                            rec.check(f"run/{grp}", lab, True)
                            _check_pivchol(K, rec, grp, lab, Ad.double(), out[0], out[1], k, et if et is not None else 1e-3, dt, batch)
    return rec.obligations()


def rtc_pivchol_zoo(case_names, tier):
    """every PSD operator class as input (row extraction goes through the class's indexing)"""
    from contracts.rtc_common import Recorder
    from contracts.rtc_C08 import kit

    K = kit()
    torch = K.torch
    zoo = K.zoo

    rec = Recorder(PID)
    for label, c, op, dense in zoo.instances(tier, names=case_names, psd=True, square=True, seed=K.SEED):
        if op is None:
            continue
        dt = dense.dtype
        n = dense.shape[-1]
        batch = tuple(dense.shape[:-2])
        D = dense.double()
        D = 0.5 * (D + D.mT)
        if float(torch.linalg.eigvalsh(D).min()) < -1e-6:
            continue
        for k in sorted({1, 2, n, n + 1}):
            for et in (None, 1e-12 if dt == torch.float64 else 1e-5):
                lab = f"{label}|k={k}|error_tol={et}"
                done, out = rec.guard(f"zoo_run/{c.name}", lab, lambda: op.pivoted_cholesky(k, error_tol=et, return_pivots=True))
                if not done:
                    continue
                rec.check(f"zoo_run/{c.name}", lab, True)
                L, perm = out
                _check_pivchol(K, rec, f"zoo-{c.name}", lab, D, L, perm, k, et if et is not None else 1e-3, dt, batch)
    return rec.obligations()


def rtc_permutation(tier):
    """apply_permutation / inverse_permutation against plain torch indexing"""
    from contracts.rtc_common import Recorder
    from contracts.rtc_C08 import kit

    K = kit()
    torch = K.torch
    from linear_operator.operators import DenseLinearOperator
    from linear_operator.utils.permutation import apply_permutation, inverse_permutation

    rec = Recorder(PID)
    g = K.gen(99)
    for dtname, dt in K.DT.items():
        for n, batch in itertools.product([1, 2, 3, 5, 8] if tier == "quick" else [1, 2, 3, 4, 5, 8, 13], K.BATCHES + [(3, 1, 2)]):
            M = K.zoo.rn(g, *batch, n, n, dtype=dt)
            def perms(m, bshape):
                nbb = int(math.prod(bshape)) if bshape else 1
                p = torch.stack([torch.randperm(n, generator=g)[:m] for _ in range(nbb)])
                return p.reshape(*bshape, m) if bshape else p[0]

            for m_l, m_r in ((n, n), (max(1, n // 2), n), (n, max(1, n - 1)), (1, 1)):
                for pb in ("full", "shared", "none_left", "none_right"):
                    bl = batch if pb != "shared" else ()
                    left = None if pb == "none_left" else perms(m_l, bl)
                    right = None if pb == "none_right" else perms(m_r, bl)
                    lab = _lab(dt=dtname, n=n, b=batch, ml=m_l, mr=m_r, perm_batch=pb)
                    # oracle: gather rows then columns per batch member
                    exp = M
                    if left is not None:
                        idx = left.expand(*batch, left.shape[-1]) if batch else left
                        exp = torch.gather(exp, -2, idx.unsqueeze(-1).expand(*batch, idx.shape[-1], n))
                    if right is not None:
                        idx = right.expand(*batch, right.shape[-1]) if batch else right
                        exp = torch.gather(exp, -1, idx.unsqueeze(-2).expand(*batch, exp.shape[-2], idx.shape[-1]))
                    for kind, obj in (("tensor", M), ("operator", DenseLinearOperator(M))):
                        done, out = rec.guard(f"apply_permutation/{kind}", lab, lambda: apply_permutation(obj, left, right))
                        if done:
                            rec.check(f"apply_permutation/{kind}", lab, torch.is_tensor(out) and out.shape == exp.shape and torch.equal(out, exp), f"shape {tuple(out.shape)} vs {tuple(exp.shape)} or values differ")
            # inverse_permutation
            p = perms(n, batch)
            done, inv = rec.guard("inverse_permutation/int64", _lab(n=n, b=batch), lambda: inverse_permutation(p))
            if done:
                ar = torch.arange(n).expand(*batch, n) if batch else torch.arange(n)
                ok = inv.shape == p.shape and inv.dtype == p.dtype and torch.equal(torch.gather(p, -1, inv), ar) and torch.equal(torch.gather(inv, -1, p), ar)
                rec.check("inverse_permutation/int64", _lab(n=n, b=batch), ok, "inverse_permutation(p) is not the inverse of p")
                done2, out = rec.guard("apply_permutation/roundtrip", _lab(dt=dtname, n=n, b=batch), lambda: apply_permutation(apply_permutation(M, p, p), inv, inv))
                if done2:
                    rec.check("apply_permutation/roundtrip", _lab(dt=dtname, n=n, b=batch), torch.equal(out, M), "permuting with p and then with its inverse does not give the matrix back")
    return rec.obligations()


def rtc_precond(dtname, tier):
    from contracts.rtc_common import Recorder
    from contracts.rtc_C08 import kit

    K = kit()
    torch = K.torch
    from linear_operator import settings
    from linear_operator.operators import AddedDiagLinearOperator, ConstantDiagLinearOperator, DenseLinearOperator, DiagLinearOperator, LinearOperator

    rec = Recorder(PID)
    dt = K.DT[dtname]
    em = 1.2e-7 if dt == torch.float32 else 2.3e-16
    sizes = K.sizes(tier, [1, 2, 3, 5, 9, 17, 40], [1, 2, 3, 4, 5, 7, 9, 12, 17, 25, 40, 64])
    seed = 0
    noise_kinds = ["const_op", "const_values", "per_element", "batched_const", "batched_per_element", "broadcast_noise_batch", "broadcast_noise_batch_per_element", "broadcast_kernel_batch"]
    tight = 1e-12 if dt == torch.float64 else 1e-5
    for fam, n, batch in itertools.product(["rbf", "geometric", "lowrank", "graded"], sizes, K.BATCHES):
        if n > 17 and batch == (2, 3):
            continue
        for nk in noise_kinds:
            seed += 1
            if tier == "quick" and (seed % 2) and n > 5:
                continue
            torch.set_default_dtype(torch.float64 if (seed % 2 == 0 and dt == torch.float32) else torch.float32)  # default dtype != operator dtype in half of the cases (one OS process per unit: no restore needed)
            g = K.gen(60000 + seed)
            kb, nbatch = batch, batch
            if nk.startswith("broadcast_noise_batch"):  # kernel unbatched, noise batched
                if not batch:
                    continue
                kb = ()
            if nk == "broadcast_kernel_batch":  # kernel batched, noise unbatched
                if not batch:
                    continue
                nbatch = ()
            Kmat = _family(K, g, fam, kb, n, dt).to(dt)
            if nk == "const_op":
                v = (K.zoo.rn(g, *nbatch, 1, dtype=dt).abs() + 0.3)
                Dop = ConstantDiagLinearOperator(v, diag_shape=n)
                dvals = v.expand(*nbatch, n)
            elif nk in ("const_values", "batched_const", "broadcast_noise_batch", "broadcast_kernel_batch") and nk != "per_element":
                v = (K.zoo.rn(g, *nbatch, 1, dtype=dt).abs() + 0.3)
                if nk == "const_values" and nbatch:
                    v = v.flatten()[0].expand(*nbatch, 1)  # the same constant for every member
                dvals = v.expand(*nbatch, n).contiguous()
                Dop = DiagLinearOperator(dvals)
            else:  # per_element, batched_per_element
                dvals = (K.zoo.rn(g, *nbatch, n, dtype=dt).abs() + 0.3)
                if nk == "per_element" and nbatch:
                    dvals = dvals.reshape(-1, n)[0].expand(*nbatch, n).contiguous()  # same per-element noise for every member
                Dop = DiagLinearOperator(dvals)
            full_batch = tuple(torch.broadcast_shapes(kb, nbatch))
            for mps, minsize, ptol in ((15, 1, 1e-3), (1, 1, 1e-3), (2, 1, 1e-3), (n + 3, 1, tight), (5, 1, 0.5), (0, 1, 1e-3), (15, n + 1, 1e-3), (15, n, 1e-3)):
                if tier == "quick" and (seed + mps) % 3 == 0 and mps not in (0, 15):
                    continue
                lab = _lab(dt=dtname, fam=fam, n=n, kb=kb, nb=nbatch, noise=nk, max_size=mps, min_size=minsize, tol=f"{ptol:g}")
                grp = f"{nk}-{dtname}"
                with settings.max_preconditioner_size(mps), settings.min_preconditioning_size(minsize), settings.preconditioner_tolerance(ptol):
                    op = AddedDiagLinearOperator(DenseLinearOperator(Kmat), Dop)
                    done, out = rec.guard(f"precond_run/{grp}", lab, lambda: op._preconditioner())
                    if not done:
                        continue
                    closure, Pop, logdet = out
                    off = mps == 0 or n < minsize
                    if off:
                        rec.check(f"precond_off/{grp}", lab, closure is None and Pop is None and logdet is None, "preconditioning is switched off by the settings but a preconditioner was returned")
                        continue
                    # independent oracle: L from a separate (contract-checked) call on the kernel alone, D from the constructor arguments
                    L = DenseLinearOperator(Kmat).pivoted_cholesky(mps)
                    if closure is None and Pop is None and logdet is None and bool(torch.isnan(L).any()):
                        # documented fallback: NaNs in the factor (a C10 pivoted-Cholesky failure reported by the pivchol units) -> no preconditioner
                        rec.check(f"precond_returned/{grp}", lab, True, nontrivial=False)
                        continue
                    ok = callable(closure) and isinstance(Pop, LinearOperator) and torch.is_tensor(logdet)
                    rec.check(f"precond_returned/{grp}", lab, ok, f"got ({type(closure).__name__}, {type(Pop).__name__}, {type(logdet).__name__})")
                    if not ok:
                        continue
                    L64 = L.double()
                    Dd = torch.diag_embed(dvals.double())
                    Mref = L64 @ L64.mT + Dd  # broadcasts to full_batch
                    Mref = Mref.expand(*full_batch, n, n)
                    tol = (1e-9 if dt == torch.float64 else 3e-4)
                    # P densifies to L L^T + D
                    done, Pd = rec.guard(f"precond_operator/{grp}", lab, lambda: Pop.to_dense())
                    if done:
                        rec.check(f"precond_operator/{grp}", lab, tuple(Pd.shape) == (*full_batch, n, n) and bool(((Pd.double() - Mref).abs().max() <= tol * Mref.abs().max())),
                                  f"P.to_dense() {tuple(Pd.shape)} differs from L L^T + D {tuple(Mref.shape)}")
                    # logdet
                    ld = torch.linalg.slogdet(Mref)[1]
                    okld = tuple(logdet.shape) == tuple(full_batch) and logdet.dtype == dt
                    if okld:
                        okld = bool(((logdet.double() - ld).abs() <= (1e-10 if dt == torch.float64 else 2e-5) * (1 + ld.abs()) * max(1, n ** 0.5)).all())
                    rec.check(f"precond_logdet/{grp}", lab, okld, f"logdet {tuple(logdet.shape)} {logdet.flatten().tolist()[:3]} vs dense log|L L^T + D| {tuple(ld.shape)} {ld.flatten().tolist()[:3]}")
                    # closure = (L L^T + D)^{-1}
                    Minv = torch.linalg.inv(Mref)
                    # conditioning of the Woodbury form D^-1 - D^-1/2 Q Q^T D^-1/2: |M| / min(D)
                    condM = float((torch.linalg.eigvalsh(Mref)[..., -1] / dvals.double().min(-1).values).max()) * 4
                    for ncols in (1, 3):
                        V = K.zoo.rn(g, *full_batch, n, ncols, dtype=dt)
                        done, out2 = rec.guard(f"precond_closure/{grp}", lab + f"|cols={ncols}", lambda: closure(V))
                        if done:
                            exp = Minv @ V.double()
                            okc = out2.shape == exp.shape and out2.dtype == dt
                            if okc:
                                okc = bool(((out2.double() - exp).norm(dim=-2) <= 50 * em * condM * exp.norm(dim=-2) + 1e-300).all())
                            rec.check(f"precond_closure/{grp}", lab + f"|cols={ncols}", okc, f"closure(V) {tuple(out2.shape)} != (L L^T + D)^-1 V {tuple(exp.shape)}: rel.err {((out2.double() - exp).norm() / exp.norm()).item() if out2.shape == exp.shape else float('nan'):.3e}")
                    # symmetric positive definite (applied to the identity)
                    eye = torch.eye(n, dtype=dt).expand(*full_batch, n, n).contiguous()
                    done, C = rec.guard(f"precond_spd/{grp}", lab, lambda: closure(eye))
                    if done and C.shape == eye.shape:
                        C = C.double()
                        asym = float((C - C.mT).abs().max()) / float(C.abs().max())
                        mn = float(torch.linalg.eigvalsh(0.5 * (C + C.mT)).min())
                        rec.check(f"precond_spd/{grp}", lab, asym <= 50 * em * condM and mn > 0, f"closure(I): asymmetry {asym:.3e}, smallest eigenvalue {mn:.3e}")
                    # a second call (cached QR) gives the same triple
                    done, out3 = rec.guard(f"precond_second_call/{grp}", lab, lambda: op._preconditioner())
                    if done:
                        c2, P2, ld2 = out3
                        V = K.zoo.rn(g, *full_batch, n, 2, dtype=dt)
                        rec.check(f"precond_second_call/{grp}", lab, torch.equal(ld2, logdet) and torch.equal(c2(V), closure(V)), "second _preconditioner() call differs from the first")
    return rec.obligations()


def rtc_units(tier):
    from contracts.zoo_names import CASE_NAMES

    M = "contracts.rtc_C10"
    us = []
    for dtn in ("f64", "f32"):
        for fams in (["uniform", "geometric", "clustered"], ["lowrank", "lowrank_exact", "graded", "tiny"], ["rbf", "ties", "identity", "permuted", "huge"]):
            us.append(Unit(f"{PID}/rtc/pivchol[{dtn},{'+'.join(fams)}]", M, "rtc_pivchol", (dtn, fams, tier), engine="rtc", timeout_s=1500))
        us.append(Unit(f"{PID}/rtc/precond[{dtn}]", M, "rtc_precond", (dtn, tier), engine="rtc", timeout_s=1500))
    us.append(Unit(f"{PID}/rtc/pivchol_mixed", M, "rtc_pivchol_mixed", (tier,), engine="rtc", timeout_s=900))
    us.append(Unit(f"{PID}/rtc/permutation", M, "rtc_permutation", (tier,), engine="rtc", timeout_s=900))
    third = (len(CASE_NAMES) + 2) // 3
    for i in range(3):
        us.append(Unit(f"{PID}/rtc/pivchol_zoo[{i}]", M, "rtc_pivchol_zoo", (CASE_NAMES[i * third:(i + 1) * third], tier), engine="rtc", timeout_s=1500))
    return us


RTC_META = {
    "explanation": "run-time contracts on pivoted_cholesky (shape, permutation validity, residual vanishes on pivot rows/cols after every step, "
                   "greedy pivot rule by value, monotone residual diagonal, residual PSD, exact at rank n, early stop only below the tolerance for "
                   "every batch member), on apply_permutation / inverse_permutation, and on AddedDiagLinearOperator._preconditioner (closure equals "
                   "(L L^T + D)^-1, SPD, logdet tight, returned operator densifies to L L^T + D, switched off by the settings) against dense float64 oracles",
    "assumptions": ["float64 eigvalsh / inv / slogdet of torch are the oracle", "the oracle L for the preconditioner is a separate pivoted_cholesky call on the kernel alone (itself under the contracts above)",
                    "operators with an approximate _approx_diagonal (InterpolatedLinearOperator) are outside the PSD zoo and not exercised"],
    "families": "PSD families: uniform/geometric/clustered spectra, numerically and exactly low rank (members of different rank), unit-diagonal RBF, tiny (1e-3) and huge (1e4) scalings, "
                "constant-diagonal ties, identity, graded diagonals, batches of permuted copies (different pivots per member), mixed-rank batches, "
                "exactly singular integer matrices; sizes 1..64; batch shapes (),(2,),(1,),(2,3); ranks 1..n+1 (all for n<=8 quick / all sizes thorough); "
                "error_tol None/0.3/1e-10 with preconditioner_tolerance 1e-3/5e-2; all PSD zoo classes; noise: ConstantDiag, constant values, per element, "
                "batched constant/per element, noise or kernel broadcast over the batch; max_preconditioner_size 0/1/2/5/15/n+3, min_preconditioning_size 1/n/n+1, f32/f64",
}
