"""C11 — bounded (run-time contract) tier for minres, contour_integral_quad and sqrt_inv_matmul.

Contracts (clauses of the property statement), evaluated on the real code against dense float64 oracles:
  minres(K, b, shifts): for every shift s the solution of (value*K + s I) x = b to within the stopping tolerance
    (relative error <= 2 tol (1 + sqrt(kappa_s)) + arithmetic), zero columns give zero, linear in b, the leading
    shift dimension is present exactly when shifts.numel() > 1, vector rhs gives a vector, inputs untouched;
  contour_integral_quad: shapes, sum_q w_q solves_q = K^{-1/2} b (inverse) / K^{1/2} b to quadrature accuracy;
  sqrt_inv_matmul twice = A^{-1} R; the left-factor variant returns (L A^{-1/2} R, diag(L A^{-1} L^T));
  contour-integral sampling has covariance A (identity base samples).
Nothing here is counted as proved.
"""
from __future__ import annotations

import itertools
import math

from engine.common import Unit

PID = "C11"


def _lab(**kw):
    return "|".join(f"{k}={v}" for k, v in kw.items())


def _em(K, dt):
    return 1.2e-7 if dt == K.torch.float32 else 2.3e-16


def _fpow(K, A, p):
    ev, U = K.torch.linalg.eigh(A)
    return (U * ev.pow(p).unsqueeze(-2)) @ U.mT


def _shift_variants(K, g, batch, dt):
    """name -> shifts tensor (or None)"""
    torch = K.torch
    out = {
        "none": None,
        "scalar0d": torch.tensor(0.7, dtype=dt),
        "vec1": torch.tensor([0.3], dtype=dt),
        "vec3": torch.tensor([0.0, 0.5, 10.0], dtype=dt),
        "vec2": torch.tensor([2.0, 0.0], dtype=dt),
    }
    if batch:
        out["batched3"] = (K.zoo.rn(g, 3, *batch, dtype=dt).abs() * 2).contiguous()
        out["batched1"] = (K.zoo.rn(g, 1, *batch, dtype=dt).abs() * 2).contiguous()
    return out


def _expected_solution(K, A64, b64, shifts, value):
    """dense oracle with the leading shift dimension always present: (Q, *bc, n, c)"""
    torch = K.torch
    n = A64.shape[-1]
    sh = torch.zeros(1, dtype=torch.float64) if shifts is None else shifts.double().reshape(shifts.shape if shifts.dim() else (1,))
    Q = sh.shape[0]
    eye = torch.eye(n, dtype=torch.float64)
    V = A64 if value is None else value * A64
    outs, conds = [], []
    for q in range(Q):
        s = sh[q]
        M = V + (s[..., None, None] if s.dim() else s) * eye
        outs.append(torch.linalg.solve(M, b64.expand(*torch.broadcast_shapes(M.shape[:-2], b64.shape[:-2]), *b64.shape[-2:])))
        ev = torch.linalg.eigvalsh(M).abs()
        conds.append(float((ev.max(-1).values / ev.min(-1).values).max()))
    bshape = torch.broadcast_shapes(*[o.shape for o in outs])
    return torch.stack([o.expand(bshape) for o in outs]), conds


def rtc_minres(dtname, kinds, tier):
    from contracts.rtc_common import Recorder
    from contracts.rtc_C08 import kit

    K = kit()
    torch = K.torch
    from linear_operator import settings
    from linear_operator.utils.minres import minres

    rec = Recorder(PID)
    dt = K.DT[dtname]
    em = _em(K, dt)
    sizes = K.sizes(tier, [2, 3, 5, 9, 12, 21, 40], [2, 3, 4, 5, 7, 9, 10, 11, 12, 19, 21, 29, 31, 40])
    conds = [10.0, 1e2, 1e4] if dt == torch.float64 else [10.0, 1e2]
    seed = 0
    for kind, cond, n in itertools.product(kinds, conds, sizes):
        for batch in K.BATCHES:
            if n > 12 and batch == (2, 3):
                continue
            seed += 1
            torch.set_default_dtype(torch.float64 if (seed % 2 == 0 and dt == torch.float32) else torch.float32)  # default dtype != operator dtype in half of the cases (one OS process per unit: no restore needed)
            g = K.gen(70000 + seed)
            A = K.spd(g, batch, n, kind, cond, dt)
            A64 = A.double()
            variants = _shift_variants(K, g, batch, dt)
            names = list(variants)
            rhs_kinds = ["mat3", "vec", "mat1", "mat3_zero_col", "bcast"]
            picks = [(names[(seed + i) % len(names)], rhs_kinds[(seed + 2 * i) % len(rhs_kinds)]) for i in range(3 if tier == "quick" else 6)]
            picks.append(("vec3", "mat3"))
            for sname, rk in dict.fromkeys(picks):
                shifts = variants[sname]
                if rk == "vec":
                    b = K.zoo.rn(g, n, dtype=dt)
                elif rk == "mat1":
                    b = K.zoo.rn(g, *batch, n, 1, dtype=dt)
                elif rk == "bcast":
                    b = K.zoo.rn(g, n, 2, dtype=dt)  # unbatched rhs against a batched operator
                else:
                    b = K.zoo.rn(g, *batch, n, 3, dtype=dt)
                    if rk == "mat3_zero_col":
                        b[..., 1] = 0
                bc, sc = b.clone(), (shifts.clone() if shifts is not None else None)
                for tol, value in ((1e-4, None), (1e-7 if dt == torch.float64 else 1e-5, None), (1e-1, None), (1e-4, 2.0), (1e-4, -1.0)):
                    if value is not None and (seed % 2):
                        continue
                    sh_use = shifts
                    if value == -1.0:
                        sh_use = None if shifts is None else -shifts  # (-K + s I) negative definite, as contour_integral_quad uses it
                    lab = _lab(dt=dtname, kind=kind, cond=f"{cond:g}", n=n, b=batch, shifts=sname, rhs=rk, tol=f"{tol:g}", value=value)
                    grp = f"{kind}-{dtname}"
                    cnt = K.Counting(A.matmul)
                    with settings.minres_tolerance(tol):
                        done, x = rec.guard(f"minres_run/{grp}", lab, lambda: minres(cnt, b, shifts=sh_use, value=value))
                    if not done:
                        continue
                    # stopped by the hard iteration cap min(max_iter, n+1)+2 (not by the convergence test) and n large enough for
                    # finite termination to be lost in floating point: own group
                    capped = "_at_iteration_cap" if (cnt.calls >= n + 4 and n > 9) else ""
                    b2 = b.unsqueeze(-1) if b.dim() == 1 else b
                    exp, conds_s = _expected_solution(K, A64, b2.double(), sh_use, value)
                    several = sh_use is not None and sh_use.numel() > 1
                    e_shape = tuple(exp.shape) if several else tuple(exp.shape[1:])
                    if b.dim() == 1:
                        e_shape = e_shape[:-1]
                    okshape = tuple(x.shape) == e_shape and x.dtype == dt
                    rec.check(f"minres_shape/{grp}", lab, okshape, f"solution {tuple(x.shape)} {x.dtype}; expected {e_shape} (leading shift dimension iff several shifts)")
                    if not okshape:
                        continue
                    xx = x.double()
                    if b.dim() == 1:
                        xx = xx.unsqueeze(-1)
                    if not several:
                        xx = xx.unsqueeze(0)
                    fin = bool(torch.isfinite(xx).all())
                    rec.check(f"minres_finite/{grp}", lab, fin, "NaN/inf in the solution")
                    if not fin:
                        continue
                    zero_cols = (b2.double().norm(dim=-2) == 0).expand(exp.shape[1:-2] + (exp.shape[-1],))
                    if bool(zero_cols.any()):
                        rec.check(f"minres_zero_column/{grp}", lab, bool((xx[..., :, :][:, zero_cols.unsqueeze(-2).expand(exp.shape[1:])] == 0).all()), "a zero right-hand side column does not give an exactly zero solution")
                    worst, ok = 0.0, True
                    for q in range(exp.shape[0]):
                        err = (xx[q] - exp[q]).norm(dim=-2) / exp[q].norm(dim=-2).clamp_min(1e-300)
                        err = err.masked_fill(zero_cols, 0)
                        bound = 2 * tol * (1 + math.sqrt(conds_s[q])) + 200 * em * conds_s[q]
                        worst = max(worst, float(err.max()) / bound)
                        ok = ok and bool((err <= bound).all())
                    if not capped and max(conds_s) > 2e3:
                        # left by the update-size test on an ill-conditioned system: MINRES has plateaus there, the size of
                        # the last update says little about the error; nothing beyond the literal test can be demanded
                        rec.check(f"minres_solution/{grp}", lab, True, nontrivial=False)
                        continue
                    if not capped:
                        ok = worst <= 5.0  # (update-size test: error <~ update / (1 - rate), averaged over shifts and columns)
                    rec.check(f"minres_solution{capped}/{grp}", lab, ok, f"relative error exceeds 2 tol (1 + sqrt(kappa_s)) + arithmetic by the factor {worst:.3g} (kappa_s {[f'{c:.3g}' for c in conds_s]})")
                rec.check(f"minres_inputs_untouched/{kind}-{dtname}", _lab(dt=dtname, n=n, b=batch, shifts=sname, rhs=rk), torch.equal(b, bc) and (sc is None or torch.equal(shifts, sc)), "rhs or shifts were modified")
            # ---- linearity in b: exact power-of-two scalings (tight), a generic scaling and additivity (to the tolerance)
            b = K.zoo.rn(g, *batch, n, 3, dtype=dt)
            b_other = K.zoo.rn(g, *batch, n, 3, dtype=dt)
            shifts = variants["vec3"]
            lab = _lab(dt=dtname, kind=kind, cond=f"{cond:g}", n=n, b=batch)
            scp = torch.tensor([1.0, -4.0, 2.0 ** -12], dtype=dt)
            cnt = K.Counting(A.matmul)
            with settings.minres_tolerance(1e-4):
                done, out = rec.guard(f"minres_linearity/{kind}-{dtname}", lab, lambda: (minres(cnt, b, shifts=shifts), minres(cnt, b * scp, shifts=shifts), minres(cnt, b * -3.0, shifts=shifts),
                                                                                              minres(cnt, b_other, shifts=shifts), minres(cnt, b + b_other, shifts=shifts)))
            capped = "_at_iteration_cap" if (cnt.calls >= 5 * (n + 4) - 4 and n > 9) else ""
            if done:
                x1, x2, x3, x4, x5 = [o.double() for o in out]
                nr = x1.norm(dim=-2).clamp_min(1e-300)
                d = ((x2 / scp.double()) - x1).norm(dim=-2) / nr
                rec.check(f"minres_scaling_exact/{kind}-{dtname}", lab, bool((d <= 16 * em).all()), f"x(b*2^k)/2^k differs from x(b) by {d.max().item():.3e} (relative)")
                kap = cond
                slack = 4 * 1e-4 * (1 + math.sqrt(kap)) + 400 * em * kap
                d = ((x3 / -3.0) - x1).norm(dim=-2) / nr
                rec.check(f"minres_scaling_generic{capped}/{kind}-{dtname}", lab, bool((d <= slack).all()), f"x(-3b)/-3 differs from x(b) by {d.max().item():.3e} (relative)")
                d = (x5 - x1 - x4).norm(dim=-2) / (x1.norm(dim=-2) + x4.norm(dim=-2)).clamp_min(1e-300)
                rec.check(f"minres_additive{capped}/{kind}-{dtname}", lab, bool((d <= 2 * slack).all()), f"x(b1+b2) differs from x(b1)+x(b2) by {d.max().item():.3e} (relative)")
            # ---- preconditioners (shift 0: the solution of K x = b whatever SPD preconditioner is used)
            for pk in (["jacobi", "lowrank", "randspd", "exact"] if tier == "thorough" else [["jacobi", "lowrank"], ["randspd", "exact"]][seed % 2]):
                P64, _ = K.precond_dense(g, A64, pk)
                P = P64.to(dt)
                lab = _lab(dt=dtname, kind=kind, cond=f"{cond:g}", n=n, b=batch, pre=pk)
                tolp = 1e-7 if dt == torch.float64 else 1e-4
                cnt = K.Counting(A.matmul)
                with settings.minres_tolerance(tolp):
                    done, x = rec.guard(f"minres_precond/{pk}-{dtname}", lab, lambda: minres(cnt, b, preconditioner=lambda v: P @ v))
                capped = "_at_iteration_cap" if (cnt.calls >= n + 4 and n > 9) else ""
                if done:
                    xs = torch.linalg.solve(A64, b.double())
                    kP = float(torch.linalg.cond(P.double()).max())
                    kA = float(torch.linalg.cond(A64).max())
                    ok = x.shape == b.shape and bool(torch.isfinite(x).all())
                    if ok:
                        err = (x.double() - xs).norm(dim=-2) / xs.norm(dim=-2)
                        bound = 2 * tolp * (1 + math.sqrt(kA * kP)) + 400 * em * kA * max(1.0, math.sqrt(kP))
                        ok = bool((err <= bound).all())
                    rec.check(f"minres_precond{capped}/{pk}-{dtname}", lab, ok, f"shape {tuple(x.shape)}; preconditioned solve of K x = b is off by {((x.double() - xs).norm() / xs.norm()).item() if x.shape == b.shape else float('nan'):.3e}")
                    # with a preconditioner closure P the shifted systems of msMINRES are (K + s P^-1) x = b (by design, used by the
                    # preconditioned contour quadrature); pinned down here so that regressions of that path are seen
                    with settings.minres_tolerance(tolp):
                        done, xsft = rec.guard(f"minres_precond_shifted/{pk}-{dtname}", lab, lambda: minres(A.matmul, b, shifts=torch.tensor([0.0, 1.5], dtype=dt), preconditioner=lambda v: P @ v))
                    if done and xsft.shape == (2, *b.shape):
                        eye = torch.eye(n, dtype=torch.float64)
                        x_lit = torch.linalg.solve(A64 + 1.5 * eye, b.double())
                        x_pre = torch.linalg.solve(A64 + 1.5 * torch.linalg.inv(P.double()), b.double())
                        e_lit = float(((xsft[1].double() - x_lit).norm(dim=-2) / x_lit.norm(dim=-2)).max())
                        e_pre = float(((xsft[1].double() - x_pre).norm(dim=-2) / x_pre.norm(dim=-2)).max())
                        rec.check(f"minres_precond_shifted_characterisation{capped}/{pk}-{dtname}", lab, e_pre <= bound or e_lit <= bound, f"shifted preconditioned solve solves neither (K + s I) x = b ({e_lit:.3e}) nor (K + s P^-1) x = b ({e_pre:.3e})")
    return rec.obligations()


def rtc_minres_special(tier):
    """sizes 1 and 2, exact breakdown of the underlying Lanczos process, iteration limits"""
    from contracts.rtc_common import Recorder
    from contracts.rtc_C08 import kit

    K = kit()
    torch = K.torch
    from linear_operator import settings
    from linear_operator.utils.minres import minres

    rec = Recorder(PID)
    for dtname, dt in K.DT.items():
        em = _em(K, dt)
        g = K.gen(5)
        cases = []
        for n in (1, 2, 3, 6):
            eye = torch.eye(n, dtype=dt)
            cases.append((f"A=2*identity|n={n}", 2 * eye, K.zoo.rn(g, n, 2, dtype=dt)))
            D = torch.diag(torch.arange(1, n + 1, dtype=dt))
            e = torch.zeros(n, 1, dtype=dt)
            e[: min(2, n)] = 1
            cases.append((f"A=diag(1..n)|b=e0+e1|n={n}", D, e))
            cases.append((f"A=spd|b=random|n={n}", K.spd(g, (), n, "uniform", 10.0, dt), K.zoo.rn(g, n, 2, dtype=dt)))
            if n > 1:
                cases.append((f"A=batch(spd,identity)|n={n}", torch.stack([K.spd(g, (), n, "uniform", 10.0, dt), eye]), K.zoo.rn(g, 2, n, 2, dtype=dt)))
        for name, A, b in cases:
            for sname, shifts in (("none", None), ("vec2", torch.tensor([0.0, 1.0], dtype=dt))):
                lab = _lab(dt=dtname, case=name, shifts=sname)
                exact_bd = "identity" in name or "e0+e1" in name or "n=1" in name
                grp = f"{'exact_breakdown' if exact_bd else 'small'}-{dtname}"
                done, x = rec.guard(f"minres_special/{grp}", lab, lambda: minres(A.matmul, b, shifts=shifts))
                if not done:
                    continue
                exp, conds_s = _expected_solution(K, A.double(), b.double(), shifts, None)
                if shifts is None:
                    exp = exp[0]
                ok = tuple(x.shape) == tuple(exp.shape) and bool(torch.isfinite(x).all())
                if ok:
                    ok = bool(((x.double() - exp).norm(dim=-2) <= (1e-3 * (1 + math.sqrt(max(conds_s))) + 200 * em * max(conds_s)) * exp.norm(dim=-2)).all())
                rec.check(f"minres_special/{grp}", lab, ok, f"shape {tuple(x.shape)} vs {tuple(exp.shape)}, finite={bool(torch.isfinite(x).all())}, max err {(x.double() - exp).abs().max().item() if x.shape == exp.shape else float('nan'):.3e}")
        # iteration limit: max_iter / settings.max_cg_iterations bound the number of matmul calls (limit + 3)
        A = K.spd(g, (), 30, "geometric", 1e3, dt)
        b = K.zoo.rn(g, 30, 2, dtype=dt)
        for how, mi in (("arg", 4), ("setting", 6), ("arg", 50)):
            cnt = K.Counting(A.matmul)
            with settings.max_cg_iterations(mi if how == "setting" else 1000):
                done, x = rec.guard(f"minres_iteration_limit/{dtname}", f"{how}={mi}", lambda: minres(cnt, b, max_iter=(mi if how == "arg" else None)))
            if done:
                lim = min(mi, 31) + 3
                rec.check(f"minres_iteration_limit/{dtname}", f"{how}={mi}", cnt.calls <= lim and x.shape == b.shape, f"{cnt.calls} matmul calls for max_iter {mi} (n = 30)")
    return rec.obligations()


def _ciq_tol(K, dt, kap, mtol, Q):
    em = _em(K, dt)
    return 4 * mtol * (1 + math.sqrt(kap)) + 10 * math.exp(-2 * math.pi ** 2 * Q / (math.log(kap) + 3)) + 2e3 * em * kap


def rtc_ciq(dtname, kinds, tier):
    from contracts.rtc_common import Recorder
    from contracts.rtc_C08 import kit
    from unittest import mock

    K = kit()
    torch = K.torch
    import linear_operator
    from linear_operator import settings
    from linear_operator.operators import DenseLinearOperator
    from linear_operator.utils.contour_integral_quad import contour_integral_quad

    rec = Recorder(PID)
    dt = K.DT[dtname]
    sizes = K.sizes(tier, [1, 2, 3, 6, 11, 20, 33], [1, 2, 3, 4, 6, 8, 11, 15, 20, 26, 33, 40])
    seed = 0
    for kind, n in itertools.product(kinds, sizes):
        conds = [10.0, 1e2] + ([1e4] if (n <= 20 and dt == torch.float64) else [])
        for cond, batch in itertools.product(conds, K.BATCHES):
            if n > 11 and batch == (2, 3):
                continue
            seed += 1
            if tier == "quick" and n > 6 and seed % 2:
                continue
            torch.set_default_dtype(torch.float64 if (seed % 2 == 0 and dt == torch.float32) else torch.float32)  # default dtype != operator dtype in half of the cases (one OS process per unit: no restore needed)
            g = K.gen(80000 + seed)
            A = K.spd(g, batch, n, kind, cond, dt, vary=False)
            A64 = A.double()
            kap = float(torch.linalg.cond(A64).max())
            Am12, Ap12, Ainv = _fpow(K, A64, -0.5), _fpow(K, A64, 0.5), torch.linalg.inv(A64)
            ncols = [1, 3][seed % 2]
            mtol = [1e-4, 1e-7 if dt == torch.float64 else 1e-5][(seed // 2) % 2]
            Q = [15, 15, 25, 8][seed % 4]
            lab = _lab(dt=dtname, kind=kind, cond=f"{cond:g}", n=n, b=batch, cols=ncols, mtol=f"{mtol:g}", Q=Q)
            grp = f"{kind}-{dtname}" if n > 1 else f"size1-{dtname}"  # 1x1: the Krylov space is exhausted after one step"
            tol = _ciq_tol(K, dt, kap, mtol, Q)
            # is the inner MINRES cut by its hard iteration cap on this matrix (instead of leaving by its convergence test)?
            from linear_operator.utils.minres import minres as _minres
            cntp = K.Counting(A.matmul)
            with settings.minres_tolerance(mtol):
                try:
                    _minres(cntp, K.zoo.rn(K.gen(seed), *batch, n, 1, dtype=dt), value=-1)
                except Exception:  # noqa
                    pass
            if cntp.calls >= n + 4 and n > 9 and kap > 2e3:
                grp = grp + "-minres_at_iteration_cap"
            # (every fifth instance: the setting differs from the explicit num_contour_quadrature argument, which must win for nodes AND weights)
            setQ = Q if seed % 5 else Q + 4
            with settings.minres_tolerance(mtol), settings.num_contour_quadrature(setQ):
                # ---- contour_integral_quad itself
                for inverse in (True, False):
                    for extra in ((), (2,)):  # extra leading rhs dimensions as used by the sampling code
                        b = K.zoo.rn(g, *extra, *batch, n, ncols, dtype=dt)
                        lab2 = lab + f"|inverse={int(inverse)}|extra={extra}"
                        done, out = rec.guard(f"ciq_run/{grp}", lab2, lambda: contour_integral_quad(DenseLinearOperator(A), b, inverse=inverse, num_contour_quadrature=(Q if (seed % 3 or seed % 5 == 0) else None)))
                        if not done:
                            continue
                        solves, weights, no_shift, shifts = out
                        full = (*extra, *batch)
                        oks = tuple(solves.shape) == (Q, *full, n, ncols) and weights.shape[0] == Q and tuple(weights.shape[-2:]) == (1, 1) and shifts.shape[0] == Q + 1 and tuple(no_shift.shape) == (*full, n, ncols)
                        try:
                            r = (solves * weights).sum(0)
                            oks = oks and tuple(r.shape) == (*full, n, ncols)
                        except Exception:  # noqa
                            oks, r = False, None
                        rec.check(f"ciq_shapes/{grp}", lab2, oks, f"solves {tuple(solves.shape)} weights {tuple(weights.shape)} shifts {tuple(shifts.shape)} no_shift {tuple(no_shift.shape)}; expected solves {(Q, *full, n, ncols)}")
                        if not oks:
                            continue
                        exp = (Am12 if inverse else Ap12) @ b.double()
                        err = float(((r.double() - exp).norm(dim=-2) / exp.norm(dim=-2)).max())
                        rec.check(f"ciq_weighted_sum/{grp}", lab2, err <= tol, f"sum_q w_q solve_q differs from K^{'-1/2' if inverse else '1/2'} b by {err:.3e} (allowed {tol:.3e})")
                        # the unshifted solve is the solution of (-K) x = b (it feeds the inverse quadratic form)
                        exp0 = -(Ainv @ b.double())
                        err0 = float(((no_shift.double() - exp0).norm(dim=-2) / exp0.norm(dim=-2)).max())
                        rec.check(f"ciq_no_shift_solve/{grp}", lab2, err0 <= tol * (1 + math.sqrt(kap)), f"unshifted solve differs from -K^-1 b by {err0:.3e}")
                # ---- sqrt_inv_matmul (method and function), applied twice = A^{-1} R
                R = K.zoo.rn(g, *batch, n, ncols, dtype=dt)
                for how, fn in (("method", lambda op, *a: op.sqrt_inv_matmul(*a)), ("function", lambda op, *a: linear_operator.sqrt_inv_matmul(op, *a))):
                    if how == "function" and seed % 3:
                        continue
                    done, out = rec.guard(f"sqrt_inv_matmul/{grp}", lab + f"|{how}", lambda: fn(DenseLinearOperator(A), fn(DenseLinearOperator(A), R)))
                    if done:
                        exp = Ainv @ R.double()
                        ok = out.shape == R.shape and out.dtype == dt
                        err = float(((out.double() - exp).norm(dim=-2) / exp.norm(dim=-2)).max()) if ok else float("nan")
                        rec.check(f"sqrt_inv_matmul_twice/{grp}", lab + f"|{how}", ok and err <= 2 * tol * (1 + math.sqrt(kap)), f"shape {tuple(out.shape)}; A^-1/2 (A^-1/2 R) differs from A^-1 R by {err:.3e}")
                if not batch:
                    rv = R[..., 0]
                    done, out = rec.guard(f"sqrt_inv_matmul/{grp}", lab + "|vector", lambda: DenseLinearOperator(A).sqrt_inv_matmul(rv))
                    if done:
                        exp = Am12 @ rv.double()
                        rec.check(f"sqrt_inv_matmul_vector/{grp}", lab, out.shape == rv.shape and float((out.double() - exp).norm() / exp.norm()) <= tol, f"vector rhs: shape {tuple(out.shape)}")
                # ---- left-factor variant
                for nl in (1, 4):
                    Lf = K.zoo.rn(g, *batch, nl, n, dtype=dt)
                    done, out = rec.guard(f"sqrt_inv_matmul_lhs/{grp}", lab + f"|lhs_rows={nl}", lambda: DenseLinearOperator(A).sqrt_inv_matmul(R, Lf))
                    if done:
                        ok = isinstance(out, tuple) and len(out) == 2
                        if ok:
                            res, iq = out
                            e1 = Lf.double() @ Am12 @ R.double()
                            e2 = ((Lf.double() @ Ainv) * Lf.double()).sum(-1)
                            ok = res.shape == e1.shape and iq.shape == e2.shape
                            d1 = float((res.double() - e1).norm() / e1.norm()) if ok else float("nan")
                            d2 = float(((iq.double() - e2).abs() / e2.abs()).max()) if ok else float("nan")
                            rec.check(f"sqrt_inv_matmul_lhs_product/{grp}", lab + f"|lhs_rows={nl}", ok and d1 <= tol * (1 + math.sqrt(kap)), f"shapes {tuple(res.shape)} {tuple(iq.shape)} vs {tuple(e1.shape)} {tuple(e2.shape)}; L A^-1/2 R off by {d1:.3e}")
                            rec.check(f"sqrt_inv_matmul_lhs_inv_quad/{grp}", lab + f"|lhs_rows={nl}", ok and d2 <= tol * (1 + kap), f"diag(L A^-1 L^T) off by {d2:.3e} (relative)")
                        else:
                            rec.check(f"sqrt_inv_matmul_lhs_product/{grp}", lab + f"|lhs_rows={nl}", False, "did not return a pair")
                # ---- contour-integral sampling has covariance A: identity base samples
                if (seed % 2 == 0 or tier == "thorough") and n <= 20:
                    eye = torch.eye(n, dtype=dt).expand(*batch, n, n).contiguous()
                    done, out = rec.guard(f"ciq_root_covariance/{grp}", lab, lambda: contour_integral_quad(DenseLinearOperator(A), eye, inverse=False))
                    if done:
                        S = (out[0] * out[1]).sum(0).double()
                        err = float(torch.linalg.matrix_norm(S @ S.mT - A64, 2).max() / torch.linalg.matrix_norm(A64, 2).max())
                        rec.check(f"ciq_root_covariance/{grp}", lab, err <= 3 * tol, f"S S^T differs from A by {err:.3e} (relative)")

                    def fake_randn(*shape, **kw):
                        # base samples of shape (*batch, n, num_samples) -> identity columns
                        t = torch.eye(n, dtype=kw.get("dtype", dt)).expand(*shape[:-2], n, n)[..., : shape[-1]]
                        return t.contiguous()

                    with settings.ciq_samples(True), mock.patch("torch.randn", fake_randn):
                        done, smp = rec.guard(f"ciq_sampling_covariance/{grp}", lab, lambda: DenseLinearOperator(A).zero_mean_mvn_samples(n))
                    if done:
                        ok = tuple(smp.shape) == (n, *batch, n)
                        if ok:
                            Sm = smp.double().movedim(0, -1)  # (*batch, n, samples): column i = A^{1/2} e_i
                            err = float(torch.linalg.matrix_norm(Sm @ Sm.mT - A64, 2).max() / torch.linalg.matrix_norm(A64, 2).max())
                            ok = err <= 3 * tol
                        rec.check(f"ciq_sampling_covariance/{grp}", lab, ok, f"samples {tuple(smp.shape)}; sample covariance with identity base samples differs from A")
    return rec.obligations()


def rtc_ciq_precond(tier):
    """operator class with a preconditioner (AddedDiagLinearOperator with the pivoted-Cholesky preconditioner switched on)"""
    from contracts.rtc_common import Recorder
    from contracts.rtc_C08 import kit

    K = kit()
    torch = K.torch
    from linear_operator import settings
    from linear_operator.operators import AddedDiagLinearOperator, DenseLinearOperator, DiagLinearOperator

    rec = Recorder(PID)
    for dtname, dt in K.DT.items():
        seed = 0
        for n, batch, kind in itertools.product([2, 5, 12, 20] if tier == "quick" else [2, 3, 5, 8, 12, 16, 20], [(), (2,)], ["uniform", "geometric"]):
            seed += 1
            g = K.gen(90000 + seed)
            Km = K.spd(g, batch, n, kind, 50.0, dt, vary=False)
            d = (K.zoo.rn(g, *batch, n, dtype=dt).abs() + 0.5) if seed % 2 else torch.full((*batch, n), 0.7, dtype=dt)
            M = Km.double() + torch.diag_embed(d.double())
            Minv = torch.linalg.inv(M)
            kap = float(torch.linalg.cond(M).max())
            for rank in (1, 3):
                lab = _lab(dt=dtname, kind=kind, n=n, b=batch, noise="per_element" if seed % 2 else "const", rank=rank)
                mtol = 1e-8 if dt == torch.float64 else 1e-5
                tol = _ciq_tol(K, dt, kap * 4, mtol, 15) * 4
                with settings.min_preconditioning_size(1), settings.max_preconditioner_size(rank), settings.minres_tolerance(mtol):
                    op = AddedDiagLinearOperator(DenseLinearOperator(Km), DiagLinearOperator(d))
                    eye = torch.eye(n, dtype=dt).expand(*batch, n, n).contiguous()
                    done, R = rec.guard(f"ciq_precond_run/{dtname}", lab, lambda: op.sqrt_inv_matmul(eye))
                    if not done:
                        continue
                    ok = R.shape == eye.shape and bool(torch.isfinite(R).all())
                    rec.check(f"ciq_precond_run/{dtname}", lab, ok, f"shape {tuple(R.shape)} finite={bool(torch.isfinite(R).all())}")
                    if not ok:
                        continue
                    Rd = R.double()
                    e_cov = float((torch.linalg.matrix_norm(Rd @ Rd.mT - Minv, 2) / torch.linalg.matrix_norm(Minv, 2)).max())
                    # what holds with a preconditioner: a (non-symmetric) root of the inverse -> sampling covariance
                    rec.check(f"ciq_precond_root_of_inverse/{dtname}", lab, e_cov <= tol * (1 + math.sqrt(kap)), f"R R^T differs from A^-1 by {e_cov:.3e} (relative)")
    return rec.obligations()


def rtc_ciq_zoo(case_names, tier):
    from contracts.rtc_common import Recorder
    from contracts.rtc_C08 import kit

    K = kit()
    torch = K.torch
    zoo = K.zoo
    from linear_operator import settings

    rec = Recorder(PID)
    for label, c, op, dense in zoo.instances(tier, names=case_names, psd=True, square=True, seed=K.SEED):
        if op is None:
            continue
        dt = dense.dtype
        n = dense.shape[-1]
        batch = tuple(dense.shape[:-2])
        D = dense.double()
        D = 0.5 * (D + D.mT)
        ev = torch.linalg.eigvalsh(D)
        if float(ev.min()) <= 0:
            continue
        kap = float((ev[..., -1] / ev[..., 0]).max())
        if kap > 1e4:
            continue
        g = K.gen(n + 3)
        mtol = 1e-8 if dt == torch.float64 else 1e-5
        tol = _ciq_tol(K, dt, kap, mtol, 15)
        Am12, Ainv = _fpow(K, D, -0.5), torch.linalg.inv(D)
        R = zoo.rn(g, *batch, n, 2, dtype=dt)
        Lf = zoo.rn(g, *batch, 3, n, dtype=dt)
        eye_ = torch.eye(n, dtype=torch.float64)
        scalar = bool(((D - D.diagonal(dim1=-1, dim2=-2).mean(-1)[..., None, None] * eye_).abs().amax((-1, -2)) <= 1e-12 * ev[..., -1]).any())
        # multiples of the identity (incl. 1x1) of every class share one group: the Krylov space is exhausted after one step
        cname = c.name if not scalar else f"scalar_matrix-{str(dt)[6:]}"
        with settings.minres_tolerance(mtol):
            done, out = rec.guard(f"zoo_sqrt_inv_matmul/{c.name}", label, lambda: op.sqrt_inv_matmul(R))
            if done:
                exp = Am12 @ R.double()
                ok = out.shape == exp.shape and out.dtype == dt
                err = float(((out.double() - exp).norm(dim=-2) / exp.norm(dim=-2)).max()) if ok else float("nan")
                rec.check(f"zoo_sqrt_inv_matmul/{cname}", label, ok and err <= tol, f"shape {tuple(out.shape)} vs {tuple(exp.shape)}; A^-1/2 R off by {err:.3e} (allowed {tol:.3e})")
            done, out = rec.guard(f"zoo_sqrt_inv_matmul_lhs/{c.name}", label, lambda: op.sqrt_inv_matmul(R, Lf))
            if done:
                ok = isinstance(out, tuple) and len(out) == 2
                if ok:
                    res, iq = out
                    e1 = Lf.double() @ Am12 @ R.double()
                    e2 = ((Lf.double() @ Ainv) * Lf.double()).sum(-1)
                    ok = res.shape == e1.shape and iq.shape == e2.shape
                    if ok:
                        ok = float((res.double() - e1).norm() / e1.norm()) <= tol * (1 + math.sqrt(kap)) and float(((iq.double() - e2).abs() / e2.abs()).max()) <= tol * (1 + kap)
                rec.check(f"zoo_sqrt_inv_matmul_lhs/{cname}", label, ok, "left-factor variant: wrong shapes or values (L A^-1/2 R, diag(L A^-1 L^T))")
    return rec.obligations()


def rtc_units(tier):
    from contracts.zoo_names import CASE_NAMES

    M = "contracts.rtc_C11"
    us = []
    for dtn in ("f64", "f32"):
        for kind in ("uniform", "clustered", "geometric"):
            us.append(Unit(f"{PID}/rtc/minres[{dtn},{kind}]", M, "rtc_minres", (dtn, [kind], tier), engine="rtc", timeout_s=1500))
        for kinds in (["uniform", "clustered"], ["geometric"]):
            us.append(Unit(f"{PID}/rtc/ciq[{dtn},{'+'.join(kinds)}]", M, "rtc_ciq", (dtn, kinds, tier), engine="rtc", timeout_s=1500))
    us.append(Unit(f"{PID}/rtc/minres_special", M, "rtc_minres_special", (tier,), engine="rtc", timeout_s=900))
    us.append(Unit(f"{PID}/rtc/ciq_precond", M, "rtc_ciq_precond", (tier,), engine="rtc", timeout_s=900))
    half = (len(CASE_NAMES) + 1) // 2
    us.append(Unit(f"{PID}/rtc/ciq_zoo[a]", M, "rtc_ciq_zoo", (CASE_NAMES[:half], tier), engine="rtc", timeout_s=1500))
    us.append(Unit(f"{PID}/rtc/ciq_zoo[b]", M, "rtc_ciq_zoo", (CASE_NAMES[half:], tier), engine="rtc", timeout_s=1500))
    return us


RTC_META = {
    "explanation": "run-time contracts on minres (every shift solves (value*K + s I) x = b within 2 tol (1+sqrt(kappa_s)), shape rule for the shift "
                   "dimension, zero columns, exact / generic scaling, additivity, preconditioners, exact breakdown, iteration limits), on "
                   "contour_integral_quad (shapes, weighted sum = K^-1/2 b or K^1/2 b to quadrature + MINRES accuracy, unshifted solve), on "
                   "sqrt_inv_matmul (twice = A^-1 R, left-factor variant, vector rhs, function form, PSD zoo classes, preconditioned class) and on the "
                   "contour-integral sampling branch (identity base samples reproduce the covariance)",
    "assumptions": ["float64 solve / eigh of torch are the oracle",
                    "'within its stopping tolerance' is read as relative error <= 2 tol (1 + sqrt(kappa_s)) + 200 eps kappa_s (update-size criterion of a linearly converging iteration)",
                    "quadrature accuracy is modelled by 10 exp(-2 pi^2 Q / (log kappa + 3)) (Hale-Higham-Trefethen)"],
    "families": "spectra uniform/clustered/geometric; MINRES: kappa 10/1e2/1e4 (f32: <=1e2), sizes 1..40, batch shapes (),(2,),(1,),(2,3) (also rhs broadcast), "
                "rhs vector/(n,1)/(n,3)/zero column, shifts None/0-d/(1,)/(2,)/(3,)/batched (3,*b)/(1,*b), value None/2/-1, tolerances 1e-1/1e-4/1e-10, "
                "preconditioners Jacobi/low-rank+diag/unrelated SPD/exact inverse; quadrature: sizes 1..33(40), kappa 10/1e2 (1e4 for n<=20), Q in {8,15,25}, "
                "minres_tolerance 1e-4/1e-10, extra leading rhs dimensions, inverse on/off, lhs rows 1/4, f32/f64",
}
