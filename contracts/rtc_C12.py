"""C12 bounded tier — cached results are transparent: answers do not depend on query history.

A *symbol* is (query, settings context); 37 symbols (see _alphabet).  For one operator instance the harness
  1. runs every symbol on a fresh copy (structural copy of the never-queried operator)        -> reference results;
     symbols whose fresh result is itself outside the method tolerance (or raises) are dropped for this instance,
  2. explores query histories as a trie of operator states (state = structural copy of the parent state + one query;
     operators / caches are copied, tensors shared):
       quick    : all histories of length <= 2 over the usable alphabet F (37 x 37), and on the first instance of a case
                  the length-3 histories p1 p2 f with p1, p2 in 12 factorization-writing symbols and f in 16
                  cache-reading symbols;
       thorough : more instances, the length-3 family 20 x 20 x 27 on the first two instances, and 60 random histories
                  of length 4-6 per instance executed from scratch on a newly built operator,
     and compares the LAST result of every history with the reference of the same symbol:
       error against the independent dense oracle  <=  max(tolerance of the methods involved in the history, 4 x error of
       the fresh copy);  deterministic explicit-method queries additionally entry-wise equal to the fresh result (a cached
       factor of another orientation / method served under the wrong key is caught here even if it factorizes D),
  3. after every prefix state: densifies / multiplies out every entry of ``_memoize_cache`` of the operator and of its
     sub-operators (and the ad-hoc caches of AddedDiag / Interpolated) and checks it against the matrix of the object it
     hangs on (a TriangularLinearOperator in a cache must hold a triangular matrix),
  4. after prefix states of length <= 1 (for add_low_rank / cat_rows also length 2 over root-writer x inverse-root-writer
     pairs, and derived under changed settings): builds the derived operators add_jitter, add_diagonal, add_low_rank,
     cat_rows, op[..., :m, :m], op[0], mT, op * c, expand; validates every cache entry they carry against the dense matrix
     of the DERIVED operator and runs a battery of queries on them, compared with a cache-free copy (derived.clone()).
A failing history found on copied states is re-executed from scratch on a newly built operator before it is recorded
(a history that does not reproduce is recorded under selfcheck/...)."""
from __future__ import annotations

from engine.common import Unit

PID = "C12"

ZOO_PSD = ['dense_psd', 'diag', 'constdiag', 'identity', 'toeplitz', 'chol_lower', 'chol_upper', 'kron2', 'kron_diag', 'kpad_const', 'kpad_diag', 'sumkron',
           'addeddiag', 'lrr_addeddiag', 'sum', 'psdsum', 'mul', 'constmul', 'blockdiag', 'blockinterleaved', 'blockinterleaved3', 'sumbatch', 'batchrepeat',
           'batchrepeat2', 'user_psd', 'nest_sum_kron_root_diag', 'nest_blockdiag_toeplitz', 'nest_sumbatch_kron']


def _setup():
    import os
    import warnings

    import torch

    torch.set_num_threads(1)
    warnings.simplefilter("ignore")
    from contracts import zoo  # noqa: F401
    from contracts.rtc_common import Recorder

    return torch, zoo, Recorder(PID), int(os.environ.get("VERIF_SEED", "0") or 0)


# ------------------------------------------------------------------------------------------
# operator states

def _fork(x, memo=None):
    """structural copy of an operator state: operators, their attribute dicts, caches (dict / list / tuple containers) are
    copied, tensors and other leaves are shared.  (copy.deepcopy would also copy every tensor: ~5x slower.)"""
    from linear_operator.operators import LinearOperator

    if memo is None:
        memo = {}
    i = id(x)
    if i in memo:
        return memo[i]
    t = type(x)
    if isinstance(x, LinearOperator):
        y = object.__new__(t)
        memo[i] = y
        for k, v in x.__dict__.items():
            y.__dict__[k] = _fork(v, memo)
        return y
    if t is dict:
        y = {}
        memo[i] = y
        for k, v in x.items():
            y[k] = _fork(v, memo)
        return y
    if t is list:
        y = []
        memo[i] = y
        y.extend(_fork(v, memo) for v in x)
        return y
    if t is tuple:
        y = tuple(_fork(v, memo) for v in x)
        return y
    return x


# ------------------------------------------------------------------------------------------
# settings contexts

class _Ctx:
    def __init__(self, *ctxs):
        self.ctxs = ctxs

    def __enter__(self):
        for c in self.ctxs:
            c.__enter__()

    def __exit__(self, *a):
        for c in reversed(self.ctxs):
            c.__exit__(*a)
        return False


def _ctx(name):
    from linear_operator import settings as S

    if name == "dflt":
        return _Ctx()
    if name == "small":  # everything is "large": iterative roots, CG solves with preconditioner, stochastic logdet
        return _Ctx(S.max_cholesky_size(1), S.min_preconditioning_size(1))
    if name == "small_off":  # large, but fast computations switched off -> direct methods again
        return _Ctx(S.max_cholesky_size(1), S.min_preconditioning_size(1), S.fast_computations(covar_root_decomposition=False, log_prob=False, solves=False))
    raise KeyError(name)


# ------------------------------------------------------------------------------------------
# oracle pack + result summaries

class _Oracle:
    def __init__(self, torch, dense, seed):
        self.torch = torch
        self.dt = dense.dtype
        self.D = dense.to(torch.float64)
        self.n = dense.shape[-1]
        self.batch = tuple(dense.shape[:-2])
        self.Dinv = torch.linalg.inv(self.D)
        g = torch.Generator()
        g.manual_seed(777 + seed)
        self.rhs = torch.randn(*self.batch, self.n, 2, generator=g, dtype=torch.float64).to(self.dt)
        self.rhs64 = self.rhs.to(torch.float64)
        self.sol = self.Dinv @ self.rhs64
        self.logdet = torch.logdet(self.D)
        self.invquad = (self.rhs64 * self.sol).sum((-2, -1))
        self.dscale = max(1.0, float(self.D.abs().max()))
        self.iscale = max(1e-300, float(self.Dinv.abs().max()))


def _strip1(shape):
    sh = list(shape)
    while len(sh) > 2 and sh[0] == 1:
        sh.pop(0)
    return tuple(sh)


def _rel(a, b, scale):
    if tuple(a.shape) != tuple(b.shape):
        # a factor that only lacks leading size-1 batch dimensions (Lanczos roots drop them: C06 owns shape exactness) is compared by value
        if _strip1(a.shape) != _strip1(b.shape):
            return float("inf")
        a, b = a.reshape(_strip1(a.shape)), b.reshape(_strip1(b.shape))
    if a.numel() == 0:
        return 0.0
    d = (a.to(b.dtype) - b).abs()
    if not bool(d.isfinite().all()):
        return float("inf")
    return float(d.max()) / scale


def _dn(x):
    return x.to_dense() if hasattr(x, "to_dense") else x


class _Res:
    """summary of one query result: err (vs dense oracle, relative), canon (tensors for entry-wise comparison with the
    fresh copy), struct (structural defect or None), dtype_ok"""

    def __init__(self, err, canon=(), struct=None, dtype_ok=True, extra=""):
        self.err, self.canon, self.struct, self.dtype_ok, self.extra = err, tuple(canon), struct, dtype_ok, extra


def _tri_struct(torch, opv, what):
    """a TriangularLinearOperator must hold a triangular tensor of the declared orientation"""
    from linear_operator.operators.triangular_linear_operator import TriangularLinearOperator

    if isinstance(opv, TriangularLinearOperator) and hasattr(opv, "upper"):  # (Diag operators subclass it without an orientation)
        T = opv.to_dense()
        want = T.triu() if opv.upper else T.tril()
        if not torch.equal(T, want):
            return f"{what}: TriangularLinearOperator(upper={opv.upper}) holds a non-triangular matrix (|off-triangle| = {float((T - want).abs().max()):.2e})"
    return None


# ---- queries: fn(op, O) -> _Res

def _q_to_dense(op, O):
    T = op.to_dense()
    return _Res(_rel(T, O.D, O.dscale), [T], dtype_ok=T.dtype == O.dt)


def _q_cholesky(upper):
    def f(op, O):
        torch = O.torch
        Lop = op.cholesky(upper=upper)
        L = _dn(Lop)
        L64 = L.to(torch.float64)
        rec = (L64.mT @ L64) if upper else (L64 @ L64.mT)
        st = None if torch.equal(L, L.triu() if upper else L.tril()) else f"cholesky(upper={upper}) returned a factor that is not {'upper' if upper else 'lower'} triangular"
        return _Res(_rel(rec, O.D, O.dscale), [L], st, L.dtype == O.dt)
    return f


def _q_root(method, explicit_kw=True):
    def f(op, O):
        torch = O.torch
        r = op.root_decomposition(method=method) if explicit_kw else op.root_decomposition()
        R = _dn(r.root)
        R64 = R.to(torch.float64)
        e1 = _rel(R64 @ R64.mT, O.D, O.dscale)
        e2 = _rel(r.to_dense(), O.D, O.dscale)
        st = _tri_struct(torch, r.root, "root_decomposition().root")
        return _Res(max(e1, e2), [R], st, R.dtype == O.dt)
    return f


def _q_rootinv(method, explicit_kw=True):
    def f(op, O):
        torch = O.torch
        r = op.root_inv_decomposition(method=method) if explicit_kw else op.root_inv_decomposition()
        R = _dn(r.root)
        R64 = R.to(torch.float64)
        e1 = _rel(R64 @ R64.mT, O.Dinv, O.iscale)
        e2 = _rel(r.to_dense(), O.Dinv, O.iscale)
        st = _tri_struct(torch, r.root, "root_inv_decomposition().root")
        return _Res(max(e1, e2), [R], st, R.dtype == O.dt)
    return f


def _eig_res(torch, O, evals, evecs, need_vecs=True):
    if evecs is None:
        if need_vecs:
            return _Res(float("inf"), [], "eigenvectors are None", True)
        ref = torch.linalg.eigvalsh(O.D)
        return _Res(_rel(evals.sort(-1).values, ref, O.dscale), [evals.sort(-1).values], None, evals.dtype == O.dt)
    V = _dn(evecs).to(torch.float64)
    rec = (V * evals.to(torch.float64).unsqueeze(-2)) @ V.mT
    return _Res(_rel(rec, O.D, O.dscale), [evals.sort(-1).values], None, evals.dtype == O.dt)


def _q_diagonalization(method, explicit_kw=True):
    def f(op, O):
        evals, evecs = op.diagonalization(method=method) if explicit_kw else op.diagonalization()
        return _eig_res(O.torch, O, evals, evecs)
    return f


def _q_svd(op, O):
    torch = O.torch
    U, S, V = op.svd()
    U64, V64 = _dn(U).to(torch.float64), _dn(V).to(torch.float64)
    rec = (U64 * S.to(torch.float64).unsqueeze(-2)) @ V64.mT
    return _Res(_rel(rec, O.D, O.dscale), [S.sort(-1).values], None, S.dtype == O.dt)


def _q_eigh(op, O):
    evals, evecs = op.eigh()
    return _eig_res(O.torch, O, evals, evecs)


def _q_eigvalsh(op, O):
    r = op.eigvalsh()
    if isinstance(r, tuple):
        return _Res(float("inf"), [], "eigvalsh returned a tuple instead of the eigenvalues", True)
    return _eig_res(O.torch, O, r, None, need_vecs=False)


def _q_solve(op, O):
    x = op.solve(O.rhs)
    return _Res(_rel(x, O.sol, max(1e-300, float(O.sol.abs().max()))), [x], None, x.dtype == O.dt)


def _q_logdet(op, O):
    v = op.logdet()
    return _Res(_rel(v, O.logdet, max(1.0, float(O.logdet.abs().max()))), [v], None, v.dtype == O.dt)


def _q_iql(op, O):
    iq, ld = op.inv_quad_logdet(O.rhs, logdet=True)
    e = max(_rel(iq, O.invquad, max(1.0, float(O.invquad.abs().max()))), _rel(ld, O.logdet, max(1.0, float(O.logdet.abs().max()))))
    return _Res(e, [iq, ld], None, iq.dtype == O.dt and ld.dtype == O.dt)


def _q_diagonal(op, O):
    d = op.diagonal()
    return _Res(_rel(d, O.D.diagonal(dim1=-2, dim2=-1), O.dscale), [d], None, d.dtype == O.dt)


def _q_precond(op, O):
    """the (pivoted-Cholesky) preconditioner must be self-consistent: closure(v) = P^-1 v, logdet_p = logdet(P), P symmetric"""
    torch = O.torch
    closure, P, ld = op._preconditioner()
    if closure is None and P is None:
        return _Res(0.0, [], None, True, extra="none")
    Pd = P.to_dense().to(torch.float64)
    e1 = _rel(closure(O.rhs).to(torch.float64), torch.linalg.solve(Pd, O.rhs64), max(1e-300, float(torch.linalg.solve(Pd, O.rhs64).abs().max())))
    e2 = _rel(torch.as_tensor(ld, dtype=torch.float64).expand(O.batch) if O.batch else torch.as_tensor(ld, dtype=torch.float64).reshape(()), torch.logdet(Pd), max(1.0, float(torch.logdet(Pd).abs().max())))
    e3 = _rel(Pd, Pd.mT, max(1.0, float(Pd.abs().max())))
    return _Res(max(e1, e2, e3), [Pd], None, True)


def _q_sample(op, O):
    """covariance really produced by zero_mean_mvn_samples(1) (noise generator replaced, see rtc_C18)"""
    torch = O.torch
    from contracts.rtc_C18 import _Noise, _sample_map

    with _Noise(torch) as noise:
        S0, z0, M, reqs = _sample_map(torch, op, 1, noise, "identity")
    if tuple(S0.shape) != (1, *O.batch, O.n):
        return _Res(float("inf"), [], f"sample shape {tuple(S0.shape)}", S0.dtype == O.dt)
    B = 1
    for s in O.batch:
        B *= s
    Mr = M.reshape(M.shape[0], B, O.n)
    C = torch.einsum("ebi,ebj->bij", Mr, Mr).reshape(*O.batch, O.n, O.n)
    return _Res(_rel(C, O.D, O.dscale), [], None, S0.dtype == O.dt)


def _alphabet():
    """symbols: name, query fn, settings ctx, cls ('direct': tight floor + entry-wise vs fresh; 'iter'/'loose'/'stoch'),
    writer: leaves something in a cache (used as prefix), rootw: writes a root / inverse root / factor that derivations read,
    p3 / r3: used as prefix / final query of the length-3 histories"""
    A = []

    def add(name, fn, ctx="dflt", cls="direct", writer=False, rootw=False, p3=None, r3=True):
        A.append({"name": f"{name}@{ctx}", "fn": fn, "ctx": ctx, "cls": cls, "writer": writer, "rootw": rootw, "p3": rootw if p3 is None else p3, "r3": r3})

    add("to_dense", _q_to_dense, writer=True, r3=False)
    add("cholesky(upper=False)", _q_cholesky(False), writer=True, rootw=True)
    add("cholesky(upper=True)", _q_cholesky(True), writer=True, p3=True)
    add("root_decomposition()", _q_root(None, explicit_kw=False), "dflt", "loose", True, True)
    add("root_decomposition()", _q_root(None, explicit_kw=False), "small", "loose", True, True)
    add("root_decomposition()", _q_root(None, explicit_kw=False), "small_off", "loose")
    add("root_decomposition(method=None)", _q_root(None), "dflt", "loose", True, True)
    add("root_decomposition(method=None)", _q_root(None), "small", "loose", True, True)
    add("root_decomposition(method=cholesky)", _q_root("cholesky"), writer=True, rootw=True)
    add("root_decomposition(method=symeig)", _q_root("symeig"), writer=True, rootw=True)
    add("root_decomposition(method=lanczos)", _q_root("lanczos"), cls="iter", writer=True, rootw=True)
    add("root_decomposition(method=pivoted_cholesky)", _q_root("pivoted_cholesky"), cls="iter", writer=True, r3=False)
    add("root_inv_decomposition()", _q_rootinv(None, explicit_kw=False), "dflt", "loose", True, True)
    add("root_inv_decomposition()", _q_rootinv(None, explicit_kw=False), "small", "loose", True, True)
    add("root_inv_decomposition(method=None)", _q_rootinv(None), "dflt", "loose", True, True)
    add("root_inv_decomposition(method=None)", _q_rootinv(None), "small", "loose", True, True)
    add("root_inv_decomposition(method=cholesky)", _q_rootinv("cholesky"), writer=True, rootw=True)
    add("root_inv_decomposition(method=symeig)", _q_rootinv("symeig"), writer=True, rootw=True)
    add("root_inv_decomposition(method=lanczos)", _q_rootinv("lanczos"), cls="iter", writer=True, rootw=True)
    add("diagonalization()", _q_diagonalization(None, explicit_kw=False), "dflt", "loose", True, True)
    add("diagonalization()", _q_diagonalization(None, explicit_kw=False), "small", "loose", True, p3=True)
    add("diagonalization(method=symeig)", _q_diagonalization("symeig"), writer=True, r3=False)
    add("diagonalization(method=lanczos)", _q_diagonalization("lanczos"), cls="iter", writer=True, r3=False)
    add("svd", _q_svd, writer=True, p3=True)
    add("eigh", _q_eigh, r3=False)
    add("eigvalsh", _q_eigvalsh, r3=False)
    add("solve", _q_solve)
    add("solve", _q_solve, "small", "loose", True, p3=True)
    add("logdet", _q_logdet, writer=True, p3=True)
    add("logdet", _q_logdet, "small", "stoch", True)
    add("logdet", _q_logdet, "small_off", "direct")
    add("inv_quad_logdet", _q_iql)
    add("inv_quad_logdet", _q_iql, "small", "stoch")
    add("diagonal", _q_diagonal, r3=False)
    add("preconditioner", _q_precond, "small", "loose", True, p3=True)
    add("zero_mean_mvn_samples", _q_sample, "dflt", "loose")
    add("zero_mean_mvn_samples", _q_sample, "small", "loose")
    return A


# quick tier: prefixes / finals of the length-3 histories, prefixes after which ALL derivations are checked
P3_QUICK = {"cholesky(upper=False)@dflt", "root_decomposition()@dflt", "root_decomposition()@small", "root_decomposition(method=None)@dflt", "root_decomposition(method=symeig)@dflt",
            "root_decomposition(method=lanczos)@dflt", "root_inv_decomposition()@dflt", "root_inv_decomposition()@small", "root_inv_decomposition(method=lanczos)@dflt",
            "root_inv_decomposition(method=symeig)@dflt", "diagonalization()@dflt", "svd@dflt"}
R3_QUICK = {"cholesky(upper=False)@dflt", "cholesky(upper=True)@dflt", "root_decomposition()@dflt", "root_decomposition()@small", "root_decomposition()@small_off",
            "root_decomposition(method=None)@dflt", "root_inv_decomposition()@dflt", "root_inv_decomposition()@small", "root_inv_decomposition(method=None)@dflt",
            "diagonalization()@dflt", "solve@dflt", "solve@small", "logdet@dflt", "inv_quad_logdet@dflt", "inv_quad_logdet@small", "zero_mean_mvn_samples@dflt"}
DERIVE_ALL_QUICK = {"to_dense@dflt", "cholesky(upper=False)@dflt", "root_decomposition()@dflt", "root_inv_decomposition(method=lanczos)@dflt", "diagonalization()@dflt", "svd@dflt",
                    "logdet@dflt", "solve@small"}


def _is_root_writer(s):
    return s["rootw"] and (s["name"].startswith("root_decomposition") or s["name"].startswith("cholesky"))


def _is_invroot_writer(s):
    return s["rootw"] and s["name"].startswith("root_inv_decomposition")


def _floors(dt_is_f32):
    # tolerance of the method classes (relative): direct factorizations / iterative (Lanczos, CG, pivoted Cholesky) / stochastic trace estimates
    return {"direct": 5e-4 if dt_is_f32 else 1e-8, "iter": 2e-2 if dt_is_f32 else 1e-5, "loose": 2e-2 if dt_is_f32 else 1e-5, "stoch": 0.5}


def _run(sym, op, O):
    """execute one symbol on op; returns ('ok', _Res) or ('exc', exception)"""
    O.torch.default_generator.manual_seed(1234)  # Lanczos start vectors / probe vectors: the same stream for the history and for the fresh copy
    try:
        with _ctx(sym["ctx"]):
            return "ok", sym["fn"](op, O)
    except Exception as e:  # noqa
        return "exc", e


def _usable(ref, sym, floors):
    """a fresh-copy result can serve as reference only if it is itself a sane answer (C04-C06 own the rest)"""
    k, r = ref
    return k == "ok" and r is not None and r.struct is None and r.dtype_ok and r.err <= floors[sym["cls"]]


def _hist_floor(sym, prefix, floors):
    """tolerance of the methods involved: an iterative method anywhere in the history may legitimately leave a cached
    factor of iterative accuracy that a later direct query reuses"""
    f = floors[sym["cls"]]
    for p in prefix:
        if p["cls"] != "direct" or p["ctx"] != "dflt":
            f = max(f, floors["loose"])
    return f


def _judge(sym, got, ref, floors, prefix=()):
    """got/ref: outputs of _run on the history state / on the fresh copy.  returns (ok, detail)"""
    kind, r = got
    if not _usable(ref, sym, floors):
        return True, ""  # the query has no sane answer on a fresh copy of this operator: not a history effect
    rr = ref[1]
    if kind == "exc":
        return False, f"raised {type(r).__name__}: {str(r)[:200]} (the fresh copy answers this query)"
    if r.struct:
        return False, r.struct
    if not r.dtype_ok:
        return False, "dtype differs from the operator's"
    fl = _hist_floor(sym, prefix, floors)
    lim = max(fl, 4 * rr.err)
    if not r.err <= lim:
        return False, f"error vs dense oracle {r.err:.3e} > max(tolerance of the methods involved {fl:.0e}, 4 x fresh error {rr.err:.2e})"
    if sym["cls"] == "direct" and r.extra == rr.extra:
        for a, b in zip(r.canon, rr.canon):
            sc = max(1.0, float(b.abs().max())) if b.numel() else 1.0
            if _rel(a, b, sc) > fl * 10:
                return False, f"result differs entry-wise from the fresh copy's by {_rel(a, b, sc):.3e} although the query is deterministic (another method / orientation served?)"
    return True, ""


# ------------------------------------------------------------------------------------------
# cache validation

def _decode(key):
    import pickle

    if isinstance(key, tuple) and len(key) == 3 and isinstance(key[2], bytes):
        name, args, kw = key[0], key[1], pickle.loads(key[2])
    else:
        name, args, kw = key, (), {}
    if callable(name):
        name = getattr(name, "__name__", str(name))
    return str(name), args, kw


def _validate_caches(torch, obj, D64, floors, path, out, depth=0):
    """append (entry description, ok, detail) for every cache entry of obj (matrix D64) and, recursively, of its sub-operators"""
    from linear_operator.operators import LinearOperator

    n = D64.shape[-1]
    square = D64.shape[-1] == D64.shape[-2]
    dscale = max(1.0, float(D64.abs().max()))
    Dinv = None
    loose = floors["loose"]
    cache = getattr(obj, "_memoize_cache", None) or {}
    for key, val in list(cache.items()):
        name, args, kw = _decode(key)
        desc = f"{path}{type(obj).__name__}.cache[{name}{list(args) if args else ''}{kw if kw else ''}]"
        try:
            if name == "cholesky":
                upper = bool(kw.get("upper", args[0] if args else False))
                L = _dn(val).to(torch.float64)
                rec = (L.mT @ L) if upper else (L @ L.mT)
                tri = torch.equal(L, L.triu() if upper else L.tril())
                e = _rel(rec, D64, dscale)
                out.append((desc, tri and e <= loose, f"upper={upper} triangular={tri} |factor product - D| = {e:.2e}"))
            elif name == "root_decomposition":
                R = _dn(val.root).to(torch.float64)
                e = max(_rel(R @ R.mT, D64, dscale), _rel(val.to_dense(), D64, dscale))
                st = _tri_struct(torch, val.root, "cached root")
                out.append((desc, e <= loose, f"|R R^T - D| = {e:.2e} (root type {type(val.root).__name__})"))
                if st:
                    out.append((desc, False, st))
            elif name == "root_inv_decomposition":
                if Dinv is None:
                    Dinv = torch.linalg.inv(D64)
                R = _dn(val.root).to(torch.float64)
                isc = max(1e-300, float(Dinv.abs().max()))
                e = max(_rel(R @ R.mT, Dinv, isc), _rel(val.to_dense(), Dinv, isc))
                st = _tri_struct(torch, val.root, "cached inverse root")
                out.append((desc, e <= loose, f"|R R^T - D^-1| = {e:.2e} (relative)"))
                if st:
                    out.append((desc, False, st))
            elif name in ("diagonalization", "symeig"):
                evals, evecs = val
                if evecs is None:
                    out.append((desc, True, "eigenvalues only"))
                else:
                    V = _dn(evecs).to(torch.float64)
                    e = _rel((V * evals.to(torch.float64).unsqueeze(-2)) @ V.mT, D64, dscale)
                    out.append((desc, e <= loose, f"|V diag(e) V^T - D| = {e:.2e}"))
            elif name == "svd":
                U, S, V = val
                e = _rel((_dn(U).to(torch.float64) * S.to(torch.float64).unsqueeze(-2)) @ _dn(V).to(torch.float64).mT, D64, dscale)
                out.append((desc, e <= loose, f"|U S V^T - D| = {e:.2e}"))
            elif name == "to_dense":
                e = _rel(val, D64, dscale)
                out.append((desc, e <= loose, f"|cached dense - D| = {e:.2e}"))
            elif name == "_diagonal":
                e = _rel(val, D64.diagonal(dim1=-2, dim2=-1), dscale)
                out.append((desc, e <= loose, f"|cached diagonal - diag D| = {e:.2e}"))
            elif name == "inverse" and square:
                if Dinv is None:
                    Dinv = torch.linalg.inv(D64)
                e = _rel(_dn(val), Dinv, max(1e-300, float(Dinv.abs().max())))
                out.append((desc, e <= loose, f"|cached inverse - D^-1| = {e:.2e}"))
            elif name == "size":
                out.append((desc, tuple(val) == tuple(D64.shape), f"{tuple(val)} vs {tuple(D64.shape)}"))
            elif name == "covar_mat":
                e = _rel(_dn(val), D64, dscale)
                out.append((desc, e <= loose, f"|covar_mat - D| = {e:.2e}"))
            else:
                out.append((desc + " (not interpreted)", True, ""))
        except Exception as e:  # noqa
            out.append((desc, False, f"could not densify the cache entry: {type(e).__name__}: {str(e)[:160]}"))
    # ad-hoc caches
    plt = getattr(obj, "_precond_lt", None)
    if plt is not None and getattr(obj, "_precond_logdet_cache", None) is not None:
        Pd = plt.to_dense().to(torch.float64)
        ld = torch.logdet(Pd)
        e = _rel(torch.as_tensor(obj._precond_logdet_cache, dtype=torch.float64).reshape(ld.shape), ld, max(1.0, float(ld.abs().max())))
        out.append((f"{path}{type(obj).__name__}._precond_logdet_cache", e <= loose, f"|cached logdet(P) - logdet(P)| = {e:.2e}"))
    for side in ("left", "right"):
        memo = getattr(obj, f"_sparse_{side}_interp_t_memo", None)
        if memo is not None:
            idx, vals = getattr(obj, f"{side}_interp_indices"), getattr(obj, f"{side}_interp_values")
            from contracts import zoo
            W = zoo.interp_matrix(idx, vals, obj.base_linear_op.size(-1))
            e = _rel(memo.to_dense(), W.mT, max(1.0, float(W.abs().max())))
            out.append((f"{path}{type(obj).__name__}._sparse_{side}_interp_t_memo", e <= loose, f"|memo - W^T| = {e:.2e}"))
    if depth >= 3:
        return
    for i, a in enumerate(list(getattr(obj, "_args", ())) + list(getattr(obj, "_kwargs", {}).values())):
        if isinstance(a, LinearOperator) and _has_any_cache(a):
            try:
                Dsub = a.clone().to_dense().to(torch.float64)
            except Exception:  # noqa
                continue
            _validate_caches(torch, a, Dsub, floors, f"{path}{type(obj).__name__}.arg{i}.", out, depth + 1)


def _has_any_cache(obj, depth=0):
    from linear_operator.operators import LinearOperator

    if getattr(obj, "_memoize_cache", None):
        return True
    if depth >= 3:
        return False
    return any(isinstance(a, LinearOperator) and _has_any_cache(a, depth + 1) for a in getattr(obj, "_args", ()))


# ------------------------------------------------------------------------------------------
# derived operators

def _derivations(torch, O, seed):
    """(name, fn(op) -> derived operator, dense matrix of the derived operator (float64), settings ctx names to derive under)"""
    g = torch.Generator()
    g.manual_seed(4321 + seed)
    dt, n, b = O.dt, O.n, O.batch
    dvec = (torch.rand(*b, n, generator=g, dtype=torch.float64) + 0.5).to(dt)
    Bm = (torch.randn(*b, n, 2, generator=g, dtype=torch.float64) * (O.dscale ** 0.5)).to(dt)
    cross = (torch.randn(*b, 2, n, generator=g, dtype=torch.float64) * 0.3 * (O.dscale ** 0.5)).to(dt)
    c64 = cross.to(torch.float64)
    new64 = c64 @ O.Dinv @ c64.mT + torch.eye(2, dtype=torch.float64) * O.dscale
    new = (0.5 * (new64 + new64.mT)).to(dt)
    full = torch.cat([torch.cat([O.D, c64.mT], -1), torch.cat([c64, new.to(torch.float64)], -1)], -2)
    eye = torch.eye(n, dtype=torch.float64)
    m = max(1, n - 1)
    out = [
        ("add_jitter", lambda o: o.add_jitter(0.01), O.D + 0.01 * eye, ("dflt",)),
        ("add_diagonal", lambda o: o.add_diagonal(dvec), O.D + torch.diag_embed(dvec.to(torch.float64)), ("dflt",)),
        ("add_low_rank", lambda o: o.add_low_rank(Bm), O.D + Bm.to(torch.float64) @ Bm.to(torch.float64).mT, ("dflt", "small")),
        ("cat_rows", lambda o: o.cat_rows(cross, new), full, ("dflt", "small")),
        ("getitem_block", lambda o: o[..., :m, :m], O.D[..., :m, :m], ("dflt",)),
        ("mT", lambda o: o.mT, O.D.mT, ("dflt",)),
        ("mul_const", lambda o: o * 2.5, O.D * 2.5, ("dflt",)),
        ("expand", lambda o: o.expand(3, *o.shape), O.D.expand(3, *O.D.shape), ("dflt",)),
    ]
    if b:
        out.append(("getitem_batch0", lambda o: o[0], O.D[0], ("dflt",)))
    return out


def _battery():
    return [
        {"name": "to_dense@dflt", "fn": _q_to_dense, "ctx": "dflt", "cls": "direct"},
        {"name": "cholesky(upper=False)@dflt", "fn": _q_cholesky(False), "ctx": "dflt", "cls": "loose"},
        {"name": "root_decomposition()@dflt", "fn": _q_root(None, explicit_kw=False), "ctx": "dflt", "cls": "loose"},
        {"name": "root_inv_decomposition()@dflt", "fn": _q_rootinv(None, explicit_kw=False), "ctx": "dflt", "cls": "loose"},
        {"name": "solve@dflt", "fn": _q_solve, "ctx": "dflt", "cls": "loose"},
        {"name": "inv_quad_logdet@dflt", "fn": _q_iql, "ctx": "dflt", "cls": "loose"},
        {"name": "diagonal@dflt", "fn": _q_diagonal, "ctx": "dflt", "cls": "direct"},
    ]


def _check_derived(torch, rec, cname, label, state, O, seed, floors, which=None, hist="", derivable=None, mini=False, refcache=None):
    """derive operators from ``state`` (an operator with some query history), validate the caches they carry and query them"""
    import copy

    from linear_operator.operators import LinearOperator

    for dname, dfn, Dd, ctxs in _derivations(torch, O, seed):
        if which is not None and dname not in which:
            continue
        for cx in ctxs:
            lab = f"{label}|history=[{hist}]|derive={dname}@{cx}"
            src = _fork(state)  # deriving may itself query (and cache on) the source
            torch.default_generator.manual_seed(1234)
            try:
                with _ctx(cx):
                    der = dfn(src)
            except Exception as e:  # noqa
                # a derivation that fails on a never-queried operator as well is not a history effect (C02 owns it)
                if derivable is not None and not hist:
                    derivable[(dname, cx)] = False
                if derivable is not None and derivable.get((dname, cx)) is False:
                    rec.check(f"derive/{dname}@{cx}/{cname}", lab, True, nontrivial=False)
                    continue
                rec.check(f"derive/{dname}@{cx}/{cname}", lab, False, f"deriving raised {type(e).__name__}: {str(e)[:200]} (works on a never-queried operator)")
                continue
            if derivable is not None and not hist:
                derivable[(dname, cx)] = True
            if not isinstance(der, LinearOperator):
                continue
            # (1) every cache entry carried by the derived operator must be valid for the derived matrix
            entries = []
            _validate_caches(torch, der, Dd, floors, "", entries)
            bad_s = [f"{d}: {det}" for d, ok, det in entries if not ok and "holds a non-triangular matrix" in det]
            bad = [f"{d}: {det}" for d, ok, det in entries if not ok and "holds a non-triangular matrix" not in det]
            rec.check(f"derived_cache_structure/{dname}@{cx}/{cname}", lab, not bad_s, "; ".join(bad_s[:3]))
            rec.check(f"derived_cache_valid/{dname}@{cx}/{cname}", lab, not bad, "; ".join(bad[:3]))
            # (2) queries on the derived operator == queries on a cache-free copy of it
            Od = _Oracle(torch, Dd.to(O.dt), seed + 1)
            for q in _battery():
                if mini and q["name"] not in ("root_decomposition()@dflt", "root_inv_decomposition()@dflt", "inv_quad_logdet@dflt"):
                    continue
                rk = (dname, cx, q["name"])
                if refcache is None or rk not in refcache:
                    # the cache-free copy of the derived operator gives the same answer whatever the history of the source was
                    try:
                        fresh = der.clone()
                    except Exception:  # noqa
                        break
                    r = _run(q, fresh, Od)
                    if refcache is not None:
                        refcache[rk] = r
                else:
                    r = refcache[rk]
                got = _run(q, _fork(der), Od)
                ok, det = _judge(q, got, r, floors)
                rec.check(f"derived_query/{dname}@{cx}/{cname}", f"{lab}|query={q['name']}", ok, det)


# ------------------------------------------------------------------------------------------
# the exploration

def _instances_for(zoo, torch, cname, tier):
    quick = [(torch.float64, (), 4), (torch.float32, (2,), 3)]
    thorough = quick + [(torch.float64, (2, 3), 2), (torch.float32, (1,), 5)]
    for dt, b, n in (quick if tier == "quick" else thorough):
        for label, c, op, dense in zoo.instances(tier, names=[cname], dtypes=[dt], batches=[b], sizes=[n]):
            yield label, c, op, dense, (dt, b, n)


def _rebuild(zoo, cname, key):
    dt, b, n = key
    for label, c, op, dense in zoo.instances("quick", names=[cname], dtypes=[dt], batches=[b], sizes=[n]):
        return op
    return None


def rtc_histories(case_names, tier):
    import copy
    import random

    torch, zoo, rec, seed = _setup()
    A = _alphabet()
    for cname in case_names:
        n_inst = 0
        for label, c, op0, dense, key in _instances_for(zoo, torch, cname, tier):
            if op0 is None:
                rec.check(f"construct/{cname}", label, False, f"constructor raised {dense!r}")
                continue
            O = _Oracle(torch, dense, seed)
            floors = _floors(dense.dtype == torch.float32)
            # ---- 1. reference: every symbol on a fresh copy
            ref = {}
            for s in A:
                ref[s["name"]] = _run(s, _fork(op0), O)
                rec.check(f"reference_usable/{cname}", f"{label}|{s['name']}", True, nontrivial=_usable(ref[s["name"]], s, floors))
            F = [s for s in A if _usable(ref[s["name"]], s, floors)]
            P3 = [s for s in F if s["p3"] and (tier != "quick" or s["name"] in P3_QUICK)]
            R3 = [s for s in F if s["r3"] and (tier != "quick" or s["name"] in R3_QUICK)]
            rec.check(f"alphabet/{cname}", label, len(F) >= 10, f"only {len(F)} of {len(A)} symbols usable on a fresh copy: {[s['name'] for s in A if s not in F]}")

            derivable, refcache = {}, {}

            def confirm(seq):
                """re-execute a failing sequence from scratch on a newly built operator; returns (reproduced, detail)"""
                op = _rebuild(zoo, cname, key)
                got = None
                for s in seq:
                    got = _run(s, op, O)
                return _judge(seq[-1], got, ref[seq[-1]["name"]], floors, seq[:-1])

            def leaf(state, seq):
                s = seq[-1]
                got = _run(s, _fork(state), O)
                ok, det = _judge(s, got, ref[s["name"]], floors, seq[:-1])
                hist = " ; ".join(x["name"] for x in seq[:-1])
                lab = f"{label}|history=[{hist}]|query={s['name']}"
                if not ok:
                    ok2, det2 = confirm(seq)
                    if ok2:
                        rec.check(f"selfcheck/copied_state_vs_scratch/{cname}", lab, False, f"fails on a copied state ({det}) but not from scratch")
                        return
                    det = det2
                rec.check(f"history/{s['name'].split('@')[0].split('(')[0]}/{cname}", lab, ok, det)

            def node_checks(state, seq, derive):
                hist = " ; ".join(x["name"] for x in seq)
                entries = []
                _validate_caches(torch, state, O.D, floors, "", entries)
                bad = [f"{d}: {det}" for d, ok, det in entries if not ok]
                rec.check(f"cache_valid/{cname}", f"{label}|history=[{hist}]", not bad, "; ".join(bad[:3]))
                rec.check(f"cache_entries_seen/{cname}", f"{label}|history=[{hist}]", True, nontrivial=bool(entries))
                if derive == "all":
                    _check_derived(torch, rec, cname, label, state, O, seed, floors, None, hist, derivable, refcache=refcache)
                elif derive in ("roots", "roots2"):
                    _check_derived(torch, rec, cname, label, state, O, seed, floors, ("add_low_rank", "cat_rows"), hist, derivable, mini=derive == "roots2", refcache=refcache)

            # ---- 2./3./4. trie
            deep = n_inst < (1 if tier == "quick" else 2)  # length-3 histories / length-2 derivations: first instance of a case (thorough: first two)
            node_checks(op0, [], "all")
            for f in F:
                leaf(op0, [f])
            for p1 in F:
                s1 = _fork(op0)
                k1, _ = _run(p1, s1, O)
                if k1 != "ok":
                    continue
                derive_all = p1["writer"] and (tier != "quick" or (deep and p1["name"] in DERIVE_ALL_QUICK))
                node_checks(s1, [p1], "all" if derive_all else ("roots" if p1["rootw"] else None))
                if not (deep or p1["writer"]):
                    continue  # (further instances of a case, quick tier: length-2 histories with cache-writing first queries only)
                for f in F:
                    leaf(s1, [p1, f])
                if not (deep and p1 in P3):
                    continue
                for p2 in P3:
                    s2 = _fork(s1)
                    k2, _ = _run(p2, s2, O)
                    if k2 != "ok":
                        continue
                    pair = (_is_root_writer(p1) and _is_invroot_writer(p2)) or (_is_invroot_writer(p1) and _is_root_writer(p2)) or (p1["rootw"] and p2["rootw"] and tier != "quick")
                    node_checks(s2, [p1, p2], "roots2" if pair else None)
                    for f in R3:
                        leaf(s2, [p1, p2, f])
            n_inst += 1
            # ---- thorough: random longer histories executed from scratch
            if tier != "quick":
                rng = random.Random(seed * 1000 + len(label))
                for t in range(60):
                    L = rng.randint(4, 6)
                    seq = [rng.choice(F) for _ in range(L)]
                    op = _rebuild(zoo, cname, key)
                    got = None
                    for i, s in enumerate(seq):
                        got = _run(s, op, O)
                        ok, det = _judge(s, got, ref[s["name"]], floors, seq[:i])
                        hist = " ; ".join(x["name"] for x in seq[:i])
                        rec.check(f"history/{s['name'].split('@')[0].split('(')[0]}/{cname}", f"{label}|history=[{hist}]|query={s['name']}|scratch", ok, det)
                    entries = []
                    _validate_caches(torch, op, O.D, floors, "", entries)
                    bad = [f"{d}: {det}" for d, ok, det in entries if not ok]
                    rec.check(f"cache_valid/{cname}", f"{label}|history=[{' ; '.join(x['name'] for x in seq)}]|scratch", not bad, "; ".join(bad[:3]))
    return rec.obligations()


def rtc_initial_vectors(tier):
    """history with caller-supplied start vectors: root_inv_decomposition(method='lanczos', initial_vectors=V, test_vectors=W) writes a
    root_decomposition entry as a side effect; a later root_decomposition() / root_inv_decomposition() on the same object must still be
    a root of THIS operator with the shape a fresh copy gives (one and several start vectors, batched and not)"""
    torch, zoo, rec, _seed = _setup()
    f64 = torch.float64
    for name in ("dense_psd", "toeplitz", "sum", "constmul"):
        case = zoo.BY_NAME[name]
        for batch in ((), (3,), (2, 2)) + (((1, 3),) if tier != "quick" else ()):
            for n in (5,) if tier == "quick" else (3, 5, 8):
                for cols in (1, 2, 4):
                    op, D = case.build(zoo.gen(31), f64, batch, n)
                    N = D.shape[-1]
                    g = zoo.gen(32)
                    iv, tv = zoo.rn(g, *batch, N, cols, dtype=f64), zoo.rn(g, *batch, N, cols, dtype=f64)
                    lab = f"{name}|float64|b={batch}|n={N}|start_vectors={cols}"
                    try:
                        torch.manual_seed(5)
                        op.root_inv_decomposition(method="lanczos", initial_vectors=iv, test_vectors=tv)
                        R = op.root_decomposition().root.to_dense()
                        ok = tuple(R.shape[:-1]) == tuple(D.shape[:-1]) and float((R @ R.mT - D).abs().max()) <= 1e-3 * max(1.0, float(D.abs().max()))
                        detail = f"root_decomposition() after it: root of shape {tuple(R.shape)} for an operator of shape {tuple(D.shape)}" + ("" if tuple(R.shape[:-1]) != tuple(D.shape[:-1]) else f", |R R^T - A| = {float((R @ R.mT - D).abs().max()):.2e}")
                    except Exception as ex:  # noqa
                        ok, detail = False, f"raised {type(ex).__name__}: {ex}"[:300]
                    rec.check(f"history/initial_vectors_then_root/{name}", lab, ok, detail)
    return rec.obligations()


def rtc_units(tier):
    us = [Unit("C12/rtc/initial_vectors", "contracts.rtc_C12", "rtc_initial_vectors", (tier,), engine="rtc", timeout_s=900)]
    chunk = 1
    for i in range(0, len(ZOO_PSD), chunk):
        nm = ZOO_PSD[i:i + chunk]
        us.append(Unit(f"C12/rtc/histories[{','.join(nm)}]", "contracts.rtc_C12", "rtc_histories", (nm, tier), engine="rtc", timeout_s=3000))
    return us


RTC_META = {
    "explanation": "query histories on one operator object are explored as a trie of copied operator states; the last result of every "
                   "history is compared with the same query on a fresh copy (error against the dense oracle within max(method tolerance, 4 x fresh error); "
                   "deterministic explicit-method queries entry-wise), every _memoize_cache entry (operator, sub-operators, derived operators) is multiplied "
                   "out against the matrix of the object it hangs on, and derived operators are queried against cache-free copies of themselves",
    "assumptions": [
        "a structural copy of an operator state (operators, attribute dicts, caches copied; tensors shared) behaves like the operator itself; "
        "every failure found on a copied state is re-executed from scratch on a newly built operator before it is recorded",
        "torch.manual_seed is reset before every query, so that iterative methods see the same start / probe vectors in the history and on the fresh copy",
        "queries whose result on a *fresh* copy is itself outside the method tolerance (or raises) are not used as references (C04-C06 own those)",
    ],
    "families": "28 PSD zoo cases x instances {(f64, (), n=4), (f32, (2,), n=3)} (thorough: + (f64,(2,3),2), (f32,(1,),5)); alphabet of 37 symbols = "
                "{to_dense, cholesky(upper F/T), root_decomposition() / (method=None|cholesky|symeig|lanczos|pivoted_cholesky), root_inv_decomposition() / "
                "(method=None|cholesky|symeig|lanczos), diagonalization() / (symeig|lanczos), svd, eigh, eigvalsh, solve, logdet, inv_quad_logdet, diagonal, "
                "preconditioner, zero_mean_mvn_samples} x settings {default, max_cholesky_size=1 + min_preconditioning_size=1, the same + fast_computations off}; "
                "all histories of length <= 2 (37 x 37; on further instances of a case in the quick tier 25 cache-writing first queries x 37), length 3 = 12 x 12 factorization-writing prefixes x 16 cache-reading final queries on the first instance (thorough: 20 x 20 x 27 on the first two instances); derived operators after every history of length <= 1 "
                "(add_low_rank / cat_rows: also length 2 over 13 root-writing symbols, derived under default and changed settings); thorough: + 60 random "
                "from-scratch histories of length 4-6 per instance",
}
