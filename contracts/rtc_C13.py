"""C13 bounded tier — no operation mutates caller-owned tensors or an existing operator's matrix.

Run-time frame contracts on the real code: before every public operation / utility call a snapshot is taken of
every caller-supplied tensor (``_version``, shape, stride, storage offset, dtype, a bitwise clone — and, for views,
the whole underlying buffer) and of ``op._matmul(I)`` of every pre-existing operator; after the call (also when
the call raises) everything is compared.  Explicitly in-place methods (detach_, requires_grad_) are only required
to leave the values unchanged.
"""
from __future__ import annotations

import itertools
import math
import zlib
from collections import OrderedDict

from engine.common import Unit

PID = "C13"

torch = None
O = None
settings = None
zoo = None
linear_operator = None
LAYOUTS = ("contig", "expanded", "transposed", "slice")


def _imp():
    global torch, O, settings, zoo, linear_operator
    if torch is None:
        from contracts import zoo as _zoo
        import torch as _torch
        import linear_operator as _lo
        from linear_operator import operators as _O, settings as _settings

        torch, O, settings, zoo, linear_operator = _torch, _O, _settings, _zoo, _lo
        torch.set_num_threads(1)


# ------------------------------------------------------------------------------------------
# layouts


def lay(val, kind):
    """return (tensor t with the given layout, [(name, underlying buffer)]).  t has the values of ``val`` except for
    'expanded', where it is constant along one dimension (stride 0)."""
    if kind == "contig" or val.dim() == 0 and kind in ("expanded", "transposed"):
        t = val.clone()
        return t, []
    if kind == "transposed":
        if val.dim() >= 2:
            base = val.mT.contiguous()
            return base.mT, [("base", base)]
        # 1-D: a strided view (every second element of a larger buffer)
        big = torch.full((2 * val.shape[0] + 1,), 3, dtype=val.dtype) if not val.dtype.is_floating_point else torch.full((2 * val.shape[0] + 1,), 7.25, dtype=val.dtype)
        if val.dtype == torch.bool:
            big = torch.ones(2 * val.shape[0] + 1, dtype=torch.bool)
        big[1::2] = val
        return big[1::2], [("buffer", big)]
    if kind == "expanded":
        # stride 0 along the first dimension of size > 1 (batch dimension first; else rows)
        d = next((i for i, s in enumerate(val.shape) if s > 1), None)
        if d is None:
            base = val.clone()
            return base.expand_as(val), [("base", base)]
        base = val.narrow(d, 0, 1).clone()
        return base.expand_as(val), [("base", base)]
    if kind == "slice":
        pad = [(1, 2)] * val.dim()
        shape = [s + a + b for s, (a, b) in zip(val.shape, pad)] if val.dim() else [3]
        if val.dtype == torch.bool:
            big = torch.ones(shape, dtype=torch.bool)
        elif val.dtype.is_floating_point:
            big = torch.full(shape, 7.25, dtype=val.dtype)
        else:
            big = torch.full(shape, 1, dtype=val.dtype)
        if val.dim() == 0:
            big[1] = val
            return big[1], [("buffer", big)]
        idx = tuple(slice(a, a + s) for s, (a, b) in zip(val.shape, pad))
        big[idx] = val
        return big[idx], [("buffer", big)]
    raise ValueError(kind)


def _same_values(a, b):
    if a.shape != b.shape or a.dtype != b.dtype:
        return False
    if a.dtype.is_floating_point:
        return bool(((a == b) | (torch.isnan(a) & torch.isnan(b))).all())
    return bool(torch.equal(a, b))


class Watch:
    """snapshots of caller-owned tensors / sparse tensors / operators"""

    def __init__(self):
        self.t = []  # [name, tensor, snap]
        self.ops = []  # [name, op, dense, dtype, shape]
        self.sp = []

    @staticmethod
    def _snap(t):
        return dict(ver=t._version, shape=tuple(t.shape), stride=tuple(t.stride()), off=t.storage_offset(), dtype=t.dtype,
                    rg=t.requires_grad, val=t.detach().clone())

    def add(self, name, t, buffers=()):
        if t is None or not torch.is_tensor(t):
            return t
        if t.is_sparse:
            self.sp.append([name, t, self._snap_sparse(t)])
            return t
        self.t.append([name, t, self._snap(t)])
        for bn, b in buffers:
            self.t.append([f"{name}.{bn}", b, self._snap(b)])
        return t

    def lay(self, name, val, kind, requires_grad=False):
        t, bufs = lay(val, kind)
        if requires_grad:
            t.requires_grad_(True)
        return self.add(name, t, bufs)

    @staticmethod
    def _snap_sparse(s):
        return dict(shape=tuple(s.shape), idx=s._indices().clone(), val=s._values().clone(), dense=s.to_dense().clone())

    @staticmethod
    def _op_dense(op):
        with torch.no_grad():
            n = op.shape[-1]
            eye = torch.eye(n, dtype=op.dtype).expand(*op.batch_shape, n, n)
            return op._matmul(eye).clone()

    def add_op(self, name, op):
        try:
            d = self._op_dense(op)
        except Exception:
            return
        self.ops.append([name, op, d, op.dtype, tuple(op.shape)])

    def resnap(self):
        for it in self.t:
            it[2] = self._snap(it[1])
        for it in self.sp:
            try:
                it[2] = self._snap_sparse(it[1])
            except Exception:
                pass
        for it in self.ops:
            try:
                it[2], it[3], it[4] = self._op_dense(it[1]), it[1].dtype, tuple(it[1].shape)
            except Exception:
                pass

    def verify(self, explicit_inplace=False):
        """-> list of problems (strings)"""
        bad = []
        for name, t, s in self.t:
            if tuple(t.shape) != s["shape"] or tuple(t.stride()) != s["stride"] or t.storage_offset() != s["off"]:
                bad.append(f"{name}: geometry changed {s['shape']}/{s['stride']} -> {tuple(t.shape)}/{tuple(t.stride())}")
                continue
            if t.dtype != s["dtype"]:
                bad.append(f"{name}: dtype changed")
                continue
            if not _same_values(t.detach(), s["val"]):
                bad.append(f"{name}: values changed (max |diff| {float((t.detach().double() - s['val'].double()).abs().max()) if t.dtype != torch.bool else 'bool'})")
                continue
            if not explicit_inplace:
                if t._version != s["ver"]:
                    bad.append(f"{name}: written in place (_version {s['ver']} -> {t._version}, values equal)")
                elif t.requires_grad != s["rg"]:
                    bad.append(f"{name}: requires_grad changed")
        for name, sp_, s in self.sp:
            try:
                if tuple(sp_.shape) != s["shape"] or not _same_values(sp_.to_dense(), s["dense"]) or not _same_values(sp_._indices(), s["idx"]) or not _same_values(sp_._values(), s["val"]):
                    bad.append(f"{name}: sparse tensor changed")
            except Exception as e:  # noqa
                bad.append(f"{name}: sparse tensor corrupted ({type(e).__name__}: {str(e)[:80]})")
        for name, op, d, dt, sh in self.ops:
            try:
                if op.dtype != dt or tuple(op.shape) != sh:
                    bad.append(f"{name}: operator dtype/shape changed {dt},{sh} -> {op.dtype},{tuple(op.shape)}")
                    continue
                d2 = self._op_dense(op)
                if d2.dtype != d.dtype or d2.shape != d.shape or not bool(torch.allclose(d2, d, rtol=1e-10, atol=1e-12, equal_nan=True)):
                    bad.append(f"{name}: operator matrix changed")
            except Exception as e:  # noqa
                bad.append(f"{name}: operator unusable afterwards ({type(e).__name__}: {str(e)[:80]})")
        return bad


def call(rec, group, label, watch, fn, explicit_inplace=False):
    """run fn() (exceptions are not C13's business), then evaluate the frame contract"""
    raised = None
    try:
        with torch.no_grad() if not getattr(fn, "_needs_grad", False) else torch.enable_grad():
            fn()
    except Exception as e:  # noqa
        raised = e
    bad = watch.verify(explicit_inplace)
    rec.check(group, label, not bad, "; ".join(bad)[:500] + (f" [call raised {type(raised).__name__}]" if raised is not None and bad else ""),
              nontrivial=raised is None)
    if bad:
        for it in watch.ops:
            try:
                if it[1].dtype != it[3]:
                    it[1].type(it[3])  # an operator that was retagged in place: put the dtype back
            except Exception:
                pass
        watch.resnap()
    return raised


def _rn(g, *shape, dtype=None):
    return torch.randn(tuple(shape), generator=g, dtype=torch.float64).to(dtype or torch.float64)


class _Cfg:
    def __init__(self, tag, ctxs):
        self.tag, self.ctxs = tag, ctxs

    def __enter__(self):
        self.st = [c() for c in self.ctxs]
        for c in self.st:
            c.__enter__()

    def __exit__(self, *a):
        for c in reversed(self.st):
            c.__exit__(*a)
        return False


def _cfgs():
    return [
        _Cfg("default", []),
        _Cfg("cg", [lambda: settings.max_cholesky_size(0), lambda: settings.cg_tolerance(1e-6), lambda: settings.max_cg_iterations(50)]),
        _Cfg("cg+precond", [lambda: settings.max_cholesky_size(0), lambda: settings.min_preconditioning_size(1), lambda: settings.max_preconditioner_size(2),
                            lambda: settings.cg_tolerance(1e-6), lambda: settings.max_cg_iterations(50)]),
    ]


# ------------------------------------------------------------------------------------------
# the operation catalogue


def exercise(rec, cname, label, op, dense, psd, kind, g, watch, tier, extra_ops=()):
    """run every public operation of ``op`` with caller arguments in layout ``kind``; ``watch`` already holds the
    operator-defining tensors.  All pre-existing operators (op + extra_ops) are watched as matrices."""
    dt = dense.dtype
    m, n = dense.shape[-2:]
    batch = tuple(dense.shape[:-2])
    il = f"{label}|lay={kind}"
    watch.add_op("self", op)
    for i, e in enumerate(extra_ops):
        watch.add_op(f"other{i}", e)
    try:
        reps_ = op.representation()
    except Exception:  # operators without tensor arguments (ZeroLinearOperator)
        reps_ = ()
    for i, r in enumerate(reps_):
        if not any(r is t for _, t, _ in watch.t):
            watch.add(f"rep{i}", r)

    def A(name, val, rg=False):  # a fresh caller argument in the current layout
        return watch.lay(name, val, kind, requires_grad=rg)

    def run(opname, fn, **kw):
        nt = len(watch.t)
        call(rec, f"{opname}/{cname}", il, watch, fn, **kw)
        return nt

    def scoped(opname, mk):
        """mk() -> thunk; the arguments it creates are dropped from the watch list afterwards"""
        nt, nsp = len(watch.t), len(watch.sp)
        try:
            fn = mk()
        except Exception:
            del watch.t[nt:]
            return
        call(rec, f"{opname}/{cname}", il, watch, fn)
        del watch.t[nt:]
        del watch.sp[nsp:]

    # ---- products
    def mk():
        X = A("rhs", _rn(g, *batch, n, 2, dtype=dt))
        return lambda: op.matmul(X)
    scoped("matmul", mk)

    def mk():
        X = A("rhs", _rn(g, n, dtype=dt))
        return lambda: op @ X
    scoped("matmul_vec", mk)

    def mk():
        X = A("rhs", _rn(g, 2, *batch, n, 3, dtype=dt))
        return lambda: op._matmul(X)
    scoped("_matmul", mk)

    def mk():
        Y = A("lhs", _rn(g, *batch, m, 2, dtype=dt))
        return lambda: (op.mT @ Y, op._t_matmul(Y))
    scoped("mT_matmul", mk)

    def mk():
        Z = A("lhs", _rn(g, 2, m, dtype=dt))
        return lambda: Z @ op
    scoped("rmatmul", mk)

    def mk():
        X = A("rhs", _rn(g, *batch, n, 2, dtype=dt), rg=True)
        G = A("grad_output", _rn(g, *batch, m, 2, dtype=dt))
        reps = [r.detach().clone().requires_grad_(True) if r.dtype.is_floating_point else r for r in op.representation()]
        for i, r in enumerate(reps):
            watch.add(f"leaf{i}", r)

        def f():
            op2 = op.representation_tree()(*reps)
            out = op2.matmul(X)
            torch.autograd.grad(out, [r for r in reps if r.requires_grad] + [X], grad_outputs=G, allow_unused=True)
        f._needs_grad = True
        return f
    scoped("matmul_backward", mk)

    def mk():
        Bm = A("other", _rn(g, *batch, n, 2, dtype=dt))
        return lambda: (op @ O.DenseLinearOperator(Bm)).to_dense()
    scoped("matmul_operator", mk)

    # ---- densify / diagonal / sums
    scoped("to_dense", lambda: (lambda: op.to_dense()))
    if m == n:
        scoped("diagonal", lambda: (lambda: op.diagonal()))
    scoped("sum", lambda: (lambda: [op.sum(-1), op.sum(-2)] + ([zoo_dn(op.sum(0))] if batch else []) + ([op.sum()] if m == n else [])))

    # ---- indexing with caller index tensors
    def mk():
        ri = A("row_index", torch.randint(0, m, (3,), generator=g))
        ci = A("col_index", torch.randint(0, n, (3,), generator=g))
        return lambda: (op[..., ri, ci], zoo_dn(op[..., ri, :]), zoo_dn(op[..., :, ci]))
    scoped("index_tensor", mk)
    if batch:
        def mk():
            bi = A("batch_index", torch.randint(0, batch[0], (3,), generator=g))
            ri = A("row_index", torch.randint(0, m, (3,), generator=g))
            ci = A("col_index", torch.randint(0, n, (3,), generator=g))
            return lambda: (op[bi, ..., ri, ci], zoo_dn(op[bi]), zoo_dn(op[bi, ..., ri, :]))
        scoped("index_tensor_batch", mk)
    scoped("index_basic", lambda: (lambda: (zoo_dn(op[..., : max(1, m - 1), n // 2:]), op[..., 0, :], op[..., 0, 0]) + ((zoo_dn(op[0]),) if batch else ())))

    # ---- arithmetic producing new operators (the old one must keep its matrix)
    def mk():
        T = A("other", _rn(g, *batch, m, n, dtype=dt))
        return lambda: ((op + T).to_dense(), (T + op).to_dense(), (op - T).to_dense())
    scoped("add_tensor", mk)

    def mk():
        c = A("constant", torch.tensor(1.5, dtype=dt))
        return lambda: ((op * c).to_dense(), (op / c).to_dense(), (c * op).to_dense())
    scoped("mul_constant", mk)
    if batch:
        def mk():
            c = A("constant", _rn(g, *batch, 1, 1, dtype=dt).abs() + 0.5)
            return lambda: (op * c).to_dense()
        scoped("mul_batch_constant", mk)

    def mk():
        Mx = A("other", _rn(g, *batch, m, n, dtype=dt))
        return lambda: (op * Mx).to_dense()
    scoped("mul_matrix", mk)
    if m == n:
        def mk():
            d = A("diag", _rn(g, *batch, n, dtype=dt).abs() + 0.5)
            d1 = A("diag1", _rn(g, 1, dtype=dt).abs() + 0.5)
            return lambda: (op.add_diagonal(d).to_dense(), op.add_diagonal(d1).to_dense(), op.add_jitter(0.1).to_dense())
        scoped("add_diagonal", mk)

    # ---- shape / copy / conversion
    def shape_ops():
        r = [op.mT.to_dense(), op.transpose(-1, -2).to_dense(), op.clone().to_dense(), op.detach().to_dense(), op.evaluate_kernel().to_dense(),
             op.expand(2, *op.shape).to_dense(), op.repeat(2, 1, 1).to_dense(),
             op.unsqueeze(0).to_dense(), op.double().to_dense(), op.float().to_dense(), op.to(torch.float64).to_dense(), op.type(torch.float32).to_dense(), op.cpu()]
        if batch:
            r.append(zoo_dn(op.squeeze(0)))
            r.append(op.permute(*reversed(range(len(batch))), -2, -1).to_dense())
        return r
    for nm, f in (("transpose", lambda: op.mT.to_dense()), ("clone_detach", lambda: (op.clone().to_dense(), op.detach().to_dense())),
                  ("rebuild", lambda: (op.evaluate_kernel().to_dense(), op.representation_tree()(*op.representation()).to_dense())),
                  ("expand_repeat", lambda: (op.expand(2, *op.shape).to_dense(), op.repeat(2, 1, 1).to_dense(), op.unsqueeze(0).to_dense())),
                  ("convert_double", lambda: op.double().to_dense()), ("convert_float", lambda: op.float().to_dense()),
                  ("convert_to", lambda: (op.to(torch.float64).to_dense(), op.to(torch.float32).to_dense(), op.cpu())),
                  ("convert_type", lambda: op.type(torch.float64 if op.dtype == torch.float32 else torch.float32).to_dense()),
                  ("permute_squeeze", (lambda: (zoo_dn(op.squeeze(0)), op.permute(*reversed(range(len(batch))), -2, -1).to_dense())) if batch else None),
                  ("elementwise", lambda: [_try(lambda: getattr(op, nm_)()) for nm_ in ("abs", "exp", "log", "sqrt", "inverse")])):
        if f is not None:
            scoped(nm, lambda f=f: f)
    # explicitly in-place methods: values must stay
    nt = len(watch.t)
    call(rec, f"requires_grad_/{cname}", il, watch, lambda: (op.requires_grad_(True), op.requires_grad_(False)), explicit_inplace=True)
    call(rec, f"detach_/{cname}", il, watch, lambda: op.detach_(), explicit_inplace=True)
    watch.resnap()

    if m != n:
        return
    # ---- square-only / PSD-only operations
    if not psd:
        if isinstance(op, O.TriangularLinearOperator):
            def mk():
                X = A("rhs", _rn(g, *batch, n, 2, dtype=dt))
                return lambda: (op.solve(X), op.inverse().to_dense(), op.solve_triangular(X, upper=op.upper))
            scoped("solve_triangular", mk)
        return
    for cfg in _cfgs():
        if tier == "quick" and cfg.tag == "cg+precond" and kind not in ("contig", "slice"):
            continue
        cl = cfg.tag

        def scoped_c(opname, mk):
            nt, nsp = len(watch.t), len(watch.sp)
            try:
                fn = mk()
            except Exception:
                del watch.t[nt:]
                return

            def wrapped():
                with cfg:
                    fn()
            wrapped._needs_grad = getattr(fn, "_needs_grad", False)
            call(rec, f"{opname}/{cname}", f"{il}|{cl}", watch, wrapped)
            del watch.t[nt:]
            del watch.sp[nsp:]
            _clear_caches(op)

        def mk():
            X = A("rhs", _rn(g, *batch, n, 2, dtype=dt))
            return lambda: op.solve(X)
        scoped_c("solve", mk)

        def mk():
            X = A("rhs", _rn(g, n, dtype=dt))
            return lambda: op.solve(X)
        scoped_c("solve_vec", mk)

        def mk():
            X = A("rhs", _rn(g, *batch, n, 2, dtype=dt))
            Lf = A("left", _rn(g, *batch, 3, n, dtype=dt))
            return lambda: op.solve(X, Lf)
        scoped_c("solve_left", mk)

        def mk():
            X = A("rhs", _rn(g, *batch, n, 2, dtype=dt))
            return lambda: (op.inv_quad(X), op.inv_quad(X, reduce_inv_quad=False), op.inv_quad_logdet(X, logdet=True), op.logdet())
        scoped_c("inv_quad_logdet", mk)

        def mk():
            X = A("rhs", _rn(g, *batch, n, 2, dtype=dt), rg=True)
            Lf = A("left", _rn(g, *batch, 3, n, dtype=dt), rg=True)
            G = A("grad_output", _rn(g, *batch, 3, 2, dtype=dt))
            Gq = A("grad_output_q", _rn(g, *batch, dtype=dt)) if batch else A("grad_output_q", torch.tensor(0.7, dtype=dt))
            reps = [r.detach().clone().requires_grad_(True) if r.dtype.is_floating_point else r for r in op.representation()]
            for i, r in enumerate(reps):
                watch.add(f"leaf{i}", r)

            def f():
                fl = [r for r in reps if r.requires_grad]
                op2 = op.representation_tree()(*reps)
                out = op2.solve(X, Lf)
                torch.autograd.grad(out, fl + [X, Lf], grad_outputs=G, allow_unused=True)
                op3 = op.representation_tree()(*reps)
                q, ld = op3.inv_quad_logdet(X, logdet=True)
                torch.autograd.grad([q, ld], fl + [X], grad_outputs=[Gq, Gq], allow_unused=True)
            f._needs_grad = True
            return f
        scoped_c("solve_backward", mk)

        if cfg.tag == "cg+precond" and tier == "quick":
            continue
        scoped_c("cholesky_eig", lambda: (lambda: (op.cholesky().to_dense(), op.cholesky(upper=True).to_dense(), op.eigh(), op.eigvalsh(), op.svd())))
        for method in (None, "cholesky", "symeig", "lanczos", "svd", "pivoted_cholesky"):
            scoped_c("root_decomposition", lambda method=method: (lambda: op.root_decomposition(method=method).root.to_dense()))
        for method in (None, "cholesky", "symeig", "lanczos", "svd", "pinverse"):
            scoped_c("root_inv_decomposition", lambda method=method: (lambda: op.root_inv_decomposition(method=method).root.to_dense()))

        def mk():
            iv = A("initial_vectors", _rn(g, *batch, n, 2, dtype=dt))
            tv = A("test_vectors", _rn(g, *batch, n, 2, dtype=dt))
            return lambda: op.root_inv_decomposition(initial_vectors=iv, test_vectors=tv, method="lanczos").root.to_dense()
        scoped_c("root_inv_decomposition_init", mk)

        def mk():
            iv = A("initial_vectors", _rn(g, *batch, n, 1, dtype=dt))
            return lambda: op.root_inv_decomposition(initial_vectors=iv, method="lanczos").root.to_dense()
        scoped_c("root_inv_decomposition_init1", mk)
        for method in ("symeig", "lanczos"):
            scoped_c("diagonalization", lambda method=method: (lambda: op.diagonalization(method=method)))
        scoped_c("pivoted_cholesky", lambda: (lambda: (op.pivoted_cholesky(max(1, n // 2)), op.pivoted_cholesky(n, error_tol=0.0, return_pivots=True))))

        def mk():
            X = A("rhs", _rn(g, *batch, n, 2, dtype=dt))
            Lh = A("lhs", _rn(g, *batch, 3, n, dtype=dt))
            return lambda: (op.sqrt_inv_matmul(X), op.sqrt_inv_matmul(X, Lh))
        scoped_c("sqrt_inv_matmul", mk)
        scoped_c("zero_mean_mvn_samples", lambda: (lambda: op.zero_mean_mvn_samples(3)))

        def mk():
            R = A("low_rank", _rn(g, *batch, n, 2, dtype=dt))
            return lambda: op.add_low_rank(R).to_dense()
        scoped_c("add_low_rank", mk)

        def mk():
            cross = A("cross", _rn(g, *batch, 2, n, dtype=dt) * 0.1)
            new = A("new", torch.eye(2, dtype=dt).expand(*batch, 2, 2).clone() * 3)
            return lambda: op.cat_rows(cross, new).to_dense()
        scoped_c("cat_rows", mk)
        if batch:
            scoped_c("prod", lambda: (lambda: zoo_dn(op.prod(0))))
        if cfg.tag == "default":
            def mk():
                X = A("rhs", _rn(g, *batch, n, 2, dtype=dt))
                return lambda: (torch.linalg.solve(op, X), torch.matmul(op, X), torch.diagonal(op), torch.logdet(op), torch.linalg.cholesky(op).to_dense())
            scoped_c("torch_dispatch", mk)


def _try(f):
    try:
        return f()
    except Exception:
        return None


def _clear_caches(op):
    """forget memoised results so that the next operation runs its algorithm again (recursively on sub-operators)"""
    seen = set()

    def rec_(o):
        if id(o) in seen:
            return
        seen.add(id(o))
        if hasattr(o, "_memoize_cache"):
            o._memoize_cache = {}
        for a in list(getattr(o, "_args", ())) + list(getattr(o, "_kwargs", {}).values()):
            if isinstance(a, O.LinearOperator):
                rec_(a)
    rec_(op)


def zoo_dn(r):
    return r.to_dense() if isinstance(r, O.LinearOperator) else r


# ------------------------------------------------------------------------------------------
# units


def rtc_zoo(case_names, tier):
    """every public operation over the zoo; caller arguments in the four layouts"""
    _imp()
    from contracts.rtc_common import Recorder

    rec = Recorder(PID)
    batches = [(), (2,)] if tier == "quick" else [(), (2,), (1,), (2, 3)]
    sizes = [1, 4] if tier == "quick" else [1, 2, 4, 6]
    for label, c, op, dense in zoo.instances(tier, names=case_names, batches=batches, sizes=sizes):
        if op is None:
            continue
        f32_only = c.name in ("perm", "tperm")  # index-only operators exist in float32 only in the zoo
        if dense.dtype == torch.float32 and not f32_only and not (label.endswith("n=4") and "b=()" in label) and tier == "quick":
            continue
        for kind in LAYOUTS:
            if dense.dtype == torch.float32 and not f32_only and kind not in ("contig", "slice"):
                continue
            s = zlib.crc32((label + kind).encode()) % (2**31)
            torch.manual_seed(s)  # library-internal random draws (Lanczos start vectors, probes, samples): reproducible
            # a fresh operator per layout (caches, in-place flags)
            try:
                dtn = label.split("|")[1]
                b = eval(label.split("|b=")[1].split("|")[0])
                n = int(label.split("|n=")[1])
                s0 = zlib.crc32(repr((c.name, "torch." + dtn, b, n, 0)).encode()) % (2**31)
                op_, dense_ = c.build(zoo.gen(s0), dense.dtype, b, n)
            except Exception:
                continue
            w = Watch()
            try:
                exercise(rec, c.name, label, op_, dense_, c.psd, kind, zoo.gen(s), w, tier)
            except Exception as e:  # noqa  (harness problem: make it visible)
                import traceback
                rec.check(f"harness/{c.name}", f"{label}|lay={kind}", False, f"{type(e).__name__}: {e} @ {traceback.format_exc().strip().splitlines()[-3][:160]}")
    return rec.obligations()


# local cases: operator-defining tensors in the four layouts ----------------------------------------------


def _spd(g, batch, n, dt):
    return zoo.spd(g, tuple(batch), n, dt, cond=8.0)


def _local_cases():
    """name -> (builder(g, dt, batch, n, W, kind) -> (op, dense, psd))  ; W.lay registers every defining tensor"""
    C = OrderedDict()

    def toep_col(g, dt, batch, n):
        c = _rn(g, *batch, n, dtype=dt) * 0.3
        c[..., 0] = c[..., 0].abs() + n
        return c

    def dense_psd(g, dt, b, n, W, k):
        T = W.lay("tensor", _spd(g, b, n, dt), k)
        return O.DenseLinearOperator(T), T.detach().clone(), True
    C["dense_psd"] = dense_psd

    def dense_rect(g, dt, b, n, W, k):
        T = W.lay("tensor", _rn(g, *b, n, n + 1, dtype=dt), k)
        return O.DenseLinearOperator(T), T.detach().clone(), False
    C["dense_rect"] = dense_rect

    def diag(g, dt, b, n, W, k):
        d = W.lay("diag", _rn(g, *b, n, dtype=dt).abs() + 0.5, k)
        return O.DiagLinearOperator(d), torch.diag_embed(d.detach().clone()), True
    C["diag"] = diag

    def constdiag(g, dt, b, n, W, k):
        v = W.lay("value", _rn(g, *b, 1, dtype=dt).abs() + 0.5, k)
        return O.ConstantDiagLinearOperator(v, diag_shape=n), torch.diag_embed(v.detach().clone().expand(*b, n)), True
    C["constdiag"] = constdiag

    def toeplitz(g, dt, b, n, W, k):
        c = W.lay("column", toep_col(g, dt, b, n), k)
        return O.ToeplitzLinearOperator(c), zoo.toeplitz_dense(c.detach().clone()), True
    C["toeplitz"] = toeplitz

    def root(g, dt, b, n, W, k):
        R = W.lay("root", _rn(g, *b, n, n, dtype=dt) + 2 * torch.eye(n, dtype=dt), k)
        return O.RootLinearOperator(R), R.detach() @ R.detach().mT, True
    C["root"] = root

    def lowrank_addeddiag(g, dt, b, n, W, k):
        R = W.lay("root", _rn(g, *b, n, max(1, n // 2), dtype=dt), k)
        d = W.lay("diag", _rn(g, *b, n, dtype=dt).abs() + 0.5, k)
        return O.LowRankRootAddedDiagLinearOperator(O.LowRankRootLinearOperator(R), O.DiagLinearOperator(d)), R.detach() @ R.detach().mT + torch.diag_embed(d.detach()), True
    C["lrr_addeddiag"] = lowrank_addeddiag

    def tri(g, dt, b, n, W, k):
        t = _rn(g, *b, n, n, dtype=dt).tril()
        t = t - torch.diag_embed(t.diagonal(dim1=-1, dim2=-2)) + torch.diag_embed(t.diagonal(dim1=-1, dim2=-2).abs() + 1)
        T = W.lay("tensor", t, k if k != "expanded" or b else "contig")
        return O.TriangularLinearOperator(T), T.detach().clone(), False
    C["tri_lower"] = tri

    def chol(g, dt, b, n, W, k):
        t = _rn(g, *b, n, n, dtype=dt).tril()
        t = t - torch.diag_embed(t.diagonal(dim1=-1, dim2=-2)) + torch.diag_embed(t.diagonal(dim1=-1, dim2=-2).abs() + 1)
        T = W.lay("tensor", t, k if k != "expanded" or b else "contig")
        return O.CholLinearOperator(O.TriangularLinearOperator(T)), T.detach() @ T.detach().mT, True
    C["chol"] = chol

    def kron(g, dt, b, n, W, k):
        a_, c_ = (2, n // 2) if n % 2 == 0 and n > 1 else (1, n)
        A_ = W.lay("factor0", _spd(g, b, a_, dt), k)
        B_ = W.lay("factor1", _spd(g, b, c_, dt), k)
        return O.KroneckerProductLinearOperator(A_, B_), zoo.kron(A_.detach(), B_.detach()), True
    C["kron"] = kron

    def kpad(g, dt, b, n, W, k):
        a_, c_ = (2, n // 2) if n % 2 == 0 and n > 1 else (1, n)
        A_ = W.lay("factor0", _spd(g, b, a_, dt), k)
        B_ = W.lay("factor1", _spd(g, b, c_, dt), k)
        d = W.lay("diag", _rn(g, *b, n, dtype=dt).abs() + 0.5, k)
        return (O.KroneckerProductAddedDiagLinearOperator(O.KroneckerProductLinearOperator(A_, B_), O.DiagLinearOperator(d)),
                zoo.kron(A_.detach(), B_.detach()) + torch.diag_embed(d.detach()), True)
    C["kpad_diag"] = kpad

    def blockdiag(g, dt, b, n, W, k):
        Bk = W.lay("blocks", _spd(g, (*b, 2), n, dt), k)
        return O.BlockDiagLinearOperator(O.DenseLinearOperator(Bk)), zoo.block_diag_dense(Bk.detach().clone()), True
    C["blockdiag"] = blockdiag

    def sumbatch(g, dt, b, n, W, k):
        Bk = W.lay("blocks", _spd(g, (*b, 3), n, dt), k)
        return O.SumBatchLinearOperator(O.DenseLinearOperator(Bk)), Bk.detach().sum(-3), True
    C["sumbatch"] = sumbatch

    def batchrepeat(g, dt, b, n, W, k):
        T = W.lay("tensor", _spd(g, (), n, dt), k if k != "expanded" else "slice")
        rep = torch.Size(b) if b else torch.Size([2])
        return O.BatchRepeatLinearOperator(O.DenseLinearOperator(T), rep), T.detach().repeat(*rep, 1, 1), True
    C["batchrepeat"] = batchrepeat

    def constmul(g, dt, b, n, W, k):
        T = W.lay("tensor", _spd(g, b, n, dt), k)
        c = W.lay("constant", _rn(g, *b, dtype=dt).abs() + 0.5, k) if b else W.lay("constant", torch.tensor(1.7, dtype=dt), k)
        return O.ConstantMulLinearOperator(O.DenseLinearOperator(T), c), T.detach() * c.detach()[..., None, None], True
    C["constmul"] = constmul

    def addeddiag(g, dt, b, n, W, k):
        T = W.lay("tensor", _spd(g, b, n, dt), k)
        d = W.lay("diag", _rn(g, *b, n, dtype=dt).abs() + 0.5, k)
        return O.AddedDiagLinearOperator(O.DenseLinearOperator(T), O.DiagLinearOperator(d)), T.detach() + torch.diag_embed(d.detach()), True
    C["addeddiag"] = addeddiag

    def sum_(g, dt, b, n, W, k):
        T = W.lay("tensor", _spd(g, b, n, dt), k)
        c = W.lay("column", toep_col(g, dt, b, n), k)
        return O.SumLinearOperator(O.DenseLinearOperator(T), O.ToeplitzLinearOperator(c)), T.detach() + zoo.toeplitz_dense(c.detach()), True
    C["sum"] = sum_

    def matmul(g, dt, b, n, W, k):
        A_ = W.lay("left", _rn(g, *b, n, n + 1, dtype=dt), k)
        B_ = W.lay("right", _rn(g, *b, n + 1, n, dtype=dt), k)
        return O.MatmulLinearOperator(O.DenseLinearOperator(A_), O.DenseLinearOperator(B_)), A_.detach() @ B_.detach(), False
    C["matmul"] = matmul

    def mul(g, dt, b, n, W, k):
        R1 = W.lay("root0", _rn(g, *b, n, n, dtype=dt), k)
        R2 = W.lay("root1", _rn(g, *b, n, n, dtype=dt) + torch.eye(n, dtype=dt), k)
        return O.MulLinearOperator(O.RootLinearOperator(R1), O.RootLinearOperator(R2)), (R1.detach() @ R1.detach().mT) * (R2.detach() @ R2.detach().mT), True
    C["mul"] = mul

    def interp(g, dt, b, n, W, k):
        mm = n + 1
        base = W.lay("base", _spd(g, b, mm, dt), k)
        li = W.lay("left_indices", torch.randint(0, mm, (*b, n, 2), generator=g), k)
        lv = W.lay("left_values", _rn(g, *b, n, 2, dtype=dt), k)
        ri = W.lay("right_indices", li.detach().clone(), k)
        rv = W.lay("right_values", lv.detach().clone(), k)
        Wl = zoo.interp_matrix(li.detach().clone(), lv.detach().clone(), mm)
        Wr = zoo.interp_matrix(ri.detach().clone(), rv.detach().clone(), mm)
        return O.InterpolatedLinearOperator(O.DenseLinearOperator(base), li, lv, ri, rv), Wl @ base.detach() @ Wr.mT, False
    C["interp"] = interp

    def masked(g, dt, b, n, W, k):
        mm = n + 2
        base = W.lay("base", _spd(g, b, mm, dt), k)
        msk = torch.zeros(mm, dtype=torch.bool)
        msk[torch.randperm(mm, generator=g)[:n]] = True
        rm = W.lay("row_mask", msk, k if k != "expanded" else "contig")
        cm = W.lay("col_mask", msk.clone(), k if k != "expanded" else "contig")
        return O.MaskedLinearOperator(O.DenseLinearOperator(base), rm, cm), base.detach()[..., msk, :][..., :, msk], True
    C["masked"] = masked

    def perm(g, dt, b, n, W, k):
        p = torch.stack([torch.randperm(n, generator=g) for _ in range(max(1, math.prod(b)))]).reshape(*b, n)
        P = W.lay("perm", p, k if k != "expanded" else "contig")
        D = torch.zeros(*b, n, n, dtype=torch.float32)
        D.scatter_(-1, p.unsqueeze(-1), 1.0)
        return O.PermutationLinearOperator(P), D, False
    C["perm"] = perm

    def kernel(g, dt, b, n, W, k):
        x1 = W.lay("x1", _rn(g, *b, n, 2, dtype=dt), k)
        ls = W.lay("lengthscale", torch.tensor(1.3, dtype=dt), k)
        d = W.lay("diag", _rn(g, *b, n, dtype=dt).abs() + 0.5, k)
        op = O.AddedDiagLinearOperator(O.KernelLinearOperator(x1, x1, covar_func=zoo._rbf, lengthscale=ls, num_nonbatch_dimensions={"lengthscale": 0}), O.DiagLinearOperator(d))
        return op, zoo._rbf(x1.detach(), x1.detach(), ls.detach()) + torch.diag_embed(d.detach()), True
    C["kernel"] = kernel

    def cat(g, dt, b, n, W, k):
        A_ = W.lay("first", _rn(g, *b, n, n, dtype=dt), k)
        B_ = W.lay("second", _rn(g, *b, n, 2, dtype=dt), k)
        return O.CatLinearOperator(O.DenseLinearOperator(A_), O.DenseLinearOperator(B_), dim=-1), torch.cat([A_.detach(), B_.detach()], -1), False
    C["cat_cols"] = cat
    return C


LOCAL_NAMES = ["dense_psd", "dense_rect", "diag", "constdiag", "toeplitz", "root", "lrr_addeddiag", "tri_lower", "chol", "kron", "kpad_diag", "blockdiag",
               "sumbatch", "batchrepeat", "constmul", "addeddiag", "sum", "matmul", "mul", "interp", "masked", "perm", "kernel", "cat_cols"]


def rtc_layouts(names, tier):
    """operator-defining tensors (and every argument) in the four layouts; the surrounding buffers are checked too"""
    _imp()
    from contracts.rtc_common import Recorder

    rec = Recorder(PID)
    cases = _local_cases()
    combos = [((), 4), ((2,), 3), ((), 1)] if tier == "quick" else list(itertools.product([(), (2,), (1,), (2, 3)], [1, 2, 4, 5]))
    for name in names:
        for (b, n), dt in itertools.product(combos, (torch.float64, torch.float32)):
            if dt == torch.float32 and tier == "quick" and (b, n) != ((), 4):
                continue
            for kind in LAYOUTS:
                if kind == "expanded" and not b and name not in ("dense_psd", "dense_rect", "diag", "toeplitz", "root"):
                    pass
                label = f"local_{name}|{str(dt)[6:]}|b={b}|n={n}"
                g = zoo.gen(zlib.crc32((label + kind).encode()) % (2**31))
                torch.manual_seed(zlib.crc32((label + kind).encode()) % (2**31))
                W = Watch()
                try:
                    op, dense, psd = cases[name](g, dt, tuple(b), n, W, kind)
                except Exception as e:  # noqa  constructor refused this layout: nothing to exercise (but it must not have written)
                    bad = W.verify()
                    rec.check(f"construct/local_{name}", f"{label}|lay={kind}", not bad, "; ".join(bad)[:400], nontrivial=False)
                    continue
                bad = W.verify()
                rec.check(f"construct/local_{name}", f"{label}|lay={kind}", not bad, "; ".join(bad)[:400])
                if kind == "expanded":
                    psd = False  # an expanded SPD block is singular / not symmetric: only the structure-agnostic operations
                try:
                    exercise(rec, f"local_{name}", label, op, dense, psd, kind, g, W, tier)
                except Exception as e:  # noqa
                    import traceback
                    rec.check(f"harness/local_{name}", f"{label}|lay={kind}", False, f"{type(e).__name__}: {e} @ {traceback.format_exc().strip().splitlines()[-3][:160]}")
    return rec.obligations()


def rtc_shared(tier):
    """sequences of operations on operators that share tensors (views of one buffer)"""
    _imp()
    from contracts.rtc_common import Recorder

    rec = Recorder(PID)
    for dt, n, b in itertools.product((torch.float64, torch.float32), (1, 3, 5) if tier == "quick" else (1, 2, 3, 5, 6), ((), (2,))):
        label = f"shared|{str(dt)[6:]}|b={b}|n={n}"
        g = zoo.gen(zlib.crc32(label.encode()) % (2**31))
        torch.manual_seed(zlib.crc32(label.encode()) % (2**31))
        W = Watch()
        T = W.add("T", _spd(g, b, n, dt))
        col = T[..., 0, :]  # a view: first row as a Toeplitz column
        dg = T.diagonal(dim1=-2, dim2=-1)  # a view
        W.add("col_view", col)
        W.add("diag_view", dg)
        dense = O.DenseLinearOperator(T)
        ops = OrderedDict(
            dense=dense,
            toeplitz=O.ToeplitzLinearOperator(col.abs() + torch.arange(n, 0, -1, dtype=dt) * 0 + 0),
            diag=O.DiagLinearOperator(dg),
            added=O.AddedDiagLinearOperator(dense, O.DiagLinearOperator(dg)),
            root=O.RootLinearOperator(T),
            constmul=O.ConstantMulLinearOperator(dense, T[..., 0, 0]),
            kron=O.KroneckerProductLinearOperator(T, T),
            blocksum=O.SumLinearOperator(dense, O.DiagLinearOperator(dg), dense),
        )
        for nm, o in ops.items():
            W.add_op(nm, o)
        X = W.add("X", _rn(g, *b, n, 2, dtype=dt))
        Xk = W.add("Xk", _rn(g, *b, n * n, 2, dtype=dt))
        steps = [
            ("dense.solve", lambda: ops["dense"].solve(X)),
            ("added.solve_cg", lambda: _with(settings.max_cholesky_size(0), lambda: ops["added"].solve(X))),
            ("added.inv_quad_logdet_cg_precond", lambda: _with(settings.max_cholesky_size(0), lambda: _with(settings.min_preconditioning_size(1), lambda: ops["added"].inv_quad_logdet(X, logdet=True)))),
            ("diag.sqrt_inverse", lambda: (ops["diag"].sqrt().to_dense(), ops["diag"].inverse().to_dense(), ops["diag"].log().to_dense())),
            ("root.root_decomposition", lambda: ops["root"].root_decomposition().root.to_dense()),
            ("dense.root_decomposition_lanczos", lambda: ops["dense"].root_decomposition(method="lanczos").root.to_dense()),
            ("dense.pivoted_cholesky", lambda: ops["dense"].pivoted_cholesky(max(1, n - 1))),
            ("toeplitz.add_jitter", lambda: ops["toeplitz"].add_jitter(0.5).to_dense()),
            ("kron.solve", lambda: ops["kron"].solve(Xk)),
            ("kron.logdet", lambda: ops["kron"].logdet()),
            ("kron.add_diagonal.solve", lambda: ops["kron"].add_jitter(0.3).solve(Xk)),
            ("constmul.root_decomposition", lambda: ops["constmul"].root_decomposition().root.to_dense()),
            ("blocksum.diagonal", lambda: ops["blocksum"].diagonal()),
            ("dense.cholesky.solve", lambda: ops["dense"].cholesky().solve(X)),
            ("dense.add_low_rank", lambda: ops["dense"].add_low_rank(X).to_dense()),
            ("dense.zero_mean_mvn_samples", lambda: ops["dense"].zero_mean_mvn_samples(2)),
            ("added.sqrt_inv_matmul", lambda: ops["added"].sqrt_inv_matmul(X)),
            ("dense.diagonalization", lambda: ops["dense"].diagonalization()),
            ("dense.sum_batch", lambda: zoo_dn(ops["dense"].sum(0)) if b else None),
            ("dense.getitem", lambda: (zoo_dn(ops["dense"][..., :1, :]), ops["added"][..., 0, 0])),
        ]
        for sname, f in steps:
            call(rec, f"shared/{sname}", label, W, f)
    return rec.obligations()


def _with(ctx, f):
    with ctx:
        return f()


def rtc_utils(part, tier):
    """utility functions with every tensor argument in the four layouts"""
    _imp()
    from contracts.rtc_common import Recorder
    from linear_operator import utils as U
    from linear_operator.utils import sparse as SP, toeplitz as TZ, interpolation as IP, lanczos as LZ, permutation as PM, cholesky as CH

    rec = Recorder(PID)
    dts = (torch.float64, torch.float32)
    ns = (1, 2, 5) if tier == "quick" else (1, 2, 3, 5, 8)
    bs = ((), (2,)) if tier == "quick" else ((), (2,), (1,), (2, 3))

    def each(group, build, dts_=dts, ns_=ns, bs_=bs):
        """build(W, g, dt, b, n, kind) -> thunk (registers its tensors on W)"""
        for dt, n, b, kind in itertools.product(dts_, ns_, bs_, LAYOUTS):
            label = f"{str(dt)[6:]}|b={b}|n={n}|lay={kind}"
            g = zoo.gen(zlib.crc32((group + label).encode()) % (2**31))
            torch.manual_seed(zlib.crc32((group + label).encode()) % (2**31))
            W = Watch()
            try:
                fn = build(W, g, dt, tuple(b), n, kind)
            except Exception as e:  # noqa
                rec.check(f"harness/{group}", label, False, f"{type(e).__name__}: {e}")
                continue
            if fn is None:
                continue
            call(rec, group, label, W, fn)

    if part == "cg":
        for variant in ("plain", "initial_guess", "tridiag", "precond", "precond_tridiag_guess", "zero_rhs", "exact_guess", "vector", "tensor_closure", "bcast_rhs"):
            def build(W, g, dt, b, n, kind, variant=variant):
                A_ = W.lay("matrix", _spd(g, b, n, dt), kind if kind != "expanded" else "contig")
                sh = (n,) if variant == "vector" else ((n, 2) if variant == "bcast_rhs" else (*b, n, 2))
                if variant == "vector" and b:
                    return None
                rhs = W.lay("rhs", torch.zeros(sh, dtype=dt) if variant == "zero_rhs" else _rn(g, *sh, dtype=dt), kind)
                kw = {}
                if variant in ("initial_guess", "precond_tridiag_guess"):
                    kw["initial_guess"] = W.lay("initial_guess", _rn(g, *sh, dtype=dt), kind)
                if variant == "exact_guess":
                    kw["initial_guess"] = W.lay("initial_guess", torch.linalg.solve(A_.detach().double(), rhs.detach().double()).to(dt), kind)
                if variant in ("tridiag", "precond_tridiag_guess"):
                    kw["n_tridiag"] = 2 if variant != "vector" else 1
                    kw["max_tridiag_iter"] = 3
                if variant in ("precond", "precond_tridiag_guess"):
                    Pinv = W.lay("precond_matrix", torch.linalg.inv(_spd(g, b, n, dt).double()).to(dt), kind if kind != "expanded" else "contig")
                    kw["preconditioner"] = lambda v: Pinv @ v
                closure = A_ if variant == "tensor_closure" else A_.matmul
                return lambda: U.linear_cg(closure, rhs, tolerance=1e-6, max_iter=20, **kw)
            each(f"linear_cg/{variant}", build)
    if part == "minres_lanczos":
        for variant in ("plain", "shifts", "precond", "vector"):
            def build(W, g, dt, b, n, kind, variant=variant):
                A_ = W.lay("matrix", _spd(g, b, n, dt), kind if kind != "expanded" else "contig")
                if variant == "vector" and b:
                    return None
                rhs = W.lay("rhs", _rn(g, *((n,) if variant == "vector" else (*b, n, 2)), dtype=dt), kind)
                kw = {}
                if variant in ("shifts", "precond"):
                    kw["shifts"] = W.lay("shifts", torch.tensor([0.0, 0.5, 2.0], dtype=dt), kind)
                    kw["value"] = -1
                if variant == "precond":
                    Pinv = W.lay("precond_matrix", torch.linalg.inv(_spd(g, b, n, dt).double()).to(dt), "contig")
                    kw["preconditioner"] = lambda v: Pinv @ v
                return lambda: U.minres(A_.matmul, rhs, max_iter=15, **kw)
            each(f"minres/{variant}", build)
        for variant in ("no_init", "init_vecs", "init_vecs_multi"):
            def build(W, g, dt, b, n, kind, variant=variant):
                A_ = W.lay("matrix", _spd(g, b, n, dt), kind if kind != "expanded" else "contig")
                iv = None
                if variant != "no_init":
                    iv = W.lay("init_vecs", _rn(g, *b, n, 1 if variant == "init_vecs" else 3, dtype=dt), kind)

                def f():
                    q, t = LZ.lanczos_tridiag(A_.matmul, n, dtype=dt, device=A_.device, matrix_shape=torch.Size((n, n)), batch_shape=torch.Size(b), init_vecs=iv)
                    W.add("t_mat", t)
                    LZ.lanczos_tridiag_to_diag(t)
                return f
            each(f"lanczos_tridiag/{variant}", build)
        def build(W, g, dt, b, n, kind):
            t = _spd(g, b, n, dt)
            t = torch.tril(torch.triu(t, -1), 1)
            t = W.lay("t_mat", t, kind if kind != "expanded" else "contig")
            return lambda: LZ.lanczos_tridiag_to_diag(t)
        each("lanczos_tridiag_to_diag", build)
    if part == "chol_qr":
        for variant in ("pd", "singular", "upper", "max_tries", "jitter_arg"):
            def build(W, g, dt, b, n, kind, variant=variant):
                if variant in ("singular", "max_tries"):
                    r = _rn(g, *b, n, max(1, n - 1), dtype=dt)
                    val = r @ r.mT if n > 1 else torch.zeros(*b, 1, 1, dtype=dt)
                    if variant == "max_tries":
                        val = val - 0.5 * torch.eye(n, dtype=dt)
                else:
                    val = _spd(g, b, n, dt)
                A_ = W.lay("A", val, kind if kind != "expanded" else "contig")
                kw = {"upper": True} if variant == "upper" else ({"jitter": 1e-3, "max_tries": 2} if variant == "jitter_arg" else {})
                return lambda: U.cholesky.psd_safe_cholesky(A_, **kw)
            each(f"psd_safe_cholesky/{variant}", build)
        for variant in ("tall", "square", "fat", "zero_column"):
            def build(W, g, dt, b, n, kind, variant=variant):
                sh = {"tall": (n + 2, n), "square": (n, n), "fat": (n, n + 2), "zero_column": (n + 1, n)}[variant]
                val = _rn(g, *b, *sh, dtype=dt)
                if variant == "zero_column":
                    val[..., :, 0] = 0
                M_ = W.lay("mat", val, kind)
                return lambda: (U.stable_qr(M_) if variant != "fat" else None, U.stable_pinverse(M_))
            each(f"stable_qr_pinverse/{variant}", build)
    if part == "toeplitz_interp":
        def build(W, g, dt, b, n, kind):
            c = W.lay("column", _rn(g, *b, n, dtype=dt), kind)
            rv = _rn(g, *b, n, dtype=dt)
            rv[..., 0] = c.detach()[..., 0]
            r = W.lay("row", rv, kind if kind != "expanded" else "contig")
            X = W.lay("tensor", _rn(g, *b, n, 2, dtype=dt), kind)
            Lv = W.lay("left_vectors", _rn(g, *b, n, 2, dtype=dt), kind)
            c1 = W.lay("column1", _rn(g, n, dtype=dt), kind)
            r1v = _rn(g, n, dtype=dt)
            r1v[0] = c1.detach()[0]
            r1 = W.lay("row1", r1v, kind if kind != "expanded" else "contig")
            i, j = W.lay("i", torch.randint(0, n, (3,), generator=g), kind), W.lay("j", torch.randint(0, n, (3,), generator=g), kind)
            return lambda: (_try(lambda: TZ.toeplitz_matmul(c, r, X)), TZ.sym_toeplitz_matmul(c, X), TZ.sym_toeplitz_derivative_quadratic_form(Lv, X),
                            _try(lambda: TZ.toeplitz(c1, r1)), TZ.sym_toeplitz(c1), _try(lambda: TZ.toeplitz_getitem(c1, r1, i, j)), TZ.sym_toeplitz_getitem(c1, i, j),
                            _try(lambda: TZ.toeplitz_matmul(c1, r1, X.reshape(-1, 2)[:n] if False else _rn(g, n, dtype=dt))))
        each("toeplitz_utils", build)

        def build(W, g, dt, b, n, kind):
            mm = n + 2
            idx = W.lay("interp_indices", torch.randint(0, mm, (*b, n, 2), generator=g), kind)
            val = W.lay("interp_values", _rn(g, *b, n, 2, dtype=dt), kind)
            rhs = W.lay("rhs", _rn(g, *b, mm, 3, dtype=dt), kind)
            rhs_t = W.lay("rhs_t", _rn(g, *b, n, 3, dtype=dt), kind)
            return lambda: (IP.left_interp(idx, val, rhs), IP.left_t_interp(idx, val, rhs_t, mm))
        each("interpolation/matrix", build)

        def build(W, g, dt, b, n, kind):
            if b:
                return None
            mm = n + 2
            idx = W.lay("interp_indices", torch.randint(0, mm, (n, 2), generator=g), kind)
            val = W.lay("interp_values", _rn(g, n, 2, dtype=dt), kind)
            rhs = W.lay("rhs", _rn(g, mm, dtype=dt), kind)
            rhs_t = W.lay("rhs_t", _rn(g, n, dtype=dt), kind)
            return lambda: (IP.left_interp(idx, val, rhs), IP.left_t_interp(idx, val, rhs_t, mm))
        each("interpolation/vector", build)

        def build(W, g, dt, b, n, kind):
            K = W.lay("matrix", _spd(g, b, n, dt), kind if kind != "expanded" else "contig")
            p = torch.stack([torch.randperm(n, generator=g) for _ in range(max(1, math.prod(b)))]).reshape(*b, n)
            lp = W.lay("left_permutation", p, kind if kind != "expanded" else "contig")
            rp = W.lay("right_permutation", p[..., : max(1, n - 1)].clone(), kind if kind != "expanded" else "contig")
            return lambda: (PM.apply_permutation(K, lp, rp), PM.apply_permutation(K, lp, None), PM.apply_permutation(O.DenseLinearOperator(K), None, rp), PM.inverse_permutation(lp))
        each("permutation", build)
    if part == "sparse":
        for variant in ("generic", "all_zero", "some_zero"):
            def build(W, g, dt, b, n, kind, variant=variant):
                mm = n + 2
                idx = W.lay("interp_indices", torch.randint(0, mm, (*b, n, 2), generator=g), kind)
                v = _rn(g, *b, n, 2, dtype=dt)
                if variant == "all_zero":
                    v = torch.zeros_like(v)
                if variant == "some_zero":
                    v[..., 0] = 0
                val = W.lay("interp_values", v, kind)

                def f():
                    s = SP.make_sparse_from_indices_and_values(idx, val, mm)
                    W.add("sparse_result", s)
                    D = W.add("dense", _rn(g, *b, n, 3, dtype=dt))
                    SP.bdsmm(s, D)
                    D2 = W.add("dense_extra_batch", _rn(g, 2, *b, n, 3, dtype=dt))
                    _try(lambda: SP.bdsmm(s, D2))
                return f
            each(f"sparse_make_bdsmm/{variant}", build)

        def sp_case(g, dt, n):
            d = _rn(g, n + 1, n + 2, dtype=dt)
            d[d.abs() < 0.7] = 0
            d[0, 1] = 1.5
            d[n // 2 + (1 if n // 2 == 0 else 0)] = 0  # an empty row
            d[:, 0] = 0  # an empty column
            return d

        def build(W, g, dt, b, n, kind):
            if b:
                return None
            D = W.lay("dense", sp_case(g, dt, n), kind)
            Z = W.lay("zeros", torch.zeros(n, n, dtype=dt), kind)
            X = W.lay("rhs", _rn(g, 2, n + 2, 3, dtype=dt), kind)

            def f():
                s = SP.to_sparse(D)
                W.add("sparse", s)
                sz = SP.to_sparse(Z)
                W.add("sparse_zero", sz)
                SP.bdsmm(s, X)
                SP.sparse_repeat(s, 2, 1)
                SP.sparse_repeat(s, 1, 2)
                SP.sparse_repeat(s, 3, 1, 1)
                SP.sparse_eye(n)
            return f
        each("sparse_to_sparse_bdsmm_repeat", build)

        erow = lambda n: n // 2 + (1 if n // 2 == 0 else 0)
        for iname, mk_idx in (("int_present", lambda n: (0,)), ("int_empty_row", lambda n: (erow(n),)), ("slice_present", lambda n: (slice(0, 1),)),
                              ("slice_empty_row", lambda n: (slice(erow(n), erow(n) + 1),)), ("int_int_present", lambda n: (0, 1)), ("int_int_empty", lambda n: (erow(n), 0)),
                              ("col_int_empty", lambda n: (slice(None), 0)), ("col_slice_empty", lambda n: (slice(None), slice(0, 1))), ("both_slices", lambda n: (slice(0, n), slice(1, 2)))):
            for coalesced in (False, True):
                def build(W, g, dt, b, n, kind, mk_idx=mk_idx, coalesced=coalesced):
                    if b or kind != "contig":
                        return None
                    s = SP.to_sparse(sp_case(g, dt, n))
                    if coalesced:
                        s = s.coalesce()
                    W.add("sparse", s)
                    return lambda: SP.sparse_getitem(s, mk_idx(n))
                each(f"sparse_getitem/{iname}{'_coalesced' if coalesced else ''}", build)

        def build(W, g, dt, b, n, kind):
            mm = n + 2
            idx = torch.randint(0, mm, (*b, n, 2), generator=g)
            val = _rn(g, *b, n, 2, dtype=dt)
            s = SP.make_sparse_from_indices_and_values(idx, val, mm)
            W.add("sparse", s)
            D = W.lay("dense", _rn(g, *b, n, 3, dtype=dt), kind, requires_grad=True)
            G = W.lay("grad_output", _rn(g, *b, mm, 3, dtype=dt), kind)

            def f():
                out = linear_operator.dsmm(s, D)
                torch.autograd.grad(out, D, grad_outputs=G)
            f._needs_grad = True
            return f
        each("dsmm", build)
    if part == "functions":
        def build(W, g, dt, b, n, kind):
            T = W.lay("tensor", _spd(g, b, n, dt), kind if kind != "expanded" else "contig")
            X = W.lay("rhs", _rn(g, *b, n, 2, dtype=dt), kind)
            Lh = W.lay("lhs", _rn(g, *b, 3, n, dtype=dt), kind)
            d = W.lay("diag", _rn(g, *b, n, dtype=dt).abs(), kind)
            iv = W.lay("initial_vectors", _rn(g, *b, n, 2, dtype=dt), kind)
            tv = W.lay("test_vectors", _rn(g, *b, n, 2, dtype=dt), kind)
            lo = linear_operator
            fs = [lambda: lo.solve(T, X), lambda: lo.solve(T, X, Lh), lambda: lo.inv_quad(T, X), lambda: lo.inv_quad_logdet(T, X, logdet=True),
                  lambda: lo.root_decomposition(T).root.to_dense(), lambda: lo.root_inv_decomposition(T).root.to_dense(),
                  lambda: _with(settings.max_cholesky_size(0), lambda: lo.root_inv_decomposition(T, initial_vectors=iv, test_vectors=tv).root.to_dense()),
                  lambda: lo.add_diagonal(T, d).to_dense(), lambda: lo.add_jitter(T, 0.1), lambda: lo.diagonalization(T),
                  lambda: lo.pivoted_cholesky(T, max(1, n - 1)), lambda: lo.sqrt_inv_matmul(T, X), lambda: lo.sqrt_inv_matmul(T, X, Lh),
                  lambda: _with(settings.max_cholesky_size(0), lambda: lo.solve(T, X)), lambda: _with(settings.max_cholesky_size(0), lambda: lo.inv_quad_logdet(T, X, logdet=True)),
                  lambda: lo.to_dense(T), lambda: lo.to_linear_operator(T).to_dense()]
            return lambda: [_try(f) for f in fs]
        each("functions_on_tensors", build)

        for inverse in (True, False):
            def build(W, g, dt, b, n, kind, inverse=inverse):
                T = W.lay("tensor", _spd(g, b, n, dt), kind if kind != "expanded" else "contig")
                d = W.lay("diag", _rn(g, *b, n, dtype=dt).abs() + 0.5, kind)
                op = O.AddedDiagLinearOperator(O.DenseLinearOperator(T), O.DiagLinearOperator(d))
                W.add_op("operator", op)
                rhs = W.lay("rhs", _rn(g, *b, n, 2, dtype=dt), kind)

                def f():
                    solves, weights, no_shift, shifts = U.contour_integral_quad(op, rhs, inverse=inverse, num_contour_quadrature=5)
                    W.add("weights", weights)
                    W.add("shifts", shifts)
                    U.contour_integral_quad(op, rhs, inverse=inverse, weights=weights, shifts=shifts, num_contour_quadrature=5)
                    with settings.min_preconditioning_size(1), settings.max_preconditioner_size(2):
                        op2 = O.AddedDiagLinearOperator(O.DenseLinearOperator(T), O.DiagLinearOperator(d))
                        U.contour_integral_quad(op2, rhs, inverse=inverse, num_contour_quadrature=5)
                return f
            each(f"contour_integral_quad/inverse={int(inverse)}", build)

        def build(W, g, dt, b, n, kind):
            T = _spd(g, b, n, dt)
            op = O.DenseLinearOperator(T)
            idx = [W.lay(f"index{i}", torch.randint(0, s, (3,), generator=g), kind) for i, s in enumerate(op.shape)]
            from linear_operator.utils.getitem import _convert_indices_to_tensors, _compute_getitem_size
            return lambda: (_convert_indices_to_tensors(op, list(idx)), _convert_indices_to_tensors(op, [slice(None)] * (len(idx) - 1) + [idx[-1]]), _compute_getitem_size(op, tuple(idx)))
        each("getitem_helpers", build)

        def build(W, g, dt, b, n, kind):
            ev = W.lay("eigenvalues", _rn(g, 2, *b, n, dtype=dt).abs() + 0.1, kind)
            evec = W.lay("eigenvectors", _rn(g, 2, *b, n, n, dtype=dt), kind)
            return lambda: U.StochasticLQ().to_dense(torch.Size((n, n)), ev, evec, [lambda x: x.log(), lambda x: x.reciprocal()])
        each("stochastic_lq", build)
    return rec.obligations()


UTIL_PARTS = ["cg", "minres_lanczos", "chol_qr", "toeplitz_interp", "sparse", "functions"]


def _chunks(xs, k):
    size = (len(xs) + k - 1) // k
    return [xs[i:i + size] for i in range(0, len(xs), size)]


def rtc_units(tier):
    from contracts.zoo_names import CASE_NAMES

    us = []
    for i, ch in enumerate(_chunks(list(CASE_NAMES), 9)):
        us.append(Unit(f"C13/rtc/zoo[{i}:{ch[0]}..{ch[-1]}]", "contracts.rtc_C13", "rtc_zoo", (ch, tier), engine="rtc", timeout_s=1500))
    for i, ch in enumerate(_chunks(LOCAL_NAMES, 5)):
        us.append(Unit(f"C13/rtc/layouts[{i}:{ch[0]}..{ch[-1]}]", "contracts.rtc_C13", "rtc_layouts", (ch, tier), engine="rtc", timeout_s=1500))
    for p in UTIL_PARTS:
        us.append(Unit(f"C13/rtc/utils[{p}]", "contracts.rtc_C13", "rtc_utils", (p, tier), engine="rtc", timeout_s=1500))
    us.append(Unit("C13/rtc/shared", "contracts.rtc_C13", "rtc_shared", (tier,), engine="rtc", timeout_s=1500))
    return us


RTC_META = {
    "explanation": "bounded frame contracts: _version, geometry and a bitwise copy of every caller tensor (and of the buffer a view lives in), "
                   "and _matmul(I) of every pre-existing operator, compared before/after every public operation and utility call",
    "assumptions": [
        "bounded tier only: a finite family of concrete inputs; never counted as proved",
        "a call that raises is still checked for writes; whether it may raise is not C13's business",
        "a write that leaves the values equal (a _version bump on caller storage) counts as a modification",
        "detach_ / requires_grad_ are only required to keep the values",
        "CPU only; explicit out= buffers are not exercised",
    ],
    "families": "52 zoo cases x {(),(2,)} (+(1,),(2,3) thorough) x sizes {1,4} (+2,6) x float64 (+ a float32 slice) x argument layouts {contiguous, expanded "
                "(stride 0), transposed / strided view, slice of a larger buffer} x ~60 public operations x settings {default, CG, CG + pivoted-Cholesky "
                "preconditioner}; 24 local operator classes with the defining tensors (incl. integer / boolean index tensors) in the four layouts; "
                "utility functions (linear_cg 10 variants, minres, lanczos_tridiag, psd_safe_cholesky 5 variants, stable_qr / stable_pinverse, toeplitz, "
                "sparse, interpolation, permutation, contour_integral_quad, functions on plain tensors) x layouts x sizes {1,2,5} x batch {(),(2,)} x "
                "float32/float64; multi-step histories on operators sharing views of one buffer",
}
