"""C14 bounded tier — copies, conversions and rebuilds denote the same matrix with the right dtype.

Run-time contracts on the real code for every zoo case and a set of local cases (keyword arguments, integer / boolean
tensor arguments positional and keyword, sub-operators passed by keyword, user subclasses), under torch default dtype
float32 and float64 x operator dtype float32 / float64:

* clone / detach / cpu / to / type / double / float / evaluate_kernel / representation_tree()(*representation()) return
  an operator of the same class (evaluate_kernel: same matrix), same shape, same flags and non-tensor attributes
  (recursively through sub-operators), dtype == target dtype, dense value == D(op) to the target precision, integer and
  boolean tensors keep dtype and values, floating tensors have the target dtype;
* every tensor an operator returns (to_dense, matmul, diagonal, indexing, sums, solve, logdet, inv_quad, factorisations,
  samples ...) has the operator's dtype — and the operator's precision — whatever torch's default dtype is;
* clone() shares no storage with the original; requires_grad_(True) reaches exactly the floating tensors and survives
  clone / conversion, detach() drops it.
"""
from __future__ import annotations

import itertools
import math
import zlib
from collections import OrderedDict

from engine.common import Unit

PID = "C14"

torch = None
O = None
settings = None
zoo = None
linear_operator = None


def _imp():
    global torch, O, settings, zoo, linear_operator
    if torch is None:
        from contracts import zoo as _zoo
        import torch as _torch
        import linear_operator as _lo
        from linear_operator import operators as _O, settings as _settings

        torch, O, settings, zoo, linear_operator = _torch, _O, _settings, _zoo, _lo
        torch.set_num_threads(1)


def _rn(g, *shape, dtype=None):
    return torch.randn(tuple(shape), generator=g, dtype=torch.float64).to(dtype or torch.float64)


def _dn(r):
    return r.to_dense() if isinstance(r, O.LinearOperator) else r


# ------------------------------------------------------------------------------------------
# structure descriptors

_SKIP_ATTRS = ("_args_memo", "_differentiable_kwargs", "_nondifferentiable_kwargs", "_memoize_cache", "_default_preconditioner_cache")


def _simple(v):
    if isinstance(v, (bool, int, float, str, type(None), torch.Size)):
        return True
    if isinstance(v, (tuple, list)) and all(isinstance(x, (bool, int, float, str, type(None))) for x in v):
        return True
    return False


def flags(op, depth=0):
    """non-tensor state of an operator (recursively): simple attributes, dtype-valued attributes, non-tensor kwargs"""
    out = OrderedDict()
    out["__class__"] = type(op).__name__
    for k, v in sorted(vars(op).items()):
        if k in _SKIP_ATTRS or k.endswith("_memo") or k.startswith("_memoize") or k.startswith("_cached") or "cache" in k or "device" in k:
            continue
        if _simple(v):
            out[k] = tuple(v) if isinstance(v, (list, torch.Size)) else v
        elif isinstance(v, torch.dtype):
            out[k] = ("dtype", v)
    for k, v in sorted(op._nondifferentiable_kwargs.items()):
        if "device" in k:
            continue
        if _simple(v):
            out["kw:" + k] = tuple(v) if isinstance(v, (list, torch.Size)) else v
        elif isinstance(v, torch.dtype):
            out["kw:" + k] = ("dtype", v)
        elif isinstance(v, dict):
            out["kw:" + k] = tuple(sorted((str(a), b) for a, b in v.items() if _simple(b)))
        elif callable(v):
            out["kw:" + k] = ("callable", getattr(v, "__name__", str(type(v))))
    if depth < 6:
        for i, a in enumerate(op._args):
            if isinstance(a, O.LinearOperator):
                out[f"arg{i}"] = flags(a, depth + 1)
            elif not torch.is_tensor(a) and _simple(a):
                out[f"arg{i}"] = a
        for k, a in op._differentiable_kwargs.items():
            if isinstance(a, O.LinearOperator):
                out[f"kwop:{k}"] = flags(a, depth + 1)
    return out


def flags_diff(fa, fb, src_dtype, tgt_dtype, path=""):
    """differences between two descriptors; dtype-valued entries equal to the source dtype must become the target dtype"""
    out = []
    for k in fa:
        if k not in fb:
            out.append(f"{path}{k}: missing")
            continue
        a, b = fa[k], fb[k]
        if isinstance(a, OrderedDict):
            if not isinstance(b, OrderedDict):
                out.append(f"{path}{k}: {a.get('__class__')} -> {type(b).__name__}")
            else:
                out += flags_diff(a, b, src_dtype, tgt_dtype, f"{path}{k}.")
            continue
        if isinstance(a, tuple) and len(a) == 2 and a[0] == "dtype":
            exp = ("dtype", tgt_dtype if a[1] == src_dtype else a[1])
            if b != exp:
                out.append(f"{path}{k}: {a[1]} -> {b[1] if isinstance(b, tuple) else b} (expected {exp[1]})")
            continue
        if a != b:
            out.append(f"{path}{k}: {a!r} -> {b!r}")
    for k in fb:
        if k not in fa:
            out.append(f"{path}{k}: new attribute {fb[k]!r}")
    return out


def reps(op):
    try:
        return list(op.representation())
    except Exception:
        return []


def _is_float(t):
    return t.dtype.is_floating_point


def _storage_ptr(t):
    try:
        return t.untyped_storage().data_ptr()
    except Exception:
        return None


def _close(a, b, dt, scale=1.0):
    if a.shape != b.shape:
        return False
    if a.numel() == 0:
        return True
    tol = (3e-4 if dt == torch.float32 else 1e-9) * scale
    ref = max(1.0, float(b.abs().max()))
    d = (a.to(torch.float64) - b.to(torch.float64)).abs().max()
    return bool(torch.isfinite(d)) and float(d) <= tol * ref


def _lower(*dts):
    return torch.float32 if any(d == torch.float32 for d in dts) else torch.float64


# ------------------------------------------------------------------------------------------
# the contracts for one operator


def check_copies(rec, cname, label, op, dense, is_perm=False):
    src = op.dtype
    f0 = flags(op)
    r0 = reps(op)

    def compare(kind, res, tgt, same_class=True, grp=None):
        grp = grp or f"{kind}/{cname}"
        il = label
        if not isinstance(res, O.LinearOperator):
            rec.check(grp, il, False, f"returned {type(res).__name__}")
            return False
        probs = []
        if same_class and type(res) is not type(op):
            probs.append(f"class {type(op).__name__} -> {type(res).__name__}")
        if tuple(res.shape) != tuple(op.shape):
            probs.append(f"shape {tuple(op.shape)} -> {tuple(res.shape)}")
        if res.dtype != tgt:
            probs.append(f"dtype property {res.dtype}, expected {tgt}")
        if same_class and not probs:
            probs += flags_diff(f0, flags(res), src, tgt)[:4]
            r1 = reps(res)
            if len(r1) != len(r0):
                probs.append(f"representation length {len(r0)} -> {len(r1)}")
            else:
                for i, (a, b) in enumerate(zip(r0, r1)):
                    if tuple(a.shape) != tuple(b.shape):
                        probs.append(f"tensor {i}: shape {tuple(a.shape)} -> {tuple(b.shape)}")
                    elif not _is_float(a):
                        if b.dtype != a.dtype:
                            probs.append(f"tensor {i}: {a.dtype} index/mask tensor became {b.dtype}")
                        elif not torch.equal(a, b):
                            probs.append(f"tensor {i}: integer/boolean values changed")
                    elif b.dtype != tgt:
                        probs.append(f"tensor {i}: floating tensor has dtype {b.dtype}, expected {tgt}")
        if not probs:
            try:
                d = res.to_dense()
                if d.dtype != tgt:
                    probs.append(f"to_dense dtype {d.dtype}, expected {tgt}")
                elif not _close(d, dense.to(tgt), _lower(src, tgt), scale=max(1, dense.shape[-1])):
                    probs.append("dense value differs")
            except Exception as e:  # noqa
                probs.append(f"to_dense of the result raised {type(e).__name__}: {str(e)[:120]}")
        if not probs and tgt != src:
            # the converted operator must still work as an operator of the target dtype
            try:
                g = zoo.gen(7)
                X = _rn(g, *dense.shape[:-2], dense.shape[-1], 2, dtype=tgt)
                y = res.matmul(X)
                if y.dtype != tgt:
                    probs.append(f"matmul after conversion returns {y.dtype}")
                elif not _close(y, dense.to(tgt) @ X, _lower(src, tgt), scale=max(1, dense.shape[-1])):
                    probs.append("matmul after conversion: value differs")
            except Exception as e:  # noqa
                probs.append(f"matmul after conversion raised {type(e).__name__}: {str(e)[:120]}")
        rec.check(grp, il, not probs, "; ".join(probs)[:500])
        return not probs

    copies = [("clone", lambda: op.clone(), True), ("detach", lambda: op.detach(), True), ("cpu", lambda: op.cpu(), True),
              ("rebuild", lambda: op.representation_tree()(*op.representation()), True), ("evaluate_kernel", lambda: op.evaluate_kernel(), False),
              ("to_same_dtype", lambda: op.to(src), True), ("to_device", lambda: op.to(torch.device("cpu")), True), ("type_same_dtype", lambda: op.type(src), True)]
    for kind, f, same in copies:
        if kind == "rebuild" and not r0 and not _has_tensor_free_rebuild(op):
            continue
        ok, res = rec.guard(f"{kind}/{cname}", label, f)
        if ok:
            compare(kind, res, src, same_class=same)
    # conversions: every spelling, both targets
    for tgt in (torch.float32, torch.float64):
        tn = str(tgt)[6:]
        like = torch.zeros(1, dtype=tgt)
        conv = [(f"to_{tn}", lambda: op.to(tgt)), (f"to_kw_{tn}", lambda: op.to(dtype=tgt)), (f"to_tensor_{tn}", lambda: op.to(like)),
                (f"to_device_dtype_{tn}", lambda: op.to(torch.device("cpu"), tgt)), (f"type_{tn}", lambda: op.type(tgt)),
                (("double" if tgt == torch.float64 else "float"), (lambda: op.double()) if tgt == torch.float64 else (lambda: op.float()))]
        for kind, f in conv:
            # type() of the index-only operators is an explicit in-place retag in the library: use a fresh copy so that
            # the operator under test keeps its dtype for the following checks
            ok, res = rec.guard(f"{kind}/{cname}", label, f)
            if ok:
                compare(kind, res, tgt)
            if op.dtype != src:  # the conversion retagged the existing operator itself
                rec.check(f"{kind}/{cname}", label + "|self", False, f"conversion changed the dtype of the existing operator {src} -> {op.dtype}")
                try:
                    op.type(src)
                except Exception:
                    pass
    # clone shares no storage
    ok, c = rec.guard(f"clone_storage/{cname}", label, lambda: op.clone())
    if ok and r0:
        shared = []
        ptrs = {_storage_ptr(t): i for i, t in enumerate(r0) if t.numel()}
        for j, t in enumerate(reps(c)):
            if t.numel() and _storage_ptr(t) in ptrs:
                shared.append(f"clone tensor {j} shares storage with original tensor {ptrs[_storage_ptr(t)]}")
        rec.check(f"clone_storage/{cname}", label, not shared, "; ".join(shared)[:300])
    # requires_grad propagation (on a detached clone: all leaves)
    ok, c = rec.guard(f"requires_grad/{cname}", label, lambda: op.detach().clone())
    if ok:
        def rg():
            probs = []
            c.requires_grad_(True)
            rc = reps(c)
            nfloat = sum(1 for t in rc if _is_float(t))
            for i, t in enumerate(rc):
                if _is_float(t) and not t.requires_grad:
                    probs.append(f"floating tensor {i} does not require grad after requires_grad_(True)")
                if not _is_float(t) and t.requires_grad:
                    probs.append(f"non-floating tensor {i} requires grad")
            if bool(c.requires_grad) != (nfloat > 0):
                probs.append(f"requires_grad property {c.requires_grad} with {nfloat} floating tensors")
            for nm, f in (("clone", lambda: c.clone()), ("double", lambda: c.double()), ("float", lambda: c.float()), ("rebuild", lambda: c.representation_tree()(*c.representation())),
                          ("to", lambda: c.to(torch.float64 if src == torch.float32 else torch.float32))):
                if not rc and nm == "rebuild":
                    continue
                r = f()
                for i, t in enumerate(reps(r)):
                    if _is_float(t) and not t.requires_grad:
                        probs.append(f"{nm}: floating tensor {i} lost requires_grad")
                    if not _is_float(t) and t.requires_grad:
                        probs.append(f"{nm}: non-floating tensor {i} requires grad")
            d = c.detach()
            if any(t.requires_grad for t in reps(d)) or d.requires_grad:
                probs.append("detach(): a tensor still requires grad")
            if any(not t.requires_grad for t in reps(c) if _is_float(t)):
                probs.append("detach() changed the original's requires_grad")
            c.requires_grad = False
            if any(t.requires_grad for t in reps(c)) or c.requires_grad:
                probs.append("requires_grad = False left a tensor requiring grad")
            return probs
        ok, probs = rec.guard(f"requires_grad/{cname}", label, rg)
        if ok:
            rec.check(f"requires_grad/{cname}", label, not probs, "; ".join(probs)[:400])


def _has_tensor_free_rebuild(op):
    try:
        op.representation()
        return True
    except Exception:
        return False


def check_returned(rec, cname, label, op, dense, psd, tier):
    """every returned tensor has the operator's dtype (and precision)"""
    dt = op.dtype
    m, n = dense.shape[-2:]
    batch = tuple(dense.shape[:-2])
    g = zoo.gen(zlib.crc32(("ret" + label).encode()) % (2**31))
    sc = max(1, m, n)

    def one(kind, f, ref=None, scale=sc, allowed=()):
        grp = f"returns_{kind}/{cname}"

        def run():
            r = f()
            outs_ = list(r) if isinstance(r, (tuple, list)) else [r]
            return [(_dn(o) if o is not None else None) for o in outs_]

        try:
            outs = run()
        except allowed:
            rec.check(grp, label, True, nontrivial=False)
            return
        except Exception as e:  # noqa
            # C14 is about the dtype / precision of what is returned.  An entry point that raises is another property's
            # business unless the failure is caused by the dtype mismatch itself: re-run with torch's default dtype
            # equal to the operator's dtype; only a failure that disappears there is a C14 failure.
            cur = torch.get_default_dtype()
            dtype_related = False
            if cur != dt and dt.is_floating_point:
                try:
                    torch.set_default_dtype(dt)
                    run()
                    dtype_related = True
                except Exception:
                    dtype_related = False
                finally:
                    torch.set_default_dtype(cur)
            rec.check(grp, label, not dtype_related, f"raises only when torch's default dtype ({cur}) differs from the operator dtype ({dt}): {type(e).__name__}: {str(e)[:200]}",
                      nontrivial=False)
            return
        probs = []
        for i, o in enumerate(outs):
            if o is None or not torch.is_tensor(o) or not o.dtype.is_floating_point:
                continue
            if o.dtype != dt:
                probs.append(f"output {i} has dtype {o.dtype}, operator dtype {dt}")
        if not probs and ref is not None:
            try:
                refs = ref() if callable(ref) else ref
            except Exception:
                refs = None
            if refs is not None:
                refs = refs if isinstance(refs, (tuple, list)) else [refs]
                for i, (o, e) in enumerate(zip(outs, refs)):
                    if e is None or o is None:
                        continue
                    if tuple(o.shape) != tuple(e.shape):
                        continue  # a wrong shape is another property's finding (C01-C03), not a dtype / precision matter
                    elif not _close(o, e.to(dt), dt, scale=scale):
                        probs.append(f"output {i} value differs from the dense computation at {dt} precision (max diff {float((o.double() - e.double()).abs().max()):.2e})")
        rec.check(grp, label, not probs, "; ".join(probs)[:400])

    D = dense.to(torch.float64)
    X = _rn(g, *batch, n, 2, dtype=dt)
    v = _rn(g, n, dtype=dt)
    ri = torch.randint(0, m, (3,), generator=g)
    ci = torch.randint(0, n, (3,), generator=g)
    NI = (NotImplementedError,)
    one("to_dense", lambda: op.to_dense(), dense)
    one("matmul", lambda: (op.matmul(X), op @ v, op._matmul(X)), lambda: (D @ X.double(), D @ v.double(), D @ X.double()))
    Y = _rn(g, *batch, m, 2, dtype=dt)
    one("t_matmul", lambda: (op.mT @ Y, op._t_matmul(Y), Y.mT @ op), lambda: (D.mT @ Y.double(), D.mT @ Y.double(), Y.double().mT @ D))
    one("transpose", lambda: op.mT.to_dense(), lambda: D.mT)
    one("index", lambda: (op[..., ri, ci], op[..., ri, :], op[..., 0, :], op[..., 0, 0], op[..., : max(1, m - 1), n // 2:]),
        lambda: (D[..., ri, ci], D[..., ri, :], D[..., 0, :], D[..., 0, 0], D[..., : max(1, m - 1), n // 2:]))
    if batch:
        one("index_batch", lambda: (op[0], op[0, ..., ri, ci]), lambda: (D[0], D[0, ..., ri, ci]))
        one("sum_batch", lambda: op.sum(0), lambda: D.sum(0))
    one("sums", lambda: (op.sum(-1), op.sum(-2)), lambda: (D.sum(-1), D.sum(-2)))
    one("arith", lambda: ((op * 2.0), (op + dense), (op * torch.tensor(0.5, dtype=dt)), op.add(dense, alpha=2.0) if hasattr(op, "add") else None),
        lambda: (D * 2.0, D + D, D * 0.5, D * 3.0))
    one("expand_repeat", lambda: (op.expand(2, *op.shape), op.repeat(2, 1, 1)), lambda: (D.expand(2, *D.shape), D.repeat(2, *[1] * (D.dim() - 1)) if batch else D.expand(2, *D.shape)))
    if m != n:
        return
    one("diagonal", lambda: op.diagonal(), lambda: D.diagonal(dim1=-2, dim2=-1))
    one("sum_all", lambda: op.sum(), lambda: D.sum(), scale=sc * sc)
    one("add_diagonal", lambda: (op.add_jitter(0.5), op.add_diagonal(torch.ones(n, dtype=dt))), lambda: (D + 0.5 * torch.eye(n, dtype=torch.float64), D + torch.eye(n, dtype=torch.float64)))
    for nm_ in ("abs", "exp", "log", "sqrt", "inverse"):
        one(f"elementwise_{nm_}", lambda nm_=nm_: getattr(op, nm_)(), allowed=NI + (RuntimeError,))
    if not psd:
        return
    Dinv = torch.linalg.inv(D)
    Lf = _rn(g, *batch, 3, n, dtype=dt)
    for tag, ctxs in (("", ()), ("_cg", (lambda: settings.max_cholesky_size(0), lambda: settings.cg_tolerance(1e-8 if dt == torch.float64 else 1e-4), lambda: settings.max_cg_iterations(200)))):
        def under(f):
            def g_():
                st = [c() for c in ctxs]
                for c in st:
                    c.__enter__()
                try:
                    return f()
                finally:
                    for c in reversed(st):
                        c.__exit__(None, None, None)
            return g_
        cgs = 1.0 if not tag else 2e3 if dt == torch.float64 else 30.0  # CG accuracy floor ~1e-6
        mk = lambda: _fresh(op)
        one(f"solve{tag}", under(lambda: (mk().solve(X), mk().solve(v), mk().solve(X, Lf))), lambda: (Dinv @ X.double(), Dinv @ v.double(), Lf.double() @ Dinv @ X.double()), scale=sc * cgs * 10)
        one(f"inv_quad{tag}", under(lambda: (mk().inv_quad(X), mk().inv_quad(X, reduce_inv_quad=False))),
            lambda: ((X.double() * (Dinv @ X.double())).sum((-2, -1)), (X.double() * (Dinv @ X.double())).sum(-2)), scale=sc * cgs * 10)
        # logdet on the CG path is a stochastic estimate: dtype only
        one(f"logdet{tag}", under(lambda: (mk().logdet(),) + tuple(mk().inv_quad_logdet(X, logdet=True))),
            (lambda: (torch.logdet(D), (X.double() * (Dinv @ X.double())).sum((-2, -1)), torch.logdet(D))) if not tag else None, scale=sc * 10)
        one(f"logdet_only{tag}", under(lambda: tuple(mk().inv_quad_logdet(inv_quad_rhs=None, logdet=True))))

        def skip_fwd():
            with settings.skip_logdet_forward(True):
                return tuple(mk().inv_quad_logdet(X, logdet=True))
        one(f"logdet_skip_forward{tag}", under(skip_fwd))
        one(f"root_decomposition{tag}", under(lambda: (lambda R: R @ R.mT)(mk().root_decomposition().root.to_dense())), (lambda: D) if not tag else None, scale=sc * 10)
        one(f"root_inv_decomposition{tag}", under(lambda: (lambda R: R @ R.mT)(mk().root_inv_decomposition().root.to_dense())), (lambda: Dinv) if not tag else None, scale=sc * 100)
        one(f"zero_mean_mvn_samples{tag}", under(lambda: mk().zero_mean_mvn_samples(2)))
        if tag and tier == "quick":
            continue
        one(f"cholesky{tag}", under(lambda: (lambda L: L @ L.mT)(mk().cholesky().to_dense())), lambda: D, scale=sc * 10)
        one(f"eig{tag}", under(lambda: (mk().eigvalsh().sort(-1).values, mk().svd()[1].sort(-1).values, mk().diagonalization()[0].sort(-1).values)),
            (lambda: (torch.linalg.eigvalsh(D),) * 3) if not tag else None, scale=sc * 10)
        one(f"pivoted_cholesky{tag}", under(lambda: (lambda L: L @ L.mT)(mk().pivoted_cholesky(n, error_tol=0.0))), lambda: D, scale=sc * 100)
        one(f"sqrt_inv_matmul{tag}", under(lambda: mk().sqrt_inv_matmul(X)))
        one(f"add_low_rank{tag}", under(lambda: mk().add_low_rank(X)), lambda: D + X.double() @ X.double().mT, scale=sc * 10)
        one(f"cat_rows{tag}", under(lambda: mk().cat_rows(X.mT * 0.1, torch.eye(2, dtype=dt).expand(*batch, 2, 2) * 3.0)))


def _fresh(op):
    """a rebuilt copy without memoised results (so that each entry point runs its own algorithm)"""
    try:
        return op.representation_tree()(*op.representation())
    except Exception:
        return op


# ------------------------------------------------------------------------------------------
# local cases: kwargs, integer / boolean tensor arguments, sub-operators by keyword, flags

_USER = {}


def _user_classes():
    if _USER:
        return _USER

    class KwOp(O.LinearOperator):
        """D = scale * t[..., idx, :] + D(base) + shift * diag(mask) ; index tensor positional, mask / scale / base by keyword"""

        def __init__(self, t, idx, scale=None, base=None, mask=None, shift=0.0, flag=True, name="kw"):
            super().__init__(t, idx, scale=scale, base=base, mask=mask, shift=shift, flag=flag, name=name)
            self.t_, self.idx, self.scale, self.base, self.mask, self.shift, self.flag, self.name = t, idx, scale, base, mask, shift, flag, name

        def _matmul(self, rhs):
            return self.scale * (self.t_[..., self.idx, :] @ rhs) + self.base._matmul(rhs) + self.shift * self.mask.to(rhs.dtype).unsqueeze(-1) * rhs

        def _size(self):
            return self.t_.shape

        def _transpose_nonbatch(self):
            inv = torch.empty_like(self.idx)
            inv[self.idx] = torch.arange(self.idx.numel())
            return KwOp2(self.t_.mT, self.idx, scale=self.scale, base=self.base.mT, mask=self.mask, shift=self.shift, flag=self.flag)

    class KwOp2(O.LinearOperator):
        """transpose companion: D = scale * t[..., :, idx] + D(base) + shift * diag(mask)"""

        def __init__(self, t, idx, scale=None, base=None, mask=None, shift=0.0, flag=True):
            super().__init__(t, idx, scale=scale, base=base, mask=mask, shift=shift, flag=flag)
            self.t_, self.idx, self.scale, self.base, self.mask, self.shift, self.flag = t, idx, scale, base, mask, shift, flag

        def _matmul(self, rhs):
            return self.scale * (self.t_[..., :, self.idx] @ rhs) + self.base._matmul(rhs) + self.shift * self.mask.to(rhs.dtype).unsqueeze(-1) * rhs

        def _size(self):
            return self.t_.shape

        def _transpose_nonbatch(self):
            return KwOp(self.t_.mT, self.idx, scale=self.scale, base=self.base.mT, mask=self.mask, shift=self.shift, flag=self.flag)

    _USER["KwOp"], _USER["KwOp2"] = KwOp, KwOp2
    return _USER


def _tril_pos(g, b, n, dt):
    t = _rn(g, *b, n, n, dtype=dt).tril()
    dg = t.diagonal(dim1=-1, dim2=-2)
    return t - torch.diag_embed(dg) + torch.diag_embed(dg.abs() + 1.0)


def _local_cases():
    C = OrderedDict()

    def user_kw(g, dt, b, n):
        U = _user_classes()["KwOp"]
        t = _rn(g, *b, n, n, dtype=dt)
        idx = torch.randperm(n, generator=g)
        mask = torch.rand(n, generator=g) > 0.4
        scale = torch.tensor(0.7, dtype=dt)
        d = _rn(g, *b, n, dtype=dt).abs() + 0.5
        op = U(t, idx, mask=mask, base=O.DiagLinearOperator(d), scale=scale, shift=1.5, flag=False, name="x")
        return op, 0.7 * t[..., idx, :] + torch.diag_embed(d) + 1.5 * torch.diag_embed(mask.to(dt)).expand(*b, n, n), False
    C["user_kw"] = user_kw

    def user_kw_nested(g, dt, b, n):
        U = _user_classes()["KwOp"]
        t = _rn(g, *b, n, n, dtype=dt)
        idx = torch.randperm(n, generator=g)
        mask = torch.ones(n, dtype=torch.bool)
        c = _rn(g, *b, n, dtype=dt) * 0.2
        c[..., 0] = c[..., 0].abs() + n
        inner = U(t, idx, mask=mask, base=O.ToeplitzLinearOperator(c), scale=torch.tensor(0.0, dtype=dt), shift=float(n))
        op = O.ConstantMulLinearOperator(base_linear_op=O.SumLinearOperator(inner, O.DiagLinearOperator(c.abs() + 1)), constant=torch.tensor(2.0, dtype=dt))
        dn = 2.0 * (zoo.toeplitz_dense(c) + float(n) * torch.eye(n, dtype=dt) + torch.diag_embed(c.abs() + 1))
        return op, dn, True
    C["user_kw_nested_psd"] = user_kw_nested

    def constmul_kw(g, dt, b, n):
        a = zoo.spd(g, b, n, dt)
        k = _rn(g, *b, dtype=dt).abs() + 0.5 if b else torch.tensor(1.7, dtype=dt)
        return O.ConstantMulLinearOperator(base_linear_op=O.DenseLinearOperator(a), constant=k), a * k[..., None, None], True
    C["constmul_kwargs"] = constmul_kw

    def tri_upper_kw(g, dt, b, n):
        t = _tril_pos(g, b, n, dt).mT.contiguous()
        return O.TriangularLinearOperator(t, upper=True), t.clone(), False
    C["tri_upper_kw"] = tri_upper_kw

    def chol_upper_kw(g, dt, b, n):
        t = _tril_pos(g, b, n, dt).mT.contiguous()
        return O.CholLinearOperator(O.TriangularLinearOperator(t, upper=True), upper=True), t.mT @ t, True
    C["chol_upper_kw"] = chol_upper_kw

    def kron_tri_upper(g, dt, b, n):
        a_, c_ = (2, n // 2) if n % 2 == 0 and n > 1 else (1, n)
        A, B = _tril_pos(g, b, a_, dt).mT.contiguous(), _tril_pos(g, b, c_, dt).mT.contiguous()
        return O.KroneckerProductTriangularLinearOperator(O.TriangularLinearOperator(A, upper=True), O.TriangularLinearOperator(B, upper=True), upper=True), zoo.kron(A, B), False
    C["kron_tri_upper"] = kron_tri_upper

    def blockdiag_dim(g, dt, b, n):
        blocks = zoo.spd(g, (3, *b), n, dt)  # block dimension first
        op = O.BlockDiagLinearOperator(O.DenseLinearOperator(blocks), block_dim=0)
        return op, zoo.block_diag_dense(blocks.movedim(0, -3)), True
    C["blockdiag_block_dim0"] = blockdiag_dim

    def blockinter_dim(g, dt, b, n):
        blocks = zoo.spd(g, (2, *b), n, dt)
        op = O.BlockInterleavedLinearOperator(O.DenseLinearOperator(blocks), block_dim=0)
        return op, zoo.block_interleaved_dense(blocks.movedim(0, -3)), True
    C["blockinterleaved_block_dim0"] = blockinter_dim

    def sumbatch_dim(g, dt, b, n):
        blocks = zoo.spd(g, (3, *b), n, dt)
        return O.SumBatchLinearOperator(O.DenseLinearOperator(blocks), block_dim=0), blocks.sum(0), True
    C["sumbatch_block_dim0"] = sumbatch_dim

    def batchrepeat_kw(g, dt, b, n):
        c = _rn(g, 2, n, dtype=dt) * 0.3
        c[..., 0] = c[..., 0].abs() + n
        rep = torch.Size((*b, 2)) if b else torch.Size([3])
        return O.BatchRepeatLinearOperator(O.ToeplitzLinearOperator(c), batch_repeat=rep), zoo.toeplitz_dense(c).repeat(*rep, 1, 1), True
    C["batchrepeat_kw"] = batchrepeat_kw

    def cat_kw(g, dt, b, n):
        a, c = _rn(g, *b, n, n, dtype=dt), _rn(g, *b, 2, n, dtype=dt)
        return O.CatLinearOperator(O.DenseLinearOperator(a), O.DenseLinearOperator(c), dim=-2, output_device=torch.device("cpu")), torch.cat([a, c], -2), False
    C["cat_rows_kw"] = cat_kw

    def cat3(g, dt, b, n):
        a, c, e = _rn(g, *b, n, 1, dtype=dt), _rn(g, *b, n, n, dtype=dt), _rn(g, *b, n, 2, dtype=dt)
        return O.CatLinearOperator(O.DenseLinearOperator(a), O.DenseLinearOperator(c), O.DenseLinearOperator(e), dim=len(b) + 1), torch.cat([a, c, e], -1), False
    C["cat3_cols_positive_dim"] = cat3

    def interp_default(g, dt, b, n):
        mm = n + 1
        base = zoo.spd(g, b, mm, dt)
        li = torch.randint(0, mm, (*b, n, 2), generator=g)
        lv = _rn(g, *b, n, 2, dtype=dt)
        op = O.InterpolatedLinearOperator(O.DenseLinearOperator(base), left_interp_indices=li, left_interp_values=lv)
        return op, zoo.interp_matrix(li, lv, mm) @ base, False
    C["interp_left_only_kw"] = interp_default

    def interp_toeplitz(g, dt, b, n):
        mm = n + 1
        c = _rn(g, *b, mm, dtype=dt) * 0.3
        c[..., 0] = c[..., 0].abs() + mm
        li = torch.randint(0, mm, (*b, n, 2), generator=g)
        lv = _rn(g, *b, n, 2, dtype=dt)
        d = _rn(g, *b, n, dtype=dt).abs() + 0.5
        Wl = zoo.interp_matrix(li, lv, mm)
        op = O.AddedDiagLinearOperator(O.InterpolatedLinearOperator(O.ToeplitzLinearOperator(c), li, lv, li.clone(), lv.clone()), O.DiagLinearOperator(d))
        return op, Wl @ zoo.toeplitz_dense(c) @ Wl.mT + torch.diag_embed(d), True
    C["addeddiag_interp_toeplitz"] = interp_toeplitz

    def masked_psd(g, dt, b, n):
        mm = n + 2
        base = zoo.spd(g, b, mm, dt)
        msk = torch.zeros(mm, dtype=torch.bool)
        msk[torch.randperm(mm, generator=g)[:n]] = True
        return O.MaskedLinearOperator(O.DenseLinearOperator(base), msk, msk.clone()), base[..., msk, :][..., :, msk], True
    C["masked_psd"] = masked_psd

    def identity_kw(g, dt, b, n):
        return O.IdentityLinearOperator(diag_shape=n, batch_shape=torch.Size(b), dtype=dt), torch.eye(n, dtype=dt).expand(*b, n, n).clone(), True
    C["identity_kw"] = identity_kw

    def zero_sq(g, dt, b, n):
        return O.ZeroLinearOperator(*b, n, n, dtype=dt), torch.zeros(*b, n, n, dtype=dt), False
    C["zero_square"] = zero_sq

    def constdiag_kw(g, dt, b, n):
        v = _rn(g, *b, 1, dtype=dt).abs() + 0.5
        return O.ConstantDiagLinearOperator(diag_values=v, diag_shape=n), torch.diag_embed(v.expand(*b, n)), True
    C["constdiag_kwargs"] = constdiag_kw

    def kernel_kw(g, dt, b, n):
        x = _rn(g, *b, n, 2, dtype=dt)
        ls = torch.tensor(1.3, dtype=dt)
        d = _rn(g, *b, n, dtype=dt).abs() + 0.5
        op = O.AddedDiagLinearOperator(O.KernelLinearOperator(x, x, covar_func=zoo._rbf, lengthscale=ls, num_nonbatch_dimensions={"lengthscale": 0}, extra="unused"),
                                       O.DiagLinearOperator(d))
        return op, zoo._rbf(x, x, ls) + torch.diag_embed(d), True
    C["addeddiag_kernel_kw"] = kernel_kw

    def kpad_tri(g, dt, b, n):
        a_, c_ = (2, n // 2) if n % 2 == 0 and n > 1 else (1, n)
        A, B = zoo.spd(g, b, a_, dt), zoo.spd(g, b, c_, dt)
        v = _rn(g, *b, 1, dtype=dt).abs() + 0.5
        return (O.KroneckerProductAddedDiagLinearOperator(O.KroneckerProductLinearOperator(A, B), O.ConstantDiagLinearOperator(v, diag_shape=n)),
                zoo.kron(A, B) + torch.diag_embed(v.expand(*b, n)), True)
    C["kpad_tensor_factors"] = kpad_tri

    def perm_batch(g, dt, b, n):
        p = torch.stack([torch.randperm(n, generator=g) for _ in range(max(1, math.prod(b)))]).reshape(*b, n)
        D = torch.zeros(*b, n, n, dtype=torch.float32)
        D.scatter_(-1, p.unsqueeze(-1), 1.0)
        return O.PermutationLinearOperator(p), D, False
    C["perm_local"] = perm_batch
    return C


LOCAL_NAMES = ["user_kw", "user_kw_nested_psd", "constmul_kwargs", "tri_upper_kw", "chol_upper_kw", "kron_tri_upper", "blockdiag_block_dim0", "blockinterleaved_block_dim0",
               "sumbatch_block_dim0", "batchrepeat_kw", "cat_rows_kw", "cat3_cols_positive_dim", "interp_left_only_kw", "addeddiag_interp_toeplitz", "masked_psd", "identity_kw",
               "zero_square", "constdiag_kwargs", "addeddiag_kernel_kw", "kpad_tensor_factors", "perm_local"]


def _guarded(rec, cname, lab, f):
    try:
        f()
    except Exception as e:  # noqa  a problem of this harness: keep it visible
        import traceback
        tb = traceback.format_exc().strip().splitlines()
        rec.check(f"harness/{cname}", lab, False, f"{type(e).__name__}: {str(e)[:200]} @ {tb[-3][:150]} | {tb[-2][:150]}")


def _defaults(fn):
    old = torch.get_default_dtype()
    try:
        for d in (torch.float32, torch.float64):
            torch.set_default_dtype(d)
            fn(d)
    finally:
        torch.set_default_dtype(old)


def rtc_zoo(case_names, tier):
    _imp()
    from contracts.rtc_common import Recorder

    rec = Recorder(PID)
    batches = [(), (2,)] if tier == "quick" else [(), (2,), (1,), (2, 3)]
    sizes = [1, 4] if tier == "quick" else [1, 2, 4, 6]

    def run(default):
        dn = str(default)[6:]
        for label, c, op, dense in zoo.instances(tier, names=case_names, batches=batches, sizes=sizes):
            lab = f"{label}|default={dn}"
            torch.manual_seed(zlib.crc32(lab.encode()) % (2**31))  # library-internal random draws: reproducible
            if op is None:
                rec.check(f"construct/{c.name}", lab, False, f"constructor raised {dense!r}")
                continue
            _guarded(rec, c.name, lab, lambda: check_copies(rec, c.name, lab, op, dense, is_perm=c.name in ("perm", "tperm")))
            _guarded(rec, c.name, lab, lambda: check_returned(rec, c.name, lab, op, dense, c.psd, tier))
    _defaults(run)
    return rec.obligations()


def rtc_local(names, tier):
    _imp()
    from contracts.rtc_common import Recorder

    rec = Recorder(PID)
    cases = _local_cases()
    combos = [((), 4), ((2,), 1), ((2,), 4)] if tier == "quick" else list(itertools.product([(), (2,), (1,), (2, 3)], [1, 2, 4, 6]))

    def run(default):
        dn = str(default)[6:]
        for name in names:
            for (b, n), dt in itertools.product(combos, (torch.float32, torch.float64)):
                if name == "perm_local" and dt != torch.float32:
                    continue
                lab = f"local_{name}|{str(dt)[6:]}|b={b}|n={n}|default={dn}"
                g = zoo.gen(zlib.crc32(repr((name, str(dt), b, n)).encode()) % (2**31))
                torch.manual_seed(zlib.crc32(lab.encode()) % (2**31))
                ok, res = rec.guard(f"construct/local_{name}", lab, lambda: cases[name](g, dt, tuple(b), n))
                if not ok:
                    continue
                op, dense, psd = res
                _guarded(rec, f"local_{name}", lab, lambda: check_copies(rec, f"local_{name}", lab, op, dense))
                _guarded(rec, f"local_{name}", lab, lambda: check_returned(rec, f"local_{name}", lab, op, dense, psd, tier))
    _defaults(run)
    return rec.obligations()


def _chunks(xs, k):
    size = (len(xs) + k - 1) // k
    return [xs[i:i + size] for i in range(0, len(xs), size)]


def rtc_units(tier):
    from contracts.zoo_names import CASE_NAMES

    us = []
    for i, ch in enumerate(_chunks(list(CASE_NAMES), 10)):
        us.append(Unit(f"C14/rtc/zoo[{i}:{ch[0]}..{ch[-1]}]", "contracts.rtc_C14", "rtc_zoo", (ch, tier), engine="rtc", timeout_s=1500))
    for i, ch in enumerate(_chunks(LOCAL_NAMES, 4)):
        us.append(Unit(f"C14/rtc/local[{i}:{ch[0]}..{ch[-1]}]", "contracts.rtc_C14", "rtc_local", (ch, tier), engine="rtc", timeout_s=1500))
    return us


RTC_META = {
    "explanation": "bounded run-time contracts: class / shape / flags / dtype / dense value of every copy, conversion and rebuild; dtype and precision of every "
                   "returned tensor under torch default dtype float32 and float64; storage disjointness of clones; requires_grad propagation",
    "assumptions": [
        "bounded tier only: a finite family of concrete inputs; never counted as proved",
        "CPU only (cpu() / to(device) are exercised with the cpu device); half precision not exercised",
        "evaluate_kernel may restructure the operator (AddedDiag re-adds its parts): only shape, dtype and dense value are required of it",
        "values on the CG path are compared at the CG accuracy floor; the stochastic CG logdet is checked for dtype only",
    ],
    "families": "52 zoo cases + 21 local cases (user subclasses with positional / keyword integer and boolean tensors and a sub-operator passed by keyword, "
                "constructors called with keyword arguments, upper / block_dim / batch_repeat / dim / diag_shape flags) x batch {(),(2,)} (+(1,),(2,3) thorough) x "
                "sizes {1,4} (+2,6) x operator dtype {float32,float64} x torch default dtype {float32,float64} x 8 copies/rebuilds + 12 conversion spellings + "
                "~40 returned-tensor entry points (default and CG settings)",
}
