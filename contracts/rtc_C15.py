"""C15 — bounded tier: torch.* dispatch on operators matches the methods, in either argument order.

Every entry of the two dispatch tables of linear_operator/operators/_linear_operator.py
(_HANDLED_FUNCTIONS: operator first; _HANDLED_SECOND_ARG_FUNCTIONS: operator second) is called literally
(`torch.f(op, ...)`, `torch.f(tensor, op)`, `tensor <binop> op`, `op <binop> tensor`, `Tensor.f(tensor, op)`) for every
zoo class x operand kind (Tensor, python scalar, 0-d tensor, other operator incl. parent/child class pairs) and compared
(a) with the method the table names (same value, or the same exception type) and (b) with torch.f on the dense operands.
A registered function without a recipe below is itself a failure (the enumeration is complete w.r.t. the live tables).
Unregistered torch functions must raise NotImplementedError.

Torch-free at import time.
"""
from __future__ import annotations

from engine.common import Unit

PID = "C15"

H = None  # contracts.rtc_C02 (shared helpers of the same builder)
torch = zoo = O = LinearOperator = Recorder = None


def _init():
    global H, torch, zoo, O, LinearOperator, Recorder
    if H is None:
        from contracts import rtc_C02 as _H

        _H._init()
        H = _H
        torch, zoo, O, LinearOperator, Recorder = _H.torch, _H.zoo, _H.O, _H.LinearOperator, _H.Recorder


# exception types that are an *explicit* refusal (declared unsupported / invalid argument); anything else coming out of an
# arithmetic / reflected entry (AttributeError, IndexError, UnboundLocalError ...) is an internal error
EXPLICIT = (NotImplementedError, RuntimeError, TypeError, ValueError)


def _fname(f):
    mod = getattr(f, "__module__", None) or ""
    q = getattr(f, "__qualname__", None) or getattr(f, "__name__", str(f))
    if "TensorBase" in q or "Tensor." in q:
        return "Tensor." + q.split(".")[-1]
    if "linalg" in mod or q.startswith("linalg_"):
        return "linalg." + q.replace("linalg_", "")
    return q.split(".")[-1]


def _run(fn):
    try:
        return True, fn()
    except Exception as e:  # noqa
        return False, e


def _explicit(e):
    """is the exception an explicit refusal (as opposed to an accident inside the library)?"""
    if isinstance(e, EXPLICIT):
        return True
    # the library sometimes raises AttributeError("other must be a LinearOperator") on purpose
    return isinstance(e, AttributeError) and "has no attribute" not in str(e)


def _flat(r):
    """result -> list of dense tensors / python values (operators densified, None kept)"""
    if isinstance(r, (tuple, list)):
        out = []
        for x in r:
            out += _flat(x)
        return out
    if isinstance(r, LinearOperator):
        return [r.to_dense()]
    return [r]


def _same(a, b, dt, scale=1.0):
    try:
        fa, fb = _flat(a), _flat(b)
    except Exception as e:  # noqa
        return False, f"to_dense() of a result raised {type(e).__name__}: {e}"[:300]
    if len(fa) != len(fb):
        return False, f"{len(fa)} vs {len(fb)} results"
    for x, y in zip(fa, fb):
        if torch.is_tensor(x) != torch.is_tensor(y):
            return False, f"{type(x).__name__} vs {type(y).__name__}"
        if torch.is_tensor(x):
            if x.shape != y.shape:
                return False, f"shape {tuple(x.shape)} vs {tuple(y.shape)}"
            if x.dtype != y.dtype:
                return False, f"dtype {x.dtype} vs {y.dtype}"
            if x.dtype == torch.bool or not x.dtype.is_floating_point:
                if not torch.equal(x, y):
                    return False, "values differ"
            else:
                both_nan = torch.isnan(x) & torch.isnan(y)
                both_inf = torch.isinf(x) & torch.isinf(y) & (x == y)
                xx, yy = torch.where(both_nan | both_inf, torch.zeros_like(x), x), torch.where(both_nan | both_inf, torch.zeros_like(y), y)
                if not bool(torch.isfinite(xx).all() == torch.isfinite(yy).all()) or not zoo.close(torch.nan_to_num(xx), torch.nan_to_num(yy), dt=dt, scale=scale):
                    return False, f"values differ (max abs err {float((torch.nan_to_num(xx).double() - torch.nan_to_num(yy).double()).abs().max()):.3e})"
        elif x != y:
            return False, f"{x!r} vs {y!r}"
    return True, ""


class Ctx:
    def __init__(self, rec, case, label, dt):
        self.rec, self.case, self.label, self.dt = rec, case, label, dt

    def call(self, entry, sub, torch_call, method_call=None, dense_call=None, scale=1.0, owned=True, cmp=None, dense_when=True, must_raise=None, tag=None):
        """entry: table entry name; sub: operand kind / variant.
        torch_call(): the literal torch-level call; method_call(): the method the table names; dense_call(): torch.f on dense.
        owned: C15 owns the value contract of this entry (arithmetic / reflected / shape functions): internal-error exception
        types are failures even when the method raises the same.  cmp(result, dense_result) -> (ok, detail) overrides the
        default comparison with dense.  must_raise: the call is outside what the library declares supported: it must raise
        one of these types and never return."""
        group = f"{entry}({sub})/{self.case.name}"  # no [] in names: obligations are matched with fnmatch
        lab = self.label if tag is None else f"{self.label}|{tag}"
        ok_t, r_t = _run(torch_call)
        if must_raise is not None:
            if ok_t:
                self.rec.check(group, lab, False, f"returned a {type(r_t).__name__} instead of raising {[t.__name__ for t in must_raise]} (silently mis-dispatched)")
            else:
                self.rec.check(group, lab, isinstance(r_t, must_raise), f"raised {type(r_t).__name__}: {r_t}"[:300])
            return
        if method_call is not None:
            ok_m, r_m = _run(method_call)
            if ok_t != ok_m:
                a, b = (f"returned {type(r_t).__name__}" if ok_t else f"raised {type(r_t).__name__}: {r_t}"), (f"returned {type(r_m).__name__}" if ok_m else f"raised {type(r_m).__name__}: {r_m}")
                self.rec.check(group, lab, False, f"torch-level call {a} but the method {b}"[:500])
                return
            if not ok_t:
                if type(r_t) is not type(r_m):
                    self.rec.check(group, lab, False, f"torch-level call raised {type(r_t).__name__} but the method raised {type(r_m).__name__}"[:400])
                elif owned and not _explicit(r_t):
                    self.rec.check(group, lab, False, f"internal error {type(r_t).__name__}: {r_t}"[:400])
                else:
                    self.rec.check(group, lab, True, nontrivial=False)
                return
            same, why = _same(r_t, r_m, self.dt, scale=max(scale, 10.0))
            if not same or isinstance(r_t, LinearOperator) != isinstance(r_m, LinearOperator):
                self.rec.check(group, lab, False, f"torch-level result differs from the method's: {why or (type(r_t).__name__ + ' vs ' + type(r_m).__name__)}")
                return
        elif not ok_t:
            if owned and not _explicit(r_t):
                self.rec.check(group, lab, False, f"internal error {type(r_t).__name__}: {r_t}"[:400])
            elif owned and dense_call is not None and dense_when and isinstance(r_t, (TypeError,)) and "unexpected keyword" in str(r_t):
                self.rec.check(group, lab, False, f"the handler does not accept the call the router makes: {r_t}"[:400])
            else:
                self.rec.check(group, lab, True, nontrivial=False)
            return
        if dense_call is not None and dense_when:
            ok_d, r_d = _run(dense_call)
            if not ok_d:
                self.rec.check(group, lab, True, nontrivial=False)  # torch itself rejects the dense call: nothing to compare
                return
            if cmp is not None:
                try:
                    ok, why = cmp(r_t, r_d)
                except Exception as e:  # noqa
                    ok, why = False, f"comparison raised {type(e).__name__}: {e}"
            else:
                ok, why = _same(r_t, r_d, self.dt, scale=scale)
            self.rec.check(group, lab, ok, f"differs from torch on dense operands: {why}")
        else:
            self.rec.check(group, lab, True)


# ------------------------------------------------------------------------------------------
# recipes


def _others(case, d, dt, label, always=False):
    """other-operator operands with the same shape: same case (other values), diagonal family / dense / root family
    (these include parent-child class pairs, for which torch consults the *child's* __torch_function__ first)"""
    m, n = d.shape[-2:]
    batch = tuple(d.shape[:-2])
    out = []
    if not always and not (dt == torch.float64 and len(batch) <= 1 and max(m, n) > 1) and case.name not in ("perm", "tperm"):
        return out  # operator (.) operator combinations: float64, non-degenerate size, batch rank <= 1 (quick sub-grid)
    names = [case.name, "dense_rect" if m != n else "dense_psd"]
    if m == n:
        names += ["diag", "constdiag", "identity", "tri_lower", "chol_lower", "addeddiag", "kron_diag", "sum", "zero_rect" if False else "root"]
    seen = set()
    for nm in names:
        c = H.case_of(nm)
        k = H.n_for(c, (m, n))
        if k is None or nm in seen or not H.dtype_ok(c, dt) or not H.batch_ok(c, batch):
            continue
        seen.add(nm)
        try:
            o, od = H.build(c, dt, batch, k, "other", label)
        except Exception:  # noqa
            continue
        if tuple(od.shape) != tuple(d.shape) or od.dtype != d.dtype:
            continue
        out.append((nm, c, o, od))
    return out


def _first_arg(cx, f, name, op, d, mk, g):
    """operator-first entries.  f: the registered function object; name: method name from the table"""
    case, dt = cx.case, cx.dt
    fn = _fname(f)
    m, n = d.shape[-2:]
    batch = tuple(d.shape[:-2])
    nb = len(batch)
    nd = nb + 2
    meth = lambda *a, **k: getattr(op, name)(*a, **k)  # noqa
    T = zoo.rn(g, *d.shape, dtype=dt)
    Tb = zoo.rn(g, m, n, dtype=dt) if batch else zoo.rn(g, 2, m, n, dtype=dt)
    sq = m == n
    e = f"first:{fn}"

    if f in (torch.abs, torch.exp, torch.log, torch.sqrt):
        base = d.abs() + 0.5 if f in (torch.log, torch.sqrt) else d  # keep log/sqrt real where the support is nonzero
        offdiag = d - torch.diag_embed(d.diagonal(dim1=-2, dim2=-1)) if sq else None
        is_diag = sq and bool((offdiag == 0).all())

        def dense():
            if is_diag:  # structural zeros stay zero: the function acts on the diagonal (= the matrix function)
                return torch.diag_embed(f(d.diagonal(dim1=-2, dim2=-1)))
            return f(d)

        ok = not (f in (torch.log, torch.sqrt) and bool((d.diagonal(dim1=-2, dim2=-1) <= 0).any())) if sq else True
        cx.call(e, "op", lambda: f(op), lambda: meth(), dense, dense_when=ok)
        return True
    if f in (torch.add, torch.sub):
        sgn = 1.0 if f is torch.add else -1.0
        for tk, X in (("T", T), ("T_bcast", Tb)):
            cx.call(e, tk, lambda: f(op, X), lambda: meth(X), lambda: f(d, X))
            cx.call(e, tk + ",alpha", lambda: f(op, X, alpha=2.5), lambda: meth(X, alpha=2.5), lambda: f(d, X, alpha=2.5))
        cx.call(e, "T,alpha_pos", lambda: f(op, T, 0.5) if False else f(op, T, alpha=-0.5), lambda: meth(T, alpha=-0.5), lambda: f(d, T, alpha=-0.5))
        for nm, c2, o2, od2 in _others(case, d, dt, cx.label):
            if H.is_root(o2) and not case.psd and f is torch.add:
                continue
            cx.call(e, f"op:{nm}", lambda: f(op, o2), lambda: meth(o2), lambda: f(d, od2))
            if not (H.root_after_mul(o2, 2.0 * sgn) and not case.psd):
                cx.call(e, f"op:{nm},alpha", lambda: f(op, o2, alpha=2.0), lambda: meth(o2, alpha=2.0), lambda: f(d, od2, alpha=2.0))
        for pk, v in (("py_zero", 0), ("py_float", 2.0)):
            # python scalar as the other operand of +/-: the property does not say which error a refusal must be: only "same as the
            # method" and, when something is returned, "equal to torch on dense" are required
            cx.call(e, pk, lambda: f(op, v), lambda: meth(v), lambda: f(d, v), owned=False)
        return True
    if f is torch.mul:
        for tk, X in (("T", T), ("T_bcast", Tb), ("t0", torch.tensor(-1.5, dtype=dt)), ("py_float", 2.5), ("py_int", -2), ("tb", zoo.rn(g, *batch, 1, 1, dtype=dt) if batch else zoo.rn(g, 1, 1, dtype=dt))):
            cx.call(e, tk, lambda: f(op, X), lambda: meth(X), lambda: f(d, X))
        if case.psd and sq:
            for nm, c2, o2, od2 in _others(case, d, dt, cx.label):
                if c2.psd or nm in ("diag", "constdiag", "identity"):
                    cx.call(e, f"op:{nm}", lambda: f(op, o2), lambda: meth(o2), lambda: f(d, od2), scale=100.0)
        return True
    if f is torch.div:
        Tnz = torch.where(T >= 0, T + 0.5, T - 0.5)
        for tk, X in (("T", Tnz), ("t0", torch.tensor(-1.5, dtype=dt)), ("py_float", 2.5), ("py_int", -2), ("tb", (zoo.rn(g, *batch, 1, 1, dtype=dt).abs() + 0.5) if batch else torch.tensor([[0.75]], dtype=dt))):
            cx.call(e, tk, lambda: f(op, X), lambda: meth(X), lambda: f(d, X))
        return True
    if f is torch.matmul:
        rhss = {"vec": (n,), "mat": (n, 3), "batched": (*batch, n, 2), "extra": (2, *batch, n, 1)}
        for tk, sh in rhss.items():
            X = zoo.rn(g, *sh, dtype=dt)
            cx.call(e, "T_" + tk, lambda: f(op, X), lambda: meth(X), lambda: f(d, X), scale=max(1, n))
        for nm, c2, o2, od2 in _others(case, d.mT if not sq else d, dt, cx.label) if True else []:
            if od2.shape[-2] == n:
                cx.call(e, f"op:{nm}", lambda: f(op, o2), lambda: meth(o2), lambda: f(d, od2), scale=max(1, n))
        return True
    if f is torch.isclose:
        near = d + 1e-7 * zoo.rn(g, *d.shape, dtype=dt)
        near[..., 0, 0] = d[..., 0, 0] + 1.0
        rel = d * 1.005  # separates rtol from atol: close everywhere under (rtol=1e-2, atol=0); under (rtol=0, atol=1e-2) only where |d| <= 2
        for tk, X, kw in (("T", T, {}), ("T_near", near, {}), ("T_near,rtol", near, {"rtol": 1e-3, "atol": 0.0}), ("T_bcast", Tb, {"equal_nan": True}),
                          ("T_rel,rtol", rel, {"rtol": 1e-2, "atol": 0.0}), ("T_rel,atol", rel, {"rtol": 0.0, "atol": 1e-2}), ("T_rel,positional", rel, None)):
            if dt != torch.float64 and tk not in ("T", "T_bcast"):
                continue  # threshold-sensitive variants only in float64 (float32 rounding of to_dense() can flip an entry at the tolerance)
            if kw is None:
                cx.call(e, tk, lambda: f(op, X, 1e-2, 1e-3), lambda: meth(X, 1e-2, 1e-3), lambda: f(d, X, 1e-2, 1e-3))
                continue
            cx.call(e, tk, lambda: f(op, X, **kw), lambda: meth(X, **kw), lambda: f(d, X, **kw))
        for nm, c2, o2, od2 in _others(case, d, dt, cx.label)[:2]:
            cx.call(e, f"op:{nm}", lambda: f(op, o2), lambda: meth(o2), lambda: f(d, od2))
        return True
    if f is torch.diagonal:
        cx.call(e, "dim1=-2,dim2=-1", lambda: f(op, dim1=-2, dim2=-1), lambda: meth(dim1=-2, dim2=-1), lambda: f(d, dim1=-2, dim2=-1), dense_when=sq)
        cx.call(e, "0,-2,-1", lambda: f(op, 0, -2, -1), lambda: meth(0, -2, -1), lambda: f(d, 0, -2, -1), dense_when=sq)
        cx.call(e, "dim1=-1,dim2=-2", lambda: f(op, dim1=-1, dim2=-2), lambda: meth(dim1=-1, dim2=-2), lambda: f(d, dim1=-1, dim2=-2), dense_when=sq)
        if not batch:
            cx.call(e, "default_dims_unbatched", lambda: f(op), None, lambda: f(d), dense_when=sq)
        if sq and n > 1:
            # documented as not implemented: must raise, not return something else
            cx.call(e, "offset=1:unsupported", lambda: f(op, offset=1, dim1=-2, dim2=-1), must_raise=(NotImplementedError,))
            cx.call(e, "offset=-1:unsupported", lambda: f(op, -1, -2, -1), must_raise=(NotImplementedError,))
        if nb >= 2 and sq:
            cx.call(e, "batch_dims:unsupported", lambda: f(op, dim1=0, dim2=1), must_raise=(NotImplementedError, RuntimeError))
            cx.call(e, "batch_dims,offset:unsupported", lambda: f(op, offset=1, dim1=0, dim2=1), must_raise=(NotImplementedError, RuntimeError))
        if nb >= 1 and sq and n > 1:
            cx.call(e, "batch_and_matrix_dim:unsupported", lambda: f(op, dim1=0, dim2=-1), must_raise=(NotImplementedError, RuntimeError))
        return True
    if f is torch.logdet:
        cx.call(e, "op", lambda: f(op), lambda: meth(), lambda: f(d), scale=1e3, owned=False, dense_when=sq and case.psd)
        return True
    if f is torch.linalg.solve:
        # (n, n+1) / (*batch, n, 1): shapes torch.linalg.solve cannot mistake for a batch of vectors
        for tk, sh in {"mat": (n, n + 1), "vec": (n,), "batched": (*batch, n, 1)}.items():
            if (tk == "vec" and batch) or (tk == "batched" and batch and batch[-1] == n == 1):
                continue
            B = zoo.rn(g, *sh, dtype=dt)
            cx.call(e, "T_" + tk, lambda: f(mk(), B), lambda: getattr(mk(), name)(B), lambda: f(d, B), scale=1e3, owned=False, dense_when=sq and case.psd)
        return True
    if f is torch.linalg.cholesky:
        cx.call(e, "op", lambda: f(mk()), lambda: getattr(mk(), name)(), lambda: f(d), scale=1e2, owned=False, dense_when=sq and case.psd)
        cx.call(e, "upper=True", lambda: f(mk(), upper=True), lambda: getattr(mk(), name)(upper=True), lambda: f(d, upper=True), scale=1e2, owned=False, dense_when=sq and case.psd)
        return True
    lsc = 1e3 if dt == torch.float64 else 50.0  # reconstruction / spectrum tolerance: 1e-6 (float64), 1e-2 (float32) relative
    if f in (torch.linalg.eigh, torch.linalg.eigvalsh):
        def cmp(r, rd):
            evals = r if f is torch.linalg.eigvalsh else r[0]
            ref = rd if f is torch.linalg.eigvalsh else rd[0]
            if not torch.is_tensor(evals) or evals.shape != ref.shape:
                return False, f"eigenvalues shape {getattr(evals, 'shape', None)} vs {ref.shape}"
            if not zoo.close(evals.sort(-1).values, ref, scale=lsc):
                return False, "eigenvalues differ"
            if f is torch.linalg.eigh:
                V = H.dn(r[1])
                rec_ = V @ torch.diag_embed(evals) @ V.mT
                if not zoo.close(rec_, d, scale=lsc):
                    return False, "V diag(e) V^T != A"
            return True, ""

        cx.call(e, "op", lambda: f(mk()), lambda: getattr(mk(), name)(), lambda: f(d), owned=False, cmp=cmp, dense_when=sq and case.psd)
        return True
    if f is torch.linalg.svd:
        def cmp(r, rd):
            U, S, Vh = H.dn(r[0]), r[1], H.dn(r[2])
            if S.shape != rd[1].shape or not zoo.close(S.sort(-1, descending=True).values, rd[1], scale=lsc):
                return False, "singular values differ"
            if not zoo.close(U @ torch.diag_embed(S) @ Vh, d, scale=lsc):
                return False, "U diag(S) Vh != A"
            return True, ""

        cx.call(e, "op", lambda: f(mk()), lambda: getattr(mk(), name)(), lambda: f(d), owned=False, cmp=cmp, dense_when=sq and case.psd)
        return True
    if f is torch.linalg.solve_triangular:
        up = bool(getattr(op, "upper", False))
        B = zoo.rn(g, *batch, n, 2, dtype=dt)
        tri = sq and bool(((d.triu(1) if not up else d.tril(-1)) == 0).all())
        cx.call(e, "upper=op.upper", lambda: f(op, B, upper=up), lambda: meth(B, upper=up), lambda: f(d, B, upper=up), scale=1e2, owned=False, dense_when=tri)
        if sq:
            Bl = zoo.rn(g, *batch, n, n, dtype=dt)  # square: a handler that ignores left=False still returns something of the right shape
            cx.call(e, "left=False", lambda: f(op, Bl, upper=up, left=False), lambda: meth(Bl, upper=up, left=False), lambda: f(d, Bl, upper=up, left=False), scale=1e2, owned=False, dense_when=tri)
        return True
    if f is torch.inverse:
        cx.call(e, "op", lambda: f(mk()), lambda: getattr(mk(), name)(), lambda: f(d), scale=1e3, owned=False, dense_when=sq and (case.psd or case.cls in ("TriangularLinearOperator", "PermutationLinearOperator", "TransposePermutationLinearOperator", "KroneckerProductTriangularLinearOperator")))
        return True
    if f is torch.sum:
        cx.call(e, "all", lambda: f(op), lambda: meth(), lambda: f(d), scale=max(1, m * n), dense_when=sq)  # sum() of non-square operators: C02 finding
        for dim in range(-nd, nd):
            cx.call(e, f"dim={'batch' if dim % nd < nb else 'matrix'}", lambda: f(op, dim), lambda: meth(dim), lambda: f(d, dim), scale=max(1, d.shape[dim]), tag=f"dim={dim}")
        cx.call(e, "dim=kw", lambda: f(op, dim=-1), lambda: meth(dim=-1), lambda: f(d, dim=-1), scale=n)
        return True
    if f is torch.prod:
        if case.psd and sq:
            for dim in range(nb):
                cx.call(e, "dim=batch", lambda: f(mk(), dim), lambda: getattr(mk(), name)(dim), lambda: f(d, dim), scale=100.0, tag=f"dim={dim}|dimsize={d.shape[dim]}")
                cx.call(e, "dim=batch,neg", lambda: f(mk(), dim - nd), lambda: getattr(mk(), name)(dim - nd), lambda: f(d, dim - nd), scale=100.0, tag=f"dim={dim - nd}|dimsize={d.shape[dim]}")
        return True
    if f is torch.squeeze:
        for dim in range(-nd, nd):
            cx.call(e, f"dim={'batch' if dim % nd < nb else 'matrix'}", lambda: f(op, dim), lambda: meth(dim), lambda: f(d, dim), tag=f"dim={dim}")
        return True
    if f is torch.unsqueeze:
        for dim in list(range(nb + 1)) + [-3 - i for i in range(nb + 1)]:
            cx.call(e, "dim=batch", lambda: f(op, dim), lambda: meth(dim), lambda: f(d, dim), tag=f"dim={dim}")
        return True
    if f is torch.transpose:
        cx.call(e, "matrix", lambda: f(op, -1, -2), lambda: meth(-1, -2), lambda: f(d, -1, -2))
        cx.call(e, "matrix_kw", lambda: f(op, dim0=-2, dim1=-1), None, lambda: f(d, dim0=-2, dim1=-1))
        if nb >= 2:
            cx.call(e, "batch", lambda: f(op, 0, 1), lambda: meth(0, 1), lambda: f(d, 0, 1))
            cx.call(e, "batch_neg", lambda: f(op, -3, -4), lambda: meth(-3, -4), lambda: f(d, -3, -4))
        return True
    if f is torch.permute:
        dims = tuple(reversed(range(nb))) + (nb, nb + 1)
        cx.call(e, "dims", lambda: f(op, dims), lambda: meth(dims), lambda: f(d, dims))
        ndims = tuple(reversed(range(nb))) + (-2, -1)
        cx.call(e, "dims_neg", lambda: f(op, ndims), lambda: meth(*ndims), lambda: f(d, ndims))
        return True
    if f is torch.clone:
        def cmp(r, rd):
            if not isinstance(r, LinearOperator) or r is op:
                return False, "clone must return a new operator"
            return _same(r, rd, dt)

        cx.call(e, "op", lambda: f(op), lambda: meth(), lambda: f(d), cmp=cmp)
        return True
    if f is torch.numel:
        cx.call(e, "op", lambda: f(op), lambda: meth(), lambda: f(d))
        return True
    return False


def _second_arg(cx, f, name, op, d, g):
    """operator-second entries: f(tensor_or_scalar, op)"""
    case, dt = cx.case, cx.dt
    fn = _fname(f)
    m, n = d.shape[-2:]
    batch = tuple(d.shape[:-2])
    T = zoo.rn(g, *d.shape, dtype=dt)
    Tb = zoo.rn(g, m, n, dtype=dt) if batch else zoo.rn(g, 2, m, n, dtype=dt)
    sq = m == n
    e = f"second:{fn}"
    is_method = fn.startswith("Tensor.")
    if f in (torch.add, torch.Tensor.add, torch.sub, torch.Tensor.sub):
        for tk, X in (("T", T), ("T_bcast", Tb)):
            cx.call(e, tk, lambda: f(X, op), None, lambda: f(X, d))
            cx.call(e, tk + ",alpha", lambda: f(X, op, alpha=2.5), None, lambda: f(X, d, alpha=2.5))
        cx.call(e, "T,alpha_neg", lambda: f(T, op, alpha=-0.5), None, lambda: f(T, d, alpha=-0.5))
        return True
    if f in (torch.mul, torch.Tensor.mul):
        xs = [("T", T), ("T_bcast", Tb), ("t0", torch.tensor(-1.5, dtype=dt)), ("tb", zoo.rn(g, *batch, 1, 1, dtype=dt) if batch else zoo.rn(g, 1, 1, dtype=dt))]
        for tk, X in xs:
            cx.call(e, tk, lambda: f(X, op), None, lambda: f(X, d))
        return True
    if f in (torch.matmul, torch.Tensor.matmul):
        lhss = {"vec": (m,), "mat": (3, m), "batched": (*batch, 2, m), "extra": (2, *batch, 1, m)}
        for tk, sh in lhss.items():
            X = zoo.rn(g, *sh, dtype=dt)
            cx.call(e, "T_" + tk, lambda: f(X, op), None, lambda: f(X, d), scale=max(1, m))
        return True
    if f is torch.isclose:
        near = d + 1e-7 * zoo.rn(g, *d.shape, dtype=dt)
        near[..., 0, 0] = d[..., 0, 0] + 1.0
        rel = d * 1.005
        for tk, X, kw in (("T", T, {}), ("T_near", near, {}), ("T_near,rtol", near, {"rtol": 1e-3, "atol": 0.0}), ("T_bcast", Tb, {}),
                          ("T_rel,rtol", rel, {"rtol": 1e-2, "atol": 0.0}), ("T_rel,atol", rel, {"rtol": 0.0, "atol": 1e-2})):
            if dt != torch.float64 and tk not in ("T", "T_bcast"):
                continue
            cx.call(e, tk, lambda: f(X, op, **kw), None, lambda: f(X, d, **kw))
        if dt == torch.float64:
            # torch.isclose(input, other) is NOT symmetric: |input - other| <= atol + rtol * |other|.  X = d * 1.01005 is outside
            # rtol = 0.01 relative to |d| (the operator is `other`) but inside relative to |X| (what a swapped call tests)
            X = d * 1.01005
            cx.call(e, "T_asym,rtol", lambda: f(X, op, rtol=0.01, atol=0.0), None, lambda: f(X, d, rtol=0.01, atol=0.0))
        return True
    return False


def _operators_and_dunders(cx, op, d, g):
    """tensor <binop> op, op <binop> tensor, python scalars in both orders, reflected dunder methods called directly,
    operator (.) operator through torch.* when one class is a subclass of the other (child __torch_function__ goes first)"""
    case, dt = cx.case, cx.dt
    m, n = d.shape[-2:]
    batch = tuple(d.shape[:-2])
    T = zoo.rn(g, *d.shape, dtype=dt)
    L = zoo.rn(g, *batch, 2, m, dtype=dt)
    R = zoo.rn(g, *batch, n, 2, dtype=dt)
    v = zoo.rn(g, m, dtype=dt)
    cx.call("binop:T+op", "T", lambda: T + op, None, lambda: T + d)
    cx.call("binop:op+T", "T", lambda: op + T, None, lambda: d + T)
    cx.call("binop:T-op", "T", lambda: T - op, None, lambda: T - d)
    cx.call("binop:op-T", "T", lambda: op - T, None, lambda: d - T)
    cx.call("binop:T.mul.op", "T", lambda: T * op, None, lambda: T * d)
    cx.call("binop:op.mul.T", "T", lambda: op * T, None, lambda: d * T)
    cx.call("binop:T@op", "T", lambda: L @ op, None, lambda: L @ d, scale=m)
    cx.call("binop:T@op", "vec", lambda: v @ op, None, lambda: v @ d, scale=m)
    cx.call("binop:op@T", "T", lambda: op @ R, None, lambda: d @ R, scale=n)
    Tnz = torch.where(T >= 0, T + 0.5, T - 0.5)
    cx.call("binop:op/T", "T", lambda: op / Tnz, None, lambda: d / Tnz)
    # T / op is not registered: explicit NotImplementedError (or TypeError from python), never a silent densification
    cx.call("binop:T/op", "unregistered", lambda: T / op, must_raise=(NotImplementedError, TypeError))
    for sk, c in (("py_float", 2.5), ("py_negint", -3), ("t0", torch.tensor(0.5, dtype=dt))):
        cx.call("binop:c.mul.op", sk, lambda: c * op, None, lambda: c * d)
        cx.call("binop:op.mul.c", sk, lambda: op * c, None, lambda: d * c)
        cx.call("binop:op/c", sk, lambda: op / c, None, lambda: d / c)
    for sk, c in (("py_zero", 0), ("py_float", 2.5)):
        # python scalar as the other operand of +/-: the dense value when something is returned; any refusal is accepted
        cx.call("binop:op+c", sk, lambda: op + c, None, lambda: d + c, owned=False)
        cx.call("binop:c+op", sk, lambda: c + op, None, lambda: c + d, owned=False)
        cx.call("binop:op-c", sk, lambda: op - c, None, lambda: d - c, owned=False)
        cx.call("binop:c-op", sk, lambda: c - op, None, lambda: c - d, owned=False)
    # reflected dunder methods called directly
    cx.call("dunder:__radd__", "T", lambda: op.__radd__(T), None, lambda: T + d)
    cx.call("dunder:__rsub__", "T", lambda: op.__rsub__(T), None, lambda: T - d)
    cx.call("dunder:__rmul__", "py_float", lambda: op.__rmul__(-1.25), None, lambda: -1.25 * d)
    cx.call("dunder:__rmul__", "T", lambda: op.__rmul__(T), None, lambda: T * d)
    cx.call("dunder:__rmatmul__", "T", lambda: op.__rmatmul__(L), None, lambda: L @ d, scale=m)
    cx.call("dunder:__rmatmul__", "vec", lambda: op.__rmatmul__(v), None, lambda: v @ d, scale=m)
    cx.call("dunder:rmatmul", "T", lambda: op.rmatmul(L), None, lambda: L @ d, scale=m)
    cx.call("dunder:__truediv__", "py_float", lambda: op.__truediv__(-4.0), None, lambda: d / -4.0)
    cx.call("dunder:__matmul__", "T", lambda: op.__matmul__(R), None, lambda: d @ R, scale=n)
    cx.call("dunder:__mul__", "t0", lambda: op.__mul__(torch.tensor(3.0, dtype=dt)), None, lambda: d * 3.0)
    # operator (.) operator through the torch functions, both orders (parent/child pairs exercise the second-arg routing)
    for nm, c2, o2, od2 in _others(case, d, dt, cx.label):
        rootpath = H.is_root(o2) and not case.psd
        rootpath_r = H.is_root(op) and not c2.psd
        if not rootpath:
            cx.call("opop:torch.add(a,b)", nm, lambda: torch.add(op, o2), lambda: op + o2, lambda: d + od2)
        if not rootpath_r:
            cx.call("opop:torch.add(b,a)", nm, lambda: torch.add(o2, op), lambda: o2 + op, lambda: od2 + d)
        cx.call("opop:torch.sub(a,b)", nm, lambda: torch.sub(op, o2), lambda: op - o2, lambda: d - od2)
        cx.call("opop:torch.sub(b,a)", nm, lambda: torch.sub(o2, op), lambda: o2 - op, lambda: od2 - d)
        if not (H.root_after_mul(o2, 2.0) and not case.psd):
            cx.call("opop:torch.add(a,b,alpha)", nm, lambda: torch.add(op, o2, alpha=2.0), None, lambda: d + 2.0 * od2)
        if not (H.root_after_mul(op, 2.0) and not c2.psd):
            cx.call("opop:torch.add(b,a,alpha)", nm, lambda: torch.add(o2, op, alpha=2.0), None, lambda: od2 + 2.0 * d)
        if m == n:
            cx.call("opop:torch.matmul(a,b)", nm, lambda: torch.matmul(op, o2), lambda: op @ o2, lambda: d @ od2, scale=n)
            cx.call("opop:torch.matmul(b,a)", nm, lambda: torch.matmul(o2, op), lambda: o2 @ op, lambda: od2 @ d, scale=n)
            cx.call("opop:a@b", nm, lambda: op @ o2, None, lambda: d @ od2, scale=n)


UNREGISTERED = None


def _unregistered():
    """torch functions the library does not register: must raise NotImplementedError (never densify / mis-dispatch)"""
    t = torch
    return {
        "trace": lambda op, X: t.trace(op), "cumsum": lambda op, X: t.cumsum(op, 0), "det": lambda op, X: t.det(op), "linalg.det": lambda op, X: t.linalg.det(op),
        "linalg.inv": lambda op, X: t.linalg.inv(op), "linalg.pinv": lambda op, X: t.linalg.pinv(op), "cat": lambda op, X: t.cat([op, op]), "stack": lambda op, X: t.stack([op, X]),
        "mean": lambda op, X: t.mean(op), "max": lambda op, X: t.max(op), "norm": lambda op, X: t.norm(op), "linalg.norm": lambda op, X: t.linalg.norm(op),
        "reshape": lambda op, X: t.reshape(op, (-1,)), "flatten": lambda op, X: t.flatten(op), "tril": lambda op, X: t.tril(op), "triu": lambda op, X: t.triu(op),
        "mm": lambda op, X: t.mm(op, X.mT if X.dim() == 2 else X), "bmm": lambda op, X: t.bmm(op, X), "mv": lambda op, X: t.mv(op, X[..., 0]), "neg": lambda op, X: t.neg(op),
        "pow": lambda op, X: t.pow(op, 2), "square": lambda op, X: t.square(op), "allclose": lambda op, X: t.allclose(op, X), "equal": lambda op, X: t.equal(op, X),
        "where": lambda op, X: t.where(X > 0, op, X), "linalg.qr": lambda op, X: t.linalg.qr(op), "zeros_like": lambda op, X: t.zeros_like(op), "t": lambda op, X: t.t(op),
        "diag_embed": lambda op, X: t.diag_embed(op), "einsum": lambda op, X: t.einsum("...ij->...ji", op), "linalg.matrix_exp": lambda op, X: t.linalg.matrix_exp(op),
        "div(T,op)": lambda op, X: t.div(X, op), "true_divide(T,op)": lambda op, X: t.true_divide(X, op), "linalg.solve(T,op)": lambda op, X: t.linalg.solve(X, op),
        "cholesky_solve(T,op)": lambda op, X: t.cholesky_solve(X, op), "Tensor.div(T,op)": lambda op, X: X.div(op), "Tensor.__rsub__(T,op)": lambda op, X: t.Tensor.__rsub__(X, op) if False else t.rsub(X, op),
        "maximum(T,op)": lambda op, X: t.maximum(X, op), "linalg.eigvals": lambda op, X: t.linalg.eigvals(op), "linalg.slogdet": lambda op, X: t.linalg.slogdet(op),
        "addmm(T,op,T)": lambda op, X: t.addmm(X, op, X), "sigmoid": lambda op, X: t.sigmoid(op), "cos": lambda op, X: t.cos(op), "expm1": lambda op, X: t.expm1(op),
        "Tensor.add_(T,op)": lambda op, X: X.clone().add_(op), "Tensor.mul_(T,op)": lambda op, X: X.clone().mul_(op), "Tensor.copy_(T,op)": lambda op, X: X.clone().copy_(op),
        "isfinite": lambda op, X: t.isfinite(op), "argmax": lambda op, X: t.argmax(op), "chunk": lambda op, X: t.chunk(op, 2), "movedim": lambda op, X: t.movedim(op, 0, 1),
    }


def rtc_dispatch(names, tier):
    _init()
    from linear_operator.operators import _linear_operator as L

    rec = Recorder(PID)
    first, second = dict(L._HANDLED_FUNCTIONS), dict(L._HANDLED_SECOND_ARG_FUNCTIONS)
    batches = [(), (2,), (1, 3), (1,)] if tier == "quick" else [(), (2,), (1,), (1, 3), (2, 2), (3, 1, 2)]
    sizes = [1, 3, 4] if tier == "quick" else [1, 2, 3, 4, 6]
    unreg = _unregistered()
    for label, c, mk, d in H._instances(names, tier, batches=batches, sizes=sizes):
        if mk is None:
            rec.check(f"construct/{c.name}", label, False, f"constructor raised {d!r}")
            continue
        dt = d.dtype
        cx = Ctx(rec, c, label, dt)
        g = zoo.gen(H._seed(label, "C15"))
        op = mk()
        for f, name in first.items():
            # the table stores a method *name*: it must resolve on the subclass
            if not callable(getattr(type(op), name, None)):
                rec.check(f"resolve:first:{_fname(f)}/{c.name}", label, False, f"{type(op).__name__}.{name} does not resolve")
                continue
            if not _first_arg(cx, f, name, op, d, mk, g):
                rec.check(f"recipe:first:{_fname(f)}/{c.name}", label, False, "registered function without a recipe in contracts/rtc_C15.py (table grew: add a recipe)")
        for f, name in second.items():
            if not callable(getattr(type(op), name, None)):
                rec.check(f"resolve:second:{_fname(f)}/{c.name}", label, False, f"{type(op).__name__}.{name} does not resolve")
                continue
            if not _second_arg(cx, f, name, op, d, g):
                rec.check(f"recipe:second:{_fname(f)}/{c.name}", label, False, "registered function without a recipe in contracts/rtc_C15.py (table grew: add a recipe)")
        _operators_and_dunders(cx, op, d, g)
        # unregistered functions
        m, n = d.shape[-2:]
        X = zoo.rn(g, *d.shape, dtype=dt)
        if tier == "quick" and not (len(d.shape) <= 3 and max(m, n) > 1):
            continue
        for un, fn in unreg.items():
            ok, r = _run(lambda: fn(op, X))
            if ok:
                rec.check(f"unregistered:{un}/{c.name}", label, False, f"returned a {type(r).__name__} instead of raising NotImplementedError")
            else:
                rec.check(f"unregistered:{un}/{c.name}", label, isinstance(r, NotImplementedError), f"raised {type(r).__name__}: {r}"[:300])
    return rec.obligations()


def rtc_tables(tier):
    """table-level obligations: sizes (floor), every entry has a recipe, every name resolves with a compatible signature
    on every operator class of the package (not only the zoo classes)"""
    _init()
    import inspect

    from linear_operator.operators import _linear_operator as L

    rec = Recorder(PID)
    first, second = L._HANDLED_FUNCTIONS, L._HANDLED_SECOND_ARG_FUNCTIONS
    rec.check("tables/size_floor", f"first={len(first)} second={len(second)}", len(first) >= 27 and len(second) >= 9, "dispatch tables shrank below the pinned 27/9 entries")
    expected_first = {"abs", "add", "linalg.cholesky", "clone", "diagonal", "div", "linalg.eigh", "linalg.eigvalsh", "exp", "inverse", "isclose", "log", "logdet", "matmul", "mul", "numel",
                      "permute", "prod", "linalg.solve", "linalg.solve_triangular", "sqrt", "squeeze", "sub", "sum", "linalg.svd", "transpose", "unsqueeze"}
    expected_second = {"add", "isclose", "mul", "matmul", "Tensor.matmul", "Tensor.mul", "Tensor.add", "sub", "Tensor.sub"}
    got_first, got_second = {_fname(f) for f in first}, {_fname(f) for f in second}
    rec.check("tables/first_entries", "names", expected_first <= got_first, f"missing registrations: {sorted(expected_first - got_first)}")
    rec.check("tables/second_entries", "names", expected_second <= got_second, f"missing registrations: {sorted(expected_second - got_second)}")
    for f in list(first) + list(second):
        rec.check("tables/keys_are_torch_callables", _fname(f), callable(f) and (getattr(torch, getattr(f, "__name__", ""), None) is not None or "linalg" in _fname(f) or "Tensor." in _fname(f)), f"{f!r}")
    classes = [getattr(O, k) for k in dir(O) if isinstance(getattr(O, k), type) and issubclass(getattr(O, k), LinearOperator)]
    base = LinearOperator
    for cls in classes:
        for tab, tn in ((first, "first"), (second, "second")):
            for f, name in tab.items():
                fnm = _fname(f)
                meth = getattr(cls, name, None)
                if not callable(meth):
                    rec.check(f"resolve:{tn}:{fnm}", cls.__name__, False, f"{cls.__name__}.{name} does not resolve to a callable")
                    continue
                try:
                    ps, pb = list(inspect.signature(meth).parameters.values()), list(inspect.signature(getattr(base, name)).parameters.values())
                except (TypeError, ValueError):
                    continue
                # the router calls method(*args, **kwargs) with the arguments of the torch call: an override must accept at
                # least the base method's parameters (same names, same order) unless it takes *args/**kwargs
                star = any(p.kind in (p.VAR_POSITIONAL, p.VAR_KEYWORD) for p in ps)
                names_s, names_b = [p.name for p in ps], [p.name for p in pb]
                ok = star or names_s[: len(names_b)] == names_b or set(names_b) <= set(names_s)
                rec.check(f"signature:{tn}:{fnm}", cls.__name__, ok, f"{cls.__name__}.{name}{inspect.signature(meth)} does not accept the base signature {inspect.signature(getattr(base, name))}")
    return rec.obligations()


def rtc_units(tier):
    from contracts.rtc_C02 import _chunks, all_case_names

    names = all_case_names()
    us = [Unit("C15/rtc/tables", "contracts.rtc_C15", "rtc_tables", (tier,), engine="rtc", timeout_s=600)]
    for i, part in enumerate(_chunks(names, 12 if tier == "quick" else 16)):
        us.append(Unit(f"C15/rtc/dispatch#{i}[{part[0]}..]", "contracts.rtc_C15", "rtc_dispatch", (part, tier), engine="rtc", timeout_s=1500))
    return us


RTC_META = {
    "explanation": "bounded run-time contracts: every entry of the two torch dispatch tables (read from the live module) is called literally for every zoo class x operand "
                   "kind x both operand orders and compared (a) with the method the table names (same value or same exception type) and (b) with torch on dense operands; "
                   "a registered function without a recipe is a failure; unregistered functions must raise NotImplementedError; table sizes have a floor (27/9) and every "
                   "method name must resolve with a compatible signature on every operator class",
    "assumptions": [
        "abs/exp/log/sqrt act on the structural support (for diagonal operators: the diagonal, which is also the matrix function); they are compared with torch.f of the "
        "dense diagonal, not with the elementwise function of the structural zeros",
        "for solve / logdet / cholesky / eigh / eigvalsh / svd / inverse / solve_triangular (owned by C04-C06) only dispatch equivalence with the method is required on "
        "every class; equality with torch on dense is checked on the well-conditioned positive definite (resp. triangular) cases only, up to the non-uniqueness of the "
        "factorisation (sorted spectra, reconstruction)",
        "a python scalar as the other operand of +/-: a returned value must equal torch on dense; any exception (identical for the method) is accepted "
        "(the property does not state how a refusal looks)",
        "torch.diagonal with the default dims is compared on unbatched operators only (torch's default dims are 0,1, the library's -2,-1)",
    ],
    "families": "quick: 62 cases x (float64: batch shapes (), (2,), (1,3), (1,) x sizes 1,3,4; float32 sub-grid) x every entry of _HANDLED_FUNCTIONS (27) and "
                "_HANDLED_SECOND_ARG_FUNCTIONS (9) x operand kinds (tensor same/broadcast batch, 0-d tensor, batch of constants, python float/int/zero, up to 11 other "
                "operators incl. parent/child class pairs, alpha keyword) + 10 binary operators in both orders + 10 reflected dunder methods + 52 unregistered torch "
                "functions; thorough: 6 batch shapes x sizes 1,2,3,4,6, full dtype product",
}
