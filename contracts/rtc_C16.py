"""C16 bounded tier — psd_safe_cholesky perturbs minimally, per batch member, or fails loudly.

Matrices are built with a *prescribed spectrum* (random orthogonal basis), so that for every batch member the
smallest jitter level jitter*10^i that makes it factorizable is known by construction (and re-derived independently by
trying torch.linalg.cholesky_ex on A[m] + jitter*10^i I member by member).  The contract then reads the perturbation
off the result:  L[m] L[m]^T - A[m]  must be  J_m * I  with  J_m = 0 for members that were fine and
J_m = jitter*10^{i_m} for the minimal i_m otherwise (to the backward error of a Cholesky factorization)."""
from __future__ import annotations

from engine.common import Unit

PID = "C16"


def _setup():
    import os
    import warnings

    import torch

    torch.set_num_threads(1)
    warnings.simplefilter("ignore")
    from contracts import zoo  # noqa: F401
    from contracts.rtc_common import Recorder

    return torch, zoo, Recorder(PID), int(os.environ.get("VERIF_SEED", "0") or 0)


class _DtRec:
    """recorder view that qualifies every group with the dtype (units are split by dtype: keeps obligation names unique)"""

    def __init__(self, rec, dtname, rnd=0):
        self.rec, self.sfx, self.rnd = rec, "f32" if dtname == "float32" else "f64", (f"|round={rnd}" if rnd else "")

    def check(self, group, label, *a, **k):
        return self.rec.check(f"{group}[{self.sfx}]", label + self.rnd, *a, **k)

    def obligations(self):
        return self.rec.obligations()


# member kinds: how far below zero the smallest eigenvalue is, in units of the base jitter.
#   "pd"      lambda_min = +lo            -> no jitter
#   "need0"   lambda_min = -0.3 * jitter  -> jitter * 10^0
#   "need1"   lambda_min = -3   * jitter  -> jitter * 10^1
#   "need2"   lambda_min = -30  * jitter  -> jitter * 10^2
#   "need3"   lambda_min = -300 * jitter  -> jitter * 10^3  (fails for max_tries = 3)
#   "strong"  lambda_min = -hi            -> never (strongly indefinite)
#   "sing"    lambda_min = 0 exactly-ish (rank n-1 Gram matrix): whatever cholesky_ex says, at most 10^0
NEED = {"pd": None, "need0": 0, "need1": 1, "need2": 2, "need3": 3}


def _member(torch, g, n, kind, jitter, hi, dt):
    """symmetric n x n with spectrum in [hi/10, hi] except for the smallest eigenvalue (see NEED)"""
    q, _ = torch.linalg.qr(torch.randn(n, n, generator=g, dtype=torch.float64))
    ev = torch.linspace(hi / 10, hi, n, dtype=torch.float64) if n > 1 else torch.tensor([hi], dtype=torch.float64)
    if kind == "sing":
        if n == 1:
            a = torch.zeros(1, 1, dtype=torch.float64)
        else:
            b = torch.randn(n, n - 1, generator=g, dtype=torch.float64) * (hi ** 0.5)
            a = b @ b.mT
        return (0.5 * (a + a.mT)).to(dt)
    if kind == "strong":
        ev[0] = -hi
    elif kind != "pd":
        ev[0] = -0.3 * jitter * (10 ** NEED[kind])
    a = (q * ev) @ q.mT
    return (0.5 * (a + a.mT)).to(dt)


def _oracle_tries(torch, Am, jitter, max_tries):
    """independent: None if Am itself factorizes, else smallest i < max_tries with Am + jitter*10^i I factorizable, else 'fail'"""
    n = Am.shape[-1]
    eye = torch.eye(n, dtype=Am.dtype)
    if int(torch.linalg.cholesky_ex(Am).info) == 0:
        return None
    for i in range(max_tries):
        if int(torch.linalg.cholesky_ex(Am + (jitter * 10 ** i) * eye).info) == 0:
            return i
    return "fail"


def _same(torch, a, b):
    return a.shape == b.shape and bool(((a == b) | (torch.isnan(a) & torch.isnan(b))).all())


def _judge(torch, rec, group, label, A, call, jitter, max_tries, upper, expect_kinds=None, check_warning=True):
    """run ``call()`` (which must evaluate psd_safe_cholesky / op.cholesky on A) and check every clause of the property"""
    import warnings

    from linear_operator.utils.errors import NanError, NotPSDError
    from linear_operator.utils.warnings import NumericalWarning

    dt = A.dtype
    n = A.shape[-1]
    batch = tuple(A.shape[:-2])
    A0 = A.clone()
    flat = A.reshape(-1, n, n)
    has_nan = bool(torch.isnan(A).any())
    tries = [_oracle_tries(torch, flat[m], jitter, max_tries) for m in range(flat.shape[0])]
    if expect_kinds is not None:  # the construction and the independent oracle must agree (guards the test itself)
        for m, k in enumerate(expect_kinds):
            if k in NEED and max_tries > (NEED[k] or 0):
                rec.check("selfcheck/designed_vs_oracle", f"{label}|m={m}", tries[m] == NEED[k], f"designed {k} -> {NEED[k]} but oracle says {tries[m]}", nontrivial=False)
    all_fine = all(t is None for t in tries)
    with warnings.catch_warnings(record=True) as w:
        warnings.simplefilter("always")
        try:
            res, exc = call(), None
        except Exception as e:  # noqa
            res, exc = None, e
    warned = any(issubclass(x.category, NumericalWarning) for x in w)
    rec.check(f"{group}/input_unchanged", label, _same(torch, A, A0), "A was modified")
    # --- error clauses
    if has_nan and not all_fine:
        rec.check(f"{group}/nan_raises_NanError", label, isinstance(exc, NanError), f"expected NanError, got {type(exc).__name__ if exc else 'a result'}: {exc}")
        return
    if any(t == "fail" for t in tries):
        rec.check(f"{group}/not_psd_raises_NotPSDError", label, isinstance(exc, NotPSDError), f"expected NotPSDError, got {type(exc).__name__ if exc else 'a result'}: {exc}")
        return
    if exc is not None:
        rec.check(f"{group}/factor", label, False, f"raised {type(exc).__name__}: {exc} (per-member tries needed: {tries})")
        return
    # --- warning iff jitter was added
    if check_warning:  # (a result served from the operator's cache legitimately repeats no warning)
        rec.check(f"{group}/warning_iff_jitter", label, warned == (not all_fine), f"NumericalWarning emitted={warned}, jitter needed={not all_fine} (tries {tries})")
    # --- the factor
    L = res.to_dense() if hasattr(res, "to_dense") else res
    okshape = torch.is_tensor(L) and tuple(L.shape) == tuple(A.shape) and L.dtype == dt
    if not okshape:
        rec.check(f"{group}/factor", label, False, f"shape/dtype {tuple(L.shape)} {L.dtype} vs {tuple(A.shape)} {dt}")
        return
    rec.check(f"{group}/finite", label, bool(torch.isfinite(L).all()), "factor contains NaN/Inf")
    tri = torch.equal(L, L.triu() if upper else L.tril())
    rec.check(f"{group}/triangular_orientation", label, tri, f"not {'upper' if upper else 'lower'} triangular")
    Lf = L.reshape(-1, n, n).to(torch.float64)
    Af = flat.to(torch.float64)
    eps = torch.finfo(dt).eps
    bad = []
    for m in range(Lf.shape[0]):
        rec_m = (Lf[m].mT @ Lf[m]) if upper else (Lf[m] @ Lf[m].mT)
        J = 0.0 if tries[m] is None else jitter * 10 ** tries[m]
        E = rec_m - Af[m] - J * torch.eye(n, dtype=torch.float64)
        tol = 8 * max(n, 2) * eps * max(float(Af[m].abs().max()), J, 1e-300) + 1e-6 * J
        err = float(E.abs().max())
        if not err <= tol:
            d = (rec_m - Af[m]).diagonal()
            bad.append(f"member {m}: needs tries={tries[m]} (J={J:.3e}) but diag(LL^T-A) in [{float(d.min()):.3e}, {float(d.max()):.3e}], |LL^T-A-J I|={err:.2e} > {tol:.1e}")
        if tries[m] is None:
            ref = torch.linalg.cholesky(flat[m])
            ref = ref.mT if upper else ref
            if not bool(((L.reshape(-1, n, n)[m] - ref).abs().max() <= 8 * n * eps * max(float(ref.abs().max()), 1e-300))):
                bad.append(f"member {m}: was positive definite but factor differs from torch.linalg.cholesky")
    rec.check(f"{group}/per_member_minimal_jitter", label, not bad, "; ".join(bad[:3]))


def _batches(tier):
    # lists of member kinds + the batch shape they are arranged in
    fam = [
        ((), ["pd"]), ((), ["need0"]), ((), ["need1"]), ((), ["need2"]), ((), ["sing"]),
        ((2,), ["pd", "need0"]), ((2,), ["need1", "pd"]), ((2,), ["need0", "need2"]), ((2,), ["need2", "need0"]),
        ((3,), ["pd", "pd", "pd"]), ((3,), ["need1", "need1", "need1"]), ((3,), ["pd", "need2", "need0"]), ((3,), ["sing", "pd", "need1"]),
        ((4,), ["pd", "need0", "need1", "need2"]), ((4,), ["need2", "need1", "need0", "pd"]), ((4,), ["need1", "pd", "need1", "pd"]),
        ((2, 2), ["pd", "need1", "need2", "pd"]), ((2, 2), ["need0", "pd", "pd", "need2"]), ((1,), ["need1"]), ((1, 2), ["pd", "need2"]), ((2, 1), ["need0", "need1"]),
        ((2, 1, 2), ["pd", "need0", "need2", "need1"]),
    ]
    if tier != "quick":
        fam += [((5,), ["need2", "pd", "need0", "sing", "need1"]), ((3, 2), ["pd", "need0", "need1", "need2", "pd", "need1"]), ((2, 3), ["need2"] * 6), ((6,), ["pd"] * 5 + ["need2"]),
                ((6,), ["need2"] + ["pd"] * 5), ((2, 2, 2), ["pd", "need0", "need1", "need2", "need2", "need1", "need0", "pd"])]
    return fam


def _build(torch, zoo, seed, dt, n, shape, kinds, jitter, hi):
    g = zoo.gen(seed)
    mats = [_member(torch, g, n, k, jitter, hi, dt) for k in kinds]
    return torch.stack(mats).reshape(*shape, n, n)


def _body_explicit(torch, zoo, rec, seed, dtname, tier):
    """jitter / max_tries passed explicitly"""
    from linear_operator.utils.cholesky import psd_safe_cholesky

    dt = getattr(torch, dtname)
    sizes = [1, 2, 3, 6] if tier == "quick" else [1, 2, 3, 4, 6, 9, 17]
    # (jitter, scale of the spectrum): the jitter must be readable against eps * |A|
    confs = [(1e-4, 1.0), (1e-6, 1e-2)] if dt == torch.float32 else [(1e-4, 1.0), (1e-8, 1.0), (1e-6, 100.0)]
    for n in sizes:
        for jitter, hi in confs:
            for shape, kinds in _batches(tier):
                for upper in (False, True):
                    for mt in (3, 1, 4):
                        if mt != 3 and (upper or (tier == "quick" and n not in (2, 6))):
                            continue
                        s = seed * 7919 + n * 101 + len(kinds) * 13 + sum(map(len, kinds)) + int(-100 * (jitter ** 0.1))
                        A = _build(torch, zoo, s, dt, n, shape, kinds, jitter, hi)
                        lab = f"{dtname}|n={n}|b={shape}|{','.join(kinds)}|jitter={jitter:g}|scale={hi:g}|max_tries={mt}|upper={upper}"
                        _judge(torch, rec, "explicit", lab, A, lambda: psd_safe_cholesky(A, upper=upper, jitter=jitter, max_tries=mt), jitter, mt, upper, expect_kinds=kinds)
            # members that need a 4th try: NotPSDError with max_tries=3, success with 4
            for shape, kinds in [((), ["need3"]), ((3,), ["pd", "need3", "need0"]), ((2,), ["strong", "pd"]), ((), ["strong"])]:
                for mt in (3, 4):
                    s = seed * 7919 + n * 103 + len(kinds)
                    A = _build(torch, zoo, s, dt, n, shape, kinds, jitter, hi)
                    lab = f"{dtname}|n={n}|b={shape}|{','.join(kinds)}|jitter={jitter:g}|scale={hi:g}|max_tries={mt}"
                    _judge(torch, rec, "explicit", lab, A, lambda: psd_safe_cholesky(A, jitter=jitter, max_tries=mt), jitter, mt, False, expect_kinds=kinds)
            # non-contiguous / expanded inputs
            for kind in ("pd", "need1"):
                base = _build(torch, zoo, seed + n, dt, n, (), [kind], jitter, hi)
                for vn, view in (("expanded(3)", base.expand(3, n, n)), ("transposed", base.mT), ("strided", torch.stack([base, base * 0 + 7.0], -1)[..., 0])):
                    lab = f"{dtname}|n={n}|{kind}|{vn}|jitter={jitter:g}|scale={hi:g}"
                    _judge(torch, rec, "explicit_views", lab, view, lambda: psd_safe_cholesky(view, jitter=jitter, max_tries=3), jitter, 3, False)
            # out=
            for kind in ("pd", "need1"):
                for upper in (False, True):
                    A = _build(torch, zoo, seed + 3 * n, dt, n, (2,), [kind, "pd"], jitter, hi)
                    out = torch.empty_like(A)
                    lab = f"{dtname}|n={n}|{kind},pd|out=|upper={upper}|jitter={jitter:g}|scale={hi:g}"
                    _judge(torch, rec, "explicit_out", lab, A, lambda: psd_safe_cholesky(A, upper=upper, out=out, jitter=jitter, max_tries=3), jitter, 3, upper)
    # NaN: anywhere (symmetric position), any member; raises NanError irrespective of the other members
    for n in sizes:
        for shape, kinds, where in [((), ["pd"], 0), ((3,), ["pd", "need1", "pd"], 1), ((3,), ["pd", "pd", "pd"], 2), ((2, 2), ["need0", "pd", "pd", "strong"], 1)]:
            for pos in ("diag0", "diag_last", "offdiag"):
                if pos == "offdiag" and n == 1:
                    continue
                A = _build(torch, zoo, seed + n + len(kinds), dt, n, shape, kinds, 1e-4, 1.0)
                Af = A.reshape(-1, n, n)
                if pos == "diag0":
                    Af[where, 0, 0] = float("nan")
                elif pos == "diag_last":
                    Af[where, n - 1, n - 1] = float("nan")
                else:
                    Af[where, n - 1, 0] = float("nan")
                    Af[where, 0, n - 1] = float("nan")
                for upper in (False, True):
                    lab = f"{dtname}|n={n}|b={shape}|{','.join(kinds)}|nan@{where}:{pos}|upper={upper}"
                    _judge(torch, rec, "nan", lab, A, lambda: psd_safe_cholesky(A, upper=upper, jitter=1e-4, max_tries=3), 1e-4, 3, upper)
    # max_tries = 0: no jitter try is allowed -> a non-p.d. input must be refused with NotPSDError, a p.d. one factorized
    for kinds in (["need0"], ["pd"], ["pd", "need1"]):
        A = _build(torch, zoo, seed + 5, dt, 3, (len(kinds),), kinds, 1e-4, 1.0)
        _judge(torch, rec, "max_tries_zero", f"{dtname}|n=3|{','.join(kinds)}|max_tries=0", A, lambda: psd_safe_cholesky(A, jitter=1e-4, max_tries=0), 1e-4, 0, False)
    return None


def _body_settings(torch, zoo, rec, seed, dtname, tier):
    """jitter / max_tries taken from settings.cholesky_jitter (per dtype) / settings.cholesky_max_tries"""
    from linear_operator import settings
    from linear_operator.utils.cholesky import psd_safe_cholesky

    dt = getattr(torch, dtname)
    other = 3.3e-3  # value put into the slot of the *other* dtype: must not be used
    sizes = [2, 5] if tier == "quick" else [1, 2, 3, 5, 8]
    hi_default = 1e-2 if dt == torch.float32 else 1.0
    default_j = 1e-6 if dt == torch.float32 else 1e-8
    mine = "float_value" if dt == torch.float32 else "double_value"
    theirs = "double_value" if dt == torch.float32 else "float_value"
    for n in sizes:
        for shape, kinds in _batches(tier):
            if tier == "quick" and len(kinds) == 1 and n != 2:
                continue
            s = seed * 7919 + n * 211 + len(kinds) * 17 + sum(map(len, kinds))
            for upper in (False, True):
                # defaults
                A = _build(torch, zoo, s, dt, n, shape, kinds, default_j, hi_default)
                lab = f"{dtname}|n={n}|b={shape}|{','.join(kinds)}|defaults|upper={upper}"
                _judge(torch, rec, "settings_default", lab, A, lambda: psd_safe_cholesky(A, upper=upper), default_j, 3, upper, expect_kinds=kinds)
                # own slot set
                A = _build(torch, zoo, s + 1, dt, n, shape, kinds, 1e-4, 1.0)
                with settings.cholesky_jitter(**{mine: 1e-4}):
                    lab = f"{dtname}|n={n}|b={shape}|{','.join(kinds)}|cholesky_jitter({mine}=1e-4)|upper={upper}"
                    _judge(torch, rec, "settings_jitter_own_slot", lab, A, lambda: psd_safe_cholesky(A, upper=upper), 1e-4, 3, upper, expect_kinds=kinds)
                # both slots set
                with settings.cholesky_jitter(**{mine: 1e-4, theirs: other}):
                    lab = f"{dtname}|n={n}|b={shape}|{','.join(kinds)}|cholesky_jitter(both)|upper={upper}"
                    _judge(torch, rec, "settings_jitter_both_slots", lab, A, lambda: psd_safe_cholesky(A, upper=upper), 1e-4, 3, upper, expect_kinds=kinds)
                # only the other dtype's slot set -> own default stays in force
                A = _build(torch, zoo, s + 2, dt, n, shape, kinds, default_j, hi_default)
                with settings.cholesky_jitter(**{theirs: other}):
                    lab = f"{dtname}|n={n}|b={shape}|{','.join(kinds)}|cholesky_jitter({theirs} only)|upper={upper}"
                    _judge(torch, rec, "settings_jitter_other_slot", lab, A, lambda: psd_safe_cholesky(A, upper=upper), default_j, 3, upper, expect_kinds=kinds)
            # explicit argument wins over the setting
            A = _build(torch, zoo, s + 3, dt, n, shape, kinds, 1e-4, 1.0)
            with settings.cholesky_jitter(float_value=other, double_value=other), settings.cholesky_max_tries(1):
                lab = f"{dtname}|n={n}|b={shape}|{','.join(kinds)}|explicit over settings"
                _judge(torch, rec, "settings_explicit_wins", lab, A, lambda: psd_safe_cholesky(A, jitter=1e-4, max_tries=3), 1e-4, 3, False, expect_kinds=kinds)
            # max_tries from settings (1, 2, 4)
            for mt in (1, 2, 4):
                kk = list(kinds) + (["need3"] if mt == 4 and len(shape) == 1 else [])
                sh = shape if len(kk) == len(kinds) else (len(kk),)
                A = _build(torch, zoo, s + 4 + mt, dt, n, sh, kk, 1e-4, 1.0)
                with settings.cholesky_max_tries(mt), settings.cholesky_jitter(**{mine: 1e-4}):
                    lab = f"{dtname}|n={n}|b={sh}|{','.join(kk)}|cholesky_max_tries({mt})"
                    _judge(torch, rec, "settings_max_tries", lab, A, lambda: psd_safe_cholesky(A), 1e-4, mt, False, expect_kinds=kk)
        # after the contexts: defaults are back (guards the harness; C17 owns the property)
        rec.check("selfcheck/settings_restored", f"{dtname}|n={n}", settings.cholesky_jitter.value(dt) == default_j and settings.cholesky_max_tries.value() == 3, "settings leaked", nontrivial=False)
    return None


def _body_operator(torch, zoo, rec, seed, dtname, tier):
    """op.cholesky(upper) / torch.linalg.cholesky(op) on dense-backed PSD operators (generic LinearOperator._cholesky)"""
    import linear_operator  # noqa: F401
    from linear_operator import settings
    from linear_operator.operators import ConstantMulLinearOperator, DenseLinearOperator, SumLinearOperator

    dt = getattr(torch, dtname)
    sizes = [1, 2, 3, 6] if tier == "quick" else [1, 2, 3, 4, 6, 9]

    def wrap(kind, A):
        if kind == "dense":
            return DenseLinearOperator(A), A
        if kind == "user":
            return zoo._UserOp(A), A
        if kind == "sum":
            H = A * 0.25
            return SumLinearOperator(DenseLinearOperator(A - H), DenseLinearOperator(H)), (A - H) + H
        if kind == "constmul":
            return ConstantMulLinearOperator(DenseLinearOperator(A), torch.tensor(2.0, dtype=dt)), A * 2.0
        raise KeyError(kind)

    for n in sizes:
        for shape, kinds in _batches(tier):
            if n == 1 and any(k != "pd" for k in kinds):
                continue  # 1x1 operators take sqrt(clamp(a, 0)) directly (exact factor of [[0]], no jitter semantics; a negative 1x1 is not PSD)
            s = seed * 7919 + n * 307 + len(kinds) * 19 + sum(map(len, kinds))
            for wk in ("dense", "user", "sum", "constmul"):
                if tier == "quick" and wk in ("sum", "constmul") and len(kinds) > 2:
                    continue
                jit = 1e-4
                A = _build(torch, zoo, s, dt, n, shape, kinds, jit * (0.5 if wk == "constmul" else 1.0), 1.0)
                for upper in (False, True):
                    op, D = wrap(wk, A.clone())
                    lab = f"{dtname}|{wk}|n={n}|b={shape}|{','.join(kinds)}|upper={upper}"
                    with settings.cholesky_jitter(float_value=jit, double_value=jit):
                        _judge(torch, rec, f"op_cholesky/{wk}", lab, D, lambda: op.cholesky(upper=upper), jit, 3, upper)
                    if wk == "dense":
                        op, D = wrap(wk, A.clone())
                        with settings.cholesky_jitter(float_value=jit, double_value=jit):
                            _judge(torch, rec, "op_cholesky/torch_linalg_cholesky", lab, D, lambda: torch.linalg.cholesky(op, upper=upper), jit, 3, upper)
                # the two orientations requested one after the other on the SAME object must both be right
                op, D = wrap(wk, A.clone())
                with settings.cholesky_jitter(float_value=jit, double_value=jit):
                    try:
                        op.cholesky(upper=True)
                    except Exception:  # noqa
                        pass
                    _judge(torch, rec, f"op_cholesky_after_other_orientation/{wk}", f"{dtname}|{wk}|n={n}|b={shape}|{','.join(kinds)}|upper then lower", D, lambda: op.cholesky(upper=False), jit, 3, False, check_warning=False)
        # errors propagate through the operator
        if n > 1:
            for kinds in (["strong"], ["pd", "strong"]):
                A = _build(torch, zoo, seed + n, dt, n, (len(kinds),), kinds, 1e-4, 1.0)
                op = DenseLinearOperator(A)
                with settings.cholesky_jitter(float_value=1e-4, double_value=1e-4):
                    _judge(torch, rec, "op_cholesky/dense", f"{dtname}|dense|n={n}|{','.join(kinds)}", A, lambda: op.cholesky(), 1e-4, 3, False)
            A = _build(torch, zoo, seed + n, dt, n, (2,), ["pd", "need1"], 1e-4, 1.0)
            A[1, n - 1, n - 1] = float("nan")
            op = DenseLinearOperator(A)
            _judge(torch, rec, "op_cholesky/dense", f"{dtname}|dense|n={n}|pd,nan", A, lambda: op.cholesky(), 1e-4, 3, False)
    return None



def _rounds(body, dtname, tier):
    """quick: one pass with the base seed; thorough: the thorough-size family re-drawn with 4 seeds"""
    torch, zoo, rec, seed = _setup()
    for rnd in range(1 if tier == "quick" else 4):
        body(torch, zoo, _DtRec(rec, dtname, rnd), seed + 1009 * rnd, dtname, tier)
    return rec.obligations()


def rtc_explicit(dtname, tier):
    return _rounds(_body_explicit, dtname, tier)


def rtc_settings(dtname, tier):
    return _rounds(_body_settings, dtname, tier)


def rtc_operator(dtname, tier):
    return _rounds(_body_operator, dtname, tier)


def rtc_units(tier):
    us = []
    for dtname in ("float32", "float64"):
        us.append(Unit(f"C16/rtc/explicit[{dtname}]", "contracts.rtc_C16", "rtc_explicit", (dtname, tier), engine="rtc", timeout_s=900))
        us.append(Unit(f"C16/rtc/settings[{dtname}]", "contracts.rtc_C16", "rtc_settings", (dtname, tier), engine="rtc", timeout_s=900))
        us.append(Unit(f"C16/rtc/operator[{dtname}]", "contracts.rtc_C16", "rtc_operator", (dtname, tier), engine="rtc", timeout_s=900))
    return us


RTC_META = {
    "explanation": "psd_safe_cholesky (and op.cholesky of dense-backed operators) is run on batches whose members have a prescribed smallest "
                   "eigenvalue, so that the minimal jitter level per member is known; the perturbation actually applied is read off as "
                   "L L^T - A per member and must be exactly J_m I with the minimal J_m (0 for members that were fine); warnings, exception "
                   "types, finiteness, triangular orientation and bitwise immutability of A are checked on every call",
    "assumptions": [
        "'numerically positive definite' = torch.linalg.cholesky_ex reports info == 0 (evaluated member by member by the contract itself)",
        "max_tries = 0 is inside the quantifier (no jitter try allowed => NotPSDError for a non-p.d. input)",
        "trace_mode short-circuit and Inf entries are outside the stated quantifier and not exercised",
    ],
    "families": "float32/float64 x n in {1,2,3,6} (thorough up to 17) x 22 batch layouts (shapes (), (1,), (2,), (3,), (4,), (2,2), (1,2), (2,1), (2,1,2)) mixing "
                "members that need 0/1/2/3 jitter escalations, p.d. members, singular Gram matrices, strongly indefinite and NaN members x "
                "jitter in {1e-4, 1e-6, 1e-8} with matching spectrum scale x max_tries in {0,1,2,3,4} x upper in {F,T} x explicit arguments / "
                "settings.cholesky_jitter(float_value | double_value | both | other dtype only) / cholesky_max_tries / explicit-over-settings, "
                "expanded / transposed / strided inputs, out=; op.cholesky and torch.linalg.cholesky on Dense, user subclass, Sum, ConstantMul",
}
