"""C18 bounded tier — Gaussian sampling uses a true square root of the covariance.

``torch.randn`` is replaced (module attribute, restored afterwards) while ``op.zero_mean_mvn_samples(k)`` runs: every
request made from a frame called ``zero_mean_mvn_samples`` is served from a known noise vector, every other request
(Lanczos start vectors, ...) from a seeded generator that is re-seeded before each run.  The sample tensor is a linear
function S = L(z) of ALL noise scalars z the call consumes (whatever layout the class uses, however many requests it
makes: sums of PSD terms make one per term).  Feeding the columns of an orthogonal matrix Q (the identity: unit noise
vectors; or a random orthogonal matrix where zero noise is degenerate, i.e. contour-integral quadrature) recovers
L L^T = sum_e S_e S_e^T exactly, i.e. the covariance the sampler really produces for z ~ N(0, I):

  * Cov(S[i, b, :]) = D(op)[b]  for every draw i and batch member b         ("R R^T equals the represented covariance")
  * Cov(S[i, b, :], S[j, b, :]) = 0 for i != j                              (k independent draws, each R z_i)
  * S(z) for one random z equals the superposition sum_e z_e S_e            (R is fixed: linear in the noise)
  * shape (k, *batch, n), dtype of the operator
"""
from __future__ import annotations

from engine.common import Unit

PID = "C18"

# PSD zoo cases (flagged psd in the zoo) + singular-PSD / specialised-sampler cases that are not flagged
EXTRA_ZOO = ["root", "lowrankroot", "interp_sym", "nest_constmul_interp", "nest_root_kron", "nest_interp_toeplitz"]
ZOO_PSD = ['dense_psd', 'diag', 'constdiag', 'identity', 'toeplitz', 'chol_lower', 'chol_upper', 'kron2', 'kron_diag', 'kpad_const', 'kpad_diag', 'sumkron',
           'addeddiag', 'lrr_addeddiag', 'sum', 'psdsum', 'mul', 'constmul', 'blockdiag', 'blockinterleaved', 'blockinterleaved3', 'sumbatch', 'batchrepeat',
           'batchrepeat2', 'user_psd', 'nest_sum_kron_root_diag', 'nest_blockdiag_toeplitz', 'nest_sumbatch_kron']
OWN = ["psdsum_diag_dense", "psdsum3_id_cdiag_toep", "psdsum_nested", "blockdiag_diag", "blockinterleaved_psdsum", "blockdiag_blockinterleaved", "interp_diag_base", "interp_blockdiag_base",
       "interp_width3_dupidx", "blockdiag_interp", "sumbatch_diag", "constmul_blockdiag", "psdsum_identity_root", "kron_identity_dense", "blockdiag_1block", "blockinterleaved_1block"]
# block structures over a BatchRepeatLinearOperator (the blocks are repeated copies of one covariance: each block still needs its own noise).
# <block structure>_<how the repeated base is made>; the repeated operator X (dense PSD / Toeplitz / Root, user subclass / kernel for expand) is part of the label
NEST_BLK = ["sumbatch", "blockdiag", "blockinter"]
NEST_HOW = {"repall": ("dense", "toep", "root"), "repblk": ("dense", "toep", "root"), "repmix": ("dense", "toep", "root"), "repouter": ("dense", "toep", "root"),
            "blockdim0": ("dense", "toep", "root"), "reprep": ("dense", "toep", "root"), "expblk": ("user", "kernel"), "blkexp": ("user", "kernel")}
NEST = [f"{blk}_{how}" for blk in NEST_BLK for how in NEST_HOW]


def _setup():
    import os
    import warnings

    import torch

    torch.set_num_threads(1)
    warnings.simplefilter("ignore")
    from contracts import zoo  # noqa: F401
    from contracts.rtc_common import Recorder

    return torch, zoo, Recorder(PID), int(os.environ.get("VERIF_SEED", "0") or 0)


def _own_cases(torch, zoo):
    from linear_operator import operators as O

    def spd(g, b, n, dt):
        return zoo.spd(g, b, n, dt)

    def psdsum_diag_dense(g, dt, b, n):
        d = zoo.rn(g, *b, n, dtype=dt).abs() + 0.5
        a = spd(g, b, n, dt)
        return O.PsdSumLinearOperator(O.DiagLinearOperator(d), O.DenseLinearOperator(a)), torch.diag_embed(d) + a

    def psdsum3(g, dt, b, n):
        v = zoo.rn(g, *b, 1, dtype=dt).abs() + 0.5
        c = zoo.rn(g, *b, n, dtype=dt) * 0.3
        c[..., 0] = c[..., 0].abs() + n
        I = torch.eye(n, dtype=dt).expand(*b, n, n)
        return (O.PsdSumLinearOperator(O.IdentityLinearOperator(n, batch_shape=torch.Size(b), dtype=dt), O.ConstantDiagLinearOperator(v, diag_shape=n), O.ToeplitzLinearOperator(c)),
                I + torch.diag_embed(v.expand(*b, n)) + zoo.toeplitz_dense(c))

    def psdsum_nested(g, dt, b, n):
        (o1, d1), (o2, d2) = psdsum_diag_dense(g, dt, b, n), psdsum_diag_dense(g, dt, b, n)
        return O.PsdSumLinearOperator(o1, o2), d1 + d2

    def blockdiag_diag(g, dt, b, n):
        d = zoo.rn(g, *b, 3, n, dtype=dt).abs() + 0.5
        return O.BlockDiagLinearOperator(O.DiagLinearOperator(d)), zoo.block_diag_dense(torch.diag_embed(d))

    def blockinterleaved_psdsum(g, dt, b, n):
        o, d = psdsum_diag_dense(g, dt, (*b, 2), n)
        return O.BlockInterleavedLinearOperator(o), zoo.block_interleaved_dense(d)

    def blockdiag_blockinterleaved(g, dt, b, n):
        blocks = spd(g, (*b, 2, 3), n, dt)
        inner = O.BlockInterleavedLinearOperator(O.DenseLinearOperator(blocks))
        return O.BlockDiagLinearOperator(inner), zoo.block_diag_dense(zoo.block_interleaved_dense(blocks))

    def interp_diag_base(g, dt, b, n):
        m = n + 1
        d = zoo.rn(g, *b, m, dtype=dt).abs() + 0.5
        li = torch.randint(0, m, (*b, n, 2), generator=g)
        lv = zoo.rn(g, *b, n, 2, dtype=dt)
        W = zoo.interp_matrix(li, lv, m)
        return O.InterpolatedLinearOperator(O.DiagLinearOperator(d), li, lv, li.clone(), lv.clone()), W @ torch.diag_embed(d) @ W.mT

    def interp_blockdiag_base(g, dt, b, n):
        blocks = spd(g, (*b, 2), n, dt)
        m = 2 * n
        li = torch.randint(0, m, (*b, n + 1, 2), generator=g)
        lv = zoo.rn(g, *b, n + 1, 2, dtype=dt)
        W = zoo.interp_matrix(li, lv, m)
        return O.InterpolatedLinearOperator(O.BlockDiagLinearOperator(O.DenseLinearOperator(blocks)), li, lv, li.clone(), lv.clone()), W @ zoo.block_diag_dense(blocks) @ W.mT

    def interp_width3_dupidx(g, dt, b, n):
        m = n + 2
        base = spd(g, b, m, dt)
        li = torch.randint(0, m, (*b, n, 3), generator=g)
        li[..., 1] = li[..., 0]  # duplicate interpolation index inside a row
        lv = zoo.rn(g, *b, n, 3, dtype=dt)
        W = zoo.interp_matrix(li, lv, m)
        return O.InterpolatedLinearOperator(O.DenseLinearOperator(base), li, lv, li.clone(), lv.clone()), W @ base @ W.mT

    def blockdiag_interp(g, dt, b, n):
        o, d = interp_diag_base(g, dt, (*b, 2), n)
        return O.BlockDiagLinearOperator(o), zoo.block_diag_dense(d)

    def sumbatch_diag(g, dt, b, n):
        d = zoo.rn(g, *b, 3, n, dtype=dt).abs() + 0.5
        return O.SumBatchLinearOperator(O.DiagLinearOperator(d)), torch.diag_embed(d.sum(-2))

    def constmul_blockdiag(g, dt, b, n):
        blocks = spd(g, (*b, 2), n, dt)
        return O.ConstantMulLinearOperator(O.BlockDiagLinearOperator(O.DenseLinearOperator(blocks)), torch.tensor(2.5, dtype=dt)), 2.5 * zoo.block_diag_dense(blocks)

    def psdsum_identity_root(g, dt, b, n):
        r = zoo.rn(g, *b, n, max(1, n - 1), dtype=dt)
        I = torch.eye(n, dtype=dt).expand(*b, n, n)
        return O.PsdSumLinearOperator(O.IdentityLinearOperator(n, batch_shape=torch.Size(b), dtype=dt), O.RootLinearOperator(r)), I + r @ r.mT

    def kron_identity_dense(g, dt, b, n):
        a = spd(g, b, n, dt)
        I = torch.eye(2, dtype=dt).expand(*b, 2, 2)
        return O.KroneckerProductLinearOperator(O.IdentityLinearOperator(2, batch_shape=torch.Size(b), dtype=dt), O.DenseLinearOperator(a)), zoo.kron(I, a)

    def blockdiag_1block(g, dt, b, n):
        blocks = spd(g, (*b, 1), n, dt)
        return O.BlockDiagLinearOperator(O.DenseLinearOperator(blocks)), zoo.block_diag_dense(blocks)

    def blockinterleaved_1block(g, dt, b, n):
        blocks = spd(g, (*b, 1), n, dt)
        return O.BlockInterleavedLinearOperator(O.DenseLinearOperator(blocks)), zoo.block_interleaved_dense(blocks)

    fs = {"psdsum_diag_dense": psdsum_diag_dense, "psdsum3_id_cdiag_toep": psdsum3, "psdsum_nested": psdsum_nested, "blockdiag_diag": blockdiag_diag,
          "blockinterleaved_psdsum": blockinterleaved_psdsum, "blockdiag_blockinterleaved": blockdiag_blockinterleaved, "interp_diag_base": interp_diag_base,
          "interp_blockdiag_base": interp_blockdiag_base, "interp_width3_dupidx": interp_width3_dupidx, "blockdiag_interp": blockdiag_interp, "sumbatch_diag": sumbatch_diag,
          "constmul_blockdiag": constmul_blockdiag, "psdsum_identity_root": psdsum_identity_root, "kron_identity_dense": kron_identity_dense,
          "blockdiag_1block": blockdiag_1block, "blockinterleaved_1block": blockinterleaved_1block}
    return {k: zoo.Case(k, "own", f, psd=True) for k, f in fs.items()}


def _nest_build(torch, zoo, name, x, g, dt, b, n):
    """block structure `blk` over a BatchRepeatLinearOperator of X made as `how`; b = batch shape of the block operator; returns (op, dense).
    The oracle is assembled from the dense X and the documented meaning of repeat/expand (torch.Tensor.repeat/expand on the batch dims) and of the block structure."""
    from linear_operator import operators as O

    blk, how = name.split("_")
    K = 3
    one = (1,) * len(b)

    def X(batch):
        if x in ("dense", "user"):
            a = zoo.spd(g, batch, n, dt)
            return (O.DenseLinearOperator(a) if x == "dense" else zoo._UserOp(a)), a.clone()
        if x == "toep":
            c = zoo.rn(g, *batch, n, dtype=dt) * 0.3
            c[..., 0] = c[..., 0].abs() + n
            return O.ToeplitzLinearOperator(c), zoo.toeplitz_dense(c)
        if x == "root":
            r = zoo.rn(g, *batch, n, max(1, n - 1), dtype=dt)
            return O.RootLinearOperator(r), r @ r.mT
        if x == "kernel":  # RBF Gram matrix of n points (PSD); KernelLinearOperator has no _expand_batch of its own
            pts = zoo.rn(g, *batch, n, 2, dtype=dt) * 1.5
            ls = zoo.rn(g, *batch, dtype=dt).abs() + 0.7 if batch else torch.tensor(1.3, dtype=dt)
            return O.KernelLinearOperator(pts, pts, covar_func=zoo._rbf, lengthscale=ls, num_nonbatch_dimensions={"lengthscale": 0}), zoo._rbf(pts, pts, ls)
        raise KeyError(x)

    def wrap(base, blocks, block_dim=-3):
        # blocks: (*b, k, n, n) dense blocks in block order
        if blk == "sumbatch":
            return O.SumBatchLinearOperator(base, block_dim=block_dim), blocks.sum(-3)
        if blk == "blockdiag":
            return O.BlockDiagLinearOperator(base, block_dim=block_dim), zoo.block_diag_dense(blocks)
        return O.BlockInterleavedLinearOperator(base, block_dim=block_dim), zoo.block_interleaved_dense(blocks)

    if how == "repall":  # unbatched X repeated over every batch dim through the public repeat(): (*b, K) copies
        xo, xd = X(())
        return wrap(xo.repeat(*b, K, 1, 1), xd.repeat(*b, K, 1, 1))
    if how == "repblk":  # X with batch (*b, 1); only the block dim is repeated
        xo, xd = X((*b, 1))
        return wrap(O.BatchRepeatLinearOperator(xo, torch.Size((*one, K))), xd.repeat(*one, K, 1, 1))
    if how == "repmix":  # 2 different blocks, repeated twice along the block dim: blocks a0 a1 a0 a1
        xo, xd = X((*b, 2))
        return wrap(O.BatchRepeatLinearOperator(xo, torch.Size((*one, 2))), xd.repeat(*one, 2, 1, 1))
    if how == "repouter":  # control: 2 different blocks; only the outer batch dims are repeated
        xo, xd = X((2,))
        return wrap(O.BatchRepeatLinearOperator(xo, torch.Size((*b, 1))), xd.repeat(*b, 1, 1, 1))
    if how == "blockdim0":  # the repeated dim is the first batch dim and is declared as the block dim
        xo, xd = X(b)
        return wrap(O.BatchRepeatLinearOperator(xo, torch.Size((K, *one))), xd.unsqueeze(-3).repeat(*one, K, 1, 1), block_dim=0)
    if how == "reprep":  # repeat() of a repeat(): K copies along the block dim, then copies along new outer dims
        xo, xd = X(())
        r = xo.repeat(K, 1, 1)
        return wrap(r.repeat(*b, 1, 1, 1) if b else r, xd.repeat(*b, K, 1, 1))
    if how == "expblk":  # expand() of an operator whose expand goes through BatchRepeatLinearOperator; the expanded dim is the block dim
        xo, xd = X((*b, 1) if b else ())
        return wrap(xo.expand(*b, K, n, n), xd.expand(*b, K, n, n))
    if how == "blkexp":  # control: expand() of the block structure itself (2 different blocks)
        xo, xd = X((2,))
        op, d = wrap(xo, xd)
        return op.expand(*b, *d.shape[-2:]), d.expand(*b, *d.shape[-2:]).clone()
    raise KeyError(how)


class _Noise:
    """context manager replacing torch.randn; see the module docstring"""

    def __init__(self, torch):
        self.torch = torch
        self.orig = torch.randn
        self.mode = "record"
        self.requests = []  # (shape, dtype) of every sampler request of the current run
        self.vec = None
        self.pos = 0
        self.g = torch.Generator()

    def __enter__(self):
        self.torch.randn = self.fake
        return self

    def __exit__(self, *a):
        self.torch.randn = self.orig
        return False

    def start(self, vec=None):
        self.requests, self.vec, self.pos = [], vec, 0
        self.g.manual_seed(4242)

    def fake(self, *size, **kw):
        import sys

        torch = self.torch
        if len(size) == 1 and isinstance(size[0], (tuple, list, torch.Size)):
            size = tuple(size[0])
        f = sys._getframe(1)
        if f.f_code.co_name != "zero_mean_mvn_samples":
            kw.pop("generator", None)
            return self.orig(*size, generator=self.g, **kw)
        dtype = kw.get("dtype") or torch.get_default_dtype()
        numel = 1
        for s in size:
            numel *= int(s)
        self.requests.append((tuple(int(s) for s in size), dtype))
        if self.vec is None:  # probing run: seeded noise, remembered so that superposition can be checked
            out = self.orig(numel, generator=self.g, dtype=torch.float64)
            self.drawn = getattr(self, "drawn", [])
            self.drawn.append(out)
        else:
            out = self.vec[self.pos:self.pos + numel]
            if out.numel() != numel:
                raise RuntimeError("sampler consumed a different amount of noise than in the probing run")
        self.pos += numel
        return out.to(dtype).reshape(size).clone()


def _sample_map(torch, op, k, noise, basis):
    """returns (probe sample S0, probe noise z0, M) with M[e] = sampler output for noise vector = e-th column of the basis"""
    noise.drawn = []
    noise.start(None)
    S0 = op.zero_mean_mvn_samples(k)
    z0 = torch.cat(noise.drawn) if noise.drawn else torch.zeros(0, dtype=torch.float64)
    N = z0.numel()
    reqs = list(noise.requests)
    if basis == "identity":
        Q = torch.eye(N, dtype=torch.float64)
    else:
        g = torch.Generator()
        g.manual_seed(99 + N)
        Q, _ = torch.linalg.qr(torch.randn(N, N, generator=g, dtype=torch.float64))
    rows = []
    for e in range(N):
        noise.start(Q[:, e].contiguous())
        rows.append(op.zero_mean_mvn_samples(k).to(torch.float64).reshape(-1))
        if noise.requests != reqs:
            raise RuntimeError("sampler noise requests changed between runs")
    M = torch.stack(rows) if rows else torch.zeros(0, S0.numel(), dtype=torch.float64)
    # express in unit-noise coordinates: M_unit = Q M  (rows of M are images of the columns of Q)
    return S0, z0, Q @ M, reqs


def _check_instance(torch, zoo, rec, noise, cname, label, op, dense, k, mode, basis="identity"):
    """mode: 'chol' (direct root), 'lanczos' (iterative root), 'ciq' (contour integral quadrature)"""
    dt = dense.dtype
    n = dense.shape[-1]
    batch = tuple(dense.shape[:-2])
    grp = lambda what: f"{what}/{cname}"  # noqa: E731
    try:
        S0, z0, M, reqs = _sample_map(torch, op, k, noise, basis)
    except Exception as e:  # noqa
        import traceback
        rec.check(grp("sample_runs"), label, False, f"raised {type(e).__name__}: {e} @ {traceback.format_exc().strip().splitlines()[-3][:160]}")
        return
    rec.check(grp("sample_runs"), label, True)
    okshape = tuple(S0.shape) == (k, *batch, n)
    rec.check(grp("shape"), label, okshape, f"shape {tuple(S0.shape)} expected {(k, *batch, n)}")
    rec.check(grp("dtype"), label, S0.dtype == dt and all(r[1] == dt for r in reqs), f"sample dtype {S0.dtype}, noise dtypes {[str(r[1]) for r in reqs]}, operator {dt}")
    if not okshape:
        return
    rec.check(grp("finite"), label, bool(torch.isfinite(S0).all() and torch.isfinite(M).all()), "NaN/Inf in samples")
    B = 1
    for s in batch:
        B *= s
    N = M.shape[0]
    Mr = M.reshape(N, k, B, n)
    D = dense.reshape(B, n, n).to(torch.float64)
    dmax = max(1.0, float(D.abs().max()))
    f32 = dt == torch.float32
    tol = {"chol": (2e-4 if f32 else 1e-8), "lanczos": (2e-3 if f32 else 1e-6), "ciq": (2e-2 if f32 else 2e-3)}[mode] * dmax * max(1, n) ** 0.5
    worst, worst_x, where = 0.0, 0.0, ""
    for i in range(k):
        for b in range(B):
            Ri = Mr[:, i, b, :]  # (N, n): rows = images of the unit noise scalars
            C = Ri.mT @ Ri
            err = float((C - D[b]).abs().max())
            if err > worst:
                worst, where = err, f"draw {i} member {b}"
            for j in range(i + 1, k):
                x = float((Ri.mT @ Mr[:, j, b, :]).abs().max())
                worst_x = max(worst_x, x)
    rec.check(grp("covariance"), label, worst <= tol, f"|R R^T - D| = {worst:.3e} > {tol:.1e} at {where} (|D|max {dmax:.2e}, noise scalars {N})")
    rec.check(grp("independent_draws"), label, worst_x <= tol, f"cross-covariance between different draws {worst_x:.3e} > {tol:.1e}")
    # superposition: the probing sample is the linear image of its own noise
    sup = (z0 @ M).reshape(S0.shape)
    stol = tol if mode == "ciq" else {"chol": (2e-4 if f32 else 1e-9), "lanczos": (2e-4 if f32 else 1e-9)}[mode] * max(1.0, float(sup.abs().max())) * 8
    rec.check(grp("linear_in_noise"), label, bool((S0.to(torch.float64) - sup).abs().max() <= stol), f"S(z) - sum_e z_e S(e_e) = {float((S0.to(torch.float64) - sup).abs().max()):.3e}")


def _instances(torch, zoo, names, tier, own, seed=0):
    import itertools
    import zlib
    for nm in names:
        if nm in NEST:
            c = zoo.Case(nm, "nest", None, psd=True)
            if tier == "quick":  # (batch, size) pairs; the number of noise scalars is k * blocks * prod(batch) * n
                shapes = [((), 1), ((), 2), ((), 3), ((2,), 1), ((2,), 2), ((2,), 3), ((1,), 1), ((1,), 3), ((2, 3), 2)]
            else:
                shapes = list(itertools.product([(), (2,), (1,), (2, 3), (1, 2), (3, 1, 2)], [1, 2, 3, 4, 6]))
            for x, dt, (b, n) in itertools.product(NEST_HOW[nm.split("_")[1]], zoo.DTYPES, shapes):
                s = zlib.crc32(repr((nm, x, str(dt), b, n, seed)).encode()) % (2 ** 31)
                lab = f"{nm}|x={x}|{str(dt)[6:]}|b={b}|n={n}"
                try:
                    op, d = _nest_build(torch, zoo, nm, x, zoo.gen(s), dt, b, n)
                except Exception as e:  # noqa
                    yield lab, c, None, e
                    continue
                yield lab, c, op, d
        elif nm in own:
            c = own[nm]
            batches = zoo.BATCHES_QUICK if tier == "quick" else zoo.BATCHES_QUICK + [(1, 2), (3, 1, 2)]
            sizes = [1, 2, 3, 5] if tier == "quick" else [1, 2, 3, 4, 5, 7]
            import itertools
            import zlib
            for dt, b, n in itertools.product(zoo.DTYPES, batches, sizes):
                s = zlib.crc32(repr((nm, str(dt), b, n)).encode()) % (2 ** 31)
                lab = f"{nm}|{str(dt)[6:]}|b={b}|n={n}"
                try:
                    op, d = c.build(zoo.gen(s), dt, b, n)
                except Exception as e:  # noqa
                    yield lab, c, None, e
                    continue
                yield lab, c, op, d
        else:
            yield from zoo.instances(tier, names=[nm])


def rtc_sampling(case_names, tier):
    torch, zoo, rec, seed = _setup()
    from linear_operator import settings

    own = _own_cases(torch, zoo)
    ks = [1, 3] if tier == "quick" else [1, 2, 4]
    with _Noise(torch) as noise:
        for label, c, op0, dense in _instances(torch, zoo, case_names, tier, own, seed):
            if op0 is None:
                rec.check(f"construct/{c.name}", label, False, f"constructor raised {dense!r}")
                continue
            n = dense.shape[-1]
            B = 1
            for s in dense.shape[:-2]:
                B *= s
            for k in ks:
                if tier == "quick" and k > 1 and B * n > (4 if c.cls == "nest" else 24):
                    continue
                # (a) default settings: every size is below max_cholesky_size
                confs = [("default", "chol", lambda: settings.max_cholesky_size(800))]
                if n > 2:
                    # (b) size above max_cholesky_size -> iterative (Lanczos) root;  (c) same with fast root decomposition off -> direct
                    confs.append(("max_chol=2", "lanczos", lambda: settings.max_cholesky_size(2)))
                    confs.append(("max_chol=2,fast_root_off", "chol", lambda: _both(settings.max_cholesky_size(2), settings.fast_computations(covar_root_decomposition=False))))
                elif c.cls != "nest" or tier != "quick":  # (below max_cholesky_size this is the same Cholesky path as the default: not repeated for the nestings)
                    confs.append(("fast_root_off", "chol", lambda: settings.fast_computations(covar_root_decomposition=False)))
                for cn, mode, ctx in confs:
                    if k > 1 and cn != "default" and tier == "quick" and (n > 3 or c.cls == "nest"):
                        continue
                    op = _fresh(op0)  # fresh caches per configuration
                    with ctx(), settings.ciq_samples(False):
                        _check_instance(torch, zoo, rec, noise, c.name, f"{label}|k={k}|{cn}", op, dense, k, mode)
    rec.check("selfcheck/randn_restored", "after", torch.randn is noise.orig, "torch.randn not restored", nontrivial=False)
    return rec.obligations()


def _fresh(op):
    """a copy without caches (clone rebuilds the operator from cloned constructor arguments)"""
    try:
        return op.clone()
    except Exception:  # noqa
        return op


class _both:
    def __init__(self, *ctxs):
        self.ctxs = ctxs

    def __enter__(self):
        for c in self.ctxs:
            c.__enter__()

    def __exit__(self, *a):
        for c in reversed(self.ctxs):
            c.__exit__(*a)
        return False


def rtc_ciq(case_names, tier):
    """contour-integral-quadrature variant (settings.ciq_samples on): generic sampler only; random orthogonal noise basis"""
    torch, zoo, rec, seed = _setup()
    from linear_operator import settings

    own = _own_cases(torch, zoo)
    with _Noise(torch) as noise:
        for label, c, op0, dense in _instances(torch, zoo, case_names, tier, own):
            if op0 is None:
                continue
            n = dense.shape[-1]
            batch = tuple(dense.shape[:-2])
            B = 1
            for s in batch:
                B *= s
            if tier == "quick" and (B * n > 12 or batch == (1,)):
                continue
            if tier != "quick" and B * n > 30:
                continue
            for k in ([1, 2] if n <= 3 else [1]):
                for cn, ctx in (("ciq", lambda: settings.max_cholesky_size(800)), ("ciq,max_chol=2", lambda: settings.max_cholesky_size(2))):
                    if cn != "ciq" and (k > 1 or n <= 2):
                        continue
                    op = _fresh(op0)
                    with ctx(), settings.ciq_samples(True):
                        _check_instance(torch, zoo, rec, noise, c.name, f"{label}|k={k}|{cn}", op, dense, k, "ciq", basis="orthogonal")
    return rec.obligations()


def rtc_default_dtype(tier):
    """torch default dtype != operator dtype: the sample must still have the operator's dtype"""
    torch, zoo, rec, seed = _setup()
    from linear_operator import settings

    own = _own_cases(torch, zoo)
    names = ["dense_psd", "diag", "constdiag", "identity", "blockdiag", "psdsum", "interp_sym", "toeplitz", "psdsum3_id_cdiag_toep", "blockdiag_diag", "kron2", "sumbatch"]
    old = torch.get_default_dtype()
    try:
        with _Noise(torch) as noise:
            for label, c, op, dense in _instances(torch, zoo, names, "quick", own):
                if op is None or dense.shape[-1] not in (1, 3, 4) or len(dense.shape) > 3:
                    continue
                torch.set_default_dtype(torch.float64 if dense.dtype == torch.float32 else torch.float32)
                for cn, mode, ctx in (("default", "chol", lambda: settings.max_cholesky_size(800)), ("max_chol=2", "lanczos", lambda: settings.max_cholesky_size(2))):
                    with ctx():
                        _check_instance(torch, zoo, rec, noise, c.name, f"{label}|k=2|{cn}|default_dtype={torch.get_default_dtype()}", _fresh(op), dense, 2, mode if dense.shape[-1] > 2 else "chol")
    finally:
        torch.set_default_dtype(old)
    return rec.obligations()


def rtc_units(tier):
    names = ZOO_PSD + EXTRA_ZOO + OWN
    us = []
    chunk = 4
    for i in range(0, len(names), chunk):
        nm = names[i:i + chunk]
        us.append(Unit(f"C18/rtc/sampling[{','.join(nm)}]", "contracts.rtc_C18", "rtc_sampling", (nm, tier), engine="rtc", timeout_s=1200))
    for i in range(0, len(NEST), chunk):
        nm = NEST[i:i + chunk]
        us.append(Unit(f"C18/rtc/sampling_nest[{','.join(nm)}]", "contracts.rtc_C18", "rtc_sampling", (nm, tier), engine="rtc", timeout_s=1200))
    ciq = ["dense_psd", "toeplitz", "kron2", "addeddiag", "sum", "psdsum", "mul", "constmul", "sumbatch", "batchrepeat", "user_psd", "chol_lower", "blockdiag", "diag", "identity", "interp_sym",
           "nest_sum_kron_root_diag", "psdsum_diag_dense", "blockinterleaved_psdsum"]
    for i in range(0, len(ciq), 5):
        nm = ciq[i:i + 5]
        us.append(Unit(f"C18/rtc/ciq[{','.join(nm)}]", "contracts.rtc_C18", "rtc_ciq", (nm, tier), engine="rtc", timeout_s=1200))
    us.append(Unit("C18/rtc/default_dtype", "contracts.rtc_C18", "rtc_default_dtype", (tier,), engine="rtc", timeout_s=600))
    return us


RTC_META = {
    "explanation": "torch.randn is replaced while zero_mean_mvn_samples runs; feeding the columns of an orthogonal noise basis recovers the exact "
                   "linear map noise -> samples of the real code, whose Gram matrix is the covariance the sampler really has; it must equal D(op) per "
                   "draw and batch member, different draws must be uncorrelated, and a probing sample must be the superposition of the basis images",
    "assumptions": [
        "every base noise request is made through the module attribute torch.randn from a function named zero_mean_mvn_samples (true for all "
        "samplers of the current tree: AST grep); other randn uses (Lanczos start vectors) are served from a re-seeded generator",
        "accuracy classes: direct roots 1e-8 (f64) / 2e-4 (f32), Lanczos roots 1e-6 / 2e-3, contour-integral quadrature 2e-3 / 2e-2, all relative to max|D| sqrt(n)",
    ],
    "families": "28 PSD zoo cases + 6 singular-PSD zoo cases + 16 own nestings (PsdSum of Diag/Dense/Identity/ConstantDiag/Toeplitz/Root, nested PsdSum, "
                "BlockDiag/BlockInterleaved over Diag/PsdSum/Interpolated/each other/1 block, Interpolated over Diag/BlockDiag/width 3 with duplicate indices, ...) "
                "x float32/float64 x batch (), (2,), (1,), (2,3) x n in {1,2,4,6} (own: 1,2,3,5) x k in {1,3} x {default, max_cholesky_size below n (Lanczos root), "
                "the same with fast_computations(covar_root_decomposition=False)}; ciq_samples on for 19 cases (random orthogonal noise basis); "
                "torch default dtype different from the operator dtype for 12 cases; "
                "24 nestings {SumBatch, BlockDiag, BlockInterleaved} over a BatchRepeatLinearOperator made by {repeat() over all batch dims, constructor with "
                "only the block dim repeated, 2 different blocks repeated twice, only outer dims repeated (control), repeated first dim declared as block_dim=0, "
                "repeat() of a repeat(), expand() of a user subclass / KernelLinearOperator (expand -> BatchRepeat) along the block dim, expand() of the block "
                "structure itself (control)} x repeated operator {dense PSD, Toeplitz, Root} x float32/float64 x (batch, n) in {() x 1,2,3; (2,) x 1,2,3; "
                "(1,) x 1,3; (2,3) x 2} x the same settings (k = 3 only for prod(batch) n <= 4 at default settings)",
}
