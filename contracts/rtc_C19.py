"""C19 (bounded tier) - incompatible shapes and out-of-range indices raise, never mis-compute.

Run-time contract on the real code under real torch:

    for every zoo operator K with dense oracle D, every operation f taking a second operand or an index and every
    generated operand X / index ix:   if torch REJECTS f(D, X) (checked by actually calling torch on the dense
    matrix), then f(K, X) must raise (any exception type).  Returning anything - a tensor or a lazily built
    operator - is a violation.  Operand shapes torch accepts are outside the property and are skipped (counted).
    Square-only operations must raise on rectangular operators.

Shape operations are evaluated with the library's default ``settings.debug`` (on: constructor checks active);
indices with debug on and off.
"""
from __future__ import annotations

import zlib

from engine.common import Unit

PID = "C19"
FULL = slice(None, None, None)


def bad_batches(batch):
    """batch shapes that do NOT broadcast with ``batch``"""
    out = []
    for i, b in enumerate(batch):
        if b > 1:
            bb = list(batch)
            bb[i] = b + 1
            out.append(tuple(bb))
    if batch and batch[-1] > 1:
        out.append((batch[-1] + 2,))
        if len(batch) > 1:
            out.append((batch[-1] + 1, 1) if batch[-2] == 1 else (batch[-2] + 1, 1))
    res = []
    for bb in out:
        if bb not in res:
            res.append(bb)
    return res


def rtc_shapes(case_names, tier):
    from contracts import zoo  # first: puts VERIF_REPO in front of sys.path
    import torch
    import linear_operator
    from linear_operator import settings
    from contracts.rtc_C03 import all_instances, fmt_index
    from contracts.rtc_common import Recorder

    torch.set_num_threads(1)
    O = linear_operator.operators
    LO = O.LinearOperator
    rec = Recorder(PID)
    stats = {"torch_accepts_skipped": 0, "required_raises": 0}

    def describe(r):
        if isinstance(r, LO):
            try:
                return f"{type(r).__name__} of shape {tuple(r.shape)}"
            except Exception as e:  # noqa
                return f"{type(r).__name__} whose .shape raises {type(e).__name__}"
        if torch.is_tensor(r):
            return f"tensor of shape {tuple(r.shape)}"
        if isinstance(r, tuple):
            return "(" + ", ".join(describe(x) for x in r) + ")"
        return repr(r)[:80]

    def shp(x):
        if isinstance(x, LO):
            return f"{type(x).__name__}{tuple(x.shape)}"
        if torch.is_tensor(x):
            return f"tensor{tuple(x.shape)}"
        return repr(x)

    def require_raise(group, label, torch_fn, lib_fns):
        """torch_fn(): the dense computation.  If torch accepts it, the input is outside the property."""
        try:
            torch_fn()
        except Exception as te:  # noqa
            terr = f"{type(te).__name__}: {str(te)[:100]}"
        else:
            stats["torch_accepts_skipped"] += 1
            return
        opn, case_ = group.split("/", 1)
        for how, fn in lib_fns:
            stats["required_raises"] += 1
            lab = f"{label}|{how}"
            grp = group
            if opn in ("matmul", "rmatmul", "add", "sub", "mul", "cat"):  # one group per kind of second operand
                kind = "same_class_operand" if "other" in how else ("operator_operand" if "Dense(" in how else "tensor_operand")
                grp = f"{opn}:{kind}/{case_}"
            try:
                r = fn()
            except Exception:  # noqa  (any exception type is fine)
                rec.check(grp, lab, True)
                continue
            rec.check(grp, lab, False, f"returned {describe(r)} where torch raises {terr}")

    if tier == "quick":
        grid = [(torch.float64, [(), (2,), (1,), (2, 3)], [1, 2, 4]), (torch.float32, [(2,)], [3])]
    else:
        grid = [(torch.float64, [(), (2,), (1,), (2, 3), (1, 2), (3, 1, 2)], [1, 2, 3, 4, 6]), (torch.float32, [(), (2,), (2, 3)], [2, 3, 5])]

    for dt_, batches, sizes in grid:
        for label, c, op, dense in all_instances(tier, case_names, dtypes=[dt_], batches=batches, sizes=sizes):
            if op is None:
                continue  # constructor failures are reported by C01
            dt = dense.dtype
            batch = tuple(dense.shape[:-2])
            m, n = dense.shape[-2:]
            inst_seed = zlib.crc32(label.encode()) % (2 ** 31)
            g = zoo.gen(inst_seed)
            bbs = bad_batches(batch)
            n_case = int(label.split("|n=")[1])

            def T(*shape):
                if not shape:  # 0-d operand
                    return zoo.rn(g, 1, dtype=dt)[0]
                return zoo.rn(g, *shape, dtype=dt)

            # same-class operands of another size / non-broadcastable batch (built independently)
            others = []
            try:
                o2, d2 = c.build(zoo.gen(inst_seed + 1), dt, batch, n_case + 1)
                others.append((f"same_class(n+1){tuple(d2.shape)}", o2, d2))
            except Exception:  # noqa
                pass
            for bb in bbs[:1]:
                if c.name in ("tperm",):
                    continue
                try:
                    o2, d2 = c.build(zoo.gen(inst_seed + 2), dt, bb, n_case)
                    if tuple(d2.shape[:-2]) == tuple(bb):
                        others.append((f"same_class(bad batch){tuple(d2.shape)}", o2, d2))
                except Exception:  # noqa
                    pass

            # ---------------- matmul / @ ----------------
            rhs_shapes = [(n + 1, 2), (n + 1,), (n + 2, 1), (), (*batch, n + 1, 2), (3, n + 1)]
            if n > 1:
                rhs_shapes += [(1, 2), (1,), (n - 1, 2), (*batch, 1, 2), (1, 1)]
            if n != 2:
                rhs_shapes += [(2, n)]
            rhs_shapes += [(*bb, n, 2) for bb in bbs] + [(*bb, n, 1) for bb in bbs[:1]]
            for sh in rhs_shapes:
                X = T(*sh)
                fns = [("op.matmul(X)", lambda X=X: op.matmul(X)), ("op@X", lambda X=X: op @ X), ("torch.matmul(op,X)", lambda X=X: torch.matmul(op, X))]
                if X.dim() >= 2:
                    XL = O.DenseLinearOperator(X)
                    fns += [("op@Dense(X)", lambda XL=XL: op @ XL), ("op.matmul(Dense(X))", lambda XL=XL: op.matmul(XL))]
                require_raise(f"matmul/{c.name}", f"{label}|X={sh}", lambda X=X: dense @ X, fns)
            for nm, o2, d2 in others:
                require_raise(f"matmul/{c.name}", f"{label}|X={nm}", lambda d2=d2: dense @ d2,
                              [("op@other", lambda o2=o2: op @ o2), ("op.matmul(other)", lambda o2=o2: op.matmul(o2))])

            # ---------------- rmatmul ----------------
            lhs_shapes = [(2, m + 1), (m + 1,), (1, m + 2), (), (*batch, 2, m + 1)]
            if m > 1:
                lhs_shapes += [(2, 1), (1,), (2, m - 1), (1, 1)]
            if m != 2:
                lhs_shapes += [(m, 2)]
            lhs_shapes += [(*bb, 2, m) for bb in bbs]
            for sh in lhs_shapes:
                X = T(*sh)
                fns = [("X@op", lambda X=X: X @ op), ("op.rmatmul(X)", lambda X=X: op.rmatmul(X)), ("torch.matmul(X,op)", lambda X=X: torch.matmul(X, op))]
                if X.dim() >= 2:
                    XL = O.DenseLinearOperator(X)
                    fns += [("Dense(X)@op", lambda XL=XL: XL @ op)]
                require_raise(f"rmatmul/{c.name}", f"{label}|X={sh}", lambda X=X: X @ dense, fns)

            # ---------------- + - * ----------------
            ew_shapes = [(m + 1, n), (m, n + 1), (m + 1, n + 1), (n + 1,), (*batch, m + 2, n), (m + 1, 1), (1, n + 1), (3, m + 1, n)]
            ew_shapes += [(*bb, m, n) for bb in bbs] + [(*bb, 1, 1) for bb in bbs[:1]] + [(*bb, m, 1) for bb in bbs[:1]]
            for sh in ew_shapes:
                X = T(*sh)
                XL = O.DenseLinearOperator(X) if X.dim() >= 2 else None
                add_fns = [("op+X", lambda X=X: op + X), ("X+op", lambda X=X: X + op), ("torch.add(op,X)", lambda X=X: torch.add(op, X))]
                sub_fns = [("op-X", lambda X=X: op - X), ("X-op", lambda X=X: X - op)]
                mul_fns = [("op*X", lambda X=X: op * X), ("X*op", lambda X=X: X * op), ("op.mul(X)", lambda X=X: op.mul(X))]
                if XL is not None:
                    add_fns += [("op+Dense(X)", lambda XL=XL: op + XL), ("Dense(X)+op", lambda XL=XL: XL + op)]
                    sub_fns += [("op-Dense(X)", lambda XL=XL: op - XL)]
                    mul_fns += [("op*Dense(X)", lambda XL=XL: op * XL), ("Dense(X)*op", lambda XL=XL: XL * op)]
                require_raise(f"add/{c.name}", f"{label}|X={sh}", lambda X=X: dense + X, add_fns)
                require_raise(f"sub/{c.name}", f"{label}|X={sh}", lambda X=X: dense - X, sub_fns)
                require_raise(f"mul/{c.name}", f"{label}|X={sh}", lambda X=X: dense * X, mul_fns)
            for nm, o2, d2 in others:
                require_raise(f"add/{c.name}", f"{label}|X={nm}", lambda d2=d2: dense + d2, [("op+other", lambda o2=o2: op + o2), ("other+op", lambda o2=o2: o2 + op)])
                require_raise(f"sub/{c.name}", f"{label}|X={nm}", lambda d2=d2: dense - d2, [("op-other", lambda o2=o2: op - o2)])
                require_raise(f"mul/{c.name}", f"{label}|X={nm}", lambda d2=d2: dense * d2, [("op*other", lambda o2=o2: op * o2), ("other*op", lambda o2=o2: o2 * op)])

            # ---------------- cat ----------------
            cat_specs = [(-1, (*batch, m + 1, 2)), (-2, (*batch, 2, n + 1)), (-1, (m, 2)) if batch else (-1, (1, m, 2)), (-2, (*batch, n + 1))]
            cat_specs += [(-1, (*bb, m, 2)) for bb in bbs[:2]] + [(-2, (*bb, 2, n)) for bb in bbs[:1]]
            if batch:
                cat_specs += [(0, (batch[0], *batch[1:], m + 1, n)), (0, (1, *batch[1:], m, n + 1)), (0, (m, n))]
                if len(batch) > 1 and batch[1] > 1:
                    cat_specs += [(0, (1, batch[1] + 1, m, n)), (1, (batch[0] + 1, 1, m, n)) if batch[0] > 1 else (1, (1, 1, m + 1, n))]
            for dim, sh in cat_specs:
                X = T(*sh)
                fns = [("cat([op,X])", lambda X=X, dim=dim: O.cat([op, X], dim=dim)), ("cat([X,op])", lambda X=X, dim=dim: O.cat([X, op], dim=dim)),
                       ("CatLinearOperator(op,Dense(X))", lambda X=X, dim=dim: O.CatLinearOperator(op, O.DenseLinearOperator(X), dim=dim))]
                require_raise(f"cat/{c.name}", f"{label}|dim={dim}|X={sh}", lambda X=X, dim=dim: torch.cat([dense, X], dim), fns)
            for nm, o2, d2 in others:
                for dim in (-1, -2) + ((0,) if batch else ()):
                    require_raise(f"cat/{c.name}", f"{label}|dim={dim}|X={nm}", lambda d2=d2, dim=dim: torch.cat([dense, d2], dim),
                                  [("cat([op,other])", lambda o2=o2, dim=dim: O.cat([op, o2], dim=dim)),
                                   ("CatLinearOperator(op,other)", lambda o2=o2, dim=dim: O.CatLinearOperator(op, o2, dim=dim))])

            # ---------------- expand ----------------
            exp_sizes = [(*batch, m + 1, n), (*batch, m, n + 1), (n,), (), (-1, *batch, m, n), (2, -1, *batch[1:], m, n) if batch and batch[0] > 2 else (n + 1,)]
            exp_sizes += [(*bb, m, n) for bb in bbs] + [(*bb, -1, -1) for bb in bbs]
            if batch:
                exp_sizes += [(m, n), (-1, -1), (*batch[1:], m, n)]
                if batch[-1] > 1:
                    exp_sizes += [(3, *batch[:-1], batch[-1] + 1, m, n), (*batch[:-1], 1, m, n)]
            rank_ = dense.dim()
            for sz in exp_sizes:
                fns = [("op.expand(*sizes)", lambda sz=sz: op.expand(*sz))]
                if all(s_ >= 0 for s_ in sz):
                    fns.append(("op.expand(torch.Size)", lambda sz=sz: op.expand(torch.Size(sz))))
                if len(sz) < rank_:
                    ek = "fewer_sizes_than_dims"
                elif len(sz) > rank_ and -1 in sz[:len(sz) - rank_]:
                    ek = "new_leading_dim_-1"
                elif len(sz) >= 2 and tuple(sz[-2:]) not in ((m, n), (-1, -1)):
                    ek = "matrix_size_mismatch"
                else:
                    ek = "batch_size_mismatch"
                require_raise(f"expand:{ek}/{c.name}", f"{label}|sizes={sz}", lambda sz=sz: dense.expand(*sz), fns)

            # ---------------- square operators: add_diagonal, solve, inv_quad ----------------
            if m == n:
                d_shapes = [(n + 1,), (n + 3,), (*batch, n + 1), (2, n + 1)]
                if n > 2:
                    d_shapes += [(n - 1,), (2,)]
                d_shapes += [(*bb, n) for bb in bbs] + [(*bb, 1) for bb in bbs[:1]]
                for sh in d_shapes:
                    dvec = T(*sh).abs() + 0.1
                    require_raise(f"add_diagonal/{c.name}", f"{label}|diag={sh}", lambda dvec=dvec: dense.diagonal(dim1=-2, dim2=-1) + dvec,
                                  [("op.add_diagonal(d)", lambda dvec=dvec: op.add_diagonal(dvec))])

                s_shapes = [(n + 1, 2), (n + 1,), (), (*batch, n + 1, 2), (3, n + 2)]
                if n > 1:
                    s_shapes += [(1, 2), (1,), (n - 1, 1), (*batch, 1, 2)]
                if n != 2:
                    s_shapes += [(2, n)]
                s_shapes += [(*bb, n, 2) for bb in bbs]
                for sh in s_shapes:
                    R = T(*sh)
                    require_raise(f"solve/{c.name}", f"{label}|rhs={sh}", lambda R=R: torch.linalg.solve(dense, R),
                                  [("op.solve(R)", lambda R=R: op.solve(R)), ("torch.linalg.solve(op,R)", lambda R=R: torch.linalg.solve(op, R))])

                    def iq_oracle(R=R):
                        s_ = torch.linalg.solve(dense, R)
                        return (R * s_).sum(-2) if R.dim() >= 2 else (R * s_).sum(-1)
                    require_raise(f"inv_quad/{c.name}", f"{label}|rhs={sh}", iq_oracle, [("op.inv_quad(R)", lambda R=R: op.inv_quad(R))])
                    require_raise(f"inv_quad_logdet/{c.name}", f"{label}|rhs={sh}", iq_oracle,
                                  [("op.inv_quad_logdet(R,logdet=True)", lambda R=R: op.inv_quad_logdet(R, logdet=True)),
                                   ("op.inv_quad_logdet(R,logdet=False)", lambda R=R: op.inv_quad_logdet(R, logdet=False))])
                # solve with a left factor: (good rhs, bad left) and (bad rhs, good left)
                Rg = T(*batch, n, 2)
                l_shapes = [(3, n + 1), (*batch, 3, n + 1), (n + 1,)] + ([(3, 1), (3, n - 1)] if n > 1 else []) + [(*bb, 3, n) for bb in bbs]
                for sh in l_shapes:
                    L = T(*sh)
                    require_raise(f"solve_left/{c.name}", f"{label}|rhs={tuple(Rg.shape)}|left={sh}", lambda L=L: L @ torch.linalg.solve(dense, Rg),
                                  [("op.solve(R,L)", lambda L=L: op.solve(Rg, L))])
                Lg = T(*batch, 3, n)
                for sh in [(n + 1, 2), (*batch, n + 1, 2)] + ([(1, 2)] if n > 1 else []) + [(*bb, n, 2) for bb in bbs[:1]]:
                    R = T(*sh)
                    require_raise(f"solve_left/{c.name}", f"{label}|rhs={sh}|left={tuple(Lg.shape)}", lambda R=R: Lg @ torch.linalg.solve(dense, R),
                                  [("op.solve(R,L)", lambda R=R: op.solve(R, Lg))])
            else:
                # ---------------- square-only operations on a rectangular operator ----------------
                R = T(*batch, m, 2)
                dv = T(n).abs() + 0.1
                sq = [
                    ("op.solve(R)", lambda: op.solve(R)), ("op.solve(R[n rows])", lambda: op.solve(T(*batch, n, 2))),
                    ("op.inv_quad(R)", lambda: op.inv_quad(R)), ("op.inv_quad_logdet(R,True)", lambda: op.inv_quad_logdet(R, logdet=True)),
                    ("op.inv_quad_logdet(None,True)", lambda: op.inv_quad_logdet(None, logdet=True)), ("op.logdet()", lambda: op.logdet()),
                    ("torch.logdet(op)", lambda: torch.logdet(op)), ("op.cholesky()", lambda: op.cholesky()),
                    ("torch.linalg.cholesky(op)", lambda: torch.linalg.cholesky(op)), ("op.root_decomposition()", lambda: op.root_decomposition()),
                    ("op.root_inv_decomposition()", lambda: op.root_inv_decomposition()), ("op.diagonalization()", lambda: op.diagonalization()),
                    ("op.add_diagonal(d[n])", lambda: op.add_diagonal(dv)), ("op.add_diagonal(d[m])", lambda: op.add_diagonal(T(m).abs())),
                    ("op.add_jitter()", lambda: op.add_jitter(1e-3)), ("op.inverse()", lambda: op.inverse()),
                    ("torch.inverse(op)", lambda: torch.inverse(op)), ("torch.linalg.solve(op,R)", lambda: torch.linalg.solve(op, R)),
                ]
                for how, fn in sq:
                    stats["required_raises"] += 1
                    lab = f"{label}|{how}"
                    grp = "square_only"
                    try:
                        r = fn()
                    except Exception:  # noqa
                        rec.check(f"{grp}/{c.name}", lab, True)
                        continue
                    rec.check(f"{grp}/{c.name}", lab, False, f"returned {describe(r)} for a {m}x{n} operator")
                # diagonal(): torch defines it for rectangular matrices; raising is fine, a wrong answer is not
                try:
                    r = op.diagonal()
                except Exception:  # noqa
                    rec.check(f"square_only/{c.name}", f"{label}|op.diagonal()", True)
                else:
                    e = dense.diagonal(dim1=-2, dim2=-1)
                    rec.check(f"square_only/{c.name}", f"{label}|op.diagonal()", torch.is_tensor(r) and r.shape == e.shape and zoo.close(r, e, scale=4.0),
                              f"returned {describe(r)} != torch's diagonal of the {m}x{n} matrix")

            # ---------------- out-of-range indices (settings.debug on and off) ----------------
            rank = dense.dim()
            shape = tuple(dense.shape)
            idxs = []
            for p in range(rank):
                s_ = shape[p]
                pre = (FULL,) * p
                bad_ints = [s_, s_ + 3, -s_ - 1, -s_ - 7]
                for b in bad_ints:
                    idxs.append(("int", pre + (b,)))
                    idxs.append(("int", pre + (torch.tensor(b),)))
                if p == rank - 1:
                    idxs += [("int", (Ellipsis, s_)), ("int", (Ellipsis, -s_ - 1)), ("int", (Ellipsis, 0, s_)), ("int", (Ellipsis, FULL, s_)), ("int", (Ellipsis, slice(0, 1), -s_ - 1))]
                if p == rank - 2:
                    idxs += [("int", (Ellipsis, s_, FULL)), ("int", (Ellipsis, -s_ - 1, FULL)), ("int", (Ellipsis, s_, 0)), ("int", (Ellipsis, s_ + 1, slice(0, 1))),
                             ("int", (Ellipsis, -s_ - 2, torch.tensor([0])))]
                if p == 0 and rank > 2:
                    idxs += [("int", (s_, Ellipsis)), ("int", (-s_ - 1, Ellipsis)), ("int", (s_, Ellipsis, 0)), ("int", (s_, 0, 0) + (0,) * (rank - 3))]
                bad_tens = [[0, s_], [s_], [-s_ - 1], [s_ + 2, 0, 0], [0, 0, -s_ - 3], [[0, s_]],
                            [-1, s_], [s_ + 1, -s_], [-s_ - 1, s_ - 1, -1]]  # (valid negative entries next to an out-of-range one)
                for bt in bad_tens:
                    tt = torch.tensor(bt)
                    idxs.append(("tensor", pre + (tt,)))
                    if p == rank - 1:
                        idxs.append(("tensor", (Ellipsis, tt)))
                        idxs.append(("tensor", (Ellipsis, torch.zeros_like(tt), tt)))  # absorbed: both matrix positions carry tensors
                        idxs.append(("tensor", (Ellipsis, 0, tt)))
                    if p == rank - 2:
                        idxs.append(("tensor", (Ellipsis, tt, FULL)))
                        idxs.append(("tensor", (Ellipsis, tt, torch.zeros_like(tt))))
                        idxs.append(("tensor", (Ellipsis, tt, 0)))
                        idxs.append(("tensor", (Ellipsis, tt, slice(0, 1))))
                    if p < rank - 2:
                        idxs.append(("tensor", pre + (tt,) + (FULL,) * (rank - 3 - p) + (torch.zeros_like(tt), FULL)))  # batch tensor + row tensor
                        idxs.append(("tensor", pre + (tt,) + (FULL,) * (rank - 2 - p) + (torch.zeros_like(tt),)))  # batch tensor + col tensor
                        idxs.append(("tensor", pre + (tt,) + (0,) * (rank - 1 - p)))
                idxs.append(("tensor", pre + ([0, s_],)))  # python list
                idxs.append(("tensor", pre + ([-s_ - 1],)))
            # other index errors torch reports
            idxs += [("other", (0,) * (rank + 1)), ("other", (FULL,) * (rank + 1)), ("other", (Ellipsis,) + (FULL,) * (rank + 1)),
                     ("other", (Ellipsis, 0, Ellipsis)), ("other", (Ellipsis, torch.tensor([0, 0]), torch.tensor([0, 0, 0]))),
                     ("other", (torch.tensor([0, 0]),) + (FULL,) * (rank - 2) + (torch.tensor([0, 0, 0]),))]
            seen = set()
            for kind, ix in idxs:
                key = fmt_index(ix)
                if key in seen:
                    continue
                seen.add(key)
                try:
                    dense[ix]
                except Exception as te:  # noqa
                    terr = f"{type(te).__name__}: {str(te)[:100]}"
                else:
                    stats["torch_accepts_skipped"] += 1
                    continue
                if kind == "tensor":
                    tup_ = ix if isinstance(ix, tuple) else (ix,)
                    nt = sum(1 for a in tup_ if isinstance(a, list) or (torch.is_tensor(a) and a.dim() >= 1))
                    kind = "tensor_absorbed" if nt >= 2 else "tensor_single"
                for dbg in (True, False):
                    stats["required_raises"] += 1
                    lab = f"{label}|dbg={int(dbg)}|ix={key}"
                    with settings.debug(dbg):
                        try:
                            r = op[ix]
                        except Exception:  # noqa
                            rec.check(f"index_{kind}:debug_{'on' if dbg else 'off'}/{c.name}", lab, True)
                            continue
                    rec.check(f"index_{kind}:debug_{'on' if dbg else 'off'}/{c.name}", lab, False, f"returned {describe(r)} where torch raises {terr}")
    return {"obligations": rec.obligations(), "stats": stats}


def rtc_units(tier):
    from contracts.rtc_C03 import EXTRA_NAMES
    from contracts.zoo_names import CASE_NAMES
    names = list(CASE_NAMES) + EXTRA_NAMES
    nunits = 16 if tier == "quick" else 26
    buckets = [[] for _ in range(nunits)]
    for i, nm in enumerate(names):
        buckets[i % nunits].append(nm)
    return [Unit(f"C19/rtc/shapes[{','.join(b)}]", "contracts.rtc_C19", "rtc_shapes", (b, tier), engine="rtc", timeout_s=1500) for b in buckets if b]


RTC_META = {
    "explanation": "bounded run-time contract: whenever torch rejects f(D(op), X) / D(op)[ix] on the dense oracle, f(op, X) / op[ix] must raise "
                   "(any exception type); returning a tensor or a lazily built operator is a violation; square-only operations must raise on "
                   "rectangular operators (diagonal() may also return torch's rectangular diagonal)",
    "assumptions": ["torch's verdict on the dense oracle defines which operands are invalid (operands torch accepts are skipped)",
                    "shape operations run with the default settings.debug (on); indices with debug on and off",
                    "add_diagonal oracle: diagonal(D) + d must broadcast; inv_quad oracle: sum(R * solve(D, R))"],
    "families": "52 zoo cases + 31 extra nested / broadcasting cases x float64 x batch {(),(2,),(1,),(2,3)} x n {1,2,4} (+ float32 (2,) n=3; thorough: 6 batch "
                "shapes x n {1,2,3,4,6} + float32) x operations {matmul/@/torch.matmul with tensor and operator rhs, rmatmul, +, -, * (both operand "
                "orders, tensor / DenseLinearOperator / same-class operator of another size or batch), cat (3 dims), expand, add_diagonal, solve, "
                "torch.linalg.solve, solve with left factor, inv_quad, inv_quad_logdet, 18 square-only operations on rectangular operators} x "
                "operand shapes {inner dim +1/+2/-1, size-1 inner dim, 0-d, 1-d, extra batch dim, transposed, non-broadcastable batch shapes}; "
                "indices: ints / 0-d tensors {size, size+3, -size-1, -size-7}, 1-d / rank-2 tensors and lists with one out-of-range entry, in every "
                "position, alone / behind Ellipsis / combined with int, slice and tensor indices (absorbed case), too many indices, two ellipses, "
                "non-broadcastable tensor indices, debug on and off",
}
