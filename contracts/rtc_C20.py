"""C20 bounded tier — utility kernels (utils/{toeplitz,interpolation,sparse,permutation,qr,pinverse,broadcasting}.py,
linear_operator.dsmm / functions/_dsmm.py) against dense definitions written here.

Every oracle below is built from the *arguments* with plain dense torch (index loops / scatter / matmul);
nothing calls the function under test to build its own expectation."""
from __future__ import annotations

from engine.common import Unit

PID = "C20"


# ------------------------------------------------------------------------------------------
# helpers (torch imported lazily: the driver must stay torch-free)

def _setup():
    import os
    import warnings

    import torch

    torch.set_num_threads(1)
    warnings.simplefilter("ignore")
    from contracts import zoo  # noqa: F401  (puts VERIF_REPO first on sys.path and asserts it)
    from contracts.rtc_common import Recorder

    seed = int(os.environ.get("VERIF_SEED", "0") or 0)
    return torch, zoo, Recorder(PID), seed


def _dts(torch):
    return [(torch.float32, "f32"), (torch.float64, "f64")]


def _teq(torch, a, b):
    """torch.equal that answers False for a result that could not be densified (see _sdense)"""
    return torch.is_tensor(a) and torch.equal(a, b)


def _close(zoo, a, b, scale=1.0):
    if isinstance(a, str):
        return False
    return a.shape == b.shape and zoo.close(a, b, dt=a.dtype if a.dtype.is_floating_point else None, scale=scale)


def _sdense(res):
    """densify a sparse COO result of a function under test -- after checking its invariants by hand (torch does not, and an
    out-of-range index makes to_dense() read/write out of bounds: the worker would die instead of reporting a failure)"""
    if not res.is_sparse:
        return res
    idx, val = res._indices(), res._values()
    if idx.dim() != 2 or idx.shape[0] != res.sparse_dim() or idx.shape[1] != val.shape[0]:
        return f"malformed sparse tensor: indices {tuple(idx.shape)} values {tuple(val.shape)} size {tuple(res.shape)}"
    for d in range(idx.shape[0]):
        if idx.shape[1] and (int(idx[d].min()) < 0 or int(idx[d].max()) >= res.shape[d]):
            return f"sparse index out of range in dim {d}: [{int(idx[d].min())}, {int(idx[d].max())}] for size {res.shape[d]}"
    return res.to_dense()


def _toep_dense(torch, c, r):
    """T[..., i, j] = c[..., i-j] if i >= j else r[..., j-i]   (batched over leading dims)"""
    n = c.shape[-1]
    i = torch.arange(n)
    d = i[:, None] - i[None, :]
    return torch.where(d >= 0, c[..., d.clamp(min=0)], r[..., (-d).clamp(min=0)])


# ------------------------------------------------------------------------------------------
# unit: Toeplitz kernels

def _body_toeplitz(torch, zoo, rec, seed, tier):
    from linear_operator.utils import toeplitz as T

    sizes = [1, 2, 3, 5] if tier == "quick" else [1, 2, 3, 4, 5, 8, 13]
    seeds = [seed] if tier == "quick" else [seed, seed + 1, seed + 2]
    for dt, dn in _dts(torch):
        for n in sizes:
            for sd in seeds:
                g = zoo.gen(1000 + 17 * n + sd)
                c, r = zoo.rn(g, n, dtype=dt), zoo.rn(g, n, dtype=dt)
                r[0] = c[0]
                lab = f"{dn}|n={n}|s={sd}"
                D = _toep_dense(torch, c, r)
                # construction
                ok, res = rec.guard("toeplitz/construct", lab, lambda: T.toeplitz(c, r))
                if ok:
                    rec.check("toeplitz/construct", lab, res.shape == (n, n) and res.dtype == dt and torch.equal(res, D), "toeplitz(c, r) != [c_{i-j} | r_{j-i}]")
                ok, res = rec.guard("sym_toeplitz/construct", lab, lambda: T.sym_toeplitz(c))
                if ok:
                    rec.check("sym_toeplitz/construct", lab, res.shape == (n, n) and res.dtype == dt and torch.equal(res, _toep_dense(torch, c, c)), "sym_toeplitz(c) != c_{|i-j|}")
                # entry lookup (all entries)
                good, gsym = True, True
                det = ""
                for i in range(n):
                    for j in range(n):
                        try:
                            v = T.toeplitz_getitem(c, r, i, j)
                            if not bool(v == D[i, j]):
                                good, det = False, f"[{i},{j}] {float(v)} vs {float(D[i, j])}"
                            v = T.sym_toeplitz_getitem(c, i, j)
                            if not bool(v == c[abs(i - j)]):
                                gsym, det = False, f"sym [{i},{j}]"
                        except Exception as e:  # noqa
                            good, det = False, f"[{i},{j}] raised {e!r}"
                rec.check("toeplitz_getitem/entries", lab, good, det)
                rec.check("sym_toeplitz_getitem/entries", lab, gsym, det)

    # products: (column batch shape, rhs shape builder) -- broadcasting in both directions
    def fam(n, p):
        return [
            ("c()|X(n,p)", (), (n, p)),
            ("c(2)|X(2,n,p)", (2,), (2, n, p)),
            ("c(2)|X(n,p)", (2,), (n, p)),
            ("c()|X(3,n,p)", (), (3, n, p)),
            ("c(1)|X(3,n,p)", (1,), (3, n, p)),
            ("c(3)|X(1,n,p)", (3,), (1, n, p)),
            ("c(2,3)|X(2,3,n,p)", (2, 3), (2, 3, n, p)),
            ("c(2,1)|X(1,3,n,p)", (2, 1), (1, 3, n, p)),
            ("c(3)|X(2,1,n,p)", (3,), (2, 1, n, p)),
            ("c(2,1)|X(3,n,p)", (2, 1), (3, n, p)),
        ]

    for dt, dn in _dts(torch):
        for n in sizes:
            for p in ([1, 3] if tier == "quick" else [1, 2, 4]):
                for fl, cb, xs in fam(n, p):
                    g = zoo.gen(2000 + 31 * n + 7 * p + len(fl) + seed)
                    c, r = zoo.rn(g, *cb, n, dtype=dt), zoo.rn(g, *cb, n, dtype=dt)
                    r[..., 0] = c[..., 0]
                    X = zoo.rn(g, *xs, dtype=dt)
                    lab = f"{dn}|n={n}|p={p}|{fl}"
                    exp = _toep_dense(torch, c, r) @ X
                    ok, res = rec.guard("toeplitz_matmul/matrix_rhs", lab, lambda: T.toeplitz_matmul(c, r, X))
                    if ok:
                        rec.check("toeplitz_matmul/matrix_rhs", lab, res.dtype == dt and _close(zoo, res, exp, scale=4 * n),
                                  f"shape {tuple(res.shape)} vs {tuple(exp.shape)}; maxdiff {float((res - exp).abs().max()) if res.shape == exp.shape else 'n/a'}")
                    exps = _toep_dense(torch, c, c) @ X
                    ok, res = rec.guard("sym_toeplitz_matmul/matrix_rhs", lab, lambda: T.sym_toeplitz_matmul(c, X))
                    if ok:
                        rec.check("sym_toeplitz_matmul/matrix_rhs", lab, res.dtype == dt and _close(zoo, res, exps, scale=4 * n), "sym T X differs")
            # vector right-hand side (the docstrings say "Matrix or vector to multiply the Toeplitz matrix with")
            for fl, cb in (("c()|x(n)", ()), ("c(2)|x(n)", (2,)), ("c(2,3)|x(n)", (2, 3))):
                g = zoo.gen(2500 + 31 * n + len(fl) + seed)
                c, r = zoo.rn(g, *cb, n, dtype=dt), zoo.rn(g, *cb, n, dtype=dt)
                r[..., 0] = c[..., 0]
                x = zoo.rn(g, n, dtype=dt)
                lab = f"{dn}|n={n}|{fl}"
                exp = _toep_dense(torch, c, r) @ x
                ok, res = rec.guard("toeplitz_matmul/vector_rhs", lab, lambda: T.toeplitz_matmul(c, r, x))
                if ok:
                    rec.check("toeplitz_matmul/vector_rhs", lab, _close(zoo, res, exp, scale=4 * n), f"shape {tuple(res.shape)} vs {tuple(exp.shape)}")
                exps = _toep_dense(torch, c, c) @ x
                ok, res = rec.guard("sym_toeplitz_matmul/vector_rhs", lab, lambda: T.sym_toeplitz_matmul(c, x))
                if ok:
                    rec.check("sym_toeplitz_matmul/vector_rhs", lab, _close(zoo, res, exps, scale=4 * n), f"shape {tuple(res.shape)} vs {tuple(exps.shape)}")

    # derivative of the quadratic form: res[i] = sum_j u_j^T E_i v_j, E_i[a,b] = [|a-b| == i]
    # (layout of the vectors as used by ToeplitzLinearOperator._bilinear_derivative: (..., m, s))
    for dt, dn in _dts(torch):
        for m in sizes:
            for fl, sh in (("vec(m)", (m,)), ("mat(m,1)", (m, 1)), ("mat(m,3)", (m, 3)), ("batch(2,m,2)", (2, m, 2)), ("batch(2,1,m,3)", (2, 1, m, 3))):
                g = zoo.gen(3000 + 13 * m + len(fl) + seed)
                U, V = zoo.rn(g, *sh, dtype=dt), zoo.rn(g, *sh, dtype=dt)
                U2, V2 = (U.unsqueeze(-1), V.unsqueeze(-1)) if U.dim() == 1 else (U, V)
                a = torch.arange(m)
                E = ((a[:, None] - a[None, :]).abs()[None] == a[:, None, None]).to(dt)  # (m, m, m): E[i]
                # exp[..., i] = sum_s U[..., :, s]^T E_i V[..., :, s]
                exp = torch.einsum("...as,iab,...bs->...i", U2, E, V2)
                lab = f"{dn}|m={m}|{fl}"
                ok, res = rec.guard("sym_toeplitz_derivative_quadratic_form/dense_def", lab, lambda: T.sym_toeplitz_derivative_quadratic_form(U.clone(), V.clone()))
                if ok:
                    rec.check("sym_toeplitz_derivative_quadratic_form/dense_def", lab, res.dtype == dt and _close(zoo, res, exp, scale=8 * m * U2.shape[-1]),
                              f"shape {tuple(res.shape)} vs {tuple(exp.shape)}")
                # ... and equal to autograd through the dense symmetric Toeplitz matrix
                if U.dim() <= 2:
                    cc = zoo.rn(g, m, dtype=dt).requires_grad_(True)
                    q = (U2 * (_toep_dense(torch, cc, cc) @ V2)).sum()
                    (gr,) = torch.autograd.grad(q, cc)
                    if ok:
                        rec.check("sym_toeplitz_derivative_quadratic_form/autograd", lab, _close(zoo, res, gr, scale=8 * m * U2.shape[-1]), "differs from d/dc sum_j u_j^T T(c) v_j")
    return None


# ------------------------------------------------------------------------------------------
# unit: interpolation products

def _interp_cases(torch, zoo, tier, seed):
    """yield (label, idx, val, nbase) : index/value tensors of shape (*batch, rows, width), entries < nbase.
    Families: random, duplicate indices within a row, zero values, all rows pointing at one base point."""
    rows_l = [1, 3, 5] if tier == "quick" else [1, 2, 3, 5, 8]
    base_l = [1, 2, 4] if tier == "quick" else [1, 2, 3, 4, 7]
    width_l = [1, 2, 3] if tier == "quick" else [1, 2, 3, 4]
    batches = [(), (2,), (1,), (2, 3)] if tier == "quick" else [(), (2,), (1,), (2, 3), (1, 2), (3, 1, 2)]
    for dt, dn in _dts(torch):
        for rows in rows_l:
            for nb in base_l:
                for w in width_l:
                    for b in batches:
                        if tier == "quick" and len(b) == 2 and (rows == 5 or w == 3):
                            continue
                        for kind in ("rand", "dup", "zeros", "onept"):
                            if kind == "dup" and w == 1:
                                continue
                            if kind == "onept" and not (rows == 3 and w == 2):
                                continue
                            g = zoo.gen(4000 + rows * 131 + nb * 17 + w * 5 + len(b) * 3 + sum(b) + len(kind) + seed)
                            idx = torch.randint(0, nb, (*b, rows, w), generator=g)
                            val = zoo.rn(g, *b, rows, w, dtype=dt)
                            if kind == "dup":
                                idx[..., 1] = idx[..., 0]
                            elif kind == "zeros":
                                val[..., 0] = 0.0
                                if rows > 1:
                                    val[..., 0, :] = 0.0
                            elif kind == "onept":
                                idx[...] = nb - 1
                            yield f"{dn}|rows={rows}|base={nb}|w={w}|b={b}|{kind}", dt, idx, val, nb


def _body_interp(torch, zoo, rec, seed, tier):
    from linear_operator.utils import interpolation as I

    for lab0, dt, idx, val, nb in _interp_cases(torch, zoo, tier, seed):
        b = tuple(idx.shape[:-2])
        rows = idx.shape[-2]
        W = zoo.interp_matrix(idx, val, nb)  # (*b, rows, nb), duplicates accumulate
        g = zoo.gen(4500 + rows + nb + seed)
        idx0, val0 = idx.clone(), val.clone()
        # ---- W @ rhs
        rhss = {"vec": (nb,), "mat1": (nb, 1), "mat3": (nb, 3)}
        if b:
            rhss["batched"] = (*b, nb, 2)
            rhss["bcast1"] = (*[1] * len(b), nb, 2)
        rhss["extra_batch"] = (2, *b, nb, 2)
        for rk, sh in rhss.items():
            X = zoo.rn(g, *sh, dtype=dt)
            exp = W @ X
            lab = f"{lab0}|rhs={rk}"
            ok, res = rec.guard(f"left_interp/{rk}", lab, lambda: I.left_interp(idx, val, X))
            if ok:
                rec.check(f"left_interp/{rk}", lab, res.dtype == dt and _close(zoo, res, exp, scale=4), f"shape {tuple(res.shape)} vs {tuple(exp.shape)}")
        # ---- W^T @ rhs
        lhss = {"vec": (rows,), "mat1": (rows, 1), "mat3": (rows, 3)}
        if b:
            lhss["batched"] = (*b, rows, 2)
            lhss["bcast1"] = (*[1] * len(b), rows, 2)
        lhss["extra_batch"] = (2, *b, rows, 2)
        for rk, sh in lhss.items():
            if rk == "vec" and b:
                continue  # torch.matmul((*b, nb, rows), (rows,)) is defined, but left_t_interp documents nothing for it
            Y = zoo.rn(g, *sh, dtype=dt)
            exp = W.mT @ Y
            lab = f"{lab0}|rhs={rk}"
            ok, res = rec.guard(f"left_t_interp/{rk}", lab, lambda: I.left_t_interp(idx, val, Y, nb))
            if ok:
                rec.check(f"left_t_interp/{rk}", lab, res.dtype == dt and _close(zoo, res, exp, scale=4 * rows), f"shape {tuple(res.shape)} vs {tuple(exp.shape)}")
        rec.check("interp/args_intact", lab0, torch.equal(idx, idx0) and torch.equal(val, val0), "index/value tensors changed", nontrivial=False)
    return None


# ------------------------------------------------------------------------------------------
# unit: sparse construction / conversion / indexing / repetition

def _body_sparse(torch, zoo, rec, seed, tier):
    import math

    from linear_operator.utils import sparse as S

    # make_sparse_from_indices_and_values: result (*b, num_rows, n_targets), M[idx[c,k], c] += val[c,k]
    for lab0, dt, idx, val, nb in _interp_cases(torch, zoo, tier, seed + 1):
        exp = zoo.interp_matrix(idx, val, nb).mT
        ok, res = rec.guard("make_sparse_from_indices_and_values/dense_def", lab0, lambda: S.make_sparse_from_indices_and_values(idx.clone(), val.clone(), nb))
        if ok:
            rec.check("make_sparse_from_indices_and_values/dense_def", lab0,
                      res.is_sparse and tuple(res.shape) == tuple(exp.shape) and res.dtype == dt and _close(zoo, _sdense(res), exp, scale=4),
                      f"shape {tuple(res.shape)} vs {tuple(exp.shape)} dtype {res.dtype}")
    for dt, dn in _dts(torch):  # all values zero (empty sparse tensor branch)
        for b in [(), (2,), (2, 3)]:
            idx = torch.zeros(*b, 3, 2, dtype=torch.long)
            val = torch.zeros(*b, 3, 2, dtype=dt)
            lab = f"{dn}|b={b}|allzero"
            ok, res = rec.guard("make_sparse_from_indices_and_values/all_zero", lab, lambda: S.make_sparse_from_indices_and_values(idx, val, 4))
            if ok:
                rec.check("make_sparse_from_indices_and_values/all_zero", lab, tuple(res.shape) == (*b, 4, 3) and res.dtype == dt and _teq(torch, _sdense(res), torch.zeros(*b, 4, 3, dtype=dt)), "not the zero matrix")

    # sparse_eye
    for n in [1, 2, 5]:
        ok, res = rec.guard("sparse_eye/dense_def", f"n={n}", lambda: S.sparse_eye(n))
        if ok:
            rec.check("sparse_eye/dense_def", f"n={n}", res.is_sparse and _teq(torch, _sdense(res), torch.eye(n)), "not I")

    # to_sparse
    shapes = [(1,), (4,), (1, 1), (3, 4), (2, 3, 4), (2, 1, 3, 2)]
    for dt, dn in _dts(torch):
        for sh in shapes:
            for kind in ("rand", "allzero", "onenz", "full"):
                g = zoo.gen(5000 + sum(sh) * 7 + len(sh) + len(kind) + seed)
                d = zoo.rn(g, *sh, dtype=dt)
                if kind == "rand":
                    d = d * (torch.rand(*sh, generator=g) > 0.5)
                elif kind == "allzero":
                    d = d * 0
                elif kind == "onenz":
                    m = torch.zeros(d.numel())
                    m[int(torch.randint(0, d.numel(), (1,), generator=g))] = 1
                    d = d * m.reshape(sh)
                lab = f"{dn}|shape={sh}|{kind}"
                ok, res = rec.guard("to_sparse/roundtrip", lab, lambda: S.to_sparse(d.clone()))
                if ok:
                    rec.check("to_sparse/roundtrip", lab, res.is_sparse and tuple(res.shape) == tuple(d.shape) and res.dtype == dt and _teq(torch, _sdense(res), d), "to_sparse(d).to_dense() != d")

    # sparse_getitem (1-d / 2-d sparse; ints, slices, combinations; empty results; empty sparse)
    def mk(d):
        return d.to_sparse()

    idx_1d = [(0,), (2,), (slice(None),), (slice(1, 3),), (slice(0, 1),), (slice(2, 2),), (slice(1, None),), (slice(None, -1),)]
    idx_2d = [(0,), (1,), (slice(None),), (slice(1, 2),), (0, 0), (1, 2), (0, slice(None)), (1, slice(1, 3)), (slice(None), 0), (slice(0, 1), 2),
              (slice(None), slice(None)), (slice(0, 1), slice(1, 3)), (slice(1, 2), slice(0, 1)), (slice(1, 1), slice(None)), (slice(None), slice(-2, None))]
    neg_1d = [(-1,), (-3,)]
    neg_2d = [(-1,), (0, -1), (-2, slice(None)), (slice(None), -1)]
    for dt, dn in _dts(torch):
        for kind in ("rand", "dense", "allzero", "zero_row", "zero_col"):
            for nd, sh, idxs, negs in ((1, (4,), idx_1d, neg_1d), (2, (2, 4), idx_2d, neg_2d), (2, (3, 3), idx_2d, neg_2d)):
                g = zoo.gen(5500 + sum(sh) + len(kind) + seed)
                d = zoo.rn(g, *sh, dtype=dt)
                if kind == "rand":
                    d = d * (torch.rand(*sh, generator=g) > 0.4)
                elif kind == "allzero":
                    d = d * 0
                elif kind == "zero_row":
                    d[0] = 0
                elif kind == "zero_col":
                    d[..., 0] = 0
                for fam_, il in (("int_slice", idxs), ("negative_int", negs)):
                    for ix in il:
                        lab = f"{dn}|shape={sh}|{kind}|idx={ix}"
                        exp = d[ix]
                        if fam_ == "negative_int" and not bool((exp != 0).any()):
                            continue  # (an all-zero answer cannot tell a right lookup from an empty one)
                        zero_len = any(isinstance(i_, slice) and len(range(*i_.indices(sh[k_]))) == 0 for k_, i_ in enumerate(ix))
                        grp = f"sparse_getitem/{nd}d_{'zero_length_slice' if zero_len else fam_}"
                        ok, res = rec.guard(grp, lab, lambda: S.sparse_getitem(mk(d), ix if len(ix) > 1 else ix[0]))
                        if ok:
                            ok, rd = rec.guard(grp, lab + "|densify", lambda: _sdense(res) if torch.is_tensor(res) and res.is_sparse else torch.as_tensor(res, dtype=dt))
                        if ok and isinstance(rd, str):
                            rec.check(grp, lab, False, f"result is not a valid sparse tensor: {rd}")
                        elif ok:
                            rec.check(grp, lab, tuple(rd.shape) == tuple(exp.shape) and torch.equal(rd.to(dt), exp), f"got {rd.tolist()} expected {exp.tolist()}")

    # sparse_getitem on sparse tensors that store a coordinate more than once (uncoalesced COO: the dense definition is the SUM of
    # the stored entries; this is what make_sparse_from_indices_and_values returns for duplicate interpolation indices).
    # Values are small dyadic rationals, so every sum is exact in float32/float64 and the comparison can be exact.
    def dyadic(g, *sh, dt):
        v = torch.randint(1, 17, sh, generator=g).to(dt) / 4
        return v * (torch.randint(0, 2, sh, generator=g) * 2 - 1).to(dt)

    def all_indices(sh):
        """every int / slice / mixed index of a 1-d or 2-d shape, by family"""
        def ints(n):
            return list(range(n)) + [-1, -n]

        def slices(n):
            return [slice(None), slice(0, 1), slice(1, n), slice(n - 1, n), slice(None, -1)] if n > 1 else [slice(None), slice(0, 1)]
        if len(sh) == 1:
            return [("all_int", (i,)) for i in ints(sh[0])] + [("slice", (s,)) for s in slices(sh[0])]
        out = [("all_int", (i, j)) for i in ints(sh[0]) for j in ints(sh[1])]
        out += [("partial_int", (i,)) for i in ints(sh[0])]
        out += [("slice", (s,)) for s in slices(sh[0])] + [("slice", (s, t)) for s in slices(sh[0]) for t in slices(sh[1])]
        out += [("mixed", (i, t)) for i in ints(sh[0]) for t in slices(sh[1])] + [("mixed", (s, j)) for s in slices(sh[0]) for j in ints(sh[1])]
        return out

    def getitem_vs_dense(src, lab0, make, exp_dense, dt):
        sh = tuple(exp_dense.shape)
        seen = set()
        for fam_, ix in all_indices(sh):
            if (fam_, repr(ix)) in seen:
                continue
            seen.add((fam_, repr(ix)))
            grp = f"sparse_getitem/{src}_{len(sh)}d_{fam_}"
            lab = f"{lab0}|idx={ix}"
            exp = exp_dense[ix]
            ok, res = rec.guard(grp, lab, lambda: S.sparse_getitem(make(), ix if len(ix) > 1 else ix[0]))
            if ok:
                ok, rd = rec.guard(grp, lab + "|densify", lambda: _sdense(res) if torch.is_tensor(res) and res.is_sparse else torch.as_tensor(res, dtype=dt))
            if ok and isinstance(rd, str):
                rec.check(grp, lab, False, f"result is not a valid sparse tensor: {rd}")
            elif ok:
                rec.check(grp, lab, tuple(rd.shape) == tuple(exp.shape) and torch.equal(rd.to(dt), exp), f"got {rd.tolist()} expected {exp.tolist()}")

    hand = [  # (name, size, coordinates (one row per dim), note)
        ("1d_dup", (5,), [[1, 3, 1, 4, 3, 3]]),
        ("1d_all_same", (3,), [[2, 2, 2, 2]]),
        ("1d_size1", (1,), [[0, 0]]),
        ("2d_dup", (4, 3), [[0, 1, 1, 3, 1, 3, 2], [2, 0, 0, 1, 0, 1, 2]]),
        ("2d_dup_apart", (3, 4), [[2, 0, 1, 2, 0, 2], [3, 1, 1, 3, 1, 0]]),
        ("2d_row_col_1", (1, 3), [[0, 0, 0, 0], [1, 2, 1, 1]]),
        ("2d_1x1", (1, 1), [[0, 0, 0], [0, 0, 0]]),
    ]
    for dt, dn in _dts(torch):
        for name, sh, coords in hand:
            g = zoo.gen(5700 + sum(sh) + len(coords[0]) + seed)
            ci = torch.tensor(coords, dtype=torch.long)
            for vk in ("dyadic", "cancel_first_pair", "stored_zero_first"):
                v = dyadic(g, ci.shape[1], dt=dt)
                if vk == "cancel_first_pair":  # two stored entries of one coordinate that sum to zero
                    dup = [k for k in range(1, ci.shape[1]) if bool((ci[:, k] == ci[:, 0]).all())]
                    if not dup:
                        continue
                    v[dup[0]] = -v[0]
                elif vk == "stored_zero_first":  # an explicitly stored zero in front of the other entries of its coordinate
                    v[0] = 0
                exp = torch.zeros(*sh, dtype=dt).index_put_(tuple(ci), v, accumulate=True)
                getitem_vs_dense("uncoalesced", f"{dn}|{name}|shape={sh}|{vk}", lambda: torch.sparse_coo_tensor(ci.clone(), v.clone(), sh), exp, dt)
        for sh in [(4,), (2, 4), (3, 3)]:  # seeded random coordinates, about two stored entries per position
            g = zoo.gen(5800 + sum(sh) * 3 + len(sh) + seed)
            nnz = 2 * math.prod(sh)
            ci = torch.stack([torch.randint(0, s_, (nnz,), generator=g) for s_ in sh])
            v = dyadic(g, nnz, dt=dt)
            exp = torch.zeros(*sh, dtype=dt).index_put_(tuple(ci), v, accumulate=True)
            getitem_vs_dense("uncoalesced", f"{dn}|random|shape={sh}|nnz={nnz}", lambda: torch.sparse_coo_tensor(ci.clone(), v.clone(), sh), exp, dt)
        # W^T built by make_sparse_from_indices_and_values from interpolation indices with duplicates inside a row
        for name, nb, ii in [("dup_in_row", 6, [[2, 2, 3], [0, 1, 1], [4, 4, 4], [5, 0, 5]]), ("single_base_point", 1, [[0, 0], [0, 0], [0, 0]]),
                             ("one_target", 3, [[1, 1, 1, 2]]), ("random", 4, None)]:
            g = zoo.gen(5900 + nb + seed)
            ii = torch.tensor(ii, dtype=torch.long) if ii is not None else torch.randint(0, nb, (5, 3), generator=g)
            vv = dyadic(g, *ii.shape, dt=dt)
            exp = zoo.interp_matrix(ii, vv, nb).mT.contiguous()
            getitem_vs_dense("interp_dupidx", f"{dn}|{name}|targets={ii.shape[0]}|width={ii.shape[1]}|base={nb}",
                             lambda: S.make_sparse_from_indices_and_values(ii.clone(), vv.clone(), nb), exp, dt)

    # sparse_repeat == dense.repeat
    rep_cases = [
        # (shape, repeats, family)
        ((1, 3), (2, 1), "size1_dims"), ((1, 1, 3), (2, 3, 1), "size1_dims"), ((1, 2, 3), (3, 1, 1), "size1_dims"), ((2, 3), (1, 1), "size1_dims"),
        ((2, 3), (4, 1, 1), "size1_dims"), ((1, 3), (2, 2, 1), "size1_dims"), ((3,), (2, 1), "size1_dims"),
        ((2, 3), (2, 1), "general"), ((2, 3), (1, 2), "general"), ((2, 3), (2, 2), "general"), ((3,), (2,), "single_int_count"), ((2, 2, 2), (1, 3, 1), "general"),
        ((2, 3), (2, 1, 2), "general"), ((1, 3), (2, 3), "general"),
    ]
    for dt, dn in _dts(torch):
        for sh, reps, fam_ in rep_cases:
            for kind in ("rand", "allzero"):
                g = zoo.gen(6000 + sum(sh) + sum(reps) + seed)
                d = zoo.rn(g, *sh, dtype=dt)
                d = d * (torch.rand(*sh, generator=g) > 0.3) if kind == "rand" else d * 0
                if kind == "rand" and not bool((d != 0).any()):
                    d.view(-1)[0] = 1.0
                exp = d.repeat(*reps)
                for how, call in (("varargs", lambda: S.sparse_repeat(mk(d), *reps)), ("tuple", lambda: S.sparse_repeat(mk(d), reps))):
                    if how == "tuple" and len(reps) == 1:
                        continue
                    lab = f"{dn}|shape={sh}|repeat={reps}|{kind}|{how}"
                    ok, res = rec.guard(f"sparse_repeat/{fam_}", lab, call)
                    if ok:
                        rec.check(f"sparse_repeat/{fam_}", lab, tuple(res.shape) == tuple(exp.shape) and _teq(torch, _sdense(res), exp), f"shape {tuple(res.shape)} vs {tuple(exp.shape)}; values differ from dense.repeat")
    return None


# ------------------------------------------------------------------------------------------
# unit: (batched, broadcasting) sparse @ dense and its gradient

def _body_dsmm(torch, zoo, rec, seed, tier):
    import linear_operator
    from linear_operator.utils import sparse as S

    mnp = [(1, 1, 1), (2, 3, 1), (3, 2, 4), (4, 4, 2)] if tier == "quick" else [(1, 1, 1), (2, 3, 1), (3, 2, 4), (4, 4, 2), (5, 1, 3), (1, 6, 2)]
    shapes = [
        # (sparse batch, dense batch)
        ((), ()), ((), (2,)), ((), (2, 3)), ((2,), (2,)), ((2,), ()), ((1,), (3,)), ((3,), (1,)), ((2, 3), (2, 3)), ((2, 1), (1, 3)), ((3,), (2, 1)),
        ((2, 1), (3,)), ((2, 3), ()), ((1, 1), (2, 3)),
    ]
    for dt, dn in _dts(torch):
        for m, n, p in mnp:
            for sb, db in shapes:
                for kind in ("rand", "empty", "dense", "member_empty"):
                    if kind == "member_empty" and not sb:
                        continue
                    g = zoo.gen(7000 + m * 31 + n * 7 + p + len(sb) * 3 + len(db) + sum(sb) + len(kind) + seed)
                    Sd = zoo.rn(g, *sb, m, n, dtype=dt)
                    if kind == "rand":
                        Sd = Sd * (torch.rand(*sb, m, n, generator=g) > 0.5)
                    elif kind == "empty":
                        Sd = Sd * 0
                    elif kind == "member_empty":
                        Sd[0] = 0
                    D = zoo.rn(g, *db, n, p, dtype=dt)
                    lab = f"{dn}|m={m},n={n},p={p}|sparse_b={sb}|dense_b={db}|{kind}"
                    exp = Sd @ D
                    for fn_name, fn in (("dsmm", linear_operator.dsmm), ("bdsmm", S.bdsmm)):
                        ok, res = rec.guard(f"{fn_name}/forward", lab, lambda: fn(Sd.to_sparse(), D.clone()))
                        if ok:
                            rec.check(f"{fn_name}/forward", lab, res.dtype == dt and _close(zoo, res, exp, scale=4 * n), f"shape {tuple(res.shape)} vs {tuple(exp.shape)}")
                    # gradient wrt the dense factor: sparse^T @ grad (summed over broadcast dims)
                    Dg = D.clone().requires_grad_(True)
                    Dr = D.clone().requires_grad_(True)
                    G = zoo.rn(g, *exp.shape, dtype=dt)

                    def run():
                        out = linear_operator.dsmm(Sd.to_sparse(), Dg)
                        out.backward(G)
                        return Dg.grad

                    (Sd @ Dr).backward(G)
                    ok, gr = rec.guard("dsmm/gradient", lab, run)
                    if ok:
                        rec.check("dsmm/gradient", lab, gr is not None and _close(zoo, gr, Dr.grad, scale=8 * m * max(1, exp.numel() // max(1, m * p))), "grad != sparse^T @ grad_output")
    return None


# ------------------------------------------------------------------------------------------
# unit: permutations

def _body_permutation(torch, zoo, rec, seed, tier):
    from linear_operator.operators import DenseLinearOperator, DiagLinearOperator, ToeplitzLinearOperator
    from linear_operator.utils import permutation as P

    def perms(g, b, n, k):
        """batch b of (partial) permutations: k distinct entries of range(n)"""
        import math
        cnt = math.prod(b) if b else 1
        p = torch.stack([torch.randperm(n, generator=g)[:k] for _ in range(cnt)])
        return p.reshape(*b, k)

    sizes = [1, 2, 4, 5] if tier == "quick" else [1, 2, 3, 4, 5, 7]
    combos = [
        # (matrix batch, left perm batch or None, right perm batch or None)
        ((), (), ()), ((), (), None), ((), None, ()), ((), None, None),
        ((2,), (2,), (2,)), ((2,), (), ()), ((2,), (2,), None), ((2,), None, (2,)), ((2,), (1,), (2,)),
        ((2, 3), (2, 3), (2, 3)), ((2, 3), (3,), (3,)), ((2, 3), (2, 1), (1, 3)), ((2, 3), (), (2, 3)), ((1,), (1,), ()),
        ((2, 3), (3,), None), ((3,), None, (3,)),
    ]
    for dt, dn in _dts(torch):
        for n in sizes:
            for mb, lb, rb in combos:
                for part in ("full", "partial", "single"):
                    kl = {"full": n, "partial": max(1, n - 1), "single": 1}[part]
                    kr = {"full": n, "partial": max(1, n // 2), "single": 1}[part]
                    if part != "full" and n == 1:
                        continue
                    g = zoo.gen(8000 + n * 37 + len(mb) * 5 + sum(mb) + (0 if lb is None else 1 + len(lb)) * 3 + (0 if rb is None else 2 + len(rb)) + len(part) + seed)
                    K = zoo.rn(g, *mb, n, n, dtype=dt)
                    lp = None if lb is None else perms(g, lb, n, kl)
                    rp = None if rb is None else perms(g, rb, n, kr)
                    li = torch.arange(n) if lp is None else lp
                    ri = torch.arange(n) if rp is None else rp
                    # dense definition: out[b, i, j] = K[b, li[b, i], ri[b, j]]
                    bs = torch.broadcast_shapes(tuple(mb), tuple(li.shape[:-1]), tuple(ri.shape[:-1]))
                    Kb = K.expand(*bs, n, n)
                    rows = torch.gather(Kb, -2, li.expand(*bs, li.shape[-1]).unsqueeze(-1).expand(*bs, li.shape[-1], n))
                    exp = torch.gather(rows, -1, ri.expand(*bs, ri.shape[-1]).unsqueeze(-2).expand(*bs, li.shape[-1], ri.shape[-1]))
                    lab = f"{dn}|n={n}|K_b={mb}|left_b={lb}|right_b={rb}|{part}"
                    for kind, mat in (("tensor", K), ("dense_op", DenseLinearOperator(K))):
                        grp = f"apply_permutation/{kind}"
                        ok, res = rec.guard(grp, lab, lambda: P.apply_permutation(mat, lp, rp))
                        if ok:
                            rec.check(grp, lab, torch.is_tensor(res) and res.dtype == dt and tuple(res.shape) == tuple(exp.shape) and torch.equal(res, exp),
                                      f"shape {tuple(res.shape)} vs {tuple(exp.shape)}")
            # structured operators as the matrix argument
            for mb in [(), (2,)]:
                g = zoo.gen(8500 + n + len(mb) + seed)
                dg = zoo.rn(g, *mb, n, dtype=dt)
                col = zoo.rn(g, *mb, n, dtype=dt)
                for kind, op, D in (("diag_op", DiagLinearOperator(dg), torch.diag_embed(dg)), ("toeplitz_op", ToeplitzLinearOperator(col), _toep_dense(torch, col, col))):
                    lp, rp = perms(g, mb, n, n), perms(g, mb, n, max(1, n - 1))
                    rows = torch.gather(D, -2, lp.unsqueeze(-1).expand(*mb, n, n))
                    exp = torch.gather(rows, -1, rp.unsqueeze(-2).expand(*mb, n, rp.shape[-1]))
                    lab = f"{dn}|n={n}|K_b={mb}"
                    ok, res = rec.guard(f"apply_permutation/{kind}", lab, lambda: P.apply_permutation(op, lp, rp))
                    if ok:
                        rec.check(f"apply_permutation/{kind}", lab, tuple(res.shape) == tuple(exp.shape) and _close(zoo, res, exp), f"shape {tuple(res.shape)} vs {tuple(exp.shape)}")
    # inverse_permutation
    for n in sizes + [9]:
        for b in [(), (1,), (3,), (2, 3)]:
            for s in range(2 if tier == "quick" else 6):
                g = zoo.gen(9000 + n * 11 + len(b) + s + seed)
                p = perms(g, b, n, n)
                p0 = p.clone()
                lab = f"n={n}|b={b}|s={s}"
                ok, inv = rec.guard("inverse_permutation/inverse", lab, lambda: P.inverse_permutation(p))
                if ok:
                    ar = torch.arange(n).expand(*b, n)
                    good = inv.shape == p.shape and inv.dtype == p.dtype and torch.equal(torch.gather(p, -1, inv), ar) and torch.equal(torch.gather(inv, -1, p), ar)
                    rec.check("inverse_permutation/inverse", lab, good and torch.equal(p, p0), "perm[inv] != arange or inv[perm] != arange")
                    # as matrices: applying perm then inverse restores K
                    K = zoo.rn(g, *b, n, n, dtype=torch.float64)
                    back = P.apply_permutation(P.apply_permutation(K, p, p), inv, inv)
                    rec.check("inverse_permutation/roundtrip", lab, torch.equal(back, K), "Pi^-1 (Pi K Pi^T) Pi^-T != K")
    return None


# ------------------------------------------------------------------------------------------
# unit: stable_qr / stable_pinverse / broadcasting helpers

def _body_qr_pinv(torch, zoo, rec, seed, tier):
    from linear_operator.utils import broadcasting as B
    from linear_operator.utils.pinverse import stable_pinverse
    from linear_operator.utils.qr import stable_qr

    mns = [(1, 1), (3, 3), (5, 2), (4, 1), (2, 5), (1, 4), (6, 6)] if tier == "quick" else [(1, 1), (2, 2), (3, 3), (5, 2), (4, 1), (2, 5), (1, 4), (6, 6), (9, 4), (4, 9)]
    batches = [(), (2,), (1,), (2, 3)]

    def make(g, b, m, n, dt, kind):
        A = zoo.rn(g, *b, m, n, dtype=torch.float64)
        k = min(m, n)
        if kind == "full":
            # prescribe singular values in [1, 10]
            U, _, Vh = torch.linalg.svd(A, full_matrices=False)
            A = (U * torch.linspace(1, 10, k, dtype=torch.float64)) @ Vh
        elif kind == "rank_def" and k > 1:
            # last column (tall/square) or last row (fat) is a combination of the others (exactly, up to rounding)
            if m >= n:
                A[..., :, -1] = A[..., :, :-1].sum(-1)
            else:
                A[..., -1, :] = A[..., :-1, :].sum(-2)
        elif kind == "rank_def":
            A = A * 0
        elif kind == "near_def" and k > 1:
            if m >= n:
                A[..., :, -1] = A[..., :, :-1].sum(-1) + 1e-9 * A[..., :, -1]
            else:
                A[..., -1, :] = A[..., :-1, :].sum(-2) + 1e-9 * A[..., -1, :]
        elif kind == "near_def":
            A = A * 1e-9
        elif kind == "zero_col":
            if m >= n:
                A[..., :, 0] = 0
            else:
                A[..., 0, :] = 0
        return A.to(dt)

    for dt, dn in _dts(torch):
        eps = 2e-4 if dt == torch.float32 else 1e-9
        for m, n in mns:
            shape_kind = "tall" if m > n else ("square" if m == n else "fat")
            for b in batches:
                for kind in ("full", "rank_def", "near_def", "zero_col"):
                    g = zoo.gen(10000 + m * 13 + n * 7 + len(b) + sum(b) + len(kind) + seed)
                    A = make(g, b, m, n, dt, kind)
                    A0 = A.clone()
                    lab = f"{dn}|{shape_kind} {m}x{n}|b={b}|{kind}"
                    k = min(m, n)
                    deficient = kind != "full"
                    grp = f"stable_qr/{shape_kind}_{'deficient' if deficient else 'full_rank'}"
                    ok, qr = rec.guard(grp, lab, lambda: stable_qr(A))
                    if ok:
                        Q, R = qr
                        I = torch.eye(k, dtype=dt).expand(*b, k, k)
                        shp = tuple(Q.shape) == (*b, m, k) and tuple(R.shape) == (*b, k, n) and Q.dtype == dt and R.dtype == dt
                        orth = shp and zoo.close(Q.mT @ Q, I, scale=8)
                        tri = shp and torch.equal(R, R.triu())
                        # Q R = A up to the 1e-6 jitter put on near-zero diagonal entries of R
                        recon = shp and bool(((Q @ R - A).abs().max() <= (1.5e-6 if deficient else 0.0) + eps * 8 * max(1.0, float(A.abs().max()))))
                        dmin = float(R.diagonal(dim1=-2, dim2=-1).abs().min()) if shp else 0.0
                        away = dmin >= 0.99e-6
                        fin = shp and bool(torch.isfinite(Q).all() and torch.isfinite(R).all())
                        rec.check(grp, lab, shp and orth and tri and recon and away and fin and torch.equal(A, A0),
                                  f"shapes ok={shp} Q^TQ=I {orth} R upper {tri} QR=A {recon} min|R_ii|={dmin:.2e} finite {fin}")
                    grp = f"stable_pinverse/{shape_kind}_{'deficient' if deficient else 'full_rank'}"
                    ok, Pm = rec.guard(grp, lab, lambda: stable_pinverse(A))
                    if ok:
                        shp = tuple(Pm.shape) == (*b, n, m) and Pm.dtype == dt
                        fin = shp and bool(torch.isfinite(Pm).all())
                        if not deficient:
                            ref = torch.linalg.pinv(A.to(torch.float64)).to(dt)
                            mp1 = shp and zoo.close(A @ Pm @ A, A, scale=64)
                            mp2 = shp and zoo.close(Pm @ A @ Pm, Pm, scale=64)
                            mp3 = shp and zoo.close((A @ Pm).mT, A @ Pm, scale=64)
                            mp4 = shp and zoo.close((Pm @ A).mT, Pm @ A, scale=64)
                            eq = shp and zoo.close(Pm, ref, scale=64)
                            rec.check(grp, lab, shp and fin and mp1 and mp2 and mp3 and mp4 and eq, f"shape {shp} finite {fin} MP1..4 {mp1, mp2, mp3, mp4} == pinv {eq}")
                        else:
                            # stabilised: finite, and A P A = A up to the 1e-6 jitter (|A P A - A| = |Q R R'^-1 J| = O(1e-6 * |A|))
                            a64, p64 = A.to(torch.float64), Pm.to(torch.float64)
                            resid = float((a64 @ p64 @ a64 - a64).abs().max()) if shp and fin else float("inf")
                            lim = 2e-5 * max(1.0, float(A.abs().max())) * max(m, n)
                            if dt == torch.float32:
                                lim = float("inf")  # cond(R') ~ |A| / 1e-6 exceeds 1/eps(float32): only finiteness can be demanded
                            rec.check(grp, lab, shp and fin and resid <= lim, f"shape {shp} finite {fin} |APA-A|={resid:.2e} lim {lim:.1e}")

    # _matmul_broadcast_shape == shape of torch.matmul; raises when torch.matmul raises
    a_shapes = [(2, 3), (1, 1), (4, 2, 3), (1, 2, 3), (2, 1, 2, 3), (5, 1, 4, 2, 3)]
    b_shapes = [(3,), (3, 1), (3, 4), (4, 3, 2), (1, 3, 2), (2, 4, 3, 2), (3, 1, 3, 2), (2,), (2, 3), (5, 3, 2), (3, 3, 3, 1), (1,), (1, 1), (7, 1, 5)]
    for sa in a_shapes:
        for sb in b_shapes:
            lab = f"a={sa}|b={sb}"
            try:
                exp = tuple(torch.matmul(torch.empty(sa, device="meta"), torch.empty(sb, device="meta")).shape)
            except RuntimeError:
                exp = None
            try:
                got = B._matmul_broadcast_shape(torch.Size(sa), torch.Size(sb))
                got = tuple(got)
                err = None
            except RuntimeError as e:
                got, err = None, e
            except Exception as e:  # noqa
                got, err = "other", e
            rec.check("_matmul_broadcast_shape/vs_torch", lab, got == exp, f"got {got} ({err!r}) expected {exp}")
    # custom error message is used
    try:
        B._matmul_broadcast_shape(torch.Size((2, 3)), torch.Size((4, 2)), error_msg="custom-msg")
        rec.check("_matmul_broadcast_shape/error_msg", "custom", False, "did not raise")
    except RuntimeError as e:
        rec.check("_matmul_broadcast_shape/error_msg", "custom", "custom-msg" in str(e), str(e))
    for sh in [(3,), (1,), (10, 5), (2, 1, 3)]:
        for nb in (0, 1, 2):
            for na in (0, 1, 3):
                x = torch.arange(float(torch.Size(sh).numel() or 1)).reshape(sh)
                ok, res = rec.guard("_pad_with_singletons/shape", f"{sh}|{nb}|{na}", lambda: B._pad_with_singletons(x, nb, na))
                if ok:
                    rec.check("_pad_with_singletons/shape", f"{sh}|{nb}|{na}", tuple(res.shape) == (*[1] * nb, *sh, *[1] * na) and torch.equal(res.reshape(sh), x), f"{tuple(res.shape)}")
    return None




class _RoundRec:
    """recorder view that tags the labels of the extra (re-seeded) rounds of the thorough tier"""

    def __init__(self, rec, rnd):
        self.rec, self.sfx = rec, (f"|round={rnd}" if rnd else "")

    def check(self, group, label, *a, **k):
        return self.rec.check(group, label + self.sfx, *a, **k)

    def guard(self, group, label, *a, **k):
        return self.rec.guard(group, label + self.sfx, *a, **k)


def _rounds(body, tier):
    """quick: one pass with the base seed; thorough: the thorough-size family re-drawn with 4 seeds"""
    torch, zoo, rec, seed = _setup()
    for rnd in range(1 if tier == "quick" else 4):
        body(torch, zoo, _RoundRec(rec, rnd), seed + 1009 * rnd, tier)
    return rec.obligations()


def rtc_toeplitz(tier):
    return _rounds(_body_toeplitz, tier)


def rtc_interp(tier):
    return _rounds(_body_interp, tier)


def rtc_sparse(tier):
    return _rounds(_body_sparse, tier)


def rtc_dsmm(tier):
    return _rounds(_body_dsmm, tier)


def rtc_permutation(tier):
    return _rounds(_body_permutation, tier)


def rtc_qr_pinv(tier):
    return _rounds(_body_qr_pinv, tier)

# ------------------------------------------------------------------------------------------

def rtc_units(tier):
    t = 900
    return [
        Unit("C20/rtc/toeplitz", "contracts.rtc_C20", "rtc_toeplitz", (tier,), engine="rtc", timeout_s=t),
        Unit("C20/rtc/interp", "contracts.rtc_C20", "rtc_interp", (tier,), engine="rtc", timeout_s=t),
        Unit("C20/rtc/sparse", "contracts.rtc_C20", "rtc_sparse", (tier,), engine="rtc", timeout_s=t),
        Unit("C20/rtc/dsmm", "contracts.rtc_C20", "rtc_dsmm", (tier,), engine="rtc", timeout_s=t),
        Unit("C20/rtc/permutation", "contracts.rtc_C20", "rtc_permutation", (tier,), engine="rtc", timeout_s=t),
        Unit("C20/rtc/qr_pinv_broadcasting", "contracts.rtc_C20", "rtc_qr_pinv", (tier,), engine="rtc", timeout_s=t),
    ]


RTC_META = {
    "explanation": "every public kernel of utils/{toeplitz,interpolation,sparse,permutation,qr,pinverse,broadcasting}.py and "
                   "linear_operator.dsmm / DSMM.backward is run on real torch and compared with a dense definition written in the contract "
                   "(index formula / scatter_add / gather / torch.matmul on the densified arguments / Moore-Penrose conditions)",
    "assumptions": [
        "sym_toeplitz_derivative_quadratic_form is checked in the (..., m, s) layout that ToeplitzLinearOperator._bilinear_derivative uses "
        "(its docstring says 's x m', which the code does not implement)",
        "stable_pinverse on (nearly) rank-deficient input is only required to be finite and to satisfy A P A = A up to the 1e-6 diagonal jitter",
    ],
    "families": "float32+float64; Toeplitz n in {1,2,3,5} (thorough up to 13), column batch () (2,) (1,) (3,) (2,3) (2,1) broadcasting both ways against "
                "matrix rhs with p in {1,3}, vector rhs; interpolation rows {1,3,5} x base {1,2,4} x width {1,2,3} x batch () (2,) (1,) (2,3) x "
                "{random, duplicate indices, zero values, single base point} x rhs {vector, n x 1, n x 3, batched, size-1 batch, extra batch}; "
                "sparse: construction incl. all-zero, to_sparse 1-4 d, sparse_getitem 1-d/2-d x {int, slice, int+slice, empty result, empty tensor, negative int}, "
                "sparse_getitem on uncoalesced tensors (7 hand-made coordinate lists with repeated coordinates x {dyadic values, a cancelling pair, a stored zero}, "
                "3 random ones with 2 entries per position, 4 make_sparse_from_indices_and_values results from duplicate interpolation indices) x every "
                "all-int / partial-int / slice / mixed index of the shape incl. negative ints, against the dense sum-of-entries definition, "
                "sparse_repeat (size-1 dims / general); dsmm forward+gradient for 13 (sparse batch, dense batch) broadcasting patterns x 4 sizes x "
                "{random, empty, dense, one empty member}; permutations full/partial/single x 16 batch patterns x tensor / operator matrix; "
                "stable_qr / stable_pinverse tall/square/fat x batch x {full rank, exactly deficient, nearly deficient, zero column}; "
                "_matmul_broadcast_shape on 6 x 14 shape pairs vs torch.matmul",
}
