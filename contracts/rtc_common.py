"""Run-time-contract (bounded) tier plumbing.  A Recorder collects contract evaluations on concrete
inputs of the real code under real torch and turns them into bounded obligations (never counted as
proved).  One obligation per *group* (operation x zoo case) so that known findings can be matched
narrowly; each failure keeps its input label."""
from __future__ import annotations

import traceback
from collections import OrderedDict

from engine.common import BOUNDED_FAIL, BOUNDED_PASS, ob


class Recorder:
    def __init__(self, pid: str):
        self.pid = pid
        self.groups: "OrderedDict[str, dict]" = OrderedDict()

    def _g(self, group):
        g = self.groups.get(group)
        if g is None:
            g = self.groups[group] = {"evals": 0, "distinct": set(), "fails": [], "sample": None}
        return g

    def check(self, group: str, label: str, ok: bool, detail: str = "", nontrivial: bool = True):
        """one contract evaluation.  group: '<operation>/<zoo case>'; label: the concrete input."""
        g = self._g(group)
        g["evals"] += 1
        if nontrivial:
            g["distinct"].add(label)
        if g["sample"] is None:
            g["sample"] = label
        if not ok and len(g["fails"]) < 8:
            g["fails"].append({"input": label, "detail": detail[:600]})
        elif not ok:
            g["fails"].append({"input": label})
        return ok

    def guard(self, group: str, label: str, fn, allowed=()):
        """evaluate fn(); an unexpected exception is a contract failure (internal error).  ``allowed``:
        exception types the property permits (e.g. NotImplementedError for declared-unsupported)."""
        try:
            return True, fn()
        except allowed:
            self.check(group, label, True, nontrivial=False)
            return False, None
        except Exception as e:  # noqa
            self.check(group, label, False, f"raised {type(e).__name__}: {e}"[:400] + " @ " + traceback.format_exc().strip().splitlines()[-3][:200])
            return False, None

    def obligations(self):
        out = []
        for group, g in self.groups.items():
            fails = g["fails"]
            out.append(ob(
                f"{self.pid}/rtc/{group}", BOUNDED_FAIL if fails else BOUNDED_PASS, engine="rtc",
                evaluations=g["evals"], distinct_nontrivial=len(g["distinct"]), sample=g["sample"],
                failures=[f["input"] for f in fails][:50],
                detail="; ".join(f"{f['input']}: {f.get('detail', '')}" for f in fails[:4]),
                native={"reproduced": bool(fails), "detail": "run-time contract evaluated on the real code under real torch"} if fails else None,
            ))
        return out
