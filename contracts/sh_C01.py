"""C01 / C19 (proved tier) — ``op.matmul(X)``, ``op @ X``, ``op._matmul``, ``op._t_matmul``, ``to_dense``,
``_transpose_nonbatch`` and ``_size`` of the real classes against the spec matrix D(op) (SHADOW):

  * raise-equivalence: the call raises  iff  torch.matmul(D, X) raises  (C19: never mis-computes a shape torch rejects)
  * shape = torch.matmul's broadcast shape, dtype = operator dtype
  * value: every entry equals (D X)[...] — entry function compared at a skolem index, sums handled by the
    congruence / single-support lemmas of engine/sym.py

for all sizes, all batch sizes and all entries, per signature (operator batch rank x rhs rank)."""
from __future__ import annotations

import z3

from engine import sym
from engine.common import DISCHARGED, REFUTED, UNKNOWN, Unit, conformance_unit, ob

PID = "C01"

# classes whose product is an algebraic composition of modelled kernels
KINDS = ["Dense", "Diag", "ConstantDiag", "Triangular", "Sum", "AddedDiag", "ConstantMul", "Matmul", "Root", "SumBatch"]
RHS = ["vec", "mat", "bmat", "bmat_extra"]


def _mk_rhs(kind, inner, bs, name="X"):
    from engine import symtensor as T
    from engine.symtensor import SymTensor

    p = sym.sym_int("p", 1)
    n2 = sym.sym_int("n_rhs", 1)  # unconstrained inner size: torch decides
    if kind == "vec":
        shape = (n2,)
    elif kind == "mat":
        shape = (n2, p)
    elif kind == "bmat":
        shape = tuple(sym.sym_int(f"Bx{j}", 1) for j in range(len(bs))) + (n2, p)
    else:
        shape = (sym.sym_int("Bextra", 1),) + tuple(sym.sym_int(f"Bx{j}", 1) for j in range(len(bs))) + (n2, p)
    return SymTensor.fresh(name, shape, T.float64)


def check_matmul(kind, br, rhs_kind, how):
    from contracts import sh_C03, spec
    from engine import symops as SO

    sh_C03._env()
    from linear_operator.operators import LinearOperator

    base = f"C01/{kind}.{how}/batchrank={br}/rhs={rhs_kind}"

    def thunk():
        c = sym.ctx()
        op = sh_C03.build(kind, br)
        Dm = spec.D(op)
        X = _mk_rhs(rhs_kind, Dm.shape[-1], Dm.shape[:-2])
        if how in ("_matmul", "_t_matmul") and X.dim() < 2:
            raise sym.AssumptionFailed()
        lhs = Dm if how != "_t_matmul" else SO.transpose(Dm, -1, -2)
        try:
            exp, ee = SO.matmul(lhs, X), None
        except RuntimeError as e:
            exp, ee = None, e
        if how in ("_matmul", "_t_matmul") and ee is not None:
            raise sym.AssumptionFailed()  # internal methods are only called with compatible operands (base contract)
        try:
            if how == "matmul":
                got = op.matmul(X)
            elif how == "@":
                got = op @ X
            elif how == "_matmul":
                got = op._matmul(X)
            else:
                got = op._t_matmul(X)
            ge = None
        except sym.Unsupported:
            raise
        except Exception as e:  # noqa
            got, ge = None, e
        if ee is not None:
            c.prove(f"C19/{kind}.{how}/batchrank={br}/rhs={rhs_kind}/raises-when-torch-raises", z3.BoolVal(ge is not None),
                    info=f"torch: {ee!r}; operator returned {getattr(got, 'shape', got)}")
            return "raise"
        c.prove(f"{base}/no-error-on-valid-operands", z3.BoolVal(ge is None), info=(repr(ge)[:300] + getattr(ge, "__shadow_tb__", "")) if ge is not None else None)
        if ge is not None:
            return "raise"
        gd = spec.D(got) if isinstance(got, LinearOperator) else got
        spec.same_tensor_goals(c, base, gd, exp)
        writes = [e for e in c.events if e[0] == "inplace" and str(e[1]["owner"]).startswith("caller")]
        c.prove(f"{base}/frame/caller-tensors-untouched", z3.BoolVal(not writes), kind="frame", info=[e[1] for e in writes][:3])
        return "return"

    paths = sym.explore(thunk, max_paths=256, timeout_ms=30000)
    return sh_C03._collect(paths, base, need=("return",), replay={"module": "contracts.sh_C01", "func": "replay", "args": [kind, how]})


def check_dense_T(kind, br):
    """to_dense() == D, _transpose_nonbatch() has spec D^T, _size() == shape(D)"""
    from contracts import sh_C03, spec
    from engine import symops as SO

    sh_C03._env()
    base = f"C01/{kind}.to_dense+transpose/batchrank={br}"

    def thunk():
        c = sym.ctx()
        op = sh_C03.build(kind, br)
        Dm = spec.D(op)
        c.prove(f"{base}/_size", z3.And(z3.BoolVal(len(op._size()) == len(Dm.shape)), *[sym.as_z3_int(a) == sym.as_z3_int(b) for a, b in zip(op._size(), Dm.shape)]))
        spec.same_tensor_goals(c, f"{base}/to_dense", op.to_dense(), Dm)
        t = op._transpose_nonbatch()
        spec.same_tensor_goals(c, f"{base}/_transpose_nonbatch", spec.D(t), SO.transpose(Dm, -1, -2))
        return "return"

    paths = sym.explore(thunk, max_paths=128, timeout_ms=30000)
    return sh_C03._collect(paths, base, need=("return",), replay={"module": "contracts.sh_C01", "func": "replay", "args": [kind, "to_dense"]})


def replay(kind, how):
    """native bounded search: the bounded C01 family restricted to the zoo cases of this class"""
    import importlib

    name = {"Dense": ["dense_rect", "dense_psd"], "Diag": ["diag"], "ConstantDiag": ["constdiag"], "Triangular": ["tri_lower", "tri_upper"], "Sum": ["sum"],
            "AddedDiag": ["addeddiag"], "ConstantMul": ["constmul"], "Matmul": ["matmul"], "Root": ["root"], "SumBatch": ["sumbatch"],
            "BatchRepeat": ["batchrepeat", "batchrepeat2"]}.get(kind)
    if not name:
        return {"reproduced": False, "detail": "no native family for this class"}
    m = importlib.import_module("contracts.C01")
    res = m.rtc_matmul(name, "quick")
    fails = [f"{o['name']}: {o.get('detail', '')[:300]}" for o in res if o["status"] == "bounded-fail"]
    return {"reproduced": bool(fails), "detail": "; ".join(fails[:4]) or "bounded native family passes"}


def shadow_units(tier):
    us = [conformance_unit(PID)]
    ranks = (0, 1) if tier == "quick" else (0, 1, 2)
    for kind in KINDS:
        for br in ranks:
            us.append(Unit(f"C01/shadow/to_dense+T/{kind}/br={br}", "contracts.sh_C01", "check_dense_T", (kind, br), engine="shadow", timeout_s=600))
            for rhs in RHS:
                for how in (("matmul", "_matmul", "_t_matmul") if tier == "quick" else ("matmul", "@", "_matmul", "_t_matmul")):
                    if how in ("_matmul", "_t_matmul") and rhs == "vec":
                        continue
                    us.append(Unit(f"C01/shadow/{how}/{kind}/br={br}/rhs={rhs}", "contracts.sh_C01", "check_matmul", (kind, br, rhs, how), engine="shadow", timeout_s=600))
    return us


SH_META = {
    "functions_under_contract": ["LinearOperator.matmul", "LinearOperator.__matmul__", "functions/_matmul.py::Matmul.forward", "utils/broadcasting.py::_matmul_broadcast_shape",
                                 "LinearOperatorRepresentationTree.__call__ (rebuild inside Matmul.forward)"]
    + [f"{k}LinearOperator.{m}" for k in KINDS for m in ("_matmul", "_t_matmul", "to_dense", "_transpose_nonbatch", "_size")],
    "trusted_base": ["z3/cvc5", "CPython", "symtorch kernel models (conformance-tested on every run)", "spec table contracts/spec.py",
                     "sum congruence / single-support lemmas (engine/sym.py): each lemma instance is itself discharged by the solver before use"],
    "assumptions": ["children are dense-backed (modularity)", "floats as reals", "autograd graph recording dropped (Function.apply runs forward)",
                    "signature-bounded: operator batch rank 0..1 (quick) / 0..2 (thorough), rhs rank 1..batch+3"],
}
