"""C02 (proved tier) — composition cells: for every ordered pair of classes (operands built by the REAL
constructors from symbolic tensors, independent symbolic batch sizes so that broadcasting is explored) and
for the scalar / batch / diagonal operations, the REAL dispatching code is executed and the spec matrix
of the result (computed from ITS constructor arguments by contracts/spec.py) is compared entry-wise with
the dense expression on the spec matrices of the operands — for all sizes and entries:

   D(a + b) = D(a) + D(b)   D(a - b)   D(a @ b) = D(a) D(b)   D(a * c)   D(a / c)   D(-a)
   D(a.add_diagonal(d))   D(a.add_jitter(e))   D(a.expand / unsqueeze / squeeze / transpose(batch))
   D(op + tensor), D(tensor + op)

including raise-equivalence with torch broadcasting (C19).  Multi-step programs and arbitrary nesting
follow by induction on program depth, because each cell is proved for operands that are only known
through their spec matrix (children are dense-backed: their own contracts are C01/C03)."""
from __future__ import annotations

import itertools

import z3

from engine import sym
from engine.common import DISCHARGED, REFUTED, UNKNOWN, Unit, conformance_unit, ob

PID = "C02"

KINDS = ["Dense", "Diag", "ConstantDiag", "Toeplitz", "Triangular", "TriangularUpper", "Kronecker2", "Sum", "AddedDiag", "ConstantMul", "Matmul", "Root",
         "LowRankRoot", "Identity", "Zero", "BlockDiag", "SumBatch", "CholLower", "PsdSum"]
SQUARE = {"Diag", "ConstantDiag", "Toeplitz", "Triangular", "TriangularUpper", "AddedDiag", "Root", "LowRankRoot", "Identity", "BlockDiag", "SumBatch", "CholLower", "PsdSum", "Kronecker2"}


def _build2(ka, kb, br, share_dims):
    """two operands with independent names; share_dims: same matrix size symbols (so that they are compatible)"""
    from contracts import sh_C03

    a = sh_C03.build(ka, br)
    # second operand: rename symbols by building inside a renaming scope
    b = _renamed(lambda: sh_C03.build(kb, br), "'")
    return a, b


class _Rename:
    active = None


def _renamed(fn, suffix):
    """build with every fresh symbol name suffixed (sym.sym_int / SymTensor.fresh are patched temporarily)"""
    from engine.symtensor import SymTensor

    o_int, o_fresh = sym.sym_int, SymTensor.fresh
    import contracts.sh_C03 as m

    def si(name, *a, **k):
        return o_int(name + suffix, *a, **k)

    def fr(name, *a, **k):
        return o_fresh(name + suffix, *a, **k)

    sym.sym_int, SymTensor.fresh = si, staticmethod(fr)
    try:
        return fn()
    finally:
        sym.sym_int, SymTensor.fresh = o_int, staticmethod(o_fresh)


def _dense_expr(op_name, Da, Db):
    from engine import symops as SO
    import engine.symtorch as ST

    if op_name == "+":
        return ST.add(Da, Db)
    if op_name == "-":
        return ST.sub(Da, Db)
    if op_name == "@":
        return SO.matmul(Da, Db)
    raise KeyError(op_name)


def check_binary(ka, kb, br, op_name, variant="compat"):
    """variant 'compat': matrix dimensions agree (for @: inner dimensions agree), batch sizes independent
    (broadcasting explored);  variant 'mismatch': a matrix dimension disagrees (neither side 1) — torch raises"""
    from contracts import sh_C03, spec
    from engine import symops as SO

    sh_C03._env()
    from linear_operator.operators import LinearOperator

    base = f"C02/{ka}{op_name}{kb}/batchrank={br}/{variant}"

    def thunk():
        c = sym.ctx()
        a, b = _build2(ka, kb, br, True)
        spec.install_repr_invariants(a)
        spec.install_repr_invariants(b)
        Da, Db = spec.D(a), spec.D(b)
        if op_name in "+-":
            same = sym.lift(z3.And(sym.as_z3_int(Da.shape[-1]) == sym.as_z3_int(Db.shape[-1]), sym.as_z3_int(Da.shape[-2]) == sym.as_z3_int(Db.shape[-2])))
            bad = sym.lift(z3.And(sym.as_z3_int(Da.shape[-1]) != sym.as_z3_int(Db.shape[-1]), sym.as_z3_int(Da.shape[-1]) != 1, sym.as_z3_int(Db.shape[-1]) != 1))
        else:
            same = sym.lift(sym.as_z3_int(Da.shape[-1]) == sym.as_z3_int(Db.shape[-2]))
            bad = sym.lift(sym.as_z3_int(Da.shape[-1]) != sym.as_z3_int(Db.shape[-2]))
        c.assume(same if variant == "compat" else bad)
        try:
            exp, ee = _dense_expr(op_name, Da, Db), None
        except RuntimeError as e:
            exp, ee = None, e
        try:
            got = (a + b) if op_name == "+" else (a - b) if op_name == "-" else (a @ b)
            ge = None
        except sym.Unsupported:
            raise
        except Exception as e:  # noqa
            got, ge = None, e
        if ee is not None:
            c.prove(f"C19/{ka}{op_name}{kb}/batchrank={br}/{variant}/raises-when-torch-raises", z3.BoolVal(ge is not None), info=f"torch: {ee!r}; library returned {type(got).__name__} {getattr(got, 'shape', '')}")
            return "raise"
        if isinstance(ge, NotImplementedError):
            return "unsupported-declared"  # an explicit not-supported error is permitted by the property
        c.prove(f"{base}/no-error-on-valid-operands", z3.BoolVal(ge is None), info=(repr(ge)[:300] + getattr(ge, "__shadow_tb__", "")[-800:]) if ge is not None else None)
        if ge is not None:
            return "raise"
        gd = spec.D(got) if isinstance(got, LinearOperator) else got
        spec.same_tensor_goals(c, base, gd, exp, dtype=False)
        spec.repr_invariant_goals(c, base, got)
        return "return"

    paths = sym.explore(thunk, max_paths=256, timeout_ms=30000)
    return sh_C03._collect(paths, base, need=(), replay={"module": "contracts.sh_C02", "func": "replay_binary", "args": [ka, kb, op_name]})


ZOO = {"Dense": "dense_psd", "Diag": "diag", "ConstantDiag": "constdiag", "Toeplitz": "toeplitz", "Triangular": "tri_lower", "TriangularUpper": "tri_upper",
       "Kronecker2": "kron2", "Sum": "sum", "AddedDiag": "addeddiag", "ConstantMul": "constmul", "Matmul": "nest_matmul_diag_dense", "Root": "root",
       "LowRankRoot": "lowrankroot", "Identity": "identity", "Zero": "zero_rect", "BlockDiag": "blockdiag", "SumBatch": "sumbatch", "CholLower": "chol_lower", "PsdSum": "psdsum"}


def replay_binary(ka, kb, op_name):
    import os
    import sys

    repo = os.environ.get("VERIF_REPO", "/repo")
    if repo not in sys.path:
        sys.path.insert(0, repo)
    import torch

    from contracts import zoo
    from linear_operator.operators import LinearOperator

    fails = []
    for ba, bb in (((), ()), ((2,), (2,)), ((2,), ()), ((), (2,)), ((1,), (2,)), ((2, 1), (3,))):
        for n in (2, 4):
            for dt in (torch.float64,):
                try:
                    a, da = zoo.BY_NAME[ZOO[ka]].build(zoo.gen(11), dt, ba, n)
                    b, db = zoo.BY_NAME[ZOO[kb]].build(zoo.gen(12), dt, bb, n)
                except Exception:
                    continue
                try:
                    exp, ee = (da + db if op_name == "+" else da - db if op_name == "-" else da @ db), None
                except Exception as e:  # noqa
                    exp, ee = None, e
                try:
                    got, ge = (a + b if op_name == "+" else a - b if op_name == "-" else a @ b), None
                    if isinstance(got, LinearOperator):
                        got = got.to_dense()
                except NotImplementedError:
                    continue
                except Exception as e:  # noqa
                    got, ge = None, e
                desc = f"{type(a).__name__}{tuple(da.shape)} {op_name} {type(b).__name__}{tuple(db.shape)}"
                if ee is not None and ge is None:
                    fails.append(f"{desc}: torch raises, library returned shape {tuple(got.shape)}")
                elif ee is None and ge is not None:
                    fails.append(f"{desc}: raised {ge!r}"[:300])
                elif ee is None and (got.shape != exp.shape or not zoo.close(got, exp, scale=n)):
                    fails.append(f"{desc}: result differs from the dense expression (shape {tuple(got.shape)} vs {tuple(exp.shape)})")
    return {"reproduced": bool(fails), "detail": "; ".join(fails[:3]) or "native family shows no deviation"}


UNARY = ["mul_pos", "mul_sym", "mul_tensor0d", "mul_batchconst", "div_sym", "neg", "add_diagonal_full", "add_diagonal_const", "add_diagonal_0d", "add_jitter",
         "expand", "unsqueeze0", "squeeze0", "add_tensor", "radd_tensor", "sub_tensor", "rsub_tensor", "transpose_mat", "mT", "sum_batch"]


def check_unary(kind, br, what):
    from contracts import sh_C03, spec
    from engine import symops as SO, symtensor as T
    from engine.symtensor import SymTensor
    import engine.symtorch as ST

    sh_C03._env()
    from linear_operator.operators import LinearOperator

    base = f"C02/{kind}.{what}/batchrank={br}"

    def thunk():
        c = sym.ctx()
        a = sh_C03.build(kind, br)
        spec.install_repr_invariants(a)
        Da = spec.D(a)
        sq = bool(Da.shape[-1] == Da.shape[-2]) if what.startswith("add_diag") or what == "add_jitter" else True
        F = Da.dtype

        def run():
            if what == "mul_pos":
                s = sym.SymReal("s")
                c.assume(s > 0)
                return (lambda: a * s), (lambda: ST.mul(Da, s))
            if what == "mul_sym":
                s = sym.SymReal("s")
                return (lambda: a * s), (lambda: ST.mul(Da, s))
            if what == "mul_tensor0d":
                t = SymTensor.fresh("s0", (), F)
                return (lambda: a * t), (lambda: ST.mul(Da, t))
            if what == "mul_batchconst":
                if br == 0:
                    raise sym.AssumptionFailed()
                t = SymTensor.fresh("sb", tuple(Da.shape[:-2]) + (1, 1), F)
                return (lambda: a * t), (lambda: ST.mul(Da, t))
            if what == "div_sym":
                s = sym.SymReal("s")
                c.assume(s != 0)
                return (lambda: a / s), (lambda: ST.div(Da, s))
            if what == "neg":
                return (lambda: -a if hasattr(type(a), "__neg__") else a * (-1)), (lambda: ST.neg(Da))
            if what == "add_diagonal_full":
                d = SymTensor.fresh("dg", tuple(Da.shape[:-1]), F)
                return (lambda: a.add_diagonal(d)), (lambda: ST.add(Da, ST.diag_embed(d)))
            if what == "add_diagonal_const":
                d = SymTensor.fresh("dg", (1,), F)
                return (lambda: a.add_diagonal(d)), (lambda: ST.add(Da, ST.diag_embed(SO.expand(d, Da.shape[-1]))))
            if what == "add_diagonal_0d":
                d = SymTensor.fresh("dg", (), F)
                return (lambda: a.add_diagonal(d)), (lambda: ST.add(Da, ST.diag_embed(SO.expand(d, Da.shape[-1]))))
            if what == "add_jitter":
                e = sym.SymReal("eps")
                return (lambda: a.add_jitter(e)), (lambda: ST.add(Da, ST.mul(SO.eye(Da.shape[-1], dtype=F), e)))
            if what == "expand":
                nb = sym.sym_int("Bnew", 1)
                tgt = (nb,) + tuple(Da.shape)
                return (lambda: a.expand(*tgt)), (lambda: SO.expand(Da, *tgt))
            if what == "unsqueeze0":
                return (lambda: a.unsqueeze(0)), (lambda: SO.unsqueeze(Da, 0))
            if what == "squeeze0":
                if br == 0:
                    raise sym.AssumptionFailed()
                c.assume(Da.shape[0] == 1)
                return (lambda: a.squeeze(0)), (lambda: SO.squeeze(Da, 0))
            if what in ("add_tensor", "radd_tensor", "sub_tensor", "rsub_tensor"):
                t = SymTensor.fresh("Tn", tuple(sym.sym_int(f"Bt{j}", 1) for j in range(br)) + tuple(Da.shape[-2:]), F)
                if what == "add_tensor":
                    return (lambda: a + t), (lambda: ST.add(Da, t))
                if what == "radd_tensor":
                    return (lambda: t + a), (lambda: ST.add(t, Da))
                if what == "sub_tensor":
                    return (lambda: a - t), (lambda: ST.sub(Da, t))
                return (lambda: t - a), (lambda: ST.sub(t, Da))
            if what == "transpose_mat":
                return (lambda: a.transpose(-1, -2)), (lambda: SO.transpose(Da, -1, -2))
            if what == "mT":
                return (lambda: a.mT), (lambda: SO.transpose(Da, -1, -2))
            if what == "sum_batch":
                if br == 0:
                    raise sym.AssumptionFailed()
                return (lambda: a.sum(0)), (lambda: SO.sum_(Da, dim=0))
            raise KeyError(what)

        if not sq:
            raise sym.AssumptionFailed()
        lib, dense = run()
        try:
            exp, ee = dense(), None
        except RuntimeError as e:
            exp, ee = None, e
        try:
            got, ge = lib(), None
        except (sym.Unsupported, sym.AssumptionFailed):
            raise
        except NotImplementedError:
            return "unsupported-declared"
        except Exception as e:  # noqa
            got, ge = None, e
        if ee is not None:
            c.prove(f"C19/{kind}.{what}/batchrank={br}/raises-when-torch-raises", z3.BoolVal(ge is not None), info=f"torch: {ee!r}; library returned {type(got).__name__} {getattr(got, 'shape', '')}")
            return "raise"
        c.prove(f"{base}/no-error", z3.BoolVal(ge is None), info=(repr(ge)[:300] + getattr(ge, "__shadow_tb__", "")[-900:]) if ge is not None else None)
        if ge is not None:
            return "raise"
        gd = spec.D(got) if isinstance(got, LinearOperator) else got
        spec.same_tensor_goals(c, base, gd, exp, dtype=False)
        spec.repr_invariant_goals(c, base, got)
        c.prove(f"{base}/dtype", z3.BoolVal(gd.dtype is Da.dtype or what in ("mul_tensor0d", "mul_batchconst", "add_diagonal_full", "add_diagonal_const", "add_diagonal_0d") and gd.dtype.kind == "f"), info=f"{gd.dtype} vs {Da.dtype}")
        return "return"

    paths = sym.explore(thunk, max_paths=256, timeout_ms=30000)
    return sh_C03._collect(paths, base, need=(), replay={"module": "contracts.sh_C02", "func": "replay_unary", "args": [kind, what]})


def replay_unary(kind, what):
    import importlib

    try:
        m = importlib.import_module("contracts.rtc_C02")
    except Exception as e:  # noqa
        return {"reproduced": False, "detail": f"no native family: {e!r}"}
    fails = []
    for u in m.rtc_units("quick"):
        if ZOO.get(kind, "?") not in u.name and "unary" not in u.name and "scalar" not in u.name and "diag" not in u.name and "batch" not in u.name:
            continue
        try:
            res = getattr(importlib.import_module(u.module), u.func)(*u.args)
        except Exception:  # noqa
            continue
        res = res if isinstance(res, list) else res.get("obligations", [])
        fails += [f"{o['name']}: {o.get('detail', '')[:200]}" for o in res if o["status"] == "bounded-fail" and ZOO.get(kind, "?") in o["name"]]
        if fails:
            break
    return {"reproduced": bool(fails), "detail": "; ".join(fails[:3]) or "bounded native family passes for this class"}


def check_many(items):
    out = []
    for it in items:
        if it[0] == "bin":
            out += check_binary(*it[1:])
            out += check_binary(*it[1:], variant="mismatch")
        else:
            out += check_unary(*it[1:])
    return out


def shadow_units(tier):
    import json
    import os

    us = [conformance_unit(PID)]
    cells = json.load(open(os.path.join(os.path.dirname(__file__), "sh_C02_cells.json")))["cells"]
    items = [tuple(c) for c in cells]
    if tier == "quick":
        # every unary cell, every + cell, and a deterministic third of the - / @ cells
        items = [it for i, it in enumerate(items) if it[0] == "un" or it[4] == "+" or i % 3 == 0]
    else:
        items = items + [(it[0], it[1], it[2], 0, it[4]) if it[0] == "bin" else (it[0], it[1], 0, it[3]) for it in items]
    chunk = max(1, len(items) // 64)
    for i in range(0, len(items), chunk):
        us.append(Unit(f"C02/shadow/cells[{i}:{i + chunk}]", "contracts.sh_C02", "check_many", ([list(x) for x in items[i:i + chunk]],), engine="shadow", timeout_s=1800))
    return us


SH_META = {
    "functions_under_contract": ["LinearOperator.__add__ / __sub__ / __radd__ / __rsub__ / add / sub and the overrides in Dense, Diag, ConstantDiag, Triangular, Kronecker, AddedDiag, LowRankRoot, Sum, Zero",
                                 "LinearOperator.mul / __mul__ / _mul_constant (+ overrides) / div / __truediv__", "LinearOperator.matmul with an operator operand, MatmulLinearOperator.__init__, Diag/Identity/Zero matmul overrides",
                                 "add_diagonal (+ overrides), add_jitter", "expand / _expand_batch (+ overrides), unsqueeze / _unsqueeze_batch, squeeze, transpose, mT, sum / _sum_batch"],
    "trusted_base": ["z3/cvc5", "CPython", "symtorch kernel models (conformance-tested)", "spec table contracts/spec.py", "sum normal form prover (engine/sumnf.py): every step is a solver query"],
    "assumptions": ["operands are built with dense-backed children", "floats as reals", "elementwise operator*operator, add_low_rank, cat_rows, prod (root-decomposition based) are bounded-tier only",
                    "class-pair table restricted to the classes with a spec matrix and a modelable constructor: " + ", ".join(KINDS)],
}
