"""C03 (proved tier) — index arithmetic of the real classes against the spec matrix D(op), for all sizes,
all index values and all entries (SHADOW, elem domain).

Part A  ``_get_indices`` of every class with element-wise index arithmetic: for 1-D index tensors of
        symbolic length with in-range entries,  result[t] == D[batch(t)..., row(t), col(t)].
Part B  ``_diagonal`` == D[..., i, i].
Part C  ``LinearOperator.__getitem__`` (index normalisation, int->slice+squeeze, ellipsis, result shape,
        debug-mode size check) on a dense-backed operator for every index-kind signature:
        op[index] == D[index] where the right-hand side is torch's indexing rule (symtorch model,
        conformance-tested against real torch), including "raises iff torch raises".
"""
from __future__ import annotations

import itertools

import z3

from engine import sym
from engine.common import DISCHARGED, REFUTED, UNKNOWN, Unit, conformance_unit, ob

PID = "C03"


def _env():
    from engine import shadow

    lo = shadow.install()
    return lo


def _collect(paths, base, replay=None, need=("return",)):
    out, kinds = [], {}
    for p in paths:
        kinds[p.outcome] = kinds.get(p.outcome, 0) + 1
        if p.outcome == "unsupported":
            out.append(ob(f"{base}/<unsupported>", UNKNOWN, reason=str(p.value)[:300]))
        for o in p.obligations:
            d = ob(o["name"], o["status"], by=o.get("by", "z3"), kind=o.get("kind"), info=o.get("info"), solver_s=p.solver_s / max(1, len(p.obligations)))
            if o["status"] != DISCHARGED:
                d.update(model=o.get("model"), smt2=o.get("smt2"), reason=o.get("reason"))
                if replay:
                    d["replay"] = replay
            out.append(d)
    for n in need:
        out.append(ob(f"{base}/cover/{n}-path-reachable", DISCHARGED if kinds.get(n) else REFUTED, by="explorer", info=kinds))
    merged = {}
    for o in out:
        m = merged.get(o["name"])
        if m is None or (m["status"] == DISCHARGED and o["status"] != DISCHARGED):
            merged[o["name"]] = o
    return list(merged.values())


# ------------------------------------------------------------------------------------------
# operator builders (symbolic constructor arguments; children are dense-backed)


def build(kind, br):
    """returns op built by the REAL constructor from fresh symbolic tensors"""
    from engine import symtensor as T
    from engine.symtensor import SymTensor
    from linear_operator import operators as LO

    c = sym.ctx()
    bs = tuple(sym.sym_int(f"B{t}", 1) for t in range(br))
    F = T.float64

    def ten(name, *shape):
        return SymTensor.fresh(name, bs + tuple(shape), F)

    def dim(name):
        return sym.sym_int(name, 1)

    if kind == "Dense":
        return LO.DenseLinearOperator(ten("A", dim("m"), dim("n")))
    if kind == "Diag":
        return LO.DiagLinearOperator(ten("d", dim("n")))
    if kind == "ConstantDiag":
        return LO.ConstantDiagLinearOperator(ten("v", 1), diag_shape=dim("n"))
    if kind == "Toeplitz":
        return LO.ToeplitzLinearOperator(ten("c", dim("n")))
    if kind == "Triangular":
        n = dim("n")
        return LO.TriangularLinearOperator(ten("T", n, n))
    if kind == "Kronecker2":
        return LO.KroneckerProductLinearOperator(LO.DenseLinearOperator(ten("K1", dim("m1"), dim("n1"))), LO.DenseLinearOperator(ten("K2", dim("m2"), dim("n2"))))
    if kind == "Kronecker3":
        return LO.KroneckerProductLinearOperator(*[LO.DenseLinearOperator(ten(f"K{j}", dim(f"m{j}"), dim(f"n{j}"))) for j in (1, 2, 3)])
    if kind == "BlockDiag":
        m = dim("m")
        return LO.BlockDiagLinearOperator(LO.DenseLinearOperator(ten("Bk", dim("k"), m, m)))
    if kind == "BlockInterleaved":
        m = dim("m")
        return LO.BlockInterleavedLinearOperator(LO.DenseLinearOperator(ten("Bk", dim("k"), m, m)))
    if kind == "Sum":
        m, n = dim("m"), dim("n")
        return LO.SumLinearOperator(LO.DenseLinearOperator(ten("S1", m, n)), LO.DenseLinearOperator(ten("S2", m, n)))
    if kind == "AddedDiag":
        n = dim("n")
        return LO.AddedDiagLinearOperator(LO.DenseLinearOperator(ten("S1", n, n)), LO.DiagLinearOperator(ten("d", n)))
    if kind == "Mul":
        m, n = dim("m"), dim("n")
        return LO.MulLinearOperator(LO.DenseLinearOperator(ten("S1", m, n)), LO.DenseLinearOperator(ten("S2", m, n)))
    if kind == "ConstantMul":
        return LO.ConstantMulLinearOperator(LO.DenseLinearOperator(ten("S1", dim("m"), dim("n"))), SymTensor.fresh("cst", bs, F))
    # broadcast variants (parameters whose batch shape is smaller than the operator's): exercise the sum-to-size logic of derivatives
    if kind == "ConstantMul_bc":  # constant with a trailing singleton batch dimension
        return LO.ConstantMulLinearOperator(LO.DenseLinearOperator(ten("S1", dim("m"), dim("n"))), SymTensor.fresh("cst", bs[:-1] + ((1,) if br else ()), F))
    if kind == "ConstantMul_lead":  # constant missing the leading batch dimension
        return LO.ConstantMulLinearOperator(LO.DenseLinearOperator(ten("S1", dim("m"), dim("n"))), SymTensor.fresh("cst", bs[1:], F))
    if kind == "Sum_bc":
        m, n = dim("m"), dim("n")
        return LO.SumLinearOperator(LO.DenseLinearOperator(ten("S1", m, n)), LO.DenseLinearOperator(SymTensor.fresh("S2", (m, n), F)))
    if kind == "AddedDiag_bc":
        n = dim("n")
        return LO.AddedDiagLinearOperator(LO.DenseLinearOperator(ten("S1", n, n)), LO.DiagLinearOperator(SymTensor.fresh("d", (n,), F)))
    if kind == "Matmul_bc":
        m, k, n = dim("m"), dim("k"), dim("n")
        return LO.MatmulLinearOperator(LO.DenseLinearOperator(SymTensor.fresh("S1", (m, k), F)), LO.DenseLinearOperator(ten("S2", k, n)))
    if kind == "Matmul":
        m, k, n = dim("m"), dim("k"), dim("n")
        return LO.MatmulLinearOperator(LO.DenseLinearOperator(ten("S1", m, k)), LO.DenseLinearOperator(ten("S2", k, n)))
    if kind == "Root":
        return LO.RootLinearOperator(ten("R", dim("n"), dim("k")))
    if kind == "SumBatch":
        m = dim("m")
        return LO.SumBatchLinearOperator(LO.DenseLinearOperator(ten("Bk", dim("k"), m, m)))
    if kind == "BatchRepeat":
        n = dim("n")
        a = SymTensor.fresh("A", (n, n), F)
        return LO.BatchRepeatLinearOperator(LO.DenseLinearOperator(a), batch_repeat=sym_size(bs) if br else sym_size((1,)))
    if kind == "TriangularUpper":
        n = dim("n")
        return LO.TriangularLinearOperator(ten("T", n, n), upper=True)
    if kind in ("TriangularExpanded", "TriangularUpperExpanded"):  # a triangular operator really broadcast to a larger batch by the library's own expand
        n = dim("n")
        base = LO.TriangularLinearOperator(ten("T", n, n), upper=kind == "TriangularUpperExpanded")
        return base.expand(sym.sym_int("Bnew", 1), *bs, n, n)
    if kind in ("CholLower", "CholUpper"):
        n = dim("n")
        up = kind == "CholUpper"
        return LO.CholLinearOperator(LO.TriangularLinearOperator(ten("T", n, n), upper=up), upper=up)
    if kind == "Identity":
        return LO.IdentityLinearOperator(dim("n"), batch_shape=sym_size(bs), dtype=F)
    if kind == "Zero":
        return LO.ZeroLinearOperator(*bs, dim("m"), dim("n"), dtype=F)
    if kind in ("CatRows", "CatCols"):
        m, n, k = dim("m"), dim("n"), dim("k")
        if kind == "CatRows":
            return LO.CatLinearOperator(LO.DenseLinearOperator(ten("C1", m, n)), LO.DenseLinearOperator(ten("C2", k, n)), dim=-2)
        return LO.CatLinearOperator(LO.DenseLinearOperator(ten("C1", m, n)), LO.DenseLinearOperator(ten("C2", m, k)), dim=-1)
    if kind == "KroneckerTriangular":
        n1, n2 = dim("n1"), dim("n2")
        return LO.KroneckerProductTriangularLinearOperator(LO.TriangularLinearOperator(ten("K1", n1, n1)), LO.TriangularLinearOperator(ten("K2", n2, n2)))
    if kind == "LowRankRoot":
        return LO.LowRankRootLinearOperator(ten("R", dim("n"), dim("k")))
    if kind == "PsdSum":
        n = dim("n")
        return LO.PsdSumLinearOperator(LO.DenseLinearOperator(ten("S1", n, n)), LO.DenseLinearOperator(ten("S2", n, n)))
    if kind.startswith("Interp"):
        w = int(kind[-1])
        m, m2 = dim("mb"), dim("mb2")
        if kind.startswith("InterpRoot"):
            m2 = m
            base = LO.RootLinearOperator(ten("R", m, dim("k")))
        else:
            base = LO.DenseLinearOperator(ten("Kb", m, m2))
        n, n2 = dim("n"), dim("n2")
        mz, m2z = sym.as_z3_int(m), sym.as_z3_int(m2)
        li = SymTensor.fresh("li", bs + (n, w), T.int64, constraint=lambda i, v: z3.And(v >= 0, v < mz))
        ri = SymTensor.fresh("ri", bs + (n2, w), T.int64, constraint=lambda i, v: z3.And(v >= 0, v < m2z))
        return LO.InterpolatedLinearOperator(base, li, ten("lv", n, w), ri, ten("rv", n2, w))
    raise KeyError(kind)


def sym_size(t):
    from engine.symtensor import Size

    return Size(t)


SLOW = {"Kronecker2", "Kronecker3", "BlockInterleaved", "BlockDiag"}  # non-linear integer arithmetic (div/mod by symbolic sizes)
SLOW_MS = 240000

GET_INDICES_KINDS = ["Dense", "Diag", "ConstantDiag", "Toeplitz", "Triangular", "Kronecker2", "BlockDiag", "BlockInterleaved",
                     "Sum", "AddedDiag", "ConstantMul", "Matmul", "Root", "SumBatch", "BatchRepeat", "Interp_w1", "Interp_w2", "InterpRoot_w2"]


def check_get_indices(kind, br):
    _env()
    from contracts import spec
    from engine import symtensor as T
    from engine.symtensor import SymTensor

    base = f"C03/{kind}._get_indices/batchrank={br}"

    def thunk():
        c = sym.ctx()
        op = build(kind, br)
        Dm = spec.D(op)
        L = sym.sym_int("L", 1)
        shape = Dm.shape
        idxs = []
        for j, size in enumerate(shape):
            sz = sym.as_z3_int(size)
            idxs.append(SymTensor.fresh(f"idx{j}", (L,), T.int64, owner="caller", constraint=lambda i, v, sz=sz: z3.And(v >= 0, v < sz)))
        *bi, ri, ci = idxs
        res = op._get_indices(ri, ci, *bi)
        # expected: D[bi(t)..., ri(t), ci(t)]
        t = z3.Int(c.fresh_name("t!pos"))
        sym.instantiate_universals((t,))
        sym.instantiate_universals((t, z3.IntVal(0)))
        c.prove(f"{base}/rank", z3.BoolVal(len(res.shape) == 1), info=str(res.shape))
        c.prove(f"{base}/shape", sym.as_z3_int(res.shape[0]) == sym.as_z3_int(L))
        exp = Dm.at(*[x.at(t) for x in idxs])
        got = res.at(t)
        c.prove(f"{base}/value", z3.Implies(z3.And(t >= 0, t < sym.as_z3_int(L)), got == exp))
        c.prove(f"{base}/dtype", z3.BoolVal(res.dtype is Dm.dtype), info=f"{res.dtype} vs {Dm.dtype}")
        writes = [e for e in c.events if e[0] == "inplace" and str(e[1]["owner"]).startswith("caller")]
        c.prove(f"{base}/frame/index-and-data-tensors-untouched", z3.BoolVal(not writes), kind="frame", info=[e[1] for e in writes][:3])
        return res

    paths = sym.explore(thunk, max_paths=128, timeout_ms=SLOW_MS if kind in SLOW else 20000)
    return _collect(paths, base, replay={"module": "contracts.sh_C03", "func": "replay_class", "args": [kind, "_get_indices"]})


DIAG_KINDS = ["Dense", "Diag", "ConstantDiag", "Toeplitz", "Triangular", "Kronecker2", "BlockDiag", "BlockInterleaved", "Sum", "AddedDiag",
              "ConstantMul", "SumBatch", "BatchRepeat", "Root", "Matmul", "Interp_w1", "Interp_w2", "InterpRoot_w2"]


def check_diagonal(kind, br):
    _env()
    from contracts import spec

    base = f"C03/{kind}._diagonal/batchrank={br}"

    def thunk():
        c = sym.ctx()
        op = build(kind, br)
        Dm = spec.D(op)
        if not bool(Dm.shape[-1] == Dm.shape[-2]):
            raise sym.AssumptionFailed()  # diagonal() is only defined for square operators
        res = op._diagonal()
        exp_shape = Dm.shape[:-1]
        c.prove(f"{base}/rank", z3.BoolVal(len(res.shape) == len(exp_shape)), info=f"{res.shape} vs {exp_shape}")
        if len(res.shape) == len(exp_shape):
            c.prove(f"{base}/shape", z3.And(*[sym.as_z3_int(a) == sym.as_z3_int(b) for a, b in zip(res.shape, exp_shape)]))
            idx = tuple(z3.Int(c.fresh_name(f"t{j}!d")) for j in range(len(exp_shape)))
            inb = res.in_bounds(idx)
            c.prove(f"{base}/value", z3.Implies(inb, res.at(*idx) == Dm.at(*idx, idx[-1])))
        c.prove(f"{base}/dtype", z3.BoolVal(res.dtype is Dm.dtype), info=f"{res.dtype} vs {Dm.dtype}")
        return res

    paths = sym.explore(thunk, max_paths=128, timeout_ms=SLOW_MS if kind in SLOW else 20000)
    return _collect(paths, base, replay={"module": "contracts.sh_C03", "func": "replay_class", "args": [kind, "_diagonal"]})


def replay_class(kind, what):
    """native bounded search (real code, real torch): concrete instances of the class, all in-range index
    triples / the diagonal, compared with the dense oracle built independently from the constructor arguments"""
    import os
    import sys

    repo = os.environ.get("VERIF_REPO", "/repo")
    if repo not in sys.path:
        sys.path.insert(0, repo)
    import torch

    from contracts import zoo

    name = {"Dense": "dense_rect", "Diag": "diag", "ConstantDiag": "constdiag", "Toeplitz": "toeplitz", "Triangular": "tri_lower", "Kronecker2": "kron2",
            "Kronecker3": "kron3_rect", "BlockDiag": "blockdiag3", "BlockInterleaved": "blockinterleaved3", "Sum": "sum", "AddedDiag": "addeddiag",
            "Interp_w1": "interp", "Interp_w2": "interp", "InterpRoot_w2": "nest_interp_root_sq", "Mul": "mul", "ConstantMul": "constmul", "Matmul": "matmul", "Root": "root", "SumBatch": "sumbatch", "BatchRepeat": "batchrepeat2"}[kind]
    case = zoo.BY_NAME[name]
    for batch in ((), (2,), (2, 3)):
        for n in (1, 2, 3, 4, 6):
            op, dense = case.build(zoo.gen(7), torch.float64, batch, n)
            if what == "_diagonal":
                if dense.shape[-1] != dense.shape[-2]:
                    continue
                got, exp = op._diagonal(), dense.diagonal(dim1=-1, dim2=-2)
            else:
                grids = torch.meshgrid(*[torch.arange(s) for s in dense.shape], indexing="ij")
                idx = [g.reshape(-1) for g in grids]
                *bi, ri, ci = idx
                got, exp = op._get_indices(ri, ci, *bi), dense[tuple(idx)]
            if got.shape != exp.shape or not zoo.close(got, exp):
                return {"reproduced": True, "detail": f"{type(op).__name__}{tuple(dense.shape)}.{what}: differs from the dense oracle (shape {tuple(got.shape)} vs {tuple(exp.shape)}, max abs diff {float((got - exp).abs().max()) if got.shape == exp.shape else 'n/a'})"}
    return {"reproduced": False, "detail": "no failing input in the bounded native family"}


def shadow_units(tier):
    us = [conformance_unit(PID)]
    ranks = (0, 1) if tier == "quick" else (0, 1, 2)
    for kind in GET_INDICES_KINDS:
        for br in ranks:
            us.append(Unit(f"C03/shadow/_get_indices/{kind}/br={br}", "contracts.sh_C03", "check_get_indices", (kind, br), engine="shadow", timeout_s=300))
    for kind in DIAG_KINDS:
        for br in ranks:
            if br == 2 and kind in ("BlockDiag", "BlockInterleaved", "Kronecker2"):
                continue  # the div/mod index identities with two symbolic batch sizes sit at the edge of the solver budget (undecided under load, never wrong): ranks 0 and 1 are proved, rank 2 stays bounded
            us.append(Unit(f"C03/shadow/_diagonal/{kind}/br={br}", "contracts.sh_C03", "check_diagonal", (kind, br), engine="shadow", timeout_s=300 if br < 2 else 1500))
    sigs = getitem_sigs(tier)
    chunk = 8
    for dbg in (True, False):
        for i in range(0, len(sigs), chunk):
            us.append(Unit(f"C03/shadow/__getitem__/debug={dbg}/sigs{i}-{i + chunk - 1}", "contracts.sh_C03", "check_getitem_many", (sigs[i:i + chunk], dbg), engine="shadow", timeout_s=600))
    return us


def check_getitem_many(sigs, debug):
    out = []
    for s in sigs:
        out += check_getitem(tuple(s), debug)
    return out


SH_META = {
    "functions_under_contract": [f"{k}LinearOperator._get_indices" for k in GET_INDICES_KINDS] + [f"{k}LinearOperator._diagonal" for k in DIAG_KINDS],
    "trusted_base": ["z3/cvc5", "CPython", "symtorch kernel models (conformance-tested)", "spec table contracts/spec.py (documented meaning of each structure)"],
    "assumptions": ["index tensors passed to _get_indices are 1-D, equally long, entries in [0, size) (the internal contract established by __getitem__)",
                    "children are dense-backed operators with symbolic entries (modularity: a child is only used through its own _get_indices contract)",
                    "floats as reals"],
}


# ------------------------------------------------------------------------------------------
# Part C: LinearOperator.__getitem__ on a dense-backed operator, every index-kind signature

KINDS = ["int", "full", "slice", "slice_step", "tensor", "ellipsis"]


def _mk_index(kind, pos, size):
    from engine import symtensor as T
    from engine.shadow import SymSlice
    from engine.symtensor import SymTensor

    if kind == "int":
        return sym.sym_int(f"i{pos}")
    if kind == "full":
        return slice(None, None, None)
    if kind == "slice":
        return SymSlice(sym.sym_int(f"start{pos}"), sym.sym_int(f"stop{pos}"), None)
    if kind == "slice_step":
        return SymSlice(sym.sym_int(f"start{pos}"), None, 2)
    if kind == "tensor":  # 1-D, symbolic length, every entry valid for torch (negative entries included)
        sz = sym.as_z3_int(size)
        return SymTensor.fresh(f"ix{pos}", (sym.sym_int("L", 1),), T.int64, constraint=lambda i, v: z3.And(v >= -sz, v < sz))
    if kind == "tensor_nonneg":
        sz = sym.as_z3_int(size)
        return SymTensor.fresh(f"ix{pos}", (sym.sym_int("L", 1),), T.int64, constraint=lambda i, v: z3.And(v >= 0, v < sz))
    if kind == "tensor1_any":  # one-element tensor with an arbitrary (possibly out-of-range) entry
        return SymTensor.fresh(f"ix{pos}", (1,), T.int64)
    if kind == "ellipsis":
        return Ellipsis
    raise KeyError(kind)


def check_getitem(sig, debug):
    _env()
    from contracts import spec
    from engine import symops as SO
    from engine.shadow import SymSlice
    from engine.symtensor import SymTensor
    from linear_operator import settings
    from linear_operator.operators import LinearOperator

    base = f"C03/Dense.__getitem__/sig={','.join(sig)}/debug={debug}"

    def thunk():
        c = sym.ctx()
        op = build("Dense", 1)
        Dm = spec.D(op)
        sizes = list(Dm.shape)
        if "ellipsis" in sig:
            e = sig.index("ellipsis")
            fill = len(sizes) - (len(sig) - 1)
            dims = list(range(e)) + [None] + list(range(e + fill, len(sizes)))
        else:
            dims = list(range(len(sig)))
        index = tuple(_mk_index(k, p, sizes[d] if d is not None else None) for p, (k, d) in enumerate(zip(sig, dims)))
        settings.debug._state = debug
        # caller-side obligation: what __getitem__ hands to _get_indices / _getitem satisfies THEIR precondition
        # (ints and every entry of every index tensor in [0, size) - the contract the per-class proofs of Part A assume)
        cls = type(op)
        real_gi, real_g = cls._get_indices, cls._getitem
        ncall = [0]

        def _pre(which, row_index, col_index, batch_indices):
            ncall[0] += 1
            allidx = list(batch_indices) + [row_index, col_index]
            for d, ix_ in enumerate(allidx):
                if d >= len(sizes):
                    c.prove(f"{base}/callee-precondition/{which}#{ncall[0]}/arity", z3.BoolVal(False), info=f"{len(allidx)} indices for {len(sizes)} dimensions")
                    break
                sz = sym.as_z3_int(sizes[d])
                if isinstance(ix_, (slice, SymSlice)):
                    continue
                if isinstance(ix_, SymTensor):
                    if ix_.dtype.kind != "i":
                        c.prove(f"{base}/callee-precondition/{which}#{ncall[0]}/dim{d}/integer-index", z3.BoolVal(False), info=str(ix_.dtype))
                        continue
                    pos = tuple(z3.Int(c.fresh_name(f"p{t}!pre")) for t in range(ix_.dim()))
                    for rk in range(1, 3):
                        sym.instantiate_universals(pos[-rk:] if rk <= len(pos) else pos, key=rk) if pos else None
                    c.prove(f"{base}/callee-precondition/{which}#{ncall[0]}/dim{d}/entries-in-[0,size)", z3.Implies(ix_.in_bounds(pos), z3.And(ix_.at(*pos) >= 0, ix_.at(*pos) < sz)))
                else:
                    v = sym.as_z3_int(ix_)
                    c.prove(f"{base}/callee-precondition/{which}#{ncall[0]}/dim{d}/int-in-[0,size)", z3.And(v >= 0, v < sz))

        def gi(self_, row_index, col_index, *batch_indices):
            if self_ is op:
                _pre("_get_indices", row_index, col_index, batch_indices)
            return real_gi(self_, row_index, col_index, *batch_indices)

        def g(self_, row_index, col_index, *batch_indices):
            if self_ is op:
                _pre("_getitem", row_index, col_index, batch_indices)
            return real_g(self_, row_index, col_index, *batch_indices)
        cls._get_indices, cls._getitem = gi, g
        try:
            try:
                exp = SO.getitem(Dm, index)
                exp_exc = None
            except (IndexError, RuntimeError, ValueError) as e:
                exp, exp_exc = None, e
            # slices that select no element are outside the property's quantifier ("non-empty slices")
            if exp is not None:
                for s in exp.shape:
                    if not isinstance(s, int):
                        c.assume(s >= 1)
                    elif s < 1:
                        raise sym.AssumptionFailed()
            try:
                got = op[index]
                got_exc = None
            except sym.Unsupported:
                raise
            except Exception as e:  # noqa
                got, got_exc = None, e
        finally:
            settings.debug._state = None
            cls._get_indices, cls._getitem = real_gi, real_g
        if exp_exc is not None:
            c.prove(f"{base}/raises-when-torch-raises", z3.BoolVal(got_exc is not None), info=f"torch: {exp_exc!r}; operator returned {getattr(got, 'shape', got)}")
            return "raise"
        c.prove(f"{base}/no-internal-error", z3.BoolVal(got_exc is None),
                info=(repr(got_exc)[:300] + getattr(got_exc, "__shadow_tb__", "")) if got_exc is not None else None)
        if got_exc is not None:
            return "raise"
        gd = spec.D(got) if isinstance(got, LinearOperator) else got
        spec.same_tensor_goals(c, base, gd, exp)
        return "return"

    paths = sym.explore(thunk, max_paths=256, timeout_ms=30000)
    return _collect(paths, base, need=(), replay={"module": "contracts.sh_C03", "func": "replay_getitem", "args": [list(sig), debug]})


def replay_getitem(sig, debug):
    """native bounded search on the same index-kind signature (real code, real torch): first input on which
    op[index] differs from dense[index] (value, shape, or raise/no-raise)"""
    import os
    import sys

    repo = os.environ.get("VERIF_REPO", "/repo")
    if repo not in sys.path:
        sys.path.insert(0, repo)
    import torch

    import linear_operator
    from linear_operator.operators import DenseLinearOperator, LinearOperator

    g = torch.Generator().manual_seed(0)
    shape = (2, 3, 4)
    A = torch.randn(*shape, generator=g, dtype=torch.float64)
    op = DenseLinearOperator(A)
    vals = {"int": [-5, -4, -3, -2, -1, 0, 1, 2, 3, 4], "full": [slice(None)], "ellipsis": [Ellipsis],
            "slice": [slice(a, b) for a in (-5, -2, 0, 1) for b in (-1, 1, 2, 3, 9)], "slice_step": [slice(a, None, 2) for a in (-3, 0, 1)],
            "tensor": [torch.tensor([0, 1]), torch.tensor([-1, 0, 1]), torch.tensor([1])], "tensor_nonneg": [torch.tensor([0, 1])],
            "tensor1_any": [torch.tensor([v]) for v in (-5, -3, -1, 0, 2, 3, 4)]}
    import itertools as it

    with linear_operator.settings.debug(debug):
        for index in it.product(*[vals[k] for k in sig]):
            try:
                exp, ee = A[index], None
            except Exception as e:  # noqa
                exp, ee = None, e
            if exp is not None and 0 in exp.shape:
                continue
            try:
                got, ge = op[index], None
            except Exception as e:  # noqa
                got, ge = None, e
            if isinstance(got, LinearOperator):
                got = got.to_dense()
            desc = f"DenseLinearOperator(randn{shape})[{index}] debug={debug}"
            if ee is not None and ge is None:
                return {"reproduced": True, "detail": f"{desc}: torch raises {ee!r} but the operator returned shape {tuple(got.shape)}"}
            if ee is None and ge is not None:
                return {"reproduced": True, "detail": f"{desc}: operator raised {ge!r}, torch returns shape {tuple(exp.shape)}"}
            if ee is None and (got.shape != exp.shape or not torch.equal(got, exp)):
                return {"reproduced": True, "detail": f"{desc}: result differs (shape {tuple(got.shape)} vs {tuple(exp.shape)})"}
    return {"reproduced": False, "detail": "no failing input in the bounded native family for this signature"}


def getitem_sigs(tier):
    sigs = []
    base_kinds = ["int", "full", "slice", "tensor"] if tier == "quick" else ["int", "full", "slice", "slice_step", "tensor", "tensor1_any"]
    for s in itertools.product(base_kinds, repeat=3):
        sigs.append(s)
    for k in range(3):  # one ellipsis, fewer explicit entries
        for rest in itertools.product(["int", "slice", "tensor"], repeat=2 if tier != "quick" else 1):
            s = list(rest)
            s.insert(min(k, len(s)), "ellipsis")
            sigs.append(tuple(s))
    sigs += [("int",), ("slice",), ("tensor",), ("int", "int"), ("tensor", "tensor"), ("slice_step", "slice_step", "slice_step"),
             ("tensor1_any", "full", "full"), ("full", "tensor1_any", "full"), ("full", "full", "tensor1_any"), ("tensor1_any", "tensor1_any", "tensor1_any")]
    out, seen = [], set()
    for s in sigs:
        if s not in seen:
            seen.add(s)
            out.append(s)
    return out
