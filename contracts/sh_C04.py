"""C04 (proved tier) — ``solve`` returns X with  D(op) X = B  whichever path the library selects.

The postcondition is stated as a residual identity (no inverse needed): for all batch / row / column indices
      sum_k D(op)[b, i, k] * X[b, k, j] == B[b, i, j]           (with a left factor: result == L X)
and shape(X) == torch's matmul shape of D^{-1}-sized operands, dtype == op dtype.

Numerical kernels are LEAF CONTRACTS (trusted, listed in the evidence), stated the same way, as universally
quantified facts about the fresh tensor they return, instantiated at the skolem indices of the obligations:
   torch.linalg.solve_triangular(T, B, upper=u)  ->  X  with  tri_u(T) X = B      (tri_u = the triangle that torch reads)
   torch.cholesky_solve(B, L, upper=u)           ->  X  with  (L L^T) X = B  /  (L^T L) X = B,  reading only that triangle
   torch.linalg.cholesky_ex(A)                   ->  L lower triangular with L L^T = A, info = 0   (the numerically-PD case of C16)
   linear_cg(matmul_closure, rhs, ...)           ->  X  with  matmul_closure(X) = rhs               (exact convergence: the numeric clause is bounded-tier)
The settings max_cholesky_size and fast_computations.solves are symbolic, so every method-selection path of
functions/_solve.py::_solve is explored: structure shortcut, Cholesky path, CG path."""
from __future__ import annotations

import z3

from engine import sym
from engine.common import DISCHARGED, REFUTED, UNKNOWN, Unit, conformance_unit, ob

PID = "C04"
KINDS = ["Diag", "ConstantDiag", "Identity", "Triangular", "TriangularUpper", "TriangularExpanded", "TriangularUpperExpanded", "CholLower", "CholUpper", "Dense", "Sum", "AddedDiag", "ConstantMul", "Matmul"]


def _install_leaves(torch, state):
    from engine import symops as SO, symtensor as T
    from engine.symtensor import SymTensor

    def bshape(a, b):
        return SO.broadcast_shapes(a, b)

    def solve_triangular(Tm, B, *, upper, left=True, unitriangular=False):
        if not left or unitriangular:
            raise sym.Unsupported("solve_triangular(left=False / unitriangular)")
        if not SO.dim_eq(Tm.shape[-1], Tm.shape[-2]) or not SO.dim_eq(Tm.shape[-1], B.shape[-2]):
            raise RuntimeError("solve_triangular: incompatible shapes")
        batch = bshape(Tm.shape[:-2], B.shape[:-2])
        X = SymTensor.fresh(sym.ctx().fresh_name("Xtri"), batch + tuple(B.shape[-2:]), B.dtype, owner="callee:solve_triangular")
        te, be, tsh, bsh, n = Tm.elem_fn(), B.elem_fn(), Tm.shape, B.shape, Tm.shape[-1]
        nb = len(batch)

        def fact(idx):
            b, i, j = tuple(idx[:nb]), idx[nb], idx[nb + 1]
            inb = X.in_bounds(b + (i, j))
            tri = lambda k: z3.If((k >= i) if upper else (k <= i), te(SO.bidx(tsh[:-2], b) + (i, k)), z3.RealVal(0))  # noqa
            return z3.Implies(inb, SO.sum_term(n, lambda k: tri(k) * X.at(*b, k, j), z3.RealSort()) == be(SO.bidx(bsh[:-2], b) + (i, j)))
        sym.ctx().universals.append(("leaf:bij", (lambda idx, fact=fact, nb=nb: fact(idx) if len(idx) == nb + 2 else z3.BoolVal(True))))
        state["leaves"].append("solve_triangular")
        return X

    def cholesky_solve(B, L, upper=False):
        if not SO.dim_eq(L.shape[-1], L.shape[-2]) or not SO.dim_eq(L.shape[-1], B.shape[-2]):
            raise RuntimeError("cholesky_solve: incompatible shapes")
        batch = bshape(L.shape[:-2], B.shape[:-2])
        X = SymTensor.fresh(sym.ctx().fresh_name("Xchol"), batch + tuple(B.shape[-2:]), B.dtype, owner="callee:cholesky_solve")
        le, be, lsh, bsh, n = L.elem_fn(), B.elem_fn(), L.shape, B.shape, L.shape[-1]
        nb = len(batch)

        def Lt(b, r, c):  # the triangle torch reads
            return z3.If((c >= r) if upper else (c <= r), le(SO.bidx(lsh[:-2], b) + (r, c)), z3.RealVal(0))

        def fact(idx):
            b, i, j = tuple(idx[:nb]), idx[nb], idx[nb + 1]
            inb = X.in_bounds(b + (i, j))
            if upper:
                A = lambda l: SO.sum_term(n, lambda k: Lt(b, k, i) * Lt(b, k, l), z3.RealSort())  # noqa  (L^T L)[i, l]
            else:
                A = lambda l: SO.sum_term(n, lambda k: Lt(b, i, k) * Lt(b, l, k), z3.RealSort())  # noqa  (L L^T)[i, l]
            return z3.Implies(inb, SO.sum_term(n, lambda l: A(l) * X.at(*b, l, j), z3.RealSort()) == be(SO.bidx(bsh[:-2], b) + (i, j)))
        sym.ctx().universals.append(("leaf:bij", (lambda idx, fact=fact, nb=nb: fact(idx) if len(idx) == nb + 2 else z3.BoolVal(True))))
        state["leaves"].append("cholesky_solve")
        return X

    def cholesky_ex(A, *, upper=False, check_errors=False, out=None):
        # the numerically positive definite case (C16 covers the jitter loop): exact lower factor, info == 0
        L = SymTensor.fresh(sym.ctx().fresh_name("Lchol"), A.shape, A.dtype, owner="callee:cholesky_ex")
        ae, n, nb = A.elem_fn(), A.shape[-1], len(A.shape) - 2

        def fact(idx):
            b, i, j = tuple(idx[:nb]), idx[nb], idx[nb + 1]
            inb = A.in_bounds(b + (i, j))
            return z3.Implies(inb, z3.And(SO.sum_term(n, lambda k: L.at(*b, i, k) * L.at(*b, j, k), z3.RealSort()) == ae(b + (i, j)),
                                          z3.Implies(j > i, L.at(*b, i, j) == 0)))
        sym.ctx().universals.append(("leaf:bij", (lambda idx, fact=fact, nb=nb: fact(idx) if len(idx) == nb + 2 else z3.BoolVal(True))))
        # triangularity is needed at arbitrary index pairs inside sums: as a lazily instantiated constraint on reads
        base_elem = L.storage.elem
        Lshape = L.shape

        def elem(idx):
            return z3.If(SO.ix(idx[-1]) > SO.ix(idx[-2]), z3.RealVal(0), base_elem(idx))  # lower triangular, as a term
        L.storage.elem = elem
        info = SymTensor.from_elem(A.shape[:-2], T.int32, lambda idx: z3.IntVal(0))
        state["leaves"].append("cholesky_ex")
        return L, info

    torch.linalg.solve_triangular = solve_triangular
    torch.cholesky_solve = cholesky_solve
    torch.linalg.cholesky_ex = cholesky_ex


def _install_cg(state):
    """leaf contract of linear_cg (exact convergence)"""
    import linear_operator.utils as U
    from engine import symops as SO
    from engine.symtensor import SymTensor

    def linear_cg(matmul_closure, rhs, n_tridiag=0, tolerance=None, eps=1e-10, stop_updating_after=1e-10, max_iter=None, max_tridiag_iter=None,
                  initial_guess=None, preconditioner=None):
        if n_tridiag:
            raise sym.Unsupported("linear_cg with tridiagonalisation")
        # the real routine returns a tensor of the shape of  rhs - matmul_closure(initial_guess)  (batch broadcast)
        probe = matmul_closure(SO.zeros(*rhs.shape, dtype=rhs.dtype))
        xshape = SO.broadcast_shapes(rhs.shape, probe.shape)
        X = SymTensor.fresh(sym.ctx().fresh_name("Xcg"), xshape, rhs.dtype, owner="callee:linear_cg")
        AX = matmul_closure(X)
        rhs = SO.expand(rhs, *xshape)
        rank = len(xshape)
        re, ae = rhs.elem_fn(), AX.elem_fn()
        ok = len(AX.shape) == rank
        sym.ctx().universals.append(("leaf:bij", lambda idx: z3.Implies(X.in_bounds(tuple(idx)), ae(tuple(idx)) == re(tuple(idx))) if ok and len(idx) == rank else z3.BoolVal(True)))
        state["leaves"].append("linear_cg")
        return X

    U.linear_cg = linear_cg
    import linear_operator.operators._linear_operator as LOM

    LOM.utils.linear_cg = linear_cg


def check_solve(kind, br, rhs_kind, with_left, regime):
    """regime: 'small' (n <= max_cholesky_size), 'large' (n > max_cholesky_size, fast solves on), 'exact' (fast solves off)"""
    from contracts import sh_C03, spec
    from engine import shadow, symops as SO, symtensor as T
    from engine.symtensor import SymTensor

    sh_C03._env()
    torch = shadow.torch()
    from linear_operator import settings

    base = f"C04/{kind}.solve/batchrank={br}/rhs={rhs_kind}/left={with_left}/{regime}"
    state = {"leaves": []}
    _install_leaves(torch, state)
    _install_cg(state)

    def thunk():
        c = sym.ctx()
        state["leaves"].clear()
        op = sh_C03.build(kind, br)
        _class_invariants(c, kind, op, None, None, None)  # (before anything snapshots the entry functions)
        Dm = spec.D(op)
        c.assume(Dm.shape[-1] == Dm.shape[-2])
        n = Dm.shape[-1]
        c.assume(n >= 2)  # (1 x 1 operators take sqrt / scalar shortcuts: bounded tier)
        bs = tuple(Dm.shape[:-2])
        F = Dm.dtype
        p = sym.sym_int("p", 1)
        if rhs_kind == "vec":
            B = SymTensor.fresh("B", (n,), F)
        elif rhs_kind == "mat":
            B = SymTensor.fresh("B", (n, p), F)
        else:
            B = SymTensor.fresh("B", bs + (n, p), F)
        Lf = SymTensor.fresh("Lf", bs + (sym.sym_int("q", 1), n), F) if with_left else None
        if with_left and rhs_kind == "vec":
            raise sym.AssumptionFailed()
        mcs = sym.sym_int("max_cholesky_size", 0)
        if regime == "small":
            c.assume(n <= mcs)
        elif regime == "large":
            c.assume(n > mcs)
        settings.max_cholesky_size._global_value = mcs
        settings.fast_computations.solves._state = False if regime == "exact" else True
        # class invariants of the inputs (preconditions)
        b = tuple(z3.Int(c.fresh_name(f"b{t}!sv")) for t in range(len(bs)))
        i, j = z3.Int(c.fresh_name("i!sv")), z3.Int(c.fresh_name("j!sv"))
        try:
            X = op.solve(B) if Lf is None else op.solve(B, Lf)
        finally:
            settings.max_cholesky_size._global_value = 800
            settings.fast_computations.solves._state = None
        c.prove(f"{base}/returns-tensor", z3.BoolVal(isinstance(X, SymTensor)), info=type(X).__name__)
        if rhs_kind == "vec":
            exp_shape = bs + (n,)
        elif Lf is not None:
            exp_shape = bs + (Lf.shape[-2], B.shape[-1])
        else:
            exp_shape = SO.broadcast_shapes(bs, B.shape[:-2]) + (n, B.shape[-1])
        c.prove(f"{base}/shape", z3.And(z3.BoolVal(len(X.shape) == len(exp_shape)), *[sym.as_z3_int(a) == sym.as_z3_int(q) for a, q in zip(X.shape, exp_shape)]) if len(X.shape) == len(exp_shape) else z3.BoolVal(False),
                info=f"{X.shape} vs {exp_shape}")
        c.prove(f"{base}/dtype", z3.BoolVal(X.dtype is F), info=str(X.dtype))
        if len(X.shape) != len(exp_shape):
            return "ok"
        # triangular class invariant as precondition (instantiated lazily on reads would be heavy: assume at the skolems)
        if Lf is not None:
            # result = Lf @ Y with D Y = B : checked through the leaf facts by the sum prover:  result[b, r, j] == sum_i Lf[b, r, i] * Y[b, i, j]
            c.event("note", "left factor variant checks only shape/dtype + frame at the proved tier")
        else:
            nbx = len(X.shape) - (1 if rhs_kind == "vec" else 2)
            bx = tuple(z3.Int(c.fresh_name(f"bx{t}!sv")) for t in range(nbx))
            xat = (lambda k: X.at(*bx, k)) if rhs_kind == "vec" else (lambda k: X.at(*bx, k, j))
            bat = (B.at(i)) if rhs_kind == "vec" else B.at(*SO.bidx(B.shape[:-2], bx), i, j)
            inb = z3.And(*[z3.And(t >= 0, t < sym.as_z3_int(sz)) for t, sz in zip(bx, X.shape[:nbx])], i >= 0, i < sym.as_z3_int(n), *([j >= 0, j < sym.as_z3_int(B.shape[-1])] if rhs_kind != "vec" else []))
            # instantiate every registered leaf fact at this point (and with the unsqueezed column 0 for vector rhs)
            jj = j if rhs_kind != "vec" else z3.IntVal(0)
            for nbk in range(0, nbx + 1):
                sym.instantiate_universals(bx[nbx - nbk:] + (i, jj), key="leaf:bij")
            lhs = SO.sum_term(n, lambda k: Dm.at(*SO.bidx(Dm.shape[:-2], bx), i, k) * xat(k), z3.RealSort())
            c.prove(f"{base}/residual D X = B", z3.Implies(inb, lhs == bat), info={"leaves": sorted(set(state["leaves"]))})
        writes = [e for e in c.events if e[0] == "inplace" and str(e[1]["owner"]).startswith("caller")]
        c.prove(f"{base}/frame", z3.BoolVal(not writes), kind="frame", info=[e[1] for e in writes][:3])
        return "ok"

    paths = sym.explore(thunk, max_paths=128, timeout_ms=30000)
    return sh_C03._collect(paths, base, need=("return",), replay={"module": "contracts.sh_C04", "func": "replay", "args": [kind]})


def _class_invariants(c, kind, op, Dm, b, i):
    """preconditions on the constructor arguments (class invariants): triangular data is triangular in the flagged
    orientation; diagonal entries used as divisors are non-zero.  Stated as lazily instantiated facts on reads."""
    from engine import symops as SO

    if kind in ("Diag", "ConstantDiag"):
        t = op._args[0]
        st = t.storage
        old = st.elem
        if not getattr(st, "_pos_inv", False):
            def elem(idx, old=old):
                v = old(idx)
                sym.ctx().add_axiom(v > 0)  # positive definite diagonal (precondition)
                return v
            st.elem = elem
            st._pos_inv = True
    if kind in ("Triangular", "TriangularUpper", "TriangularExpanded", "TriangularUpperExpanded", "CholLower", "CholUpper"):
        t = op._args[0]
        while not hasattr(t, "storage"):
            t = t._args[0]
        upper = kind in ("TriangularUpper", "TriangularUpperExpanded", "CholUpper")  # the invariant of the tensor the USER supplied (storage level)
        st = t.storage
        old = st.elem
        if not getattr(st, "_tri_inv", False):
            def elem(idx, old=old, upper=upper):
                # the invariant is part of the TERM (not a side axiom) so that it also holds under summation binders
                r, cc = SO.ix(idx[-2]), SO.ix(idx[-1])
                return z3.If((cc < r) if upper else (cc > r), z3.RealVal(0), old(idx))
            st.elem = elem
            st._tri_inv = True


def replay(kind):
    """native bounded search: concrete instances of the class, all rhs kinds, both sides of max_cholesky_size, compared with
    torch.linalg.solve on the dense oracle"""
    import os
    import sys

    repo = os.environ.get("VERIF_REPO", "/repo")
    if repo not in sys.path:
        sys.path.insert(0, repo)
    import torch

    from contracts import zoo
    import linear_operator
    from linear_operator import settings

    name = {"Diag": "diag", "ConstantDiag": "constdiag", "Identity": "identity", "Triangular": "tri_lower", "TriangularUpper": "tri_upper", "TriangularExpanded": "tri_lower", "TriangularUpperExpanded": "tri_upper", "CholLower": "chol_lower",
            "CholUpper": "chol_upper", "Dense": "dense_psd", "Sum": "sum", "ConstantMul": "constmul", "Matmul": "psdsum", "AddedDiag": "addeddiag"}.get(kind)
    if name is None:
        return {"reproduced": False, "detail": "no native family"}
    case = zoo.BY_NAME[name]
    fails = []
    for batch in ((), (2,)):
        for n in (2, 4):
            for mcs in (0, 800):
                op, dense = case.build(zoo.gen(5), torch.float64, batch, n)
                if "Expanded" in kind:
                    op, dense = op.expand(3, *op.shape), dense.expand(3, *dense.shape)
                g = zoo.gen(6)
                for rk, B in (("vec", zoo.rn(g, n)), ("mat", zoo.rn(g, n, 3)), ("bmat", zoo.rn(g, *batch, n, 2))):
                    try:
                        with settings.max_cholesky_size(mcs), settings.cg_tolerance(1e-10), settings.max_cg_iterations(2000):
                            X = op.solve(B)
                        E = torch.linalg.solve(dense, B.unsqueeze(-1) if rk == "vec" else B)
                        E = E.squeeze(-1) if rk == "vec" else E
                        if X.shape != E.shape or not torch.allclose(X, E, atol=1e-6, rtol=1e-6):
                            fails.append(f"{type(op).__name__}{tuple(dense.shape)}.solve(rhs {rk}) with max_cholesky_size={mcs}: differs from torch.linalg.solve on the dense matrix (shape {tuple(X.shape)} vs {tuple(E.shape)})")
                    except Exception as e:  # noqa
                        fails.append(f"{type(op).__name__}{tuple(dense.shape)}.solve(rhs {rk}) with max_cholesky_size={mcs} raised {e!r}"[:250])
    fails = sorted(set(fails))
    return {"reproduced": bool(fails), "detail": "; ".join(fails[:3]) or "native family shows no deviation"}


STRUCTURED = ["Diag", "ConstantDiag", "Identity", "Triangular", "TriangularUpper", "TriangularExpanded", "TriangularUpperExpanded", "CholLower", "CholUpper"]
GENERIC = ["Dense", "Sum", "ConstantMul", "Matmul"]


def shadow_units(tier):
    us = [conformance_unit(PID)]
    for br in (0, 1) if tier == "quick" else (0, 1, 2):
        for rhs in ("vec", "mat", "bmat"):
            for kind in STRUCTURED:
                # structure shortcuts do not consult the settings: one regime in the quick tier, all three in the thorough tier
                for regime in (("small",) if tier == "quick" else ("small", "large", "exact")):
                    us.append(Unit(f"C04/shadow/{kind}/br={br}/rhs={rhs}/{regime}", "contracts.sh_C04", "check_solve", (kind, br, rhs, False, regime), engine="shadow", timeout_s=600))
            for kind in GENERIC:
                # the CG route (n > max_cholesky_size, fast solves on).  The Cholesky route of non-structured operators needs the
                # leaf fact L L^T = A under a summation binder, which the prover cannot use: bounded tier.
                us.append(Unit(f"C04/shadow/{kind}/br={br}/rhs={rhs}/large", "contracts.sh_C04", "check_solve", (kind, br, rhs, False, "large"), engine="shadow", timeout_s=600))
    return us


SH_META = {
    "functions_under_contract": ["LinearOperator.solve", "functions/_solve.py::_solve (all three method-selection paths)", "functions/_solve.py::Solve.forward", "LinearOperator._solve (CG path)",
                                 "LinearOperator.cholesky / _cholesky / _cholesky_solve, DenseLinearOperator._cholesky_solve", "CholLinearOperator.solve / _solve", "TriangularLinearOperator.solve / _cholesky_solve",
                                 "DiagLinearOperator.solve / inverse / _cholesky_solve, ConstantDiagLinearOperator, IdentityLinearOperator.solve", "utils/cholesky.py::psd_safe_cholesky (first-try path)"],
    "trusted_base": ["z3", "CPython", "symtorch models", "LEAF CONTRACTS (assumed): torch.linalg.solve_triangular, torch.cholesky_solve, torch.linalg.cholesky_ex (numerically PD case), linear_cg (exact convergence)",
                     "sum normal form prover with fact bridging (engine/sumnf.py)"],
    "assumptions": ["operators at least 2 x 2; PSD / triangular class invariants of the inputs as preconditions", "the CG path is exact only up to the leaf contract (tolerance clause: bounded tier)",
                    "left-factor variant, Kronecker / block / Woodbury shortcuts, and the VALUE on the Cholesky route of non-structured operators (needs L L^T = A under a summation binder): bounded tier"],
}
