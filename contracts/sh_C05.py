"""C05 (proved tier) — closed-form log-determinants and inverse quadratic forms, and the output-shape convention.

For the classes whose ``inv_quad_logdet`` does not go through an iterative routine (diagonal family, identity, triangular
operators in both orientations, Cholesky operators in both orientations) the REAL ``inv_quad_logdet`` / ``inv_quad`` /
``logdet`` are executed on symbolic tensors, for every combination of (rhs none / matrix, logdet on / off, reduce on / off):
   shapes      inv_quad: *batch (reduced) or *batch x cols (not reduced); logdet: *batch; without a rhs / with logdet off the
               corresponding slot is an empty placeholder (0 elements) or None
   inv_quad    == sum_i R[i, c] * X[i, c]  with  A X = R     (diag family: X = R / d closed form; triangular: X is the result
               of the triangular-solve leaf, whose contract T X = R is instantiated)
               Cholesky operators compute sum_i Y[i, c]^2 with L Y = R (leaf): stated in that form; Y^T Y = R^T A^-1 R for
               A = L L^T is the textbook identity and is NOT re-proved here (listed as an assumption)
   logdet      == sum_i log d_i   (Diag),  n log v  (ConstantDiag),  0  (Identity),  sum_i log |T_ii|  (Triangular),
               sum_i log L_ii^2  (Cholesky operators)  — log as an uninterpreted function (no property of log is used)
The stochastic (Lanczos quadrature) path, Kronecker / low-rank / block / concatenation overrides and the dense Cholesky
route are bounded-tier only."""
from __future__ import annotations

import itertools

import z3

from engine import sym
from engine.common import DISCHARGED, REFUTED, UNKNOWN, Unit, conformance_unit, ob

PID = "C05"
KINDS = ["Diag", "ConstantDiag", "Identity", "Triangular", "TriangularUpper", "CholLower", "CholUpper"]


def check(kind, br, rhs_kind, logdet, reduce_):
    from contracts import sh_C03, sh_C04, sh_C06, spec
    from engine import shadow, symops as SO, symtensor as T
    from engine.symtensor import SymTensor

    sh_C03._env()
    torch = shadow.torch()
    base = f"C05/{kind}.inv_quad_logdet/batchrank={br}/rhs={rhs_kind}/logdet={logdet}/reduce={reduce_}"
    real = z3.RealSort()

    def thunk():
        c = sym.ctx()
        state = {"leaves": []}
        calls = []
        sh_C04._install_leaves(torch, state)
        real_st = torch.linalg.solve_triangular

        def solve_triangular(Tm, B, **kw):  # record the leaf results (their contracts are registered by the leaf itself)
            X = real_st(Tm, B, **kw)
            calls.append({"T": Tm, "B": B, "X": X, "upper": kw.get("upper")})
            return X
        torch.linalg.solve_triangular = solve_triangular
        op = sh_C03.build(kind, br)
        sh_C06._positive_diag(op)
        if kind in ("Triangular", "TriangularUpper"):  # precondition: positive diagonal (positive determinant; the code answers NaN otherwise)
            t = op._tensor
            while not hasattr(t, "storage"):
                t = t._args[0]
            st, old = t.storage, t.storage.elem

            def elem(idx, old=old):
                v = old(idx)
                sym.ctx().add_axiom(z3.Implies(SO.ix(idx[-1]) == SO.ix(idx[-2]), v > 0))
                return v
            st.elem = elem
        spec.install_repr_invariants(op)
        Dm = spec.D(op)
        n = Dm.shape[-1]
        bs = tuple(Dm.shape[:-2])
        nb = len(bs)
        p = sym.sym_int("p", 1)
        R = SymTensor.fresh("R", bs + (n, p), T.float64) if rhs_kind == "mat" else None
        iq, ld = op.inv_quad_logdet(inv_quad_rhs=R, logdet=logdet, reduce_inv_quad=reduce_)

        def numel0(t):
            return t is None or (isinstance(t, SymTensor) and any(isinstance(s, int) and s == 0 for s in t.shape))

        def shape_is(t, exp):
            ok = isinstance(t, SymTensor) and len(t.shape) == len(exp)
            return z3.And(z3.BoolVal(ok), *[sym.as_z3_int(a) == sym.as_z3_int(b_) for a, b_ in zip(t.shape, exp)]) if ok else z3.BoolVal(False)

        # --- shapes ---------------------------------------------------------------------------------------------------
        if R is None:
            c.prove(f"{base}/inv_quad/placeholder-without-rhs", z3.BoolVal(numel0(iq)), info=str(getattr(iq, "shape", iq)))
        else:
            c.prove(f"{base}/inv_quad/shape", shape_is(iq, bs if reduce_ else bs + (p,)), info=f"{getattr(iq, 'shape', iq)} vs {bs if reduce_ else bs + (p,)}")
        if not logdet:
            c.prove(f"{base}/logdet/placeholder-when-off", z3.BoolVal(numel0(ld)), info=str(getattr(ld, "shape", ld)))
        else:
            c.prove(f"{base}/logdet/shape", shape_is(ld, bs), info=f"{getattr(ld, 'shape', ld)} vs {bs}")
        c.prove(f"{base}/dtype", z3.BoolVal(all(t is None or t.dtype is T.float64 for t in (iq, ld))))
        b = tuple(z3.Int(c.fresh_name(f"b{t}!q")) for t in range(nb))
        cc = z3.Int(c.fresh_name("c!q"))
        inb_b = z3.And(*[z3.And(x >= 0, x < sym.as_z3_int(s)) for x, s in zip(b, bs)]) if nb else z3.BoolVal(True)
        # --- inv_quad value ---------------------------------------------------------------------------------------------
        if R is not None and isinstance(iq, SymTensor) and len(iq.shape) == nb + (0 if reduce_ else 1):
            if kind in ("Diag", "ConstantDiag", "Identity"):
                col = lambda c_: SO.sum_term(n, lambda i: R.at(*b, i, c_) * (R.at(*b, i, c_) / Dm.at(*b, i, i)), real)  # noqa  X = R / d
                how = "closed form X = R / d"
            elif kind in ("Triangular", "TriangularUpper"):
                ok = len(calls) == 1
                c.prove(f"{base}/inv_quad/one-triangular-solve-of-the-rhs", z3.BoolVal(ok), info=len(calls))
                if not ok:
                    return "ok"
                X = calls[0]["X"]
                for i_ in (z3.Int(c.fresh_name("i!q")),):
                    sym.instantiate_universals(b + (i_, cc), key="leaf:bij")
                # the leaf was called with the operator's matrix in the flagged orientation and the rhs itself
                idx = b + (z3.Int(c.fresh_name("r!q")), z3.Int(c.fresh_name("s!q")))
                c.prove(f"{base}/inv_quad/leaf-called-with-(T, R)", z3.And(z3.BoolVal(calls[0]["upper"] == (kind == "TriangularUpper")),
                        z3.Implies(Dm.in_bounds(idx), calls[0]["T"].at(*SO.bidx(calls[0]["T"].shape[:-2], b), idx[-2], idx[-1]) == Dm.at(*idx)),
                        z3.Implies(R.in_bounds(b + (idx[-2], cc)), calls[0]["B"].at(*SO.bidx(calls[0]["B"].shape[:-2], b), idx[-2], cc) == R.at(*b, idx[-2], cc))))
                col = lambda c_: SO.sum_term(n, lambda i: R.at(*b, i, c_) * X.at(*SO.bidx(X.shape[:-2], b), i, c_), real)  # noqa
                how = "sum_i R X with T X = R (leaf)"
            else:
                ok = len(calls) == 1
                c.prove(f"{base}/inv_quad/one-triangular-solve-of-the-rhs", z3.BoolVal(ok), info=len(calls))
                if not ok:
                    return "ok"
                Y = calls[0]["X"]
                # the leaf solved  L Y = R  for a triangular L with  L L^T = A  (upper=False)  or  L^T ... (upper=True: U^T U = A is solved as U^T Y = R is NOT what torch does;
                # torch.linalg.solve_triangular(U, B, upper=True) solves U Y = B) — so the factor handed to the leaf must satisfy  F F^T = A  in the orientation it is flagged with
                Tm, up = calls[0]["T"], bool(calls[0]["upper"])
                i_, l_ = z3.Int(c.fresh_name("i!lf")), z3.Int(c.fresh_name("l!lf"))
                Fat = lambda r, s_: Tm.at(*SO.bidx(Tm.shape[:-2], b), r, s_)  # noqa
                tri = lambda r, s_: z3.If((s_ >= r) if up else (s_ <= r), Fat(r, s_), z3.RealVal(0))  # noqa  (the triangle torch reads)
                c.prove(f"{base}/inv_quad/leaf-factor F satisfies F F^T = A", z3.Implies(Dm.in_bounds(b + (i_, l_)), SO.sum_term(n, lambda k: tri(i_, k) * tri(l_, k), real) == Dm.at(*b, i_, l_)))
                c.prove(f"{base}/inv_quad/leaf-rhs is R", z3.Implies(R.in_bounds(b + (i_, cc)), calls[0]["B"].at(*SO.bidx(calls[0]["B"].shape[:-2], b), i_, cc) == R.at(*b, i_, cc)))
                col = lambda c_: SO.sum_term(n, lambda i: Y.at(*SO.bidx(Y.shape[:-2], b), i, c_) * Y.at(*SO.bidx(Y.shape[:-2], b), i, c_), real)  # noqa
                how = "sum_i Y^2 with L Y = R (leaf)"
            if reduce_:
                c.prove(f"{base}/inv_quad/value [{how}]", z3.Implies(inb_b, iq.at(*b) == SO.sum_term(p, lambda c_: col(c_), real)))
            else:
                c.prove(f"{base}/inv_quad/value [{how}]", z3.Implies(z3.And(inb_b, cc >= 0, cc < sym.as_z3_int(p)), iq.at(*b, cc) == col(cc)))
        # --- logdet value -----------------------------------------------------------------------------------------------
        if logdet and isinstance(ld, SymTensor) and len(ld.shape) == nb:
            log = sym.uf("log", real, real)
            absf = lambda x: z3.If(x >= 0, x, -x)  # noqa
            if kind == "Identity":
                exp = z3.RealVal(0)
            elif kind in ("Diag", "ConstantDiag"):
                exp = SO.sum_term(n, lambda i: log(Dm.at(*b, i, i)), real)
            elif kind in ("Triangular", "TriangularUpper"):
                exp = SO.sum_term(n, lambda i: log(absf(Dm.at(*b, i, i))), real)
            else:
                Lm = spec.D(op.root) if hasattr(op, "root") else None
                exp = SO.sum_term(n, lambda i: log(Lm.at(*SO.bidx(Lm.shape[:-2], b), i, i) * Lm.at(*SO.bidx(Lm.shape[:-2], b), i, i)), real)  # det A = prod L_ii^2
            if kind in ("Triangular", "TriangularUpper"):
                # the code answers NaN for a negative determinant (odd number of negative diagonal entries): precondition positive diagonal
                pass
            c.prove(f"{base}/logdet/value", z3.Implies(inb_b, ld.at(*b) == exp))
        writes = [e for e in c.events if e[0] == "inplace" and str(e[1]["owner"]).startswith("caller")]
        c.prove(f"{base}/frame", z3.BoolVal(not writes), kind="frame")
        return "ok"

    paths = sym.explore(thunk, max_paths=64, timeout_ms=20000)
    return sh_C03._collect(paths, base, need=("return",), replay={"module": "contracts.sh_C05", "func": "replay", "args": [kind]})


def check_many(items):
    out = []
    for it in items:
        out += check(*it)
    return out


def replay(kind):
    import os
    import sys

    repo = os.environ.get("VERIF_REPO", "/repo")
    if repo not in sys.path:
        sys.path.insert(0, repo)
    import torch

    from linear_operator import operators as LO

    g = torch.Generator().manual_seed(2)
    rn = lambda *s: torch.randn(tuple(s), generator=g, dtype=torch.float64)  # noqa
    fails = []
    for batch in ((), (2,), (1, 2)):
        n, p = 4, 3
        if kind == "Diag":
            op = LO.DiagLinearOperator(rn(*batch, n).abs() + 0.5)
        elif kind == "ConstantDiag":
            op = LO.ConstantDiagLinearOperator(rn(*batch, 1).abs() + 0.5, diag_shape=n)
        elif kind == "Identity":
            op = LO.IdentityLinearOperator(n, batch_shape=torch.Size(batch), dtype=torch.float64)
        elif kind in ("Triangular", "TriangularUpper"):
            Lm = torch.tril(rn(*batch, n, n)) + 3 * torch.eye(n, dtype=torch.float64)
            op = LO.TriangularLinearOperator(Lm.mT if kind == "TriangularUpper" else Lm, upper=kind == "TriangularUpper")
        elif kind in ("CholLower", "CholUpper"):
            Lm = torch.tril(rn(*batch, n, n)) + 3 * torch.eye(n, dtype=torch.float64)
            Lm = Lm * torch.tensor([1.0, -1.0, 1.0, -1.0], dtype=torch.float64)  # a non-canonical factor (negative diagonal entries): L L^T is the same PD matrix
            op = LO.CholLinearOperator(LO.TriangularLinearOperator(Lm.mT if kind == "CholUpper" else Lm, upper=kind == "CholUpper"), upper=kind == "CholUpper")
        else:
            return {"reproduced": False, "detail": "no native family"}
        A = op.to_dense()
        R = rn(*batch, n, p)
        for logdet, red in itertools.product((True, False), repeat=2):
            try:
                iq, ld = op.inv_quad_logdet(R, logdet=logdet, reduce_inv_quad=red)
                e = (R * torch.linalg.solve(A, R)).sum(-2)
                e = e.sum(-1) if red else e
                if iq.shape != e.shape or not torch.allclose(iq, e, atol=1e-8):
                    fails.append(f"{kind} batch={batch} logdet={logdet} reduce={red}: inv_quad {tuple(iq.shape)} differs from the dense value {tuple(e.shape)}")
                if logdet:
                    el = torch.linalg.slogdet(A)[1]
                    if ld.shape != el.shape or not torch.allclose(ld, el, atol=1e-8):
                        fails.append(f"{kind} batch={batch} reduce={red}: logdet differs from the dense value")
                elif ld is not None and ld.numel():
                    fails.append(f"{kind} batch={batch}: logdet slot not empty although logdet=False")
            except Exception as ex:  # noqa
                fails.append(f"{kind} batch={batch} logdet={logdet} reduce={red}: raised {ex!r}"[:200])
    return {"reproduced": bool(fails), "detail": "; ".join(fails[:3]) or "native family shows no deviation"}


def shadow_units(tier):
    us = [conformance_unit(PID)]
    for br in ((1,) if tier == "quick" else (0, 1, 2)):
        for kind in KINDS:
            items = [(kind, br, rk, ld, rd) for rk in ("none", "mat") for ld in (True, False) for rd in (True, False) if not (rk == "none" and not ld)]
            us.append(Unit(f"C05/shadow/{kind}/br={br}", "contracts.sh_C05", "check_many", (items,), engine="shadow", timeout_s=900))
    return us


SH_META = {
    "functions_under_contract": ["DiagLinearOperator.inv_quad_logdet", "IdentityLinearOperator.inv_quad_logdet", "TriangularLinearOperator.inv_quad_logdet (+ solve)", "CholLinearOperator.inv_quad_logdet / inv_quad / logdet"],
    "trusted_base": ["z3", "CPython", "symtorch models", "sum normal form prover", "leaf contract of torch.linalg.solve_triangular (T X = B)", "log as an uninterpreted function"],
    "assumptions": ["floats as reals; diagonal parameters > 0", "for Cholesky operators the value is stated as sum_i Y[i,c]^2 with L Y = R; the identity Y^T Y = R^T (L L^T)^-1 R is a textbook step not re-proved",
                    "vector right-hand sides, the stochastic Lanczos-quadrature path, the dense Cholesky route and the Kronecker / low-rank / block / concatenation / BatchRepeat overrides: bounded tier only"],
}
