"""C06 (proved tier) — closed-form and leaf-based factorizations really factorize the operator, for all sizes and entries.

For every class whose factorization is computed without an iterative numerical routine (diagonal family, identity, root /
low-rank-root operators, Cholesky operators, triangular operators, constant multiples and batch repeats of those) and for
dense-backed operators relative to the leaf contract of ``torch.linalg.cholesky_ex`` (PD case: L lower triangular, L L^T = A;
the jitter loop around it is C16), the REAL methods are executed on symbolic tensors and the obligations are, entry-wise:
   cholesky(upper=u)            result flagged / shaped as triangular with orientation u,  L L^T == D   (R^T R == D for upper)
   root_decomposition()          R R^T == D
   root_inv_decomposition()      (R R^T) D == I
   eigh / _symeig                Q diag(w) Q^T == D,  Q^T Q == I      (diagonal family, identity)
   svd                           U diag(S) V^T == D,  S >= 0,  U^T U == V^T V == I
D is the spec matrix of contracts/spec.py.  Positive (semi-)definiteness of the inputs is a precondition where the method
needs it (diagonal entries > 0).  Kronecker / block structured products of factors, Lanczos / pivoted-Cholesky / symeig /
svd based roots of general operators are bounded-tier only."""
from __future__ import annotations

import z3

from engine import sym
from engine.common import DISCHARGED, REFUTED, UNKNOWN, Unit, conformance_unit, ob

PID = "C06"
KINDS = ["Diag", "ConstantDiag", "Identity", "Root", "CholLower", "CholUpper", "Dense", "ConstantMulRoot", "BatchRepeatDiag"]
METHODS = ["cholesky", "cholesky_upper", "root_decomposition", "symeig", "svd"]  # (root_inv_decomposition goes through triangular solves: inverse reasoning, bounded tier)
# (kind, method) cells outside the closed-form / leaf scope
SKIP = {("Root", "cholesky"), ("Root", "cholesky_upper"), ("Root", "root_inv_decomposition"), ("Root", "symeig"), ("Root", "svd"),
        ("CholLower", "symeig"), ("CholLower", "svd"), ("CholUpper", "symeig"), ("CholUpper", "svd"),
        ("Dense", "symeig"), ("Dense", "svd"), ("Dense", "root_inv_decomposition"),
        ("ConstantMulRoot", "cholesky"), ("ConstantMulRoot", "cholesky_upper"), ("ConstantMulRoot", "root_inv_decomposition"), ("ConstantMulRoot", "symeig"), ("ConstantMulRoot", "svd"),
        ("BatchRepeatDiag", "symeig"), ("BatchRepeatDiag", "svd"), ("BatchRepeatDiag", "root_decomposition")}


def _build(kind, br):
    from contracts import sh_C03
    from engine import symtensor as T
    from engine.symtensor import SymTensor
    from linear_operator import operators as LO

    if kind == "ConstantMulRoot":
        bs = tuple(sym.sym_int(f"B{t}", 1) for t in range(br))
        R = SymTensor.fresh("R", bs + (sym.sym_int("n", 1), sym.sym_int("k", 1)), T.float64)
        cst = SymTensor.fresh("cst", bs, T.float64, constraint=lambda i, v: v > 0)
        return LO.ConstantMulLinearOperator(LO.RootLinearOperator(R), cst)
    if kind == "BatchRepeatDiag":
        d = SymTensor.fresh("d", (sym.sym_int("n", 1),), T.float64)
        return LO.BatchRepeatLinearOperator(LO.DiagLinearOperator(d), batch_repeat=T.Size(tuple(sym.sym_int(f"B{t}", 1) for t in range(max(br, 1)))))
    if kind == "Dense":  # positive definite => positive diagonal (the only consequence of definiteness the 1 x 1 shortcut needs; the rest is in the leaf contract)
        bs = tuple(sym.sym_int(f"B{t}", 1) for t in range(br))
        n = sym.sym_int("n", 1)
        A = SymTensor.fresh("A", bs + (n, n), T.float64, constraint=lambda idx, v: z3.Implies(idx[-1] == idx[-2], v > 0))
        return LO.DenseLinearOperator(A)
    return sh_C03.build(kind, br)


def _positive_diag(op):
    """precondition: the diagonal parameters of the diagonal family are > 0 (encoded on reads of the leaf)"""
    from linear_operator.operators import LinearOperator

    def walk(o, depth=0):
        if depth > 5:
            return
        if type(o).__name__ in ("DiagLinearOperator", "ConstantDiagLinearOperator"):
            t = o._args[0]
            st = t.storage
            if not getattr(st, "_pos_inv", False):
                old = st.elem

                def elem(idx, old=old):
                    v = old(idx)
                    sym.ctx().add_axiom(v > 0)
                    return v
                st.elem = elem
                st._pos_inv = True
        for a in o._args:
            if isinstance(a, LinearOperator):
                walk(a, depth + 1)
    walk(op)


def check(kind, br, method):
    from contracts import sh_C03, sh_C04, spec
    from engine import shadow, symops as SO, symtensor as T
    from engine.symtensor import SymTensor

    sh_C03._env()
    torch = shadow.torch()
    from linear_operator.operators import LinearOperator

    base = f"C06/{kind}.{method}/batchrank={br}"
    real = z3.RealSort()

    def thunk():
        c = sym.ctx()
        state = {"leaves": []}
        sh_C04._install_leaves(torch, state)
        op = _build(kind, br)
        _positive_diag(op)
        spec.install_repr_invariants(op)
        Dm = spec.D(op)
        c.assume(Dm.shape[-1] == Dm.shape[-2])
        n = Dm.shape[-1]
        if kind == "Dense":  # the Cholesky route (n <= max_cholesky_size); above it the root is a Lanczos root (C09, bounded tier)
            from linear_operator import settings

            c.assume(n <= settings.max_cholesky_size.value())
        nb = len(Dm.shape) - 2
        b = tuple(z3.Int(c.fresh_name(f"b{t}!f")) for t in range(nb))
        i, l = z3.Int(c.fresh_name("i!f")), z3.Int(c.fresh_name("l!f"))
        inb = Dm.in_bounds(b + (i, l))

        def inst():  # instantiate the leaf facts registered by the call at the skolem indices of the goals
            for nbk in range(0, nb + 1):
                for pair in ((i, l), (l, i), (i, i), (l, l)):
                    sym.instantiate_universals(b[nb - nbk:] + pair, key="leaf:bij")

        def dense_of(x):
            return spec.D(x) if isinstance(x, LinearOperator) else x

        def bat(Xd):  # index the factor's batch dims with the operator's batch index (broadcast)
            return lambda r, cc: Xd.at(*SO.bidx(Xd.shape[:-2], b), r, cc)

        def same_batch(Xd, name):
            okb = len(Xd.shape) == len(Dm.shape)
            c.prove(f"{base}/{name}/batch-shape", z3.And(z3.BoolVal(okb), *[sym.as_z3_int(p) == sym.as_z3_int(q) for p, q in zip(Xd.shape[:-2], Dm.shape[:-2])]) if okb else z3.BoolVal(False), info=f"{Xd.shape} vs {Dm.shape}")
            return okb

        if method in ("cholesky", "cholesky_upper"):
            upper = method == "cholesky_upper"
            L = op.cholesky(upper=upper)
            inst()
            spec.repr_invariant_goals(c, base, L)
            c.prove(f"{base}/flagged-orientation", z3.BoolVal(bool(getattr(L, "upper", upper)) == upper), info=f"upper={getattr(L, 'upper', None)}")
            Ld = dense_of(L)
            if not same_batch(Ld, "factor"):
                return "ok"
            c.prove(f"{base}/factor/square", z3.And(sym.as_z3_int(Ld.shape[-1]) == sym.as_z3_int(n), sym.as_z3_int(Ld.shape[-2]) == sym.as_z3_int(n)))
            F = bat(Ld)
            # triangular in the requested orientation (value level)
            wrong = (i > l) if upper else (l > i)
            c.prove(f"{base}/factor/triangular", z3.Implies(z3.And(inb, wrong), F(i, l) == 0))
            prod = SO.sum_term(n, (lambda k: F(k, i) * F(k, l)) if upper else (lambda k: F(i, k) * F(l, k)), real)
            c.prove(f"{base}/{'R^T R' if upper else 'L L^T'} == A", z3.Implies(inb, prod == Dm.at(*b, i, l)), info={"leaves": sorted(set(state["leaves"]))})
        elif method == "root_decomposition":
            R = op.root_decomposition().root
            inst()
            Rd = dense_of(R)
            if not same_batch(Rd, "root"):
                return "ok"
            c.prove(f"{base}/root/rows", sym.as_z3_int(Rd.shape[-2]) == sym.as_z3_int(n))
            F = bat(Rd)
            c.prove(f"{base}/R R^T == A", z3.Implies(inb, SO.sum_term(Rd.shape[-1], lambda k: F(i, k) * F(l, k), real) == Dm.at(*b, i, l)), info={"leaves": sorted(set(state["leaves"]))})
        elif method == "root_inv_decomposition":
            R = op.root_inv_decomposition().root
            inst()
            Rd = dense_of(R)
            if not same_batch(Rd, "root"):
                return "ok"
            c.prove(f"{base}/root/rows", sym.as_z3_int(Rd.shape[-2]) == sym.as_z3_int(n))
            F = bat(Rd)
            rrT = lambda r, m: SO.sum_term(Rd.shape[-1], lambda k: F(r, k) * F(m, k), real)  # noqa
            c.prove(f"{base}/(R R^T) A == I", z3.Implies(inb, SO.sum_term(n, lambda m: rrT(i, m) * Dm.at(*b, m, l), real) == z3.If(i == l, z3.RealVal(1), z3.RealVal(0))), info={"leaves": sorted(set(state["leaves"]))})
        elif method == "symeig":
            w, Q = op._symeig(eigenvectors=True)
            inst()
            Qd = dense_of(Q)
            if not same_batch(Qd, "Q"):
                return "ok"
            F = bat(Qd)
            wat = lambda k: w.at(*SO.bidx(w.shape[:-1], b), k)  # noqa
            m = Qd.shape[-1]
            c.prove(f"{base}/Q diag(w) Q^T == A", z3.Implies(inb, SO.sum_term(m, lambda k: F(i, k) * wat(k) * F(l, k), real) == Dm.at(*b, i, l)))
            c.prove(f"{base}/Q^T Q == I", z3.Implies(z3.And(inb, i < sym.as_z3_int(m), l < sym.as_z3_int(m)), SO.sum_term(n, lambda k: F(k, i) * F(k, l), real) == z3.If(i == l, z3.RealVal(1), z3.RealVal(0))))
        elif method == "svd":
            U, S, V = op.svd()
            inst()
            Ud, Vd = dense_of(U), dense_of(V)
            if not (same_batch(Ud, "U") and same_batch(Vd, "V")):
                return "ok"
            FU, FV = bat(Ud), bat(Vd)
            sat = lambda k: S.at(*SO.bidx(S.shape[:-1], b), k)  # noqa
            m = Ud.shape[-1]
            c.prove(f"{base}/U diag(S) V^T == A", z3.Implies(inb, SO.sum_term(m, lambda k: FU(i, k) * sat(k) * FV(l, k), real) == Dm.at(*b, i, l)))
            c.prove(f"{base}/S >= 0", z3.Implies(z3.And(inb, i < sym.as_z3_int(m)), sat(i) >= 0))
            inm = z3.And(inb, i < sym.as_z3_int(m), l < sym.as_z3_int(m))
            c.prove(f"{base}/U^T U == I", z3.Implies(inm, SO.sum_term(n, lambda k: FU(k, i) * FU(k, l), real) == z3.If(i == l, z3.RealVal(1), z3.RealVal(0))))
            c.prove(f"{base}/V^T V == I", z3.Implies(inm, SO.sum_term(n, lambda k: FV(k, i) * FV(k, l), real) == z3.If(i == l, z3.RealVal(1), z3.RealVal(0))))
        writes = [e for e in c.events if e[0] == "inplace" and str(e[1]["owner"]).startswith("caller")]
        c.prove(f"{base}/frame", z3.BoolVal(not writes), kind="frame", info=[e[1] for e in writes][:3])
        return "ok"

    paths = sym.explore(thunk, max_paths=64, timeout_ms=30000)
    return sh_C03._collect(paths, base, need=("return",), replay={"module": "contracts.sh_C06", "func": "replay", "args": [kind, method]})


def check_many(items):
    out = []
    for it in items:
        out += check(*it)
    return out


def replay(kind, method):
    """native: the same factorization on concrete instances of the class against the dense matrix"""
    import os
    import sys

    repo = os.environ.get("VERIF_REPO", "/repo")
    if repo not in sys.path:
        sys.path.insert(0, repo)
    import torch

    from linear_operator import operators as LO

    g = torch.Generator().manual_seed(1)
    rn = lambda *s: torch.randn(tuple(s), generator=g, dtype=torch.float64)  # noqa
    fails = []
    for batch in ((), (2,), (1, 2)):
        n = 4
        if kind == "Diag":
            op = LO.DiagLinearOperator(rn(*batch, n).abs() + 0.5)
        elif kind == "ConstantDiag":
            op = LO.ConstantDiagLinearOperator(rn(*batch, 1).abs() + 0.5, diag_shape=n)
        elif kind == "Identity":
            op = LO.IdentityLinearOperator(n, batch_shape=torch.Size(batch), dtype=torch.float64)
        elif kind == "Root":
            op = LO.RootLinearOperator(rn(*batch, n, 2))
        elif kind in ("CholLower", "CholUpper"):
            Lm = torch.tril(rn(*batch, n, n)) + 3 * torch.eye(n, dtype=torch.float64)
            op = LO.CholLinearOperator(LO.TriangularLinearOperator(Lm.mT if kind == "CholUpper" else Lm, upper=kind == "CholUpper"), upper=kind == "CholUpper")
        elif kind == "Dense":
            M = rn(*batch, n, n)
            op = LO.DenseLinearOperator(M @ M.mT + n * torch.eye(n, dtype=torch.float64))
        elif kind == "ConstantMulRoot":
            op = LO.ConstantMulLinearOperator(LO.RootLinearOperator(rn(*batch, n, 2)), rn(*batch).abs() + 0.5)
        elif kind == "BatchRepeatDiag":
            op = LO.BatchRepeatLinearOperator(LO.DiagLinearOperator(rn(n).abs() + 0.5), batch_repeat=torch.Size(batch or (1,)))
        else:
            return {"reproduced": False, "detail": "no native family"}
        A = op.to_dense()
        eye = torch.eye(n, dtype=torch.float64)
        try:
            if method.startswith("cholesky"):
                up = method.endswith("upper")
                L = op.cholesky(upper=up).to_dense()
                ok = torch.allclose((L.mT @ L) if up else (L @ L.mT), A, atol=1e-8) and torch.equal(L, torch.triu(L) if up else torch.tril(L)) and L.shape == A.shape
            elif method == "root_decomposition":
                R = op.root_decomposition().root.to_dense()
                ok = R.shape[:-1] == A.shape[:-1] and torch.allclose(R @ R.mT, A, atol=1e-8)
            elif method == "root_inv_decomposition":
                R = op.root_inv_decomposition().root.to_dense()
                ok = R.shape[:-1] == A.shape[:-1] and torch.allclose(R @ R.mT @ A, eye.expand_as(A), atol=1e-6)
            elif method == "symeig":
                w, Q = op._symeig(eigenvectors=True)
                Q = Q.to_dense()
                ok = torch.allclose((Q * w.unsqueeze(-2)) @ Q.mT, A, atol=1e-8) and torch.allclose(Q.mT @ Q, eye.expand(*Q.shape[:-2], n, n), atol=1e-8)
            else:
                U, S, V = op.svd()
                U, V = U.to_dense(), V.to_dense()
                ok = torch.allclose((U * S.unsqueeze(-2)) @ V.mT, A, atol=1e-8) and bool((S >= 0).all()) and torch.allclose(U.mT @ U, eye.expand(*U.shape[:-2], n, n), atol=1e-8)
            if not ok:
                fails.append(f"{kind} batch={batch}: {method} does not reproduce the dense matrix")
        except Exception as e:  # noqa
            fails.append(f"{kind} batch={batch}: {method} raised {e!r}"[:200])
    return {"reproduced": bool(fails), "detail": "; ".join(fails[:3]) or "native family shows no deviation"}


def cells():
    return [(k, m) for k in KINDS for m in METHODS if (k, m) not in SKIP]


def shadow_units(tier):
    us = [conformance_unit(PID)]
    cs = cells()
    for br in ((1,) if tier == "quick" else (0, 1, 2)):
        for i in range(0, len(cs), 3):
            us.append(Unit(f"C06/shadow/[{','.join(k + '.' + m for k, m in cs[i:i + 3])}]/br={br}", "contracts.sh_C06", "check_many", ([(k, br, m) for k, m in cs[i:i + 3]],), engine="shadow", timeout_s=900))
    return us


SH_META = {
    "functions_under_contract": ["DiagLinearOperator / ConstantDiagLinearOperator / IdentityLinearOperator: _cholesky, _root_decomposition, _root_inv_decomposition, _symeig, _svd",
                                 "RootLinearOperator.root_decomposition", "CholLinearOperator._cholesky / root_decomposition / root_inv_decomposition", "ConstantMulLinearOperator.root_decomposition",
                                 "BatchRepeatLinearOperator._cholesky / _root_decomposition / _root_inv_decomposition", "LinearOperator.cholesky / _cholesky / root_decomposition (dense-backed, relative to the cholesky_ex leaf)",
                                 "TriangularLinearOperator (orientation flag of every returned factor)"],
    "trusted_base": ["z3", "CPython", "symtorch models", "sum normal form prover", "leaf contract of torch.linalg.cholesky_ex (PD case: lower triangular L with L L^T = A; the jitter loop is C16)", "real sqrt as an uninterpreted function with sqrt(x)^2 = x, sqrt(x) >= 0 for x >= 0"],
    "assumptions": ["floats as reals", "diagonal parameters > 0 (positive definite inputs)", "Kronecker / block / sum-of-Kronecker products of factors and every Lanczos / pivoted Cholesky / eigh / svd based factorization of general operators: bounded tier only"],
}
