"""C07 (proved tier) — hand-written derivatives of the bilinear form, and positional alignment of backward.

For an operator K(theta) whose spec matrix D(theta) is MULTILINEAR in its floating leaf tensors (Dense, Diag,
ConstantDiag, Sum, AddedDiag, ConstantMul, Matmul, BlockDiag, SumBatch), the derivative of
      F(theta) = sum_c sum_{b,i,j} U[b,i,c] * D(theta)[b,i,j] * V[b,j,c]
with respect to entry q of leaf p is F[leaf_p := indicator(q)] - F[leaf_p := 0]
(exact for a form that is affine in that leaf, which multilinear-plus-sum structure guarantees).  Contract of the REAL ``_bilinear_derivative(U, V)``:
      len(result) == len(representation())                      (one entry per leaf, in representation order)
      result[p] is None  or  shape(result[p]) == shape(leaf p)  (broadcast parameters are summed back)
      result[p][q] == F[leaf_p := indicator(q)] - F[leaf_p := 0]  for every in-range q  (entry-wise, all sizes)
The right-hand side is built from the spec matrix by z3 function substitution (no autograd involved) and the
equality is discharged by the sum prover.  ``Matmul.backward`` is checked for arity, None prefix and shapes."""
from __future__ import annotations

import z3

from engine import sym
from engine.common import DISCHARGED, REFUTED, UNKNOWN, Unit, conformance_unit, ob

PID = "C07"
KINDS = ["Dense", "Diag", "ConstantDiag", "Sum", "AddedDiag", "ConstantMul", "Matmul", "SumBatch", "ConstantMul_bc", "ConstantMul_lead", "Sum_bc", "AddedDiag_bc", "Matmul_bc"]


def check_bilinear(kind, br):
    from contracts import sh_C03, spec
    from engine import symops as SO, symtensor as T
    from engine.symtensor import SymTensor

    sh_C03._env()
    base = f"C07/{kind}._bilinear_derivative/batchrank={br}"

    def thunk():
        c = sym.ctx()
        op = sh_C03.build(kind, br)
        leaves = op.representation()
        for l in leaves:
            if l.dtype.kind == "f":
                l.requires_grad = True
        Dm = spec.D(op)
        bs = tuple(Dm.shape[:-2])
        m, n = Dm.shape[-2], Dm.shape[-1]
        cols = sym.sym_int("cols", 1)
        U = SymTensor.fresh("U", bs + (m, cols), T.float64)
        V = SymTensor.fresh("V", bs + (n, cols), T.float64)
        res = op._bilinear_derivative(U, V)
        c.prove(f"{base}/arity", z3.BoolVal(isinstance(res, tuple) and len(res) == len(leaves)), info=f"{len(res) if isinstance(res, tuple) else type(res).__name__} vs {len(leaves)} leaves")
        if not isinstance(res, tuple) or len(res) != len(leaves):
            return "ok"
        real = z3.RealSort()
        for pidx, (g, leaf) in enumerate(zip(res, leaves)):
            nm = f"{base}/leaf{pidx}({leaf.storage.label})"
            if g is None:
                c.prove(f"{nm}/present", z3.BoolVal(leaf.dtype.kind != "f"), info="derivative missing for a floating leaf that requires grad")
                continue
            c.prove(f"{nm}/shape", z3.And(z3.BoolVal(len(g.shape) == len(leaf.shape)), *[sym.as_z3_int(a) == sym.as_z3_int(b) for a, b in zip(g.shape, leaf.shape)]) if len(g.shape) == len(leaf.shape) else z3.BoolVal(False),
                    info=f"{g.shape} vs {leaf.shape}")
            if len(g.shape) != len(leaf.shape):
                continue
            fun = leaf.storage.fun
            if fun.arity() != len(leaf.shape):
                continue  # the constructor replaced the parameter by an expanded view: autograd differentiates the view entry-wise (not modelled)
            q = tuple(z3.Int(c.fresh_name(f"q{t}!bd")) for t in range(len(leaf.shape)))
            ind = z3.If(z3.And(*[z3.Var(t, z3.IntSort()) == q[t] for t in range(len(q))]) if q else z3.BoolVal(True), z3.RealVal(1), z3.RealVal(0))

            def F():
                # sum over batch dims, rows, cols, columns of U/V — nested SumOver terms
                dims = list(bs) + [m, n, cols]

                def rec(k, idx):
                    if k == len(dims):
                        b, i, j, cc = tuple(idx[:len(bs)]), idx[len(bs)], idx[len(bs) + 1], idx[len(bs) + 2]
                        return U.at(*b, i, cc) * Dm.at(*b, i, j) * V.at(*b, j, cc)
                    return SO.sum_term(dims[k], lambda t: rec(k + 1, idx + [t]), real)
                return rec(0, [])
            form = F()
            zero = z3.RealVal(0)
            expected = z3.substitute_funs(form, (fun, ind)) - z3.substitute_funs(form, (fun, zero))  # exact for forms affine in this leaf
            c.prove(f"{nm}/value", z3.Implies(leaf.in_bounds(q), g.at(*q) == expected))
        writes = [e for e in c.events if e[0] == "inplace" and str(e[1]["owner"]).startswith("caller")]
        c.prove(f"{base}/frame", z3.BoolVal(not writes), kind="frame")
        return "ok"

    paths = sym.explore(thunk, max_paths=64, timeout_ms=60000)
    return sh_C03._collect(paths, base, need=("return",), replay={"module": "contracts.sh_C07", "func": "replay", "args": [kind]})


def check_matmul_backward(kind, br, rhs_kind):
    """Matmul.backward: one entry per forward input (tree, rhs, *representation), None for the tree, shapes aligned"""
    from contracts import sh_C03, spec
    from engine import symops as SO, symtensor as T
    from engine.symtensor import SymTensor

    sh_C03._env()
    from linear_operator.functions._matmul import Matmul

    base = f"C07/Matmul.backward/{kind}/batchrank={br}/rhs={rhs_kind}"

    def thunk():
        c = sym.ctx()
        op = sh_C03.build(kind, br)
        leaves = op.representation()
        for l in leaves:
            if l.dtype.kind == "f":
                l.requires_grad = True
        Dm = spec.D(op)
        n = Dm.shape[-1]
        X = SymTensor.fresh("X", (n,) if rhs_kind == "vec" else tuple(Dm.shape[:-2]) + (n, sym.sym_int("p", 1)), T.float64)
        X.requires_grad = True
        n0 = len(c.events)
        out = op.matmul(X)
        app = [e[1] for e in c.events[n0:] if e[0] == "autograd_apply" and e[1][0] is Matmul]
        c.prove(f"{base}/forward-goes-through-Matmul", z3.BoolVal(len(app) == 1))
        if len(app) != 1:
            return "ok"
        cls, ctxo, args, _ = app[0]
        G = SymTensor.fresh("G", out.shape, T.float64)
        res = Matmul.backward(ctxo, G)
        c.prove(f"{base}/arity", z3.BoolVal(isinstance(res, tuple) and len(res) == len(args)), info=f"{len(res)} vs {len(args)} forward inputs")
        if not isinstance(res, tuple) or len(res) != len(args):
            return "ok"
        c.prove(f"{base}/tree-slot-is-None", z3.BoolVal(res[0] is None))
        for k, (g, a) in enumerate(zip(res[1:], args[1:])):
            if g is None:
                continue
            ok = len(g.shape) == len(a.shape)
            c.prove(f"{base}/slot{k + 1}/shape", z3.And(z3.BoolVal(ok), *[sym.as_z3_int(p_) == sym.as_z3_int(q_) for p_, q_ in zip(g.shape, a.shape)]) if ok else z3.BoolVal(False), info=f"{g.shape} vs {a.shape}")
        c.prove(f"{base}/rhs-gradient-present", z3.BoolVal(res[1] is not None))
        # values: every slot is the derivative of  <G, D(theta) X>  with respect to the forward input in that slot
        real = z3.RealSort()
        bs = tuple(Dm.shape[:-2])
        m = Dm.shape[-2]
        vec = rhs_kind == "vec"
        dims = list(bs) + [m, n] + ([] if vec else [X.shape[-1]])

        def form(xat):
            def rec(k, idx):
                if k == len(dims):
                    b, i, j = tuple(idx[:len(bs)]), idx[len(bs)], idx[len(bs) + 1]
                    return (G.at(*b, i) * Dm.at(*b, i, j) * xat((), j, None)) if vec else (G.at(*b, i, idx[-1]) * Dm.at(*b, i, j) * xat(b, j, idx[-1]))
                return SO.sum_term(dims[k], lambda t: rec(k + 1, idx + [t]), real)
            return rec(0, [])
        F = form(lambda b, j, cc: X.at(j) if vec else X.at(*b, j, cc))
        slots = [(1, X)] + [(k + 2, l) for k, l in enumerate(leaves)]
        for k, a in slots:
            g = res[k]
            if g is None or a.dtype.kind != "f" or len(g.shape) != len(a.shape):
                continue
            q = tuple(z3.Int(c.fresh_name(f"q{t}!bw")) for t in range(len(a.shape)))
            ind = z3.If(z3.And(*[z3.Var(t, z3.IntSort()) == q[t] for t in range(len(q))]), z3.RealVal(1), z3.RealVal(0))
            fun = a.storage.fun
            expected = z3.substitute_funs(F, (fun, ind)) - z3.substitute_funs(F, (fun, z3.RealVal(0)))
            c.prove(f"{base}/slot{k}({a.storage.label})/value", z3.Implies(a.in_bounds(q), g.at(*q) == expected))
        return "ok"

    paths = sym.explore(thunk, max_paths=64, timeout_ms=30000)
    return sh_C03._collect(paths, base, need=("return",), replay={"module": "contracts.sh_C07", "func": "replay_backward", "args": [kind, rhs_kind]})


def replay_backward(kind, rhs_kind):
    """native: gradients of op.matmul(X) (through functions/_matmul.py::Matmul) against autograd of the dense product"""
    return replay(kind, backward=rhs_kind)


def replay(kind, backward=None):
    """native: _bilinear_derivative against autograd of the dense form on concrete instances"""
    import os
    import sys

    repo = os.environ.get("VERIF_REPO", "/repo")
    if repo not in sys.path:
        sys.path.insert(0, repo)
    import torch

    from linear_operator import operators as LO

    g = torch.Generator().manual_seed(0)
    rn = lambda *s: torch.randn(tuple(s), generator=g, dtype=torch.float64)  # noqa
    fails = []
    base_kind = kind.split("_")[0]
    for batch in ((), (2,), (2, 3)):
        n = 3
        if "_" in kind and len(batch) < 1:
            continue
        if kind == "ConstantMul_bc":
            leaves = [rn(*batch, n, n), rn(*batch[:-1], 1)]; mk = lambda a, c_: LO.ConstantMulLinearOperator(LO.DenseLinearOperator(a), c_); dn = lambda a, c_: a * c_[..., None, None]  # noqa
        elif kind == "ConstantMul_lead":
            leaves = [rn(*batch, n, n), rn(*batch[1:])]; mk = lambda a, c_: LO.ConstantMulLinearOperator(LO.DenseLinearOperator(a), c_); dn = lambda a, c_: a * c_[..., None, None]  # noqa
        elif kind == "Sum_bc":
            leaves = [rn(*batch, n, n), rn(n, n)]; mk = lambda a, b: LO.SumLinearOperator(LO.DenseLinearOperator(a), LO.DenseLinearOperator(b)); dn = lambda a, b: a + b  # noqa
        elif kind == "AddedDiag_bc":
            leaves = [rn(*batch, n, n), rn(n)]; mk = lambda a, d: LO.AddedDiagLinearOperator(LO.DenseLinearOperator(a), LO.DiagLinearOperator(d)); dn = lambda a, d: a + torch.diag_embed(d)  # noqa
        elif kind == "Matmul_bc":
            leaves = [rn(n, 2), rn(*batch, 2, n)]; mk = lambda a, b: LO.MatmulLinearOperator(LO.DenseLinearOperator(a), LO.DenseLinearOperator(b)); dn = lambda a, b: a @ b  # noqa
        elif kind == "SumBatch":
            if not batch:
                continue
            leaves = [rn(*batch, n, n)]; mk = lambda a: LO.SumBatchLinearOperator(LO.DenseLinearOperator(a)); dn = lambda a: a.sum(-3)  # noqa
        elif kind == "Dense":
            leaves = [rn(*batch, n, n + 1)]; mk = lambda a: LO.DenseLinearOperator(a); dn = lambda a: a  # noqa
        elif kind == "Diag":
            leaves = [rn(*batch, n)]; mk = lambda d: LO.DiagLinearOperator(d); dn = lambda d: torch.diag_embed(d)  # noqa
        elif kind == "ConstantDiag":
            leaves = [rn(*batch, 1)]; mk = lambda v: LO.ConstantDiagLinearOperator(v, diag_shape=n); dn = lambda v: torch.diag_embed(v.expand(*batch, n))  # noqa
        elif kind == "Sum":
            leaves = [rn(*batch, n, n), rn(*batch, n, n)]; mk = lambda a, b: LO.SumLinearOperator(LO.DenseLinearOperator(a), LO.DenseLinearOperator(b)); dn = lambda a, b: a + b  # noqa
        elif kind == "AddedDiag":
            leaves = [rn(*batch, n, n), rn(*batch, n)]; mk = lambda a, d: LO.AddedDiagLinearOperator(LO.DenseLinearOperator(a), LO.DiagLinearOperator(d)); dn = lambda a, d: a + torch.diag_embed(d)  # noqa
        elif kind == "ConstantMul":
            leaves = [rn(*batch, n, n), rn(*batch)]; mk = lambda a, c_: LO.ConstantMulLinearOperator(LO.DenseLinearOperator(a), c_); dn = lambda a, c_: a * c_[..., None, None]  # noqa
        elif kind == "Matmul":
            leaves = [rn(*batch, n, 2), rn(*batch, 2, n)]; mk = lambda a, b: LO.MatmulLinearOperator(LO.DenseLinearOperator(a), LO.DenseLinearOperator(b)); dn = lambda a, b: a @ b  # noqa
        else:
            return {"reproduced": False, "detail": "no native family for this class"}
        leaves = [l.requires_grad_(True) for l in leaves]
        op = mk(*leaves)
        m_, n_ = op.shape[-2:]
        U, V = rn(*op.batch_shape, m_, 2), rn(*op.batch_shape, n_, 2)
        if backward:
            X = (rn(n_) if backward == "vec" else rn(*op.batch_shape, n_, 2)).requires_grad_(True)
            try:
                W = rn(*op.batch_shape, m_) if backward == "vec" else rn(*op.batch_shape, m_, 2)
                got = torch.autograd.grad((op.matmul(X) * W).sum(), [X] + leaves)
                want = torch.autograd.grad(((dn(*leaves) @ X) * W).sum(), [X] + leaves)
                for k, (a, b) in enumerate(zip(got, want)):
                    if a.shape != b.shape or not torch.allclose(a, b, atol=1e-9):
                        fails.append(f"{kind} batch={batch} rhs={backward}: gradient of input {k} of matmul differs from autograd of the dense product")
            except Exception as e:  # noqa
                fails.append(f"{kind} batch={batch} rhs={backward}: raised {e!r}"[:200])
            continue
        try:
            got = op._bilinear_derivative(U, V)
            want = torch.autograd.grad((U * (dn(*leaves) @ V)).sum(), leaves)
            got = tuple(g_.sum_to_size(w_.shape) if g_ is not None and g_.shape != w_.shape and g_.dim() >= w_.dim() and "_bc" in kind and kind != "ConstantMul_bc" else g_ for g_, w_ in zip(got, want)) if len(got) == len(want) else got
            if len(got) != len(want):
                fails.append(f"{kind} batch={batch}: {len(got)} derivatives for {len(want)} leaves")
            else:
                for k, (a, b) in enumerate(zip(got, want)):
                    if a is None or a.shape != b.shape or not torch.allclose(a, b, atol=1e-9):
                        fails.append(f"{kind} batch={batch}: derivative {k} differs from autograd of the dense form")
        except Exception as e:  # noqa
            fails.append(f"{kind} batch={batch}: raised {e!r}"[:200])
    return {"reproduced": bool(fails), "detail": "; ".join(fails[:3]) or "native run shows no deviation"}


def shadow_units(tier):
    us = [conformance_unit(PID)]
    for kind in KINDS:
        for br in ((1, 2) if "_" in kind else (0, 1)) if tier == "quick" else (0, 1, 2):
            us.append(Unit(f"C07/shadow/_bilinear_derivative/{kind}/br={br}", "contracts.sh_C07", "check_bilinear", (kind, br), engine="shadow", timeout_s=900))
    for kind in ("Dense", "Sum", "ConstantMul", "Matmul", "AddedDiag", "SumBatch"):
        for br in (0, 1):
            for rk in ("vec", "mat"):
                us.append(Unit(f"C07/shadow/Matmul.backward/{kind}/br={br}/{rk}", "contracts.sh_C07", "check_matmul_backward", (kind, br, rk), engine="shadow", timeout_s=600))
    return us


SH_META = {
    "functions_under_contract": [f"{k}LinearOperator._bilinear_derivative" for k in KINDS] + ["functions/_matmul.py::Matmul.backward (arity / alignment)", "LinearOperator.representation (ordering)"],
    "trusted_base": ["z3 (substitute_funs for the symbolic derivative of a multilinear form)", "CPython", "symtorch models", "sum normal form prover"],
    "assumptions": ["the derivative of a form that is linear in a leaf equals the form with that leaf replaced by an indicator (exact; the classes under contract are multilinear in their leaves)",
                    "classes using the default autograd-based derivative, Toeplitz (FFT), Interpolated, Kronecker, Mul, BatchRepeat, Masked and all other backward functions: bounded tier"],
}
