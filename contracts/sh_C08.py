"""C08 (proved tier) — linear_cg: the iteration keeps the TRUE residual, and a silent finish means the tolerance was met.

The real ``utils/linear_cg.py::linear_cg`` is executed symbolically (shadow torch) with its main loop cut at an inductive
invariant (LOOPCUT), for a symbolic n x n matrix A (any real matrix: symmetry / definiteness are not needed for what is
proved here), a symbolic n x p right-hand side, symbolic tolerance / eps / stop_updating_after / iteration limits and
with or without a (symbolic, linear) preconditioner.  Reals stand for floats.

Loop invariant (head of every iteration, all i, c):
      residual[i, c]  ==  bhat[i, c] - sum_j A[i, j] * result[j, c]             bhat = rhs / rhs_norm  (the code's own scaling)
Step obligation (one execution of the real body):
      result' = result + a d,  residual' = residual - a (A d)  point-wise for the step size a the body computed, and
      has_converged[c] at the head of the iteration  ==>  a[c] = 0, i.e. result[:, c] is not changed              (frozen columns)
Postconditions of the call (X the returned tensor, r the residual the loop ended with):
      shape / dtype of X are those of rhs;   rhs, A and the initial guess are not written
      rhs[i, c] - sum_j A[i, j] X[j, c]  ==  rhs_norm[c] * r[i, c]                                        (X's TRUE residual)
      a column is masked as a zero column  <=>  its norm is below eps
      no NumericalWarning  ==>  mean_c m_c * ||r[:, c]||  <  tolerance     (m_c = 0 for zero columns)     (silent finish => tolerance met)
                                or the loop was skipped because every column was below stop_updating_after at the start
      the loop ends without reaching the tolerance (budget n_iter > 0 used up, for either value of terminate_cg_by_size)  ==>  a NumericalWarning is emitted
      inconsistent limits (max_tridiag_iter > max_iter) raise; nothing else raises
What is NOT proved here (bounded tier only): the convergence RATE (Chebyshev bound, monotone A-norm error), the Lanczos
tridiagonal matrices, behaviour under rounding (accuracy floors), NaN handling of real floats."""
from __future__ import annotations

import warnings as _pywarnings

import z3

from engine import sym
from engine.common import DISCHARGED, REFUTED, UNKNOWN, Unit, conformance_unit, ob

PID = "C08"
FN = "linear_cg"


def _setup():
    from contracts import sh_C03

    sh_C03._env()
    from engine import shadow
    import importlib

    lcg = importlib.import_module("linear_operator.utils.linear_cg")  # (the package re-exports the function under the module's name)
    return lcg, shadow.torch()


def _run(br: int, precond: bool, with_guess: bool, shard=None, cover_only=False):
    lcg, torch = _setup()
    from engine import loopcut, symops as O, symtensor as T
    from engine.symtensor import SymTensor
    from linear_operator import settings
    from linear_operator.utils.warnings import NumericalWarning

    sig = f"batchrank={br}/precond={precond}/initial_guess={with_guess}"
    base = f"C08/{FN}/{sig}"
    state = {}
    real = z3.RealSort()

    def idx_vars(c, tag, nb):
        return tuple(z3.Int(c.fresh_name(f"b{t}!{tag}")) for t in range(nb)), z3.Int(c.fresh_name(f"i!{tag}")), z3.Int(c.fresh_name(f"c!{tag}"))

    def a_times(A, V, b, i, cc):
        n = A.shape[-1]
        return O.sum_term(n, lambda j: A.at(*O.bidx(A.shape[:-2], b), i, j) * V.at(*b, j, cc), real)

    def step_goals(c, env, h, b, i, cc):
        """one execution of the real loop body maps a state satisfying the invariant to one satisfying it:
             (1) result'[j, c]   == result[j, c] + a_c * d[j, c]           for the step size a_c = alpha'[c] the body computed (any j)
             (2) residual'[i, c] == residual[i, c] - a_c * mvms[i, c]
             (3) mvms[i, c]      == sum_j A[i, j] d[j, c]                   (d = the search direction at the loop head)
             (4) algebra, for an ARBITRARY scalar a:  residual[i, c] - a * sum_j A[i, j] d[j, c]
                                                       == bhat[i, c] - sum_j A[i, j] (result[j, c] + a * d[j, c])     given the head invariant
           (1)-(3) are about the real post-state, point-wise; (4) is the only statement about sums and is proved with the step
           size generalised to a constant.  Together with "a sum does not change when its body is rewritten point-wise" they
           give residual' == bhat - A result'."""
        A, bhat = state["A"], env["rhs"]
        n = A.shape[-1]
        j = z3.Int(c.fresh_name("j!step"))
        resq, xq, al, mv = env["residual"].elem_fn(), env["result"].elem_fn(), env["alpha"].elem_fn(), env["mvms"].elem_fn()
        a_c = al(tuple(b) + (z3.IntVal(0), cc))
        inb = env["residual"].in_bounds
        Aat = lambda r_, s_: A.at(*O.bidx(A.shape[:-2], b), r_, s_)  # noqa
        bh = bhat.elem_fn()
        bshape = tuple(bhat.shape[:-2])
        goals = [
            ("step (1) result' = result + a d  (point-wise)", z3.Implies(inb(tuple(b) + (j, cc)), xq(tuple(b) + (j, cc)) == h["result_at"](b, j, cc) + a_c * h["conj_at"](b, j, cc))),
            ("step (2) residual' = residual - a mvms  (point-wise)", z3.Implies(inb(tuple(b) + (i, cc)), resq(tuple(b) + (i, cc)) == h["residual_at"](b, i, cc) - a_c * mv(tuple(b) + (i, cc)))),
            ("step (3) mvms = A d", z3.Implies(inb(tuple(b) + (i, cc)), mv(tuple(b) + (i, cc)) == O.sum_term(n, lambda t: Aat(i, t) * h["conj_at"](b, t, cc), real))),
        ]
        a = z3.Real(c.fresh_name("a!step"))
        lhs = h["residual_at"](b, i, cc) - a * O.sum_term(n, lambda t: Aat(i, t) * h["conj_at"](b, t, cc), real)
        rhs_ = bh(O.bidx(bshape, b) + (i, cc)) - O.sum_term(n, lambda t: Aat(i, t) * (h["result_at"](b, t, cc) + a * h["conj_at"](b, t, cc)), real)
        goals.append(("step (4) algebra: residual - a A d = bhat - A (result + a d)  [a arbitrary]", z3.Implies(inb(tuple(b) + (i, cc)), lhs == rhs_)))
        return goals

    class Spec(loopcut.LoopSpec):
        modifies = ("k", "mvms", "residual", "precond_residual", "tolerance_reached", "mul_storage", "alpha", "is_zero", "residual_norm", "has_converged",
                    "alpha_tridiag", "beta_tridiag", "alpha_tridiag_is_zero", "alpha_reciprocal", "t_mat", "update_tridiag", "last_tridiag_iter",
                    "prev_alpha_reciprocal", "prev_beta",
                    # written in place by the callees _jit_linear_cg_updates(_no_precond) (not visible to the AST scan; enforced by the LOOPCUT frame check)
                    "result", "beta", "residual_inner_prod", "curr_conjugate_vec")
        target = "k"

        def _inv_fn(self, env):
            """the invariant as a function of the quantified indices, over SNAPSHOTS of residual / result / bhat taken now (the loop
            head when it is assumed, the state after the body when it is proved): residual and result are overwritten in place
            by the body, so a lazily evaluated residual.at(...) in the assumed fact would silently talk about the post-state"""
            A, bhat = state["A"], env["rhs"]
            res, x = env["residual"], env["result"]
            rese, xe, be = res.elem_fn(), x.elem_fn(), bhat.elem_fn()
            bshape, n = tuple(bhat.shape[:-2]), A.shape[-1]
            inb = res.in_bounds

            def f(b, i, cc):
                ax = O.sum_term(n, lambda j: A.at(*O.bidx(A.shape[:-2], b), i, j) * xe(tuple(b) + (j, cc)), real)
                return z3.Implies(inb(tuple(b) + (i, cc)), rese(tuple(b) + (i, cc)) == be(O.bidx(bshape, b) + (i, cc)) - ax)
            return f

        def invariant(self, env, k):
            c = sym.ctx()
            res, x, bhat = env["residual"], env["result"], env["rhs"]
            goals = [("shapes", z3.BoolVal(len(res.shape) == len(x.shape) and all(O.dim_eq(p, q) for p, q in zip(res.shape, x.shape))))]
            if cover_only:
                return goals
            b, i, cc = idx_vars(c, "inv", len(res.shape) - 2)
            sym.instantiate_universals(b + (i, cc), key="cg:inv")
            if "head" not in state:  # loop entry: the invariant itself
                goals.append(("residual = bhat - A result", self._inv_fn(env)(b, i, cc)))
                return goals
            # after one execution of the real body: the invariant for the next head, in four machine-checked steps
            goals += step_goals(c, env, state["head"], b, i, cc)
            h = state["head"]
            a_c = env["alpha"].elem_fn()(tuple(b) + (z3.IntVal(0), cc))
            goals.append(("step (5) a column that has converged at the head gets step size 0 (with (1): it is not changed by the iteration)",
                          z3.Implies(z3.And(x.in_bounds(b + (i, cc)), h["has_converged_at"](b, cc)), a_c == 0)))
            return goals

        def assume(self, env, k):
            c = sym.ctx()
            nb = len(env["residual"].shape) - 2
            f = self._inv_fn(env)  # snapshot of the havoced head state
            c.universals.append(("cg:inv", lambda idx, f=f: f(tuple(idx[:nb]), idx[nb], idx[nb + 1])))

        def havoc(self, env, k, mode):
            c = sym.ctx()
            res0 = env["residual"]
            shp, dt = tuple(res0.shape), res0.dtype
            small = tuple(shp[:-2]) + (1, shp[-1])
            f = lambda nm, s=shp, d=dt: SymTensor.fresh(c.fresh_name(f"{nm}_h"), s, d, owner="local")  # noqa
            new = {"residual": f("residual"), "result": f("result"), "residual_norm": f("residual_norm", small), "has_converged": f("has_converged", small, T.bool_)}
            if "curr_conjugate_vec" in env:  # (the loop is only entered with these defined)
                new.update({"curr_conjugate_vec": f("conj"), "residual_inner_prod": f("rip", small), "mul_storage": f("mul_storage"), "alpha": f("alpha", small),
                            "beta": f("beta", small), "is_zero": f("is_zero", small, T.bool_)})
                # without a preconditioner the outer name precond_residual stays an alias of curr_conjugate_vec (the callee rebinds its own local)
                new["precond_residual"] = f("precond_residual") if precond else new["curr_conjugate_vec"]
            new["tolerance_reached"] = False  # the loop breaks as soon as it is set: at every loop head (and after a normal end) it is False
            if mode == "iter":
                xe, hce, re_, de = new["result"].elem_fn(), new["has_converged"].elem_fn(), new["residual"].elem_fn(), new["curr_conjugate_vec"].elem_fn()  # snapshots of the loop-head values (all overwritten in place by the body)
                state["head"] = {"has_converged_at": lambda b, cc: hce(tuple(b) + (z3.IntVal(0), cc)), "result_at": lambda b, i, cc: xe(tuple(b) + (i, cc)),
                                 "residual_at": lambda b, i, cc: re_(tuple(b) + (i, cc)), "conj_at": lambda b, i, cc: de(tuple(b) + (i, cc))}
            else:
                state.pop("head", None)
            state["final"] = {"residual": new["residual"], "residual_norm": new["residual_norm"], "result": new["result"], "env": dict(env), "how": "exhausted" if mode == "exit" else "iter"}
            if mode == "exit":
                state["exit_k"] = k
            return new

        def on_break(self, env):
            state["final"] = {"residual": env["residual"], "residual_norm": env["residual_norm"], "result": env["result"], "env": dict(env), "how": "break", "tolerance_reached": env.get("tolerance_reached"), "head": state.get("head")}

    spec = Spec()
    cut_fn = loopcut.cut(lcg.linear_cg, {0: spec}, name=base)
    warned = []
    cut_fn.__globals__["warnings"] = type("W", (), {"warn": staticmethod(lambda msg, cat=None, *a, **k: warned.append(cat))})

    def thunk():
        state.clear()
        warned.clear()
        O.SQRT_SQUARE_AXIOM[0] = False  # (restored after the exploration) nothing proved here needs sqrt(x)^2 = x
        c = sym.ctx()
        n, p = sym.sym_int("n", 1), sym.sym_int("p", 1)
        bs = tuple(sym.sym_int(f"B{t}", 1) for t in range(br))
        A = SymTensor.fresh("A", bs + (n, n), T.float64)
        rhs = SymTensor.fresh("rhs", bs + (n, p), T.float64)
        state["A"], state["rhs"] = A, rhs
        tol, eps, sua = sym.SymReal("tolerance"), sym.SymReal("eps"), sym.SymReal("stop_updating_after")
        c.assume(tol > 0)
        c.assume(eps > 0)
        c.assume(sua > 0)
        max_iter, max_tri = sym.sym_int("max_iter", 1), sym.sym_int("max_tridiag_iter", 0)
        kw = {}
        if precond:
            P = SymTensor.fresh("P", (n, n), T.float64)
            kw["preconditioner"] = lambda r: O.matmul(P, r)
        if with_guess:
            kw["initial_guess"] = SymTensor.fresh("x0", bs + (n, p), T.float64)
            state["x0"] = kw["initial_guess"]
        state["args"] = dict(tol=tol, eps=eps, sua=sua, max_iter=max_iter, max_tri=max_tri)
        state["norms"] = []
        real_norm = SymTensor.norm

        def norm_rec(self_, *a_, **k_):  # ghost: remember every norm the code computes (snapshot of its value at that moment)
            r_ = real_norm(self_, *a_, **k_)
            state["norms"].append(r_.elem_fn())
            return r_
        SymTensor.norm = norm_rec
        state["restore_norm"] = real_norm
        settings.terminate_cg_by_size._state = sym.lift(z3.Bool(c.fresh_name("terminate_cg_by_size")))  # both values of the flag are explored
        try:
            return cut_fn(A, rhs, n_tridiag=0, tolerance=tol, eps=eps, stop_updating_after=sua, max_iter=max_iter, max_tridiag_iter=max_tri, **kw)
        finally:
            SymTensor.norm = real_norm

    def post(c, outcome, value):
        if cover_only:
            return
        A, rhs, a = state["A"], state["rhs"], state["args"]
        writes = [e for e in c.events if e[0] == "inplace" and str(e[1]["owner"]).startswith("caller")]
        c.prove(f"{base}/frame/arguments-untouched", z3.BoolVal(not writes), kind="frame", info=[e[1] for e in writes][:3])
        if outcome == "raise":
            bad_limits = sym.as_z3_int(a["max_tri"]) > sym.as_z3_int(a["max_iter"])
            nan_path = isinstance(value, RuntimeError) and str(value).startswith("NaNs encountered")  # (the model's  torch.equal(x, x) == False  branch: x contains NaN)
            c.prove(f"{base}/raise/only-for-inconsistent-limits-or-NaN", z3.And(z3.BoolVal(isinstance(value, RuntimeError)), z3.Or(bad_limits, z3.BoolVal(nan_path))), info=repr(value)[:200] + getattr(value, "__shadow_tb__", "")[-600:])
            return
        if outcome != "return":
            return
        X = value
        ok_shape = len(X.shape) == len(rhs.shape)
        c.prove(f"{base}/return/shape", z3.And(z3.BoolVal(ok_shape), *[sym.as_z3_int(p_) == sym.as_z3_int(q_) for p_, q_ in zip(X.shape, rhs.shape)]) if ok_shape else z3.BoolVal(False), info=f"{X.shape} vs {rhs.shape}")
        c.prove(f"{base}/return/dtype", z3.BoolVal(X.dtype is rhs.dtype), info=str(X.dtype))
        if not ok_shape:
            return
        fin = state.get("final")
        nb = len(rhs.shape) - 2
        b, i, cc = idx_vars(c, "post", nb)
        sym.instantiate_universals(b + (i, cc), key="cg:inv")
        if fin is None:
            c.prove(f"{base}/return/loop-contract-reached", z3.BoolVal(False), info="returned without passing the loop")
            return
        r, rn = fin["residual"], fin["residual_norm"]
        env = fin["env"]
        bhat, xfin, rnorm = env["rhs"], fin["result"], env["rhs_norm"]
        inb = rhs.in_bounds(b + (i, cc))
        scale = rnorm.at(*b, z3.IntVal(0), cc)
        # (1) the code's scaling is never 0 (it is ||rhs[:, c]||, or 1 where that is below eps: rhs.norm(...).masked_fill_(lt(eps), 1))
        c.prove(f"{base}/return/rhs_norm > 0", z3.Implies(inb, scale > 0))
        # (1b) which columns are treated as zero: exactly those whose norm (the first norm the code computes: of rhs) is below eps
        if state["norms"] and "rhs_is_zero" in env:
            n0 = state["norms"][0](tuple(b) + (z3.IntVal(0), cc))
            c.prove(f"{base}/return/zero-column mask <=> ||rhs[:, c]|| < eps", z3.Implies(inb, env["rhs_is_zero"].at(*b, z3.IntVal(0), cc) == (n0 < sym.as_real(a["eps"]))))
        # (2) the loop invariant at the state the loop was left with (instance of the assumed / just re-proved invariant)
        if fin["how"] == "break" and fin.get("head"):
            # the loop was left from inside an iteration: the state is "one body execution after a head state" -> the same four steps
            for nm_, g_ in step_goals(c, fin["env"], fin["head"], b, i, cc):
                c.prove(f"{base}/return/final state/{nm_}", g_)
        else:
            c.prove(f"{base}/return/final residual = bhat - A result", z3.Implies(inb, r.at(*b, i, cc) == bhat.at(*b, i, cc) - a_times(A, xfin, b, i, cc)))
        # (3) un-normalisation: the TRUE residual of the returned X is rhs_norm * (bhat - A result)
        c.prove(f"{base}/return/true-residual  rhs - A X = rhs_norm * (bhat - A result)",
                z3.Implies(inb, rhs.at(*b, i, cc) - a_times(A, X, b, i, cc) == scale * (bhat.at(*b, i, cc) - a_times(A, xfin, b, i, cc))))
        nw = [w for w in warned if w is NumericalWarning]
        if fin["how"] == "break":
            c.prove(f"{base}/return/break-only-with-tolerance-reached", z3.BoolVal(fin.get("tolerance_reached") is True))
            c.prove(f"{base}/return/silent-when-tolerance-reached", z3.BoolVal(len(nw) == 0))
            # the break condition of the real code was decided on this path: mean of the (masked) residual norms < tolerance
            mean = rn.mean() if hasattr(rn, "mean") else None
            got = sym.as_real(mean.at()) if hasattr(mean, "at") else sym.as_real(mean)
            c.prove(f"{base}/return/silent-finish => mean masked residual norm < tolerance", got < sym.as_real(a["tol"]))
        elif fin["how"] == "exhausted":
            # normal end of the loop: either it never ran (all columns converged at the start, n_iter = 0 chosen by the code) or the budget is used up and a warning is emitted
            kz = sym.as_z3_int(state["exit_k"])  # number of iterations run when the loop ends without a break (= n_iter)
            c.prove(f"{base}/return/budget used up without reaching the tolerance => NumericalWarning (or no iteration was due)", z3.Or(z3.BoolVal(len(nw) == 1), kz == 0), info={"warnings": len(nw)})
        c.prove(f"{base}/return/at-most-one-warning", z3.BoolVal(len(nw) <= 1))

    try:
        paths = sym.explore(thunk, post=post, max_paths=256, timeout_ms=10000, prefix0=shard)
    finally:
        O.SQRT_SQUARE_AXIOM[0] = True
        settings.terminate_cg_by_size._state = None
    out, kinds = [], {}
    for p in paths:
        kinds[p.outcome] = kinds.get(p.outcome, 0) + 1
        if p.outcome == "unsupported":
            out.append(ob(f"{base}/<path unsupported>", UNKNOWN, reason=str(p.value)[:400]))
        for o in p.obligations:
            d = ob(o["name"], o["status"], by=o.get("by", "z3"), kind=o.get("kind"), info=o.get("info"), solver_s=p.solver_s / max(1, len(p.obligations)))
            if o["status"] != DISCHARGED:
                d["model"], d["smt2"], d["reason"] = o.get("model"), o.get("smt2"), o.get("reason")
                d["replay"] = {"module": "contracts.sh_C08", "func": "replay", "args": [precond, with_guess]}
            out.append(d)
    if shard is None:
        for need in ("return", "raise", "cut"):
            out.append(ob(f"{base}/cover/{need}-path-reachable", DISCHARGED if kinds.get(need) else REFUTED, by="explorer", info=kinds))
    else:  # the three kinds of outcome must be reachable over all shards together: each shard reports what it saw, check_cover() adds them up
        out.append(ob(f"{base}/shard{''.join('1' if x else '0' for x in shard)}/explored", DISCHARGED if paths else REFUTED, by="explorer", info=kinds))
    merged = {}
    for o in out:
        m = merged.get(o["name"])
        if m is None or (m["status"] == DISCHARGED and o["status"] != DISCHARGED):
            merged[o["name"]] = o
    return list(merged.values())


def check(br, precond, with_guess, shard=None):
    return _run(br, precond, with_guess, shard)


def check_cover(br, precond, with_guess):
    """vacuity guard for the sharded exploration: with a trivially cheap post (no obligations) walk the whole path tree and
    require that return, raise and loop-body (cut) paths all exist"""
    return [o for o in _run(br, precond, with_guess, None, cover_only=True) if "/cover/" in o["name"]]


def replay(precond, with_guess):
    """native: the same contract evaluated on concrete instances with the real torch (instrumented through the public
    arguments only: the residual is recomputed from the returned X)"""
    import os
    import sys
    import warnings

    repo = os.environ.get("VERIF_REPO", "/repo")
    if repo not in sys.path:
        sys.path.insert(0, repo)
    import torch

    from linear_operator.utils.linear_cg import linear_cg
    from linear_operator.utils.warnings import NumericalWarning

    g = torch.Generator().manual_seed(3)
    fails = []
    for n, p, batch in ((5, 2, ()), (12, 3, (2,)), (30, 1, ()), (24, 2, ())):
        M = torch.randn(*batch, n, n, generator=g, dtype=torch.float64)
        A = M @ M.mT + n * torch.eye(n, dtype=torch.float64)
        if n == 24:  # ill-conditioned (kappa 1e8): n iterations do not reach a tight tolerance
            Qm = torch.linalg.qr(M)[0]
            A = (Qm * torch.logspace(0, 8, n, dtype=torch.float64)) @ Qm.mT
        rhs = torch.randn(*batch, n, p, generator=g, dtype=torch.float64)
        rhs[..., 0] = 0 if p > 1 else rhs[..., 0]
        kw = {}
        if precond:
            Pm = torch.diag_embed(1.0 / A.diagonal(dim1=-2, dim2=-1))
            kw["preconditioner"] = lambda r, Pm=Pm: Pm @ r
        if with_guess:
            kw["initial_guess"] = torch.randn(*batch, n, p, generator=g, dtype=torch.float64)
        from linear_operator import settings

        for tol, mi, by_size in ((1e-6, 200, False), (1e-2, 3, False), (1e-3, 12, False), (1e-13, 1000, True), (1e-6, 1000, True)):
            A0, r0 = A.clone(), rhs.clone()
            with warnings.catch_warnings(record=True) as w, settings.terminate_cg_by_size(by_size):
                warnings.simplefilter("always")
                X = linear_cg(A.matmul, rhs, tolerance=tol, max_iter=mi, max_tridiag_iter=0, **kw)
            if not torch.equal(A, A0) or not torch.equal(rhs, r0):
                fails.append(f"n={n} p={p} batch={batch} tol={tol} max_iter={mi}: an argument was modified")
            if X.shape != rhs.shape:
                fails.append(f"n={n} p={p} batch={batch}: shape {tuple(X.shape)}")
                continue
            if n != 24 and mi >= 200 and not by_size:  # a generous budget on a well-conditioned system: the iteration must have produced the solution
                relc = ((rhs - A @ X).norm(dim=-2, keepdim=True) / rhs.norm(dim=-2, keepdim=True).clamp_min(1e-30)).masked_fill(rhs.norm(dim=-2, keepdim=True) < 1e-10, 0)
                if not bool(relc.max() < 1e-3):  # (far above the accuracy floor of about 1e-5 the property allows)
                    fails.append(f"n={n} p={p} batch={batch} tol={tol} max_iter={mi}: well-conditioned SPD system, returned X has relative residual {float(relc.max()):.2e}")
            if n == 5 and mi >= 200 and not by_size and not with_guess:  # a tiny (but not zero: >= eps) column is solved like any other when eps is lowered (zero initial guess)
                rt = rhs.clone()
                rt[..., 0] = rt[..., 0] + 1.0  # (column 0 was zeroed above)
                rt[..., 0] = rt[..., 0] * 1e-13
                with warnings.catch_warnings(record=True):
                    warnings.simplefilter("always")
                    Xt = linear_cg(A.matmul, rt, tolerance=tol, eps=1e-20, max_iter=mi, max_tridiag_iter=0, **kw)
                relt = (rt - A @ Xt).norm(dim=-2)[..., 0] / rt.norm(dim=-2)[..., 0]
                if not bool(relt.max() < 1e-3):
                    fails.append(f"n={n} batch={batch} eps=1e-20: a column of norm {float(rt.norm(dim=-2)[..., 0].max()):.1e} (>= eps) came back with relative residual {float(relt.max()):.2e} (treated as a zero column)")
            silent = not any(issubclass(x.category, NumericalWarning) for x in w)
            nrm = rhs.norm(dim=-2, keepdim=True)
            rel = ((rhs - A @ X).norm(dim=-2, keepdim=True) / nrm.masked_fill(nrm < 1e-10, 1)).masked_fill(nrm < 1e-10, 0)
            if silent and not bool(rel.mean() < tol * (1 + 1e-6) + 1e-9):
                fails.append(f"n={n} p={p} batch={batch} tol={tol} max_iter={mi}: finished without NumericalWarning but the mean relative residual of the returned X is {float(rel.mean()):.3e}")
    return {"reproduced": bool(fails), "detail": "; ".join(fails[:3]) or "native family shows no deviation"}


def shadow_units(tier):
    us = [conformance_unit(PID)]
    shards = [[a, b, d] for a in (True, False) for b in (True, False) for d in (True, False)]  # the path tree is split over 8 processes by its first three forks
    for br in ((0,) if tier == "quick" else (0, 1)):
        for precond, guess in (((False, False), (True, True)) if tier == "quick" else ((False, False), (False, True), (True, False), (True, True))):
            us.append(Unit(f"C08/shadow/linear_cg/br={br}/precond={precond}/guess={guess}/cover", "contracts.sh_C08", "check_cover", (br, precond, guess), engine="loopcut", timeout_s=600))
            for sh in shards:
                us.append(Unit(f"C08/shadow/linear_cg/br={br}/precond={precond}/guess={guess}/shard={''.join('1' if x else '0' for x in sh)}", "contracts.sh_C08", "check", (br, precond, guess, sh), engine="loopcut", timeout_s=900))
    return us


SH_META = {
    "functions_under_contract": ["utils/linear_cg.py::linear_cg (n_tridiag = 0; main loop cut at the invariant residual = bhat - A result)",
                                 "utils/linear_cg.py::_jit_linear_cg_updates", "utils/linear_cg.py::_jit_linear_cg_updates_no_precond"],
    "trusted_base": ["z3", "CPython", "symtorch models (addcmul/out=, masked_fill_, norm, lt/out=, div/out=, sum/out=, resize_as_, copy_, mean, all)", "LOOPCUT rewriting (engine/loopcut.py) incl. its in-place frame check",
                     "sum normal form prover"],
    "assumptions": ["floats as reals: the statements are about exact arithmetic (no rounding, no NaN/inf); the accuracy floors of the property are bounded-tier only",
                    "the preconditioner is a linear map given as a symbolic matrix (what is proved does not depend on it)",
                    "convergence rate, monotone error, Lanczos tridiagonal output (n_tridiag > 0): bounded tier only",
                    "torch.jit.script is the identity (the scripted helpers run as plain Python)"],
}
