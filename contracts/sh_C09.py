"""C09 (proved tier, small) — the post-processing of the Lanczos tridiagonal matrix.

``utils/lanczos.py::lanczos_tridiag_to_diag(T)`` is executed symbolically relative to the leaf contract of
``torch.linalg.eigh`` (w, Q with Q diag(w) Q^T = T and Q^T Q = I).  Obligations, for all sizes / batch shapes / entries:
   shapes and dtypes of the two results;  T is not written
   evals'[k]   == w[k] where w[k] >= 0, 1 elsewhere            (negative Ritz values are neutralised, never NaN under sqrt / division)
   evecs'[:,k] == Q[:,k] where w[k] >= 0, 0 elsewhere          (masking acts on COLUMNS, i.e. on the Ritz pairs)
   evecs' diag(evals') evecs'^T == sum over the non-negative Ritz pairs of w_k q_k q_k^T      (the positive part of T)
   evecs'^T evecs' == diag(mask)                                (kept columns stay orthonormal)
Everything else of C09 (the three-term recurrence with full re-orthogonalisation in ``lanczos_tridiag``, the consumers
RootDecomposition / Diagonalization, behaviour at breakdown) is bounded-tier only: the deciding content is floating point."""
from __future__ import annotations

import z3

from engine import sym
from engine.common import DISCHARGED, REFUTED, UNKNOWN, Unit, conformance_unit, ob

PID = "C09"


def check(br, small):
    from contracts import sh_C03
    from engine import shadow, symops as SO, symtensor as T
    from engine.symtensor import SymTensor
    import importlib

    sh_C03._env()
    torch = shadow.torch()
    lz = importlib.import_module("linear_operator.utils.lanczos")
    base = f"C09/lanczos_tridiag_to_diag/batchrank={br}/{'k<32' if small else 'k>=32'}"
    real = z3.RealSort()

    def thunk():
        c = sym.ctx()
        bs = tuple(sym.sym_int(f"B{t}", 1) for t in range(br))
        k = sym.sym_int("k", 1)
        c.assume((k < 32) if small else (k >= 32))
        Tm = SymTensor.fresh("T", bs + (k, k), T.float64)
        nb = len(bs)
        leaf = {}

        def eigh(A, UPLO="L"):
            w = SymTensor.fresh(c.fresh_name("w_eigh"), tuple(A.shape[:-1]), A.dtype, owner="callee:eigh")
            Q = SymTensor.fresh(c.fresh_name("Q_eigh"), tuple(A.shape), A.dtype, owner="callee:eigh")
            leaf.update(w=w, Q=Q, A=A, we=w.elem_fn(), Qe=Q.elem_fn())
            return w, Q
        torch.linalg.eigh = eigh
        evals, evecs = lz.lanczos_tridiag_to_diag(Tm)
        ok = "w" in leaf
        c.prove(f"{base}/eigh-called-once-on-T", z3.BoolVal(ok))
        if not ok:
            return "ok"
        we, Qe = leaf["we"], leaf["Qe"]  # snapshots of the leaf results (the code overwrites evals in place)
        b = tuple(z3.Int(c.fresh_name(f"b{t}!e")) for t in range(nb))
        i, j, kk, ll = (z3.Int(c.fresh_name(f"{nm}!e")) for nm in ("i", "j", "k", "l"))
        c.prove(f"{base}/eigh-argument-is-T", z3.Implies(Tm.in_bounds(b + (i, j)), leaf["A"].at(*b, i, j) == Tm.at(*b, i, j)))
        shp = lambda t, exp: z3.And(z3.BoolVal(len(t.shape) == len(exp)), *[sym.as_z3_int(p) == sym.as_z3_int(q) for p, q in zip(t.shape, exp)]) if len(t.shape) == len(exp) else z3.BoolVal(False)  # noqa
        c.prove(f"{base}/shape/evals", shp(evals, bs + (k,)), info=str(evals.shape))
        c.prove(f"{base}/shape/evecs", shp(evecs, bs + (k, k)), info=str(evecs.shape))
        c.prove(f"{base}/dtype", z3.BoolVal(evals.dtype is T.float64 and evecs.dtype is T.float64))
        if len(evals.shape) != nb + 1 or len(evecs.shape) != nb + 2:
            return "ok"
        inb_k = z3.And(*[z3.And(x >= 0, x < sym.as_z3_int(s)) for x, s in zip(b + (kk,), bs + (k,))])
        inb_ik = z3.And(inb_k, i >= 0, i < sym.as_z3_int(k))
        w_k = we(b + (kk,))
        c.prove(f"{base}/evals: negative Ritz values replaced by 1", z3.Implies(inb_k, evals.at(*b, kk) == z3.If(w_k >= 0, w_k, z3.RealVal(1))))
        c.prove(f"{base}/evecs: COLUMNS of negative Ritz values zeroed", z3.Implies(inb_ik, evecs.at(*b, i, kk) == z3.If(w_k >= 0, Qe(b + (i, kk)), z3.RealVal(0))))
        inb_ij = z3.And(*[z3.And(x >= 0, x < sym.as_z3_int(s)) for x, s in zip(b + (i, j), bs + (k, k))])
        lhs = SO.sum_term(k, lambda t: evecs.at(*b, i, t) * evals.at(*b, t) * evecs.at(*b, j, t), real)
        rhs = SO.sum_term(k, lambda t: z3.If(we(b + (t,)) >= 0, Qe(b + (i, t)) * we(b + (t,)) * Qe(b + (j, t)), z3.RealVal(0)), real)
        c.prove(f"{base}/evecs diag(evals) evecs^T == positive part of T", z3.Implies(inb_ij, lhs == rhs))
        # kept columns stay orthonormal: uses the leaf fact Q^T Q = I at (kk, ll)
        c.add_axiom(z3.Implies(z3.And(inb_k, ll >= 0, ll < sym.as_z3_int(k)),
                               SO.sum_term(k, lambda t: Qe(b + (t, kk)) * Qe(b + (t, ll)), real) == z3.If(kk == ll, z3.RealVal(1), z3.RealVal(0))))  # leaf contract of eigh, instantiated
        gram = SO.sum_term(k, lambda t: evecs.at(*b, t, kk) * evecs.at(*b, t, ll), real)
        w_l = we(b + (ll,))
        inb_kl = z3.And(inb_k, ll >= 0, ll < sym.as_z3_int(k))
        # by cases on the (summation-independent) masks
        c.prove(f"{base}/evecs^T evecs == diag(mask) [column k masked]", z3.Implies(z3.And(inb_kl, w_k < 0), gram == 0))
        c.prove(f"{base}/evecs^T evecs == diag(mask) [column l masked]", z3.Implies(z3.And(inb_kl, w_l < 0), gram == 0))
        c.prove(f"{base}/evecs^T evecs == diag(mask) [both kept]", z3.Implies(z3.And(inb_kl, w_k >= 0, w_l >= 0), gram == z3.If(kk == ll, z3.RealVal(1), z3.RealVal(0))))
        writes = [e for e in c.events if e[0] == "inplace" and str(e[1]["owner"]).startswith("caller")]
        c.prove(f"{base}/frame/T-untouched", z3.BoolVal(not writes), kind="frame", info=[e[1] for e in writes][:3])
        return "ok"

    paths = sym.explore(thunk, max_paths=32, timeout_ms=20000)
    return sh_C03._collect(paths, base, need=("return",), replay={"module": "contracts.sh_C09", "func": "replay", "args": []})


def replay():
    import os
    import sys

    repo = os.environ.get("VERIF_REPO", "/repo")
    if repo not in sys.path:
        sys.path.insert(0, repo)
    import torch

    from linear_operator.utils.lanczos import lanczos_tridiag_to_diag

    fails = []
    g = torch.Generator().manual_seed(4)
    for batch in ((), (2,), (1, 3)):
        for k in (1, 2, 5, 33):
            a = torch.randn(*batch, k, generator=g, dtype=torch.float64)
            bb = torch.randn(*batch, max(k - 1, 0), generator=g, dtype=torch.float64)
            Tm = torch.diag_embed(a) + (torch.diag_embed(bb, 1) + torch.diag_embed(bb, -1) if k > 1 else 0)
            T0 = Tm.clone()
            ev, Q = lanczos_tridiag_to_diag(Tm)
            w, Qr = torch.linalg.eigh(T0)
            pos = (Qr * w.clamp_min(0).unsqueeze(-2)) @ Qr.mT
            rec = (Q * torch.where(ev > 0, ev, torch.zeros_like(ev)).unsqueeze(-2) * (w >= 0).unsqueeze(-2)) @ Q.mT
            if not torch.equal(Tm, T0):
                fails.append(f"batch={batch} k={k}: the argument was modified")
            if ev.shape != w.shape or Q.shape != Qr.shape or bool((ev < 0).any()) or not torch.allclose((Q * ev.unsqueeze(-2)) @ Q.mT, pos, atol=1e-8):
                fails.append(f"batch={batch} k={k}: evecs diag(evals) evecs^T differs from the positive part of T (a tridiagonal with Ritz values {w.flatten()[:3].tolist()}...)")
    return {"reproduced": bool(fails), "detail": "; ".join(fails[:3]) or "native family shows no deviation"}


def shadow_units(tier):
    us = [conformance_unit(PID)]
    for br in ((0, 1, 2) if tier == "quick" else (0, 1, 2, 3)):
        for small in (True, False):
            us.append(Unit(f"C09/shadow/lanczos_tridiag_to_diag/br={br}/{'small' if small else 'large'}", "contracts.sh_C09", "check", (br, small), engine="shadow", timeout_s=600))
    return us


SH_META = {
    "functions_under_contract": ["utils/lanczos.py::lanczos_tridiag_to_diag"],
    "trusted_base": ["z3", "CPython", "symtorch models (ge, type_as, unsqueeze, masked_fill_, ~, cpu/to)", "sum normal form prover", "leaf contract of torch.linalg.eigh (Q diag(w) Q^T = T, Q^T Q = I)"],
    "assumptions": ["floats as reals", "lanczos_tridiag (recurrence, re-orthogonalisation, breakdown), RootDecomposition / Diagonalization and every consumer: bounded tier only"],
}
